(* The float part of strsim::jaro and the `as f32` of cd::characters_popularity_compare, bit-exact:
   binary64 arithmetic (Flocq BinarySingleNaN 53 1024, round to nearest even) and the conversion
   binary64 -> binary32 (round to nearest even, done by binary_normalize on the exact mantissa/exponent). *)
From Coq Require Import List NArith ZArith String Bool.
From Flocq Require Import Core IEEE754.BinarySingleNaN.
From Gen Require Import Tables.
From Model Require Import Base Flt F32 Jaro.
Import ListNotations.
Open Scope N_scope.

Definition f64 : Type := binary_float 53 1024.
Lemma Hprec64 : FLX.Prec_gt_0 53. Proof. reflexivity. Qed.
Lemma Hemax64 : Prec_lt_emax 53 1024. Proof. reflexivity. Qed.

Definition add64 : f64 -> f64 -> f64 := @Bplus 53 1024 Hprec64 Hemax64 mode_NE.
Definition div64 : f64 -> f64 -> f64 := @Bdiv 53 1024 Hprec64 Hemax64 mode_NE.
Definition of_N64 (n : N) : f64 := binary_normalize 53 1024 Hprec64 Hemax64 mode_NE (Z.of_N n) 0 false.

(* `x as f32` *)
Definition f32_of_f64 (x : f64) : f32 :=
  match x with
  | B754_zero s => B754_zero s
  | B754_infinity s => B754_infinity s
  | B754_nan => B754_nan
  | B754_finite s m e _ => binary_normalize 24 128 Hprec32 Hemax32 mode_NE (cond_Zopp s (Z.pos m)) e s
  end.

Definition jaro64 (c : jaro_counts) : f64 :=
  let m := j_matches c in
  div64 (add64 (add64 (div64 (of_N64 m) (of_N64 (j_alen c))) (div64 (of_N64 m) (of_N64 (j_blen c))))
               (div64 (of_N64 (m - j_transpositions c)) (of_N64 m)))
        (of_N64 3).

Definition jaro32 (a b : list N) : f32 :=
  let c := jaro_count a b in
  if (j_alen c =? 0) && (j_blen c =? 0) then of_N32 1
  else if (j_alen c =? 0) || (j_blen c =? 0) then B754_zero false
  else if j_matches c =? 0 then B754_zero false
  else f32_of_f64 (jaro64 c).

(* cd::characters_popularity_compare: get_language_data (first table entry of that name), then jaro *)
Definition popularity32 (lang : string) (ordered : text) : option f32 :=
  match find (fun l => match l with (n, _, _, _) => String.eqb n lang end) LANGUAGES with
  | Some (_, alphabet, _, _) => Some (jaro32 ordered alphabet)
  | None => None
  end.
