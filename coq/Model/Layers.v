(* cd::alpha_unicode_split (src/cd.rs, after fix ab19220): the alphabetic characters of a text are
   distributed over "layers", one per group of unicode ranges that may legitimately follow each other;
   a character joins the FIRST existing layer whose key range is not suspicious next to the
   character's range, else opens a new layer; layers are returned in order of first appearance,
   each holding the lower-cased characters.
   Oracles: char::is_alphabetic and char::to_lowercase (std Unicode tables).  The range lookup and
   is_suspiciously_successive_range are the models of Names.v / Md.v. *)
From Coq Require Import List NArith String Bool.
From Gen Require Import Tables.
From Model Require Import Base Names Md.
Import ListNotations.
Open Scope N_scope.
Open Scope list_scope.

Section Layers.
  Variable is_alpha : N -> bool.        (* char::is_alphabetic *)
  Variable to_lower : N -> list N.      (* char::to_lowercase *)

  Definition layer := (string * text)%type.

  (* layers.iter().position(|(key, _)| !is_suspiciously_successive_range(Some(key), Some(range))) then extend *)
  Fixpoint place (ls : list layer) (r : string) (chars : list N) : option (list layer) :=
    match ls with
    | [] => None
    | (key, t) :: rest =>
        if negb (suspicious (Some key) (Some r)) then Some ((key, t ++ chars) :: rest)
        else match place rest r chars with
             | Some rest' => Some ((key, t) :: rest')
             | None => None
             end
    end.

  Definition layer_step (ls : list layer) (c : N) : list layer :=
    if is_alpha c then
      match unicode_range c with
      | Some r => match place ls r (to_lower c) with
                  | Some ls' => ls'
                  | None => ls ++ [(r, to_lower c)]
                  end
      | None => ls
      end
    else ls.

  Definition layers_of (t : text) : list layer := fold_left layer_step t [].
  Definition alpha_unicode_split (t : text) : list text := map snd (layers_of t).
End Layers.
