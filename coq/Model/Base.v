(* Basic vocabulary shared by every model: the result monad with explicit panics, checked
   slicing / division / subtraction on machine sizes, small list and string utilities. *)
From Coq Require Import List NArith String Ascii Bool.
Import ListNotations.
Open Scope N_scope.

Definition bytes := list N.      (* each element < 256 *)
Definition text := list N.       (* Unicode scalar values *)

Inductive res (A : Type) : Type :=
| Ok (a : A)
| Err (msg : string)
| Panic (site : string).
Arguments Ok {A} a.
Arguments Err {A} msg.
Arguments Panic {A} site.

Definition bind {A B} (r : res A) (f : A -> res B) : res B :=
  match r with Ok a => f a | Err m => Err m | Panic s => Panic s end.
Notation "x <- r ;; k" := (bind r (fun x => k)) (at level 61, r at next level, right associativity).

Definition is_panic {A} (r : res A) : bool := match r with Panic _ => true | _ => false end.
Definition is_ok {A} (r : res A) : bool := match r with Ok _ => true | _ => false end.

Definition len {A} (l : list A) : N := N.of_nat (List.length l).

(* Rust `&l[a..b]`: panics unless a <= b <= len *)
Definition slice {A} (site : string) (l : list A) (a b : N) : res (list A) :=
  if (a <=? b) && (b <=? len l) then Ok (firstn (N.to_nat (b - a)) (skipn (N.to_nat a) l))
  else Panic site.

(* Rust `a / b` on usize *)
Definition udiv (site : string) (a b : N) : res N :=
  if b =? 0 then Panic site else Ok (a / b).

Fixpoint mem (s : string) (l : list string) : bool :=
  match l with [] => false | x :: r => String.eqb x s || mem s r end.

(* first / last association, as `find` on a slice and as `HashMap::from_iter` (last wins) *)
Fixpoint assoc_first {B} (k : string) (l : list (string * B)) : option B :=
  match l with [] => None | (k', v) :: r => if String.eqb k' k then Some v else assoc_first k r end.
Fixpoint assoc_last {B} (k : string) (l : list (string * B)) : option B :=
  match l with
  | [] => None
  | (k', v) :: r => match assoc_last k r with Some v' => Some v' | None => if String.eqb k' k then Some v else None end
  end.

Fixpoint starts_with (l p : list N) : bool :=
  match p, l with
  | [], _ => true
  | x :: p', y :: l' => (x =? y) && starts_with l' p'
  | _ :: _, [] => false
  end.

Fixpoint list_eqb {A} (eqb : A -> A -> bool) (a b : list A) : bool :=
  match a, b with
  | [], [] => true
  | x :: a', y :: b' => eqb x y && list_eqb eqb a' b'
  | _, _ => false
  end.

Definition text_eqb : list N -> list N -> bool := list_eqb N.eqb.

Definition opt_eqb {A} (eqb : A -> A -> bool) (a b : option A) : bool :=
  match a, b with
  | None, None => true
  | Some x, Some y => eqb x y
  | _, _ => false
  end.

Definition unwrap_or {A} (o : option A) (d : A) : A := match o with Some x => x | None => d end.

(* string <-> list of byte values *)
Fixpoint bytes_of_string (s : string) : list N :=
  match s with EmptyString => [] | String c r => N_of_ascii c :: bytes_of_string r end.
Fixpoint string_of_bytes (l : list N) : string :=
  match l with [] => EmptyString | c :: r => String (ascii_of_N c) (string_of_bytes r) end.

Lemma list_eqb_eq {A} (eqb : A -> A -> bool) :
  (forall x y, eqb x y = true <-> x = y) -> forall a b, list_eqb eqb a b = true <-> a = b.
Proof.
  intros H a; induction a as [|x a IH]; intros [|y b]; simpl; split; intro E; try discriminate; auto.
  - apply andb_true_iff in E as [E1 E2]. apply H in E1. apply IH in E2. subst; reflexivity.
  - inversion E; subst. apply andb_true_iff; split; [apply H | apply IH]; reflexivity.
Qed.

Lemma text_eqb_eq a b : text_eqb a b = true <-> a = b.
Proof. apply list_eqb_eq. intros; apply N.eqb_eq. Qed.

Lemma mem_In s l : mem s l = true <-> In s l.
Proof.
  induction l as [|x l IH]; simpl; [split; [discriminate|tauto]|].
  rewrite orb_true_iff, IH, String.eqb_eq. tauto.
Qed.
