(* The decoders detection calls, by encoding name, for the codecs that are modelled: UTF-8 (the crate's
   automaton + str::chars), UTF-16LE/BE (Model/Utf.v) and every single-byte codec (forward tables generated
   from the codec crate's index files).  The CJK codecs (euc-jp, euc-kr, iso-2022-jp, gbk, gb18030, hz, big5,
   shift_jis) are not modelled: `modelled_codec` answers None for them and Model/Pipeline.v falls back to
   the oracle.  Each entry is utils::decode (Model/Decode.v `helper`) over that decoder, in the three ways
   detection uses it: strict, test-only, chunk mode. *)
From Coq Require Import List NArith ZArith String Bool.
From Gen Require Import Tables.
From Model Require Import Base Names Decode Utf SbLangs.
Import ListNotations.
Open Scope N_scope.
Open Scope list_scope.

(* CNone: a name outside the multi-byte list for which the codec crate has no single-byte codec (the label does not
   resolve): utils::decode answers Err("Encoding ... not found") in every mode.  No supported name is of this kind
   (Proofs/CodecFacts.v supported_single_byte_names_have_tables). *)
Inductive codec_kind : Type := CUtf8 | CUtf16 (big : bool) | CSb (table : list N) | CNone.

Definition modelled_codec (e : string) : option codec_kind :=
  if String.eqb e "utf-8" then Some CUtf8
  else if String.eqb e "utf-16le" then Some (CUtf16 false)
  else if String.eqb e "utf-16be" then Some (CUtf16 true)
  else if is_multi_byte e then None
  else match sb_table e with Some t => Some (CSb t) | None => Some CNone end.

(* single-byte: the closed form of the helper (equal to it by Proofs/SbFacts.v; linear time) *)
Definition sb_closed (table : list N) (l : bytes) : option text :=
  if sb_all table l then Some (sb_chars table l) else None.

Definition codec_strict (k : codec_kind) (b : bytes) : option text :=
  match k with
  | CUtf8 => utf8_strict_text b
  | CUtf16 big => utf16_strict_text big b
  | CSb t => sb_closed t b
  | CNone => None
  end.

Definition codec_test (k : codec_kind) (b : bytes) : bool :=
  match k with
  | CUtf8 => utf8_test b
  | CUtf16 big => utf16_test big b
  | CSb t => sb_all t b
  | CNone => false
  end.

Definition codec_chunk (k : codec_kind) (b : bytes) : option text :=
  match k with
  | CUtf8 => utf8_chunk_text b
  | CUtf16 big => utf16_chunk_text big b
  | CSb t => sb_closed t b
  | CNone => None
  end.
