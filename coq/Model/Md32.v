(* The binary32 literals of src/md/plugins.rs as bit patterns, for the F32ops instance of Model/Md.v.
   The translator extracts the literal texts from plugins.rs into Tables.MD_LITERALS on every run and
   Props/PropC04 pins them (an edited literal re-opens the obligation); the `md` level compares the bit
   patterns below with the running library's. *)
From Coq Require Import ZArith NArith.
From Model Require Import Flt F32 Md.

Definition md_consts32 : md_consts F32ops :=
  Build_md_consts F32ops
    (of_bits32 1050253722 : F F32ops)  (* 0.3f32  = 0x3e99999a *)
    (of_bits32 1051931443 : F F32ops)  (* 0.35f32 = 0x3eb33333 *)
    (of_bits32 1051595899 : F F32ops)  (* 0.34f32 = 0x3eae147b *)
    (of_bits32 1073741824 : F F32ops)  (* 2.0f32  = 0x40000000 *)
    (of_bits32 1090519040 : F F32ops)  (* 8.0f32  = 0x41000000 *)
.
