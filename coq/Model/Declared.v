(* utils::any_specified_encoding(sequence, 4096), concretely: ASCII view of the first 4096 bytes
   (bytes >= 0x80 are dropped by the ASCII codec with DecoderTrap::Ignore), then the one regular
   expression RE_POSSIBLE_ENCODING_INDICATION, iterated without overlap, and the first capture
   that the name canonicaliser accepts.

   (?:(?:encoding)|(?:charset)|(?:coding))(?:[\:= ]{1,10})(?:["']?)([a-zA-Z0-9\-_]+)(?:["']?)

   The three character classes (separators, quotes, name characters) are pairwise disjoint, so
   the leftmost-first semantics of the regex crate coincides with the greedy deterministic
   matcher below: a run of 1..10 separators (a longer run cannot match), an optional quote, a
   maximal non-empty run of name characters, an optional quote.  The literal of the expression is
   pinned by the translator (Tables.RE_LITERAL, checked in Proofs/DeclaredFacts.v). *)
From Coq Require Import List NArith String Bool.
From Gen Require Import Tables.
From Model Require Import Base Names.
Import ListNotations.
Open Scope N_scope.

Definition is_sep (c : N) : bool := (c =? 58) || (c =? 61) || (c =? 32).
Definition is_quote (c : N) : bool := (c =? 34) || (c =? 39).
Definition is_name (c : N) : bool :=
  ((97 <=? c) && (c <=? 122)) || ((65 <=? c) && (c <=? 90)) || ((48 <=? c) && (c <=? 57)) || (c =? 45) || (c =? 95).

Fixpoint span (p : N -> bool) (l : list N) : list N * list N :=
  match l with
  | c :: r => if p c then let (a, b) := span p r in (c :: a, b) else ([], l)
  | [] => ([], [])
  end.

Definition KEYWORDS : list (list N) :=
  [ bytes_of_string "encoding"; bytes_of_string "charset"; bytes_of_string "coding" ].

Fixpoint strip_prefix (l p : list N) : option (list N) :=
  match p, l with
  | [], _ => Some l
  | x :: p', y :: l' => if x =? y then strip_prefix l' p' else None
  | _ :: _, [] => None
  end.

Definition drop_quote (l : list N) : list N :=
  match l with c :: r => if is_quote c then r else l | [] => [] end.

(* the part of the expression after the keyword; returns the capture and the rest after the match *)
Definition match_tail (r : list N) : option (list N * list N) :=
  let (seps, r1) := span is_sep r in
  if (1 <=? len seps) && (len seps <=? 10) then
    let r2 := drop_quote r1 in
    let (name, r3) := span is_name r2 in
    match name with
    | [] => None
    | _ => Some (name, drop_quote r3)
    end
  else None.

(* a match starting exactly at the head of l: alternatives are tried in order *)
Fixpoint match_kw (kws : list (list N)) (l : list N) : option (list N * list N) :=
  match kws with
  | [] => None
  | k :: ks => match strip_prefix l k with
               | Some r => match match_tail r with Some m => Some m | None => match_kw ks l end
               | None => match_kw ks l
               end
  end.

(* captures_iter: leftmost matches, non-overlapping; fuel bounds the number of start positions *)
Fixpoint captures (fuel : nat) (l : list N) : list (list N) :=
  match fuel with
  | O => []
  | S f => match l with
           | [] => []
           | _ :: tl => match match_kw KEYWORDS l with
                        | Some (cap, rest) =>
                            (* the match consumed at least the keyword: continue after it, with
                               less fuel; `rest` is a strict suffix of l *)
                            cap :: captures f rest
                        | None => captures f tl
                        end
           end
  end.

Definition ascii_view (b : bytes) : list N := filter (fun c => c <? 128) b.

Fixpoint first_known (caps : list (list N)) : option string :=
  match caps with
  | [] => None
  | c :: r => match iana_name (string_of_bytes c) with Some n => Some n | None => first_known r end
  end.

Definition declared_in_zone (zone : bytes) : option string :=
  let v := ascii_view zone in first_known (captures (S (List.length v)) v).

Definition any_specified_encoding (b : bytes) : option string :=
  declared_in_zone (firstn (N.to_nat SEARCH_ZONE) b).
