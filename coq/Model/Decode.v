(* utils::decode (src/utils.rs:206-294) over an abstract raw decoder, and the codec crate's UTF-8
   decoder as the table-driven automaton it is (tables generated from encoding-0.2.33
   src/codec/utf_8.rs on every run). *)
From Coq Require Import List NArith ZArith String Bool.
From Gen Require Import Tables.
From Model Require Import Base Names.
Import ListNotations.
Open Scope N_scope.
Open Scope list_scope.

Inductive cause : Type := Invalid | Incomplete | OtherCause (msg : string).

(* CodecError: upto is relative to the start of the fed slice (isize in the crate) *)
Record codec_error : Type := { upto : Z; err_cause : cause }.

(* a raw decoder: pure step functions; the output is a list of characters (code points) or, for the
   UTF-8 decoder, the accepted input bytes (it transmutes them) -- abstract type O *)
Record raw_decoder (Out : Type) : Type := {
  dstate : Type;
  dinit : dstate;
  (* raw_feed(input) = (new state, offset, output, error) *)
  dfeed : dstate -> bytes -> dstate * N * list Out * option codec_error;
  (* raw_finish() = (new state, output, error) *)
  dfinish : dstate -> dstate * list Out * option codec_error;
}.

Inductive trap_mode : Type := Strict | Ignore | Replace (repl : list N).

Section DecodeTo.
  Context {Out : Type} (D : raw_decoder Out) (replacement : list Out).

  (* DecoderTrap::trap: Strict -> false; Ignore -> true; Replace -> writes U+FFFD, true *)
  Definition do_trap (t : trap_mode) : bool * list Out :=
    match t with Strict => (false, []) | Ignore => (true, []) | Replace _ => (true, replacement) end.

  (* remaining.wrapping_add_signed(upto) on usize, as a mathematical sum (no wrap for the decoders of
     the crate: upto >= -3 and remaining >= the bytes consumed) *)
  Definition add_signed (n : N) (z : Z) : N := Z.to_N (Z.of_N n + z).

  (* the loop of decode_to (the helper's copy and the crate's original are the same loop); fuel
     bounds the iterations; returns output and Ok / Err(error) / out of fuel *)
  Inductive dt_result : Type := DtOk (out : list Out) | DtErr (e : codec_error) (out : list Out) | DtFuel.

  Fixpoint decode_to_loop (fuel : nat) (st : dstate Out D) (input : bytes) (remaining : N) (out : list Out)
           (t : trap_mode) : dt_result :=
    match fuel with
    | O => DtFuel
    | S f =>
      let '(st1, offset, o1, err) := dfeed Out D st (skipn (N.to_nat remaining) input) in
      let out1 := out ++ o1 in
      match err with
      | Some e =>
          let remaining' := add_signed remaining (upto e) in
          let (goon, o2) := do_trap t in
          if goon then decode_to_loop f st1 input remaining' (out1 ++ o2) t else DtErr e out1
      | None =>
          let '(st2, o2, err2) := dfinish Out D st1 in
          let out2 := out1 ++ o2 in
          match err2 with
          | Some e =>
              let remaining' := add_signed (len input) (upto e) in
              let (goon, o3) := do_trap t in
              if goon then
                (if len input <=? remaining' then DtOk (out2 ++ o3) else decode_to_loop f st2 input remaining' (out2 ++ o3) t)
              else DtErr e out2
          | None => DtOk out2
          end
      end
    end.

  Definition decode_to (input : bytes) (t : trap_mode) : dt_result :=
    decode_to_loop (S (S (List.length input))) (dinit Out D) input 0 [] t.

  (* utils::decode: Ok(text) | Err; `multi_byte` = is_multi_byte_encoding(name).  In test-only mode
     the writer drops everything (the decoder never consults the writer) *)
  Inductive helper_result : Type := HOk (out : list Out) | HErr (e : codec_error) | HFuel.

  Fixpoint chunk_loop (fuel : nat) (input : bytes) (begin_ end_ : N) : helper_result :=
    match fuel with
    | O => HFuel
    | S f =>
        match decode_to (firstn (N.to_nat (end_ - begin_)) (skipn (N.to_nat begin_) input)) Strict with
        | DtOk out => HOk out
        | DtFuel => HFuel
        | DtErr e _ =>    (* buf.data.clear() at the top of each retry (fix da3e440) *)
            let begin' := match err_cause e with Invalid => begin_ + 1 | _ => begin_ end in
            let end' := match err_cause e with Incomplete => end_ - 1 | _ => end_ end in
            if (end' - begin' <? 1) || (3 <? begin') || (3 <? len input - end') then HErr e
            else chunk_loop f input begin' end'
        end
    end.

  Definition helper (input : bytes) (t : trap_mode) (only_test is_chunk multi_byte : bool) : helper_result :=
    match t with
    | Strict =>
        if is_chunk && multi_byte then
          match chunk_loop (S (List.length input)) input 0 (len input) with
          | HOk out => HOk (if only_test then [] else out)
          | r => r
          end
        else match decode_to input Strict with
             | DtOk out => HOk (if only_test then [] else out)
             | DtErr e _ => HErr e
             | DtFuel => HFuel
             end
    | _ => match decode_to input t with
           | DtOk out => HOk (if only_test then [] else out)
           | DtErr e _ => HErr e
           | DtFuel => HFuel
           end
    end.
End DecodeTo.

(* ---------- the UTF-8 decoder of the codec crate ---------- *)
Definition u8_category (b : N) : N := nth (N.to_nat b) UTF8_CHAR_CATEGORY 8.
Definition u8_next (st b : N) : N := nth (N.to_nat (st + u8_category b)) UTF8_STATE_TRANSITIONS 98.
Definition u8_is_reject (st : N) : bool := UTF8_REJECT_STATE_WITH_BACKUP <=? st.

Record u8_state : Type := { u8_queue : list N; u8_st : N }.

(* the scan of raw_feed over input[offset..]: returns (state, processed, Some upto) on reject *)
Fixpoint u8_scan (st : N) (i : N) (processed : N) (l : list N) : N * N * option N :=
  match l with
  | [] => (st, processed, None)
  | ch :: r =>
      let st' := u8_next st ch in
      if st' =? UTF8_ACCEPT_STATE then u8_scan st' (i + 1) (i + 1) r
      else if u8_is_reject st' then
        (st', processed, Some (if st' =? UTF8_REJECT_STATE then i + 1 else i))
      else u8_scan st' (i + 1) processed r
  end.

Fixpoint first_msb (l : list N) : N :=
  match l with [] => 0 | c :: r => if 128 <=? c then 0 else 1 + first_msb r end.

Definition u8_feed (s : u8_state) (input : bytes) : u8_state * N * list N * option codec_error :=
  let skip := if u8_st s =? UTF8_INITIAL_STATE then first_msb input else 0 in
  let '(st', processed, rej) := u8_scan (u8_st s) skip skip (skipn (N.to_nat skip) input) in
  let flushed := if (0 <? processed) && negb (len (u8_queue s) =? 0) then u8_queue s else [] in
  let written := flushed ++ firstn (N.to_nat processed) input in
  match rej with
  | Some up =>
      ({| u8_queue := []; u8_st := UTF8_INITIAL_STATE |}, processed, written,
       Some {| upto := Z.of_N up; err_cause := Invalid |})
  | None =>
      let q := if (0 <? processed) && negb (len (u8_queue s) =? 0) then [] else u8_queue s in
      ({| u8_queue := q ++ skipn (N.to_nat processed) input; u8_st := st' |}, processed, written, None)
  end.

Definition u8_finish (s : u8_state) : u8_state * list N * option codec_error :=
  ({| u8_queue := []; u8_st := UTF8_INITIAL_STATE |}, [],
   if u8_st s =? UTF8_ACCEPT_STATE then None else Some {| upto := 0; err_cause := Incomplete |}).

(* output = the accepted bytes themselves *)
Definition utf8_decoder : raw_decoder N := {|
  dstate := u8_state;
  dinit := {| u8_queue := []; u8_st := UTF8_INITIAL_STATE |};
  dfeed := u8_feed;
  dfinish := u8_finish;
|}.

(* the public helper on UTF-8, strict, chunk mode: Some bytes-of-the-text or None *)
Definition utf8_chunk_decode (input : bytes) : option bytes :=
  match helper utf8_decoder [239; 191; 189] input Strict false true true with HOk out => Some out | _ => None end.
Definition utf8_strict_decode (input : bytes) : option bytes :=
  match helper utf8_decoder [239; 191; 189] input Strict false false true with HOk out => Some out | _ => None end.

(* ---------- single-byte decoders: a forward table byte -> code point (0xFFFF = undefined) ---------- *)
Definition sb_lookup (table : list N) (b : N) : option N :=
  if b <? 128 then Some b
  else match nth_error table (N.to_nat (b - 128)) with
       | Some c => if c =? 65535 then None else Some c
       | None => None
       end.

Fixpoint sb_scan (table : list N) (i : N) (l : list N) (acc : list N) : list N * option N :=
  match l with
  | [] => (acc, None)
  | b :: r => match sb_lookup table b with
              | Some c => sb_scan table (i + 1) r (acc ++ [c])
              | None => (acc, Some i)
              end
  end.

Definition sb_decoder (table : list N) : raw_decoder N := {|
  dstate := unit;
  dinit := tt;
  dfeed := fun _ input =>
    match sb_scan table 0 input [] with
    | (out, None) => (tt, len input, out, None)
    | (out, Some i) => (tt, i, out, Some {| upto := Z.of_N i + 1; err_cause := Invalid |})
    end;
  dfinish := fun _ => (tt, [], None);
|}.

(* what the helper computes on a single-byte decoder, in closed form (Proofs/SbFacts.v sb_strict_spec,
   sb_chunk_spec, sb_test_spec): every byte defined -> the characters, else an error *)
Definition sb_all (table : list N) (l : bytes) : bool :=
  forallb (fun b => match sb_lookup table b with Some _ => true | None => false end) l.
Definition sb_chars (table : list N) (l : bytes) : list N :=
  flat_map (fun b => match sb_lookup table b with Some c => [c] | None => [] end) l.
