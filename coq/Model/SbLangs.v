(* cd::encoding_languages (src/cd.rs) = encoding_unicode_range + unicode_range_languages, computed from
   tables only: the forward table of the single-byte codec (generated from the codec crate's index files),
   the unicode range table, the secondary-range keywords and the language alphabets.  This removes the
   `sb_langs` oracle of Model/Detect.v for the correspondence: the model computes the answer itself, and
   the `names` level compares it with the library for every supported encoding name. *)
From Coq Require Import List NArith ZArith String Bool.
From Gen Require Import Tables.
From Model Require Import Base Names Flt F32 Matches Decode Md.
Import ListNotations.
Open Scope N_scope.
Open Scope list_scope.

(* forward table of the codec a name resolves to (None: not a single-byte codec / unresolvable) *)
Definition sb_table (e : string) : option (list N) :=
  match codec_of e with
  | Some v => assoc_first v SB_TABLES
  | None => None
  end.

(* utils::is_unicode_range_secondary *)
Definition is_secondary (r : string) : bool := existsb (fun k => str_contains r k) SECONDARY_KEYWORDS.

Fixpoint bump (r : string) (l : list (string * N)) : list (string * N) :=
  match l with
  | [] => [(r, 1)]
  | (k, n) :: rest => if String.eqb k r then (k, n + 1) :: rest else (k, n) :: bump r rest
  end.

(* bytes 0x40 .. 0xFE *)
Definition PROBE_BYTES : list N := map (fun i => 64 + N.of_nat i) (seq 0 191).

Section SbLangs.
  Variable FO : FloatOps.
  Variable k015 : F FO.     (* 0.15f32 *)

  Definition range_counts (tbl : list N) : list (string * N) :=
    fold_left (fun acc b =>
                 match sb_lookup tbl b with
                 | Some c => match unicode_range c with
                             | Some r => if is_secondary r then acc else bump r acc
                             | None => acc
                             end
                 | None => acc
                 end) PROBE_BYTES [].

  (* encoding_unicode_range(..).unwrap_or_default(): sorted names of the ranges holding >= 15% of the
     primary-range characters of the code page *)
  Definition encoding_unicode_range (e : string) : list string :=
    if is_multi_byte e then []
    else match sb_table e with
         | None => []
         | Some tbl =>
             let counts := range_counts tbl in
             let total := fold_left (fun a kv => a + snd kv) counts 0 in
             isort str_ltb
                   (map fst (filter (fun kv => fge FO (fdiv FO (f_of_N FO (snd kv)) (f_of_N FO total)) k015) counts))
         end.

  (* unicode_range_languages *)
  Definition unicode_range_languages (primary : string) : list string :=
    map (fun l => match l with (name, _, _, _) => name end)
        (filter (fun l => match l with (_, alphabet, _, _) =>
                            existsb (fun c => String.eqb (unwrap_or (unicode_range c) "") primary) alphabet end)
                LANGUAGES).

  Definition encoding_languages (e : string) : list string :=
    match find (fun r => negb (str_contains r "Latin")) (encoding_unicode_range e) with
    | Some r => unicode_range_languages r
    | None => ["Unknown"%string]
    end.
End SbLangs.

Definition k015_32 : F F32ops := of_bits32 1041865114.   (* 0.15f32 = 0x3e19999a *)
Definition sb_langs32 (e : string) : list string := encoding_languages F32ops k015_32 e.
