(* Abstract interface of the binary32 operations the modelled code uses, plus the derived
   OrderedFloat comparisons (ordered-float 3.9: NaN is the greatest value, all NaNs equal).
   The models are written against this record; Model/F32.v instantiates it bit-exactly with
   Flocq's BinarySingleNaN 24 128, and Proofs/F32Facts.v proves the FloatSpec laws the theorems
   use. *)
From Coq Require Import NArith Bool.

Record FloatOps : Type := {
  F : Type;
  fadd : F -> F -> F;
  fsub : F -> F -> F;
  fmul : F -> F -> F;
  fdiv : F -> F -> F;
  fabs : F -> F;
  fisnan : F -> bool;
  fle : F -> F -> bool;      (* IEEE <=  : false if either side is NaN *)
  flt : F -> F -> bool;      (* IEEE <   *)
  f_of_N : N -> F;           (* `n as f32` for a usize n: round to nearest even *)
  fzero : F;                 (* +0.0 *)
  fnegzero : F;              (* -0.0, the neutral element `Iterator::sum` starts from *)
  fone : F;
  c_001 : F;                 (* 0.01f32 *)
  c_002 : F;                 (* 0.02f32 *)
  c_01 : F;                  (* 0.1f32 *)
  c_08 : F;                  (* 0.8f32 *)
  c_100 : F;                 (* 100.0f32 *)
  c_eps : F;                 (* f32::EPSILON *)
}.

Section Derived.
  Variable O : FloatOps.
  Notation F := (F O).

  Definition fge (a b : F) : bool := fle O b a.
  Definition fgt (a b : F) : bool := flt O b a.

  (* ordered-float: ge(a,b) = a.is_nan() | a >= b ; lt = !ge ; gt(a,b) = !ge(b,a) ;
     cmp = if a < b {Less} else if a > b {Greater} else {Equal} *)
  Definition oge (a b : F) : bool := fisnan O a || fge a b.
  Definition olt (a b : F) : bool := negb (oge a b).
  Definition ogt (a b : F) : bool := negb (oge b a).
  Definition ocmp (a b : F) : comparison :=
    if olt a b then Lt else if ogt a b then Gt else Eq.
  (* Ord::max(a, b) = if a > b (by cmp) then a else b *)
  Definition omax (a b : F) : F := match ocmp a b with Gt => a | _ => b end.

  (* Iterator::sum::<f32>() : left fold from -0.0 *)
  Definition fsum (l : list F) : F := List.fold_left (fadd O) l (fnegzero O).
  (* sum / (len as f32) *)
  Definition fmean (l : list F) : F := fdiv O (fsum l) (f_of_N O (N.of_nat (List.length l))).
End Derived.
