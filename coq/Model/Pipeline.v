(* The whole detection pipeline as ONE Coq definition: the oracle bundle of Model/Detect.v built from the
   models of the heuristics, over the few primitives that remain outside the models:
     - the codecs (strict decode, test-only decode, chunk-mode decode),
     - the per-character properties (ICU flag word, accent removal, is_alphabetic, to_lowercase),
     - cd::alphabet_languages.
   `from_bytes F32ops (pipeline B)` is what the end-to-end correspondence (driver command DETECTFULL) runs
   against the real from_bytes.  The two length guards below are artefacts of modelling usize lengths with
   unbounded N: a text of 2^64 characters cannot exist in the implementation, so they never fire. *)
From Coq Require Import List NArith ZArith String Bool.
From Gen Require Import Tables.
From Model Require Import Base Names Flt F32 Matches Detect Declared Cd Md Md32 Layers SbLangs Jaro Jaro32 Codecs.
Import ListNotations.
Open Scope N_scope.

Record base_oracles : Type := {
  b_sdecode : string -> bytes -> option text;
  b_stest : string -> bytes -> bool;
  b_cdecode : string -> bytes -> option text;
  b_flags : N -> N;
  b_unaccent : N -> N;
  b_is_alpha : N -> bool;
  b_to_lower : N -> list N;
  b_alphabet_langs : text -> bool -> list string;
}.

Definition USIZE_LIMIT : N := 18446744073709551616.   (* 2^64 *)

Definition pipeline_cd (B : base_oracles) : cd_oracles F32ops := {|
  layers := alpha_unicode_split (b_is_alpha B) (b_to_lower B);
  alphabet_langs := b_alphabet_langs B;
  popularity := fun L t => if len t <? USIZE_LIMIT then (popularity32 L t : option (F F32ops)) else None;
|}.

Definition pipeline_md (B : base_oracles) : md_oracles := {| char_flags := b_flags B; unaccent := b_unaccent B |}.

Definition pipeline (B : base_oracles) : oracles F32ops := {|
  sdecode := b_sdecode B;
  stest := b_stest B;
  cdecode := b_cdecode B;
  mess := fun t thr => if len t <? USIZE_LIMIT then mess_ratio F32ops md_consts32 (pipeline_md B) t thr else (fzero F32ops : F F32ops);
  coh := fun t thr langs => coherence_ratio F32ops (pipeline_cd B) t thr langs;
  merge := fun ls => merge_coherence_ratios F32ops ls;
  sb_langs := sb_langs32;
  declared := any_specified_encoding;
|}.

(* the same with the modelled codecs (Model/Codecs.v: UTF-8, UTF-16LE/BE, every single-byte table) computed
   by the model; only the CJK decoders are still asked of the oracle.  This is what DETECTFULL runs. *)
Definition pipeline_dec (B : base_oracles) : oracles F32ops :=
  let P := pipeline B in {|
  sdecode := fun e b => match modelled_codec e with Some k => codec_strict k b | None => b_sdecode B e b end;
  stest := fun e b => match modelled_codec e with Some k => codec_test k b | None => b_stest B e b end;
  cdecode := fun e b => match modelled_codec e with Some k => codec_chunk k b | None => b_cdecode B e b end;
  mess := mess F32ops P;
  coh := coh F32ops P;
  merge := merge F32ops P;
  sb_langs := sb_langs F32ops P;
  declared := declared F32ops P;
|}.
