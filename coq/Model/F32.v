(* Bit-exact binary32: Flocq BinarySingleNaN with prec = 24, emax = 128, round to nearest even.
   NaN payloads and signs are not represented (Rust never inspects them in the modelled code;
   the correspondence canonicalises NaN on both sides). *)
From Coq Require Import ZArith NArith Bool.
From Flocq Require Import IEEE754.BinarySingleNaN IEEE754.Binary IEEE754.Bits.
From Model Require Import Flt.

Definition f32 : Type := BinarySingleNaN.binary_float 24 128.

Lemma Hprec32 : FLX.Prec_gt_0 24. Proof. unfold FLX.Prec_gt_0; reflexivity. Qed.
Lemma Hemax32 : BinarySingleNaN.Prec_lt_emax 24 128. Proof. reflexivity. Qed.

Definition add32 : f32 -> f32 -> f32 := @BinarySingleNaN.Bplus 24 128 Hprec32 Hemax32 mode_NE.
Definition sub32 : f32 -> f32 -> f32 := @BinarySingleNaN.Bminus 24 128 Hprec32 Hemax32 mode_NE.
Definition mul32 : f32 -> f32 -> f32 := @BinarySingleNaN.Bmult 24 128 Hprec32 Hemax32 mode_NE.
Definition div32 : f32 -> f32 -> f32 := @BinarySingleNaN.Bdiv 24 128 Hprec32 Hemax32 mode_NE.
Definition abs32 : f32 -> f32 := BinarySingleNaN.Babs.
Definition isnan32 : f32 -> bool := BinarySingleNaN.is_nan.
Definition le32 : f32 -> f32 -> bool := BinarySingleNaN.Bleb.
Definition lt32 : f32 -> f32 -> bool := BinarySingleNaN.Bltb.
Definition of_Z32 (z : Z) : f32 := BinarySingleNaN.binary_normalize 24 128 Hprec32 Hemax32 mode_NE z 0 false.
Definition of_N32 (n : N) : f32 := of_Z32 (Z.of_N n).

(* bit patterns (IEEE interchange format); NaN -> canonical quiet NaN *)
Definition of_bits32 (z : Z) : f32 := Binary.B2BSN 24 128 (b32_of_bits z).
Definition to_bits32 (x : f32) : Z :=
  match x with
  | BinarySingleNaN.B754_nan => 2143289344%Z (* 0x7fc00000 *)
  | _ => bits_of_b32 (Binary.BSN2B 24 128 default_nan_pl32 x)
  end.

Definition F32ops : FloatOps := {|
  F := f32;
  fadd := add32; fsub := sub32; fmul := mul32; fdiv := div32; fabs := abs32;
  fisnan := isnan32; fle := le32; flt := lt32; f_of_N := of_N32;
  fzero := BinarySingleNaN.B754_zero false;
  fnegzero := BinarySingleNaN.B754_zero true;
  fone := of_bits32 1065353216;     (* 0x3f800000 *)
  c_001 := of_bits32 1008981770;    (* 0x3c23d70a *)
  c_002 := of_bits32 1017370378;    (* 0x3ca3d70a *)
  c_01 := of_bits32 1036831949;     (* 0x3dcccccd *)
  c_08 := of_bits32 1061997773;     (* 0x3f4ccccd *)
  c_100 := of_bits32 1120403456;    (* 0x42c80000 *)
  c_eps := of_bits32 872415232;     (* 0x34000000 *)
|}.
