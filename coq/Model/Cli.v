(* normalizer() (src/normalizer.rs:81-226) over a file system that is a finite map from canonical
   paths to nodes, with the library (from_path on a file's bytes at the given threshold) as a
   parameter.  clap parsing, serde_json rendering, dialoguer and std::fs are outside the model: the
   model starts from parsed flags and ends at an abstract report and an exit status; with no terminal
   attached the confirmation prompt fails and counts as "no" (unwrap_or(false)). *)
From Coq Require Import List NArith String Bool Ascii.
From Model Require Import Base Names Flt Matches.
Import ListNotations.
Open Scope list_scope.

Section Cli.
  Variable FO : FloatOps.
  Notation F := (F FO).
  Notation cmatch := (cmatch FO).

  Inductive node : Type := Regular (content : bytes) | Directory.
  Definition fs : Type := list (string * node).       (* first binding wins *)

  Definition lookup (d : fs) (p : string) : option node := assoc_first p d.
  Definition write (d : fs) (p : string) (c : bytes) : fs := (p, Regular c) :: d.

  Record flags : Type := {
    f_normalize : bool; f_replace : bool; f_force : bool; f_minimal : bool; f_alternatives : bool;
    f_threshold : F;
  }.

  (* the library on the bytes of a file: from_bytes(bytes, settings with this threshold) *)
  Variable lib : bytes -> F -> res (list cmatch).
  Variable sb_langs : string -> list string.
  (* UTF-8 encoding of a text (String::as_bytes) *)
  Variable utf8 : text -> bytes.

  (* from_path: open / read / delegate *)
  Definition from_path (d : fs) (p : string) (thr : F) : res (list cmatch) :=
    match lookup d p with
    | Some (Regular c) => lib c thr
    | Some Directory => Err "Error reading from file"
    | None => Err "Error opening file"
    end.

  Record record : Type := {
    r_path : string;
    r_encoding : option string;
    r_aliases : list string;
    r_alternatives : list string;
    r_language : string;
    r_alphabets : list string;
    r_bom : bool;
    r_chaos_percent : option F;        (* None = the "undefined" record: chaos "1.0", coherence "0.0" *)
    r_coherence_percent : option F;
    r_unicode_path : option string;
  }.

  Definition undefined_record (p : string) : record :=
    {| r_path := p; r_encoding := None; r_aliases := []; r_alternatives := []; r_language := "Unknown";
       r_alphabets := []; r_bom := false; r_chaos_percent := None; r_coherence_percent := None; r_unicode_path := None |}.

  Definition record_of (p : string) (m : cmatch) : res record :=
    al <- encoding_aliases (m_enc FO m) ;;
    Ok {| r_path := p; r_encoding := Some (m_enc FO m); r_aliases := al;
          r_alternatives := filter (fun e => negb (String.eqb e (m_enc FO m))) (suitable_encodings FO m);
          r_language := most_probably_language FO sb_langs m;
          r_alphabets := unicode_ranges FO m; r_bom := m_bom FO m;
          r_chaos_percent := Some (chaos_percents FO m); r_coherence_percent := Some (coherence_percents FO m);
          r_unicode_path := None |}.

  (* m == best_guess: PartialEq for CharsetMatch = same encoding and same decoded payload *)
  Definition match_eq (a b : cmatch) : bool :=
    String.eqb (m_enc FO a) (m_enc FO b) && opt_eqb text_eqb (m_text FO a) (m_text FO b).

  (* the loop `for m in matches.iter()`: the best is inserted in FRONT of the global list, the others
     are appended when --with-alternative is given, otherwise the loop stops at the first other match *)
  Fixpoint add_records (alt : bool) (p : string) (best : cmatch) (ms : list cmatch) (acc : list record) : res (list record) :=
    match ms with
    | [] => Ok acc
    | m :: r =>
        if match_eq m best then rec <- record_of p m ;; add_records alt p best r (rec :: acc)
        else if alt then rec <- record_of p m ;; add_records alt p best r (acc ++ [rec])
        else (* the record is built BEFORE the test in the code, so its alias lookup still runs *)
             rec <- record_of p m ;; Ok acc
    end.

  Definition starts_with_utf (e : string) : bool :=
    match e with String a (String b (String c _)) => Ascii.eqb a "u" && Ascii.eqb b "t" && Ascii.eqb c "f" | _ => false end.

  (* file name handling: last path component, rsplit_once('.') *)
  Fixpoint rsplit_at (sep : ascii) (s : string) : option (string * string) :=
    match s with
    | EmptyString => None
    | String c r => match rsplit_at sep r with
                    | Some (a, b) => Some (String c a, b)
                    | None => if Ascii.eqb c sep then Some (EmptyString, r) else None
                    end
    end.
  Definition dirname_basename (p : string) : string * string :=
    match rsplit_at "/" p with Some (d, b) => (d ++ "/", b)%string | None => (EmptyString, p) end.
  Definition sibling_name (p enc : string) : string :=
    let (d, base) := dirname_basename p in
    (d ++ match rsplit_at "." base with
          | None => base ++ "." ++ enc
          | Some (a, b) => a ++ "." ++ enc ++ "." ++ b
          end)%string.

  Definition set_unicode_path (r : record) (u : string) : record :=
    {| r_path := r_path r; r_encoding := r_encoding r; r_aliases := r_aliases r; r_alternatives := r_alternatives r;
       r_language := r_language r; r_alphabets := r_alphabets r; r_bom := r_bom r; r_chaos_percent := r_chaos_percent r;
       r_coherence_percent := r_coherence_percent r; r_unicode_path := Some u |}.

  (* one input file: returns the new file system and record list *)
  Definition process_file (fl : flags) (inputs : list string) (d : fs) (acc : list record) (p : string) : res (fs * list record) :=
    match lookup d p with
    | None => Err "canonicalize: No such file or directory"
    | Some _ =>
      ms <- from_path d p (f_threshold fl) ;;
      match get_best FO ms with
      | None => Ok (d, acc ++ [undefined_record p])
      | Some best =>
          recs <- add_records (f_alternatives fl) p best ms acc ;;
          if negb (f_normalize fl) then Ok (d, recs)
          else if starts_with_utf (m_enc FO best) then Ok (d, recs)
          else
            let target := if negb (f_replace fl) then
                            (* never write over a file that is itself one of the inputs (fix: D5) *)
                            (if mem (sibling_name p (m_enc FO best)) inputs then None else Some (sibling_name p (m_enc FO best)))
                          else if f_force fl then Some p else None (* no terminal: confirmation = no *) in
            match target with
            | None => Ok (d, recs)
            | Some tp =>
                match recs, m_text FO best with
                | r0 :: rest, Some t => Ok (write d tp (utf8 t), set_unicode_path r0 tp :: rest)
                | [], _ => Panic "results[0]"
                | _, None => Panic "decoded_payload().unwrap()"
                end
            end
      end
    end.

  Fixpoint process_files (fl : flags) (inputs : list string) (d : fs) (acc : list record) (ps : list string) : res (fs * list record) * fs :=
    (* second component: the file system reached when the run stops (also on error) *)
    match ps with
    | [] => (Ok (d, acc), d)
    | p :: r => match process_file fl inputs d acc p with
                | Ok (d', acc') => process_files fl inputs d' acc' r
                | Err m => (Err m, d)
                | Panic s => (Panic s, d)
                end
    end.

  Inductive report : Type :=
  | NoReport
  | Minimal (lines : list (list (option string)))     (* one line per input: the encodings of its records *)
  | JsonObject (r : record)
  | JsonArray (rs : list record).

  Definition bad_flags (fl : flags) : bool :=
    (f_replace fl && negb (f_normalize fl)) || (negb (f_replace fl) && f_force fl)
    || negb (fle FO (fzero FO) (f_threshold fl) && fle FO (f_threshold fl) (fone FO)).

  (* the whole run: (file system afterwards, report on stdout, exit status) *)
  Definition run (fl : flags) (files : list string) (d : fs) : fs * report * N :=
    if bad_flags fl then (d, NoReport, 101%N)
    else match process_files fl files d [] files with
         | (Ok (d', recs), _) =>
             if f_minimal fl then
               (* canonicalize each input again (after the writes) *)
               if forallb (fun p => match lookup d' p with Some _ => true | None => false end) files then
                 (d', Minimal (map (fun p => map r_encoding (filter (fun r => String.eqb (r_path r) p) recs)) files), 0%N)
               else (d', NoReport, 101%N)
             else match recs with
                  | [] => (d', NoReport, 101%N)              (* results[0] on an empty list: unreachable with >= 1 file *)
                  | [r] => (d', JsonObject r, 0%N)
                  | _ => (d', JsonArray recs, 0%N)
                  end
         | (Err _, d') => (d', NoReport, 101%N)              (* panic!("{e}") in main: exit status 101 *)
         | (Panic _, d') => (d', NoReport, 101%N)
         end.
End Cli.
