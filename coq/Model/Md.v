(* md::mess_ratio (src/md.rs) with its eight detector plugins (src/md/plugins.rs) and
   utils::is_suspiciously_successive_range (src/utils.rs).
   Outside the model (oracles): the per-character flag word computed from the ICU properties
   (md/structs.rs new_mess_detector_character) and remove_accent (ICU NFD).  The unicode range of a
   character is the model's own table lookup (Names.unicode_range over the generated range table).
   Counters are u64 in the code and unbounded N here (a text would need 2^63 characters to differ). *)
From Coq Require Import List NArith String Ascii Bool.
From Gen Require Import Tables.
From Model Require Import Base Names Flt.
Import ListNotations.
Open Scope N_scope.
Open Scope list_scope.

(* ---------- strings ---------- *)
Fixpoint str_prefix (p s : string) : bool :=
  match p, s with
  | EmptyString, _ => true
  | String a p', String b s' => Ascii.eqb a b && str_prefix p' s'
  | String _ _, EmptyString => false
  end.
(* str::contains *)
Fixpoint str_contains (s needle : string) : bool :=
  str_prefix needle s || match s with EmptyString => false | String _ s' => str_contains s' needle end.

(* str::split_whitespace on range names (ASCII space is the only white space occurring in them) *)
Fixpoint split_ws_aux (s : string) (cur : string) : list string :=
  match s with
  | EmptyString => match cur with EmptyString => [] | _ => [cur] end
  | String c r =>
      if Ascii.eqb c " "%char then
        match cur with EmptyString => split_ws_aux r EmptyString | _ => cur :: split_ws_aux r EmptyString end
      else split_ws_aux r (cur ++ String c EmptyString)%string
  end.
Definition split_ws (s : string) : list string := split_ws_aux s EmptyString.

(* utils::is_suspiciously_successive_range *)
Definition suspicious (ra rb : option string) : bool :=
  match ra, rb with
  | Some a, Some b =>
      if String.eqb a b
         || (str_contains a "Latin" && str_contains b "Latin")
         || (str_contains a "Emoticons" || str_contains b "Emoticons") then false
      else if (str_contains a "Latin" || str_contains b "Latin")
              && (str_contains a "Combining" || str_contains b "Combining") then false
      else if existsb (fun w => mem w (split_ws b) && negb (mem w SECONDARY_KEYWORDS)) (split_ws a) then false
      else
        let jp := ["Hiragana"; "Katakana"]%string in
        let ja := mem a jp in
        let jb := mem b jp in
        let cjk := str_contains a "CJK" || str_contains b "CJK" in
        let hangul := str_contains a "Hangul" || str_contains b "Hangul" in
        let pf := (str_contains a "Punctuation" || str_contains a "Forms")
                  || (str_contains b "Punctuation" || str_contains b "Forms") in
        let bl := String.eqb a "Basic Latin" || String.eqb b "Basic Latin" in
        if (ja && jb) || (ja && cjk) || (jb && cjk) || (cjk && hangul) || (cjk && pf) || (hangul && bl)
        then false else true
  | _, _ => true
  end.

(* ---------- flag word (bit positions of MessDetectorCharFlags) ---------- *)
Definition WHITESPACE := 0. Definition UNPRINTABLE := 1. Definition SYMBOL := 2. Definition EMOTICON := 3.
Definition COMMON_SAFE := 4. Definition WEIRD_SAFE := 5. Definition PUNCTUATION := 6. Definition SEPARATOR := 7.
Definition ASCII_F := 8. Definition ASCII_ALPHABETIC := 9. Definition ASCII_GRAPHIC := 10. Definition ASCII_DIGIT := 11.
Definition LATIN := 12. Definition ALPHABETIC := 13. Definition ACCENTUATED := 14. Definition CJK := 15.
Definition HANGUL := 16. Definition KATAKANA := 17. Definition HIRAGANA := 18. Definition THAI := 19.
Definition CASE_VARIABLE := 20. Definition LOWERCASE := 21. Definition UPPERCASE := 22. Definition NUMERIC := 23.

Record mchar : Type := { mc_cp : N; mc_flags : N; mc_range : option string }.
Definition is (c : mchar) (bit : N) : bool := N.testbit (mc_flags c) bit.

Section Md.
  Variable FO : FloatOps.
  Notation F := (F FO).

  (* the f32 literals of plugins.rs *)
  Record md_consts : Type := {
    k_03 : F;    (* 0.3  *)
    k_035 : F;   (* 0.35 *)
    k_034 : F;   (* 0.34 *)
    k_2 : F;     (* 2.0  *)
    k_8 : F;     (* 8.0  *)
  }.
  Variable K : md_consts.

  Record md_oracles : Type := {
    char_flags : N -> N;       (* MessDetectorChar::new(ch).flags.bits() *)
    unaccent : N -> N;         (* utils::remove_accent *)
  }.
  Variable O : md_oracles.

  Definition mk_char (cp : N) : mchar := {| mc_cp := cp; mc_flags := char_flags O cp; mc_range := unicode_range cp |}.

  Definition ratio_of (a b : N) : F := fdiv FO (f_of_N FO a) (f_of_N FO b).
  (* Some(x).filter(|r| r >= k).unwrap_or(0.0) *)
  Definition at_least (x k : F) : F := if fge FO x k then x else fzero FO.

  (* --- TooManySymbolOrPunctuationPlugin --- *)
  Record p_sym : Type := { sy_punct : N; sy_symbol : N; sy_count : N; sy_last : option N }.
  Definition sym_init := {| sy_punct := 0; sy_symbol := 0; sy_count := 0; sy_last := None |}.
  Definition sym_eligible (c : mchar) := negb (is c UNPRINTABLE).
  Definition sym_feed (s : p_sym) (c : mchar) : p_sym :=
    let differs := match sy_last s with None => true | Some l => negb (mc_cp c =? l) end in
    let consider := differs && negb (is c COMMON_SAFE) in
    let p := if consider && is c PUNCTUATION then sy_punct s + 1 else sy_punct s in
    let y := if consider && negb (is c PUNCTUATION) && negb (is c NUMERIC) && is c SYMBOL && negb (is c EMOTICON)
             then sy_symbol s + 2 else sy_symbol s in
    {| sy_punct := p; sy_symbol := y; sy_count := sy_count s + 1; sy_last := Some (mc_cp c) |}.
  Definition sym_ratio (s : p_sym) : F :=
    if sy_count s =? 0 then fzero FO
    else at_least (ratio_of (sy_punct s + sy_symbol s) (sy_count s)) (k_03 K).

  (* --- TooManyAccentuatedPlugin --- *)
  Record p_acc : Type := { ac_count : N; ac_acc : N }.
  Definition acc_init := {| ac_count := 0; ac_acc := 0 |}.
  Definition acc_eligible (c : mchar) := is c ALPHABETIC.
  Definition acc_feed (s : p_acc) (c : mchar) : p_acc :=
    {| ac_count := ac_count s + 1; ac_acc := if is c ACCENTUATED then ac_acc s + 1 else ac_acc s |}.
  Definition acc_ratio (s : p_acc) : F :=
    if 8 <=? ac_count s then at_least (ratio_of (ac_acc s) (ac_count s)) (k_035 K) else fzero FO.

  (* --- UnprintablePlugin --- *)
  Record p_unp : Type := { un_count : N; un_unp : N }.
  Definition unp_init := {| un_count := 0; un_unp := 0 |}.
  Definition unp_feed (s : p_unp) (c : mchar) : p_unp :=
    {| un_count := un_count s + 1; un_unp := if is c UNPRINTABLE then un_unp s + 1 else un_unp s |}.
  Definition unp_ratio (s : p_unp) : F :=
    if un_count s =? 0 then fzero FO
    else fdiv FO (fmul FO (f_of_N FO (un_unp s)) (k_8 K)) (f_of_N FO (un_count s)).

  (* --- SuspiciousRangePlugin --- *)
  Record p_rng : Type := { rg_count : N; rg_susp : N; rg_last : option mchar }.
  Definition rng_init := {| rg_count := 0; rg_susp := 0; rg_last := None |}.
  Definition rng_eligible (c : mchar) := negb (is c UNPRINTABLE).
  Definition rng_feed (s : p_rng) (c : mchar) : p_rng :=
    let n := rg_count s + 1 in
    if is c WHITESPACE || is c PUNCTUATION || is c COMMON_SAFE then
      {| rg_count := n; rg_susp := rg_susp s; rg_last := None |}
    else match rg_last s with
         | None => {| rg_count := n; rg_susp := rg_susp s; rg_last := Some c |}
         | Some l => {| rg_count := n;
                        rg_susp := if suspicious (mc_range l) (mc_range c) then rg_susp s + 1 else rg_susp s;
                        rg_last := Some c |}
         end.
  Definition rng_ratio (s : p_rng) : F :=
    if 0 <? rg_count s
    then at_least (fdiv FO (fmul FO (f_of_N FO (rg_susp s)) (k_2 K)) (f_of_N FO (rg_count s))) (c_01 FO)
    else fzero FO.

  (* --- SuspiciousDuplicateAccentPlugin --- *)
  Record p_dup : Type := { du_count : N; du_succ : N; du_last : option mchar }.
  Definition dup_init := {| du_count := 0; du_succ := 0; du_last := None |}.
  Definition dup_eligible (c : mchar) := is c ALPHABETIC && is c LATIN.
  Definition dup_feed (s : p_dup) (c : mchar) : p_dup :=
    let succ :=
      match du_last s with
      | Some l =>
          if is c ACCENTUATED && is l ACCENTUATED then
            let a := if is c UPPERCASE && is l UPPERCASE then du_succ s + 1 else du_succ s in
            if unaccent O (mc_cp c) =? unaccent O (mc_cp l) then a + 1 else a
          else du_succ s
      | None => du_succ s
      end in
    {| du_count := du_count s + 1; du_succ := succ; du_last := Some c |}.
  Definition dup_ratio (s : p_dup) : F :=
    if du_count s =? 0 then fzero FO
    else fdiv FO (fmul FO (f_of_N FO (du_succ s)) (k_2 K)) (f_of_N FO (du_count s)).

  (* --- SuperWeirdWordPlugin --- *)
  Record p_sww : Type := {
    sw_count : N; sw_words : N; sw_bad_words : N; sw_foreign : N; sw_cur_bad : bool; sw_watch : bool;
    sw_bad_chars : N; sw_buf_acc : N; sw_buf : list mchar;   (* buffer in push order *)
  }.
  Definition sww_init := {| sw_count := 0; sw_words := 0; sw_bad_words := 0; sw_foreign := 0; sw_cur_bad := false;
                            sw_watch := false; sw_bad_chars := 0; sw_buf_acc := 0; sw_buf := [] |}.
  Definition sww_feed (s : p_sww) (c : mchar) : p_sww :=
    if is c ASCII_ALPHABETIC then
      {| sw_count := sw_count s; sw_words := sw_words s; sw_bad_words := sw_bad_words s; sw_foreign := sw_foreign s;
         sw_cur_bad := sw_cur_bad s;
         sw_watch := sw_watch s || ((negb (is c LATIN) || is c ACCENTUATED) && negb (is c CJK) && negb (is c HANGUL)
                                    && negb (is c KATAKANA) && negb (is c HIRAGANA) && negb (is c THAI));
         sw_bad_chars := sw_bad_chars s;
         sw_buf_acc := if is c ACCENTUATED then sw_buf_acc s + 1 else sw_buf_acc s;
         sw_buf := sw_buf s ++ [c] |}
    else match sw_buf s with
    | [] => s
    | _ :: _ =>
      if is c WHITESPACE || is c PUNCTUATION || is c SEPARATOR then
        let bl := len (sw_buf s) in
        let lastc := last (sw_buf s) c in
        let big := 4 <=? bl in
        let bad1 := big && flt FO (k_034 K) (ratio_of (sw_buf_acc s) bl) in
        let up_end := big && is lastc ACCENTUATED && is lastc UPPERCASE in
        let upper := len (filter (fun x => is x UPPERCASE) (sw_buf s)) in
        let camel := (0 <? upper) && fle FO (ratio_of upper bl) (k_03 K) in
        let long_foreign := (24 <=? bl) && sw_watch s && negb camel in
        let foreign := (if up_end then sw_foreign s + 1 else sw_foreign s) in
        let foreign := (if long_foreign then foreign + 1 else foreign) in
        let cur_bad := sw_cur_bad s || bad1 || up_end || long_foreign in
        {| sw_count := sw_count s + bl; sw_words := sw_words s + 1;
           sw_bad_words := if cur_bad then sw_bad_words s + 1 else sw_bad_words s;
           sw_foreign := foreign; sw_cur_bad := false; sw_watch := false;
           sw_bad_chars := if cur_bad then sw_bad_chars s + bl else sw_bad_chars s;
           sw_buf_acc := 0; sw_buf := [] |}
      else if negb (is c WEIRD_SAFE) && negb (is c ASCII_DIGIT) && is c SYMBOL then
        {| sw_count := sw_count s; sw_words := sw_words s; sw_bad_words := sw_bad_words s; sw_foreign := sw_foreign s;
           sw_cur_bad := true; sw_watch := sw_watch s; sw_bad_chars := sw_bad_chars s; sw_buf_acc := sw_buf_acc s;
           sw_buf := sw_buf s ++ [c] |}
      else s
    end.
  Definition sww_ratio (s : p_sww) : F :=
    if (sw_words s <=? 10) && (sw_foreign s =? 0) then fzero FO else ratio_of (sw_bad_chars s) (sw_count s).

  (* --- CjkInvalidStopPlugin --- *)
  Record p_cjk : Type := { cj_wrong : N; cj_count : N }.
  Definition cjk_init := {| cj_wrong := 0; cj_count := 0 |}.
  Definition cjk_feed (s : p_cjk) (c : mchar) : p_cjk :=
    if (mc_cp c =? 19973) || (mc_cp c =? 19972) then {| cj_wrong := cj_wrong s + 1; cj_count := cj_count s |}
    else if is c CJK then {| cj_wrong := cj_wrong s; cj_count := cj_count s + 1 |} else s.
  Definition cjk_ratio (s : p_cjk) : F :=
    if cj_count s <? 16 then fzero FO else ratio_of (cj_wrong s) (cj_count s).

  (* --- ArchaicUpperLowerPlugin --- *)
  Record p_aul : Type := {
    au_buf : bool; au_ascii_only : bool; au_since_sep : N; au_succ : N; au_succ_final : N; au_count : N;
    au_last : option mchar;
  }.
  Definition aul_init := {| au_buf := false; au_ascii_only := true; au_since_sep := 0; au_succ := 0; au_succ_final := 0;
                            au_count := 0; au_last := None |}.
  Definition aul_feed (s : p_aul) (c : mchar) : p_aul :=
    if negb (is c ALPHABETIC && is c CASE_VARIABLE) && (0 <? au_since_sep s) then
      {| au_buf := false; au_ascii_only := true; au_since_sep := 0; au_succ := 0;
         au_succ_final := if (au_since_sep s <=? 64) && negb (is c ASCII_DIGIT) && negb (au_ascii_only s)
                          then au_succ_final s + au_succ s else au_succ_final s;
         au_count := au_count s + 1; au_last := None |}
    else
      let ascii_only := au_ascii_only s && is c ASCII_F in
      let '(buf, succ) :=
        match au_last s with
        | Some l =>
            if (is c UPPERCASE && is l LOWERCASE) || (is c LOWERCASE && is l UPPERCASE) then
              (if au_buf s then (false, au_succ s + 2) else (true, au_succ s))
            else (false, au_succ s)
        | None => (au_buf s, au_succ s)
        end in
      {| au_buf := buf; au_ascii_only := ascii_only; au_since_sep := au_since_sep s + 1; au_succ := succ;
         au_succ_final := au_succ_final s; au_count := au_count s + 1; au_last := Some c |}.
  Definition aul_ratio (s : p_aul) : F :=
    if au_count s =? 0 then fzero FO else ratio_of (au_succ_final s) (au_count s).

  (* --- the detector bank, in the order of the `detectors` vector --- *)
  Record bank : Type := {
    b_sym : p_sym; b_acc : p_acc; b_unp : p_unp; b_rng : p_rng; b_dup : p_dup; b_sww : p_sww; b_cjk : p_cjk; b_aul : p_aul;
  }.
  Definition bank_init : bank :=
    {| b_sym := sym_init; b_acc := acc_init; b_unp := unp_init; b_rng := rng_init; b_dup := dup_init;
       b_sww := sww_init; b_cjk := cjk_init; b_aul := aul_init |}.
  Definition bank_feed (b : bank) (c : mchar) : bank :=
    {| b_sym := if sym_eligible c then sym_feed (b_sym b) c else b_sym b;
       b_acc := if acc_eligible c then acc_feed (b_acc b) c else b_acc b;
       b_unp := unp_feed (b_unp b) c;
       b_rng := if rng_eligible c then rng_feed (b_rng b) c else b_rng b;
       b_dup := if dup_eligible c then dup_feed (b_dup b) c else b_dup b;
       b_sww := sww_feed (b_sww b) c;
       b_cjk := cjk_feed (b_cjk b) c;
       b_aul := aul_feed (b_aul b) c |}.
  Definition bank_ratios (b : bank) : list F :=
    [sym_ratio (b_sym b); acc_ratio (b_acc b); unp_ratio (b_unp b); rng_ratio (b_rng b);
     dup_ratio (b_dup b); sww_ratio (b_sww b); cjk_ratio (b_cjk b); aul_ratio (b_aul b)].
  (* detectors.iter().map(|x| x.ratio()).sum() *)
  Definition bank_sum (b : bank) : F := fsum FO (bank_ratios b).

  (* the scan: characters of the text followed by '\n'; every `period` characters the running sum is
     compared with the threshold and returned at once if it reaches it *)
  Fixpoint scan (period thr_index : N) (thr : F) (b : bank) (index : N) (cs : list N) : F :=
    match cs with
    | [] => bank_sum b
    | c :: r =>
        let b' := bank_feed b (mk_char c) in
        if (index mod period =? period - 1) && fge FO (bank_sum b') thr then bank_sum b'
        else scan period thr_index thr b' (index + 1) r
    end.

  Definition period_of (n : N) : N := if n <=? 510 then 32 else if n <=? 1023 then 64 else 128.

  Definition mess_ratio (t : text) (thr : F) : F :=
    scan (period_of (len t)) 0 thr bank_init 0 (t ++ [10]).
End Md.
