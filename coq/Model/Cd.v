(* cd::coherence_ratio from the layers onward, filter_alt_coherence_matches and
   merge_coherence_ratios (src/cd.rs, after fix ab19220: insertion-ordered vectors, stable sorts).
   Oracles: alpha_unicode_split (layers), alphabet_languages, characters_popularity_compare. *)
From Coq Require Import List NArith String Bool.
From Gen Require Import Tables.
From Model Require Import Base Names Flt Matches.
Import ListNotations.
Open Scope N_scope.
Open Scope list_scope.

Section Cd.
  Variable FO : FloatOps.
  Notation F := (F FO).
  Notation cohlist := (cohlist FO).

  Record cd_oracles : Type := {
    (* cd::alpha_unicode_split: one lower-cased string per script layer, in order of first appearance *)
    layers : text -> list text;
    (* cd::alphabet_languages(popular characters, ignore_non_latin) *)
    alphabet_langs : text -> bool -> list string;
    (* cd::characters_popularity_compare(language, popular characters).ok() *)
    popularity : string -> text -> option F;
  }.
  Variable C : cd_oracles.

  (* Counter::most_common_ordered: by count descending, then by character ascending *)
  Fixpoint count_add (c : N) (l : list (N * N)) : list (N * N) :=
    match l with
    | [] => [(c, 1)]
    | (k, n) :: r => if k =? c then (k, n + 1) :: r else (k, n) :: count_add c r
    end.
  Definition counts (t : text) : list (N * N) := fold_left (fun acc c => count_add c acc) t [].
  Definition mc_lt (a b : N * N) : bool := (snd b <? snd a) || ((snd a =? snd b) && (fst a <? fst b)).
  Definition most_common (t : text) : text := map fst (isort mc_lt (counts t)).

  (* the scan state: pushed results in push order, number of matches >= 0.8 so far *)
  Definition scan_state : Type := (cohlist * N)%type.

  (* the inner `for language in languages` loop; None = characters_popularity_compare failed (`?`) *)
  Fixpoint lang_loop (thr : F) (popular : text) (langs : list string) (st : scan_state) : option scan_state :=
    match langs with
    | [] => Some st
    | l :: r =>
        match popularity C l popular with
        | None => None
        | Some ratio =>
            (* after fix c19: counting and stopping do not depend on the threshold *)
            let suf := if fge FO ratio (c_08 FO) then snd st + 1 else snd st in
            let res := if fge FO ratio thr then fst st ++ [(l, ratio)] else fst st in
            if 3 <=? suf then Some (res, suf)          (* break: leaves the inner loop only *)
            else lang_loop thr popular r (res, suf)
        end
    end.

  Fixpoint layer_loop (thr : F) (include : list string) (inl : bool) (ls : list text) (st : scan_state) : option scan_state :=
    match ls with
    | [] => Some st
    | layer :: r =>
        if len layer <=? TOO_SMALL_SEQUENCE then layer_loop thr include inl r st
        else
          let popular := most_common layer in
          let langs := match include with [] => alphabet_langs C popular inl | _ => include end in
          match lang_loop thr popular langs st with
          | None => None
          | Some st' => layer_loop thr include inl r st'
          end
    end.

  (* filter_alt_coherence_matches: one entry per language, in order of first appearance, best score *)
  Fixpoint fa_add (x : string * F) (idx : cohlist) : cohlist :=
    match idx with
    | [] => [(fst x, omax FO (snd x) (fzero FO))]
    | (l, s) :: r => if String.eqb l (fst x) then (l, omax FO (snd x) s) :: r else (l, s) :: fa_add x r
    end.
  Definition filter_alt (results : cohlist) : cohlist := fold_left (fun idx x => fa_add x idx) results [].

  (* sort_by(|a, b| b.score.cmp(&a.score)): stable, descending by the NaN-greatest total order *)
  Definition score_before (a b : string * F) : bool := match ocmp FO (snd b) (snd a) with Lt => true | _ => false end.
  Definition sort_desc (l : cohlist) : cohlist := isort score_before l.

  Definition coherence_ratio (t : text) (thr : F) (include : list string) : option cohlist :=
    let inl := list_eqb String.eqb include ["Unknown"%string] in
    let include' := if inl then [] else include in
    match layer_loop thr include' inl (layers C t) ([], 0) with
    | None => None
    | Some (res, _) => Some (sort_desc (filter_alt res))
    end.

  (* merge_coherence_ratios *)
  Fixpoint mi_add (x : string * F) (idx : list (string * list F)) : list (string * list F) :=
    match idx with
    | [] => [(fst x, [snd x])]
    | (l, ss) :: r => if String.eqb l (fst x) then (l, ss ++ [snd x]) :: r else (l, ss) :: mi_add x r
    end.
  Definition merge_index (results : list cohlist) : list (string * list F) :=
    fold_left (fun idx x => mi_add x idx) (List.concat results) [].
  Definition merge_coherence_ratios (results : list cohlist) : cohlist :=
    sort_desc (map (fun e => (fst e, fmean FO (snd e))) (merge_index results)).
End Cd.
