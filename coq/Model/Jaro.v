(* strsim::jaro (strsim 0.11.1, generic_jaro) as used by cd::characters_popularity_compare:
   the integer part (matching with a search window, flags, transpositions) over code point lists.
   The float part (three f64 divisions, two additions, a division by 3.0, then `as f32`) is in
   Model/Jaro32.v over Flocq binary64 / binary32. *)
From Coq Require Import List NArith Bool.
From Model Require Import Base.
Import ListNotations.
Open Scope N_scope.
Open Scope list_scope.

(* inner loop: the first j in [min_bound, max_bound) with b[j] = x and b_flags[j] unset; returns the updated
   flags, or None when there is no such j.  `j` is the index of the head of `bs`. *)
Fixpoint find_match (x : N) (min_bound max_bound j : N) (bs : list N) (flags : list bool) : option (list bool) :=
  match bs, flags with
  | b :: bs', f :: fs' =>
      if max_bound <=? j then None
      else if (min_bound <=? j) && (x =? b) && negb f then Some (true :: fs')
      else match find_match x min_bound max_bound (j + 1) bs' fs' with
           | Some fs'' => Some (f :: fs'')
           | None => None
           end
  | _, _ => None
  end.

(* outer loop over a: returns (a_flags in order, b_flags, matches) *)
Fixpoint match_loop (search_range b_len : N) (i : N) (as_ : list N) (b : list N) (b_flags : list bool)
  : list bool * list bool * N :=
  match as_ with
  | [] => ([], b_flags, 0)
  | x :: as' =>
      let min_bound := if search_range <? i then i - search_range else 0 in
      let max_bound := N.min b_len (i + search_range + 1) in
      match find_match x min_bound max_bound 0 b b_flags with
      | Some bf' =>
          let '(af, bf'', m) := match_loop search_range b_len (i + 1) as' b bf' in
          (true :: af, bf'', m + 1)
      | None =>
          let '(af, bf'', m) := match_loop search_range b_len (i + 1) as' b b_flags in
          (false :: af, bf'', m)
      end
  end.

(* the flagged elements of a sequence, in order *)
Fixpoint flagged (l : list N) (flags : list bool) : list N :=
  match l, flags with
  | x :: l', f :: fs => if f then x :: flagged l' fs else flagged l' fs
  | _, _ => []
  end.

(* number of positions at which the two flagged subsequences differ (they have the same length) *)
Fixpoint mismatches (u v : list N) : N :=
  match u, v with
  | x :: u', y :: v' => (if x =? y then 0 else 1) + mismatches u' v'
  | _, _ => 0
  end.

Record jaro_counts : Type := { j_alen : N; j_blen : N; j_matches : N; j_transpositions : N }.

Definition jaro_count (a b : list N) : jaro_counts :=
  let a_len := len a in
  let b_len := len b in
  let search_range := N.max a_len b_len / 2 - 1 in        (* saturating_sub(1): N subtraction truncates at 0 *)
  let '(af, bf, m) := match_loop search_range b_len 0 a b (repeat false (N.to_nat b_len)) in
  let t := mismatches (flagged a af) (flagged b bf) / 2 in
  {| j_alen := a_len; j_blen := b_len; j_matches := m; j_transpositions := t |}.
