(* from_bytes (src/lib.rs:174-600) as a total Gallina function over an oracle bundle.
   Everything that is control logic is here, line for line; the heuristics and the codecs enter
   only through the `oracles` record, which the correspondence driver serves with the REAL
   primitives of the library. *)
From Coq Require Import List NArith String Bool.
From Gen Require Import Tables.
From Model Require Import Base Names Flt Matches.
Import ListNotations.
Open Scope N_scope.

Section Detect.
  Variable FO : FloatOps.
  Notation F := (F FO).
  Notation cmatch := (cmatch FO).
  Notation cohlist := (cohlist FO).

  Record settings : Type := {
    steps : N;
    chunk_size : N;
    threshold : F;
    include_encodings : list string;
    exclude_encodings : list string;
    preemptive_behaviour : bool;
    language_threshold : F;
    enable_fallback : bool;
  }.

  Record oracles : Type := {
    (* utils::decode(bytes, enc, Strict, only_test = false, is_chunk = false) *)
    sdecode : string -> bytes -> option text;
    (* utils::decode(bytes, enc, Strict, only_test = true, is_chunk = false).is_ok() *)
    stest : string -> bytes -> bool;
    (* utils::decode(bytes, enc, Strict, false, is_chunk = true)  (CharsetMatch::new, lazy mode) *)
    cdecode : string -> bytes -> option text;
    (* md::mess_ratio(text, Some(threshold)) *)
    mess : text -> F -> F;
    (* cd::coherence_ratio(text, Some(language_threshold), Some(languages)).ok() *)
    coh : text -> F -> list string -> option cohlist;
    (* cd::merge_coherence_ratios *)
    merge : list cohlist -> cohlist;
    (* cd::encoding_languages (single-byte code pages) *)
    sb_langs : string -> list string;
    (* utils::any_specified_encoding(bytes, 4096) *)
    declared : bytes -> option string;
  }.

  Variable R : oracles.

  Definition is_ascii_text (t : text) : bool := forallb (fun c => c <? 128) t.

  (* utils::is_invalid_chunk *)
  Definition is_invalid_chunk (r : option text) (e : string) : bool :=
    match r with
    | None => true
    | Some t => String.eqb e "ascii" && negb (is_ascii_text t)
    end.

  (* CharsetMatch::new: decoded_payload.or_else(decode(payload, enc, Strict, false, true).ok()
     .map(strip_prefix U+FEFF)) *)
  Definition strip_feff (t : text) : text :=
    match t with c :: r => if c =? 65279 then r else t | [] => [] end.
  Definition new_match (payload : bytes) (e : string) (chaos : F) (bom : bool) (c : cohlist)
             (decoded : option text) : cmatch :=
    CM payload e chaos c bom []
       (match decoded with
        | Some t => Some t
        | None => option_map strip_feff (cdecode R e payload)
        end).

  (* include/exclude canonicalisation with the two error messages *)
  Fixpoint canon_list (pre post : string) (l : list string) : res (list string) :=
    match l with
    | [] => Ok []
    | x :: r => match iana_name x with
                | None => Err (pre ++ x ++ post)
                | Some n => r' <- canon_list pre post r ;; Ok (n :: r')
                end
    end.

  (* VecDeque: for pe in prioritized.rev(): if position(pe) then remove + push_front *)
  Fixpoint remove_first (s : string) (l : list string) : list string :=
    match l with [] => [] | x :: r => if String.eqb x s then r else x :: remove_first s r end.
  Definition move_front (l : list string) (pe : string) : list string :=
    if mem pe l then pe :: remove_first pe l else l.
  Definition prioritize (prio : list string) (l : list string) : list string :=
    fold_left move_front (rev prio) l.

  (* (start..end).step_by(step), step >= 1; fuel = an upper bound on the number of offsets *)
  Fixpoint offsets_from (fuel : nat) (start stop step : N) : list N :=
    match fuel with
    | O => []
    | S f => if start <? stop then start :: offsets_from f (start + step) stop step else []
    end.
  Definition offsets (start stop step : N) : list N :=
    offsets_from (N.to_nat ((stop - start) / step + 1)) start stop step.

  (* ---- the chunk loop ---- *)
  Record chunk_state : Type := {
    early_stop : N;
    lazy_hard_failure : bool;
    md_ratios : list F;      (* in push order *)
    md_chunks : list text;   (* in push order *)
  }.

  Inductive flow (A : Type) : Type := Continue (a : A) | Break (a : A).
  Arguments Continue {A} a.
  Arguments Break {A} a.

  Definition chunk_step (cfg : settings) (b : bytes) (e : string) (decoded : option text)
             (seq_len max_gave_up : N) (st : chunk_state) (offset : N) : res (flow chunk_state) :=
    chunk_res <- match decoded with
                 | Some t => Ok (Some (firstn (N.to_nat (chunk_size cfg)) (skipn (N.to_nat offset) t)))
                 | None => s <- slice "chunk slice" b offset (N.min (offset + chunk_size cfg) seq_len) ;;
                           Ok (sdecode R e s)
                 end ;;
    if is_invalid_chunk chunk_res e then
      Ok (Break {| early_stop := max_gave_up; lazy_hard_failure := true;
                   md_ratios := md_ratios st; md_chunks := md_chunks st |})
    else
      match chunk_res with
      | None => Err "unreachable: invalid chunk passed"   (* `decoded_chunk_result?` *)
      | Some chunk =>
          let ratio := mess R chunk (threshold cfg) in
          let es := if fge FO ratio (threshold cfg) then early_stop st + 1 else early_stop st in
          let st' := {| early_stop := es; lazy_hard_failure := false;
                        md_ratios := md_ratios st ++ [ratio]; md_chunks := md_chunks st ++ [chunk] |} in
          if max_gave_up <=? es then Ok (Break st') else Ok (Continue st')
      end.

  Fixpoint chunk_loop (cfg : settings) (b : bytes) (e : string) (decoded : option text)
           (seq_len max_gave_up : N) (st : chunk_state) (offs : list N) : res chunk_state :=
    match offs with
    | [] => Ok st
    | o :: r => f <- chunk_step cfg b e decoded seq_len max_gave_up st o ;;
                match f with
                | Break st' => Ok st'
                | Continue st' => chunk_loop cfg b e decoded seq_len max_gave_up st' r
                end
    end.

  (* ---- the per-encoding body ---- *)
  Record loop_state : Type := {
    soft_failed : list string;
    results : list cmatch;
    fb_ascii : option cmatch;
    fb_u8 : option cmatch;
    fb_specified : option cmatch;
  }.

  Inductive verdict : Type :=
  | Skip                      (* filtered, BOM-less UTF-16, or similar to a soft failure *)
  | HardFail
  | SoftFail (fallback : option cmatch)
  | Accept (m : cmatch) (early_exit : bool).

  (* context computed once per call *)
  Record ctx : Type := {
    c_bytes : bytes;
    c_len : N;
    c_cfg : settings;            (* after canonicalisation and the window adjustments *)
    c_lazy : bool;
    c_specified : string;        (* "" when none *)
    c_sig : option (string * list N);
    c_prio : list string;
  }.

  Definition sig_enc (c : ctx) : option string := option_map fst (c_sig c).

  Definition is_bom (c : ctx) (e : string) : bool := opt_eqb String.eqb (sig_enc c) (Some e).
  Definition lazy_sb (c : ctx) (e : string) : bool := c_lazy c && negb (is_multi_byte e).

  (* the fast pre-check (lib.rs "fast pre-check"): Ok None = hard failure,
     Ok (Some (start_idx, decoded)) otherwise; decoded = None in lazy single-byte mode *)
  Definition probe_pre (c : ctx) (e : string) : res (option (N * option text)) :=
    let b := c_bytes c in
    start_idx <- (if is_bom c e then match c_sig c with
                                     | Some (_, p) => Ok (len p)
                                     | None => Err "sig_payload cannot not be None"
                                     end
                  else Ok 0) ;;
    let end_idx := if lazy_sb c e then MAX_PROCESSED_BYTES else c_len c in
    pre <- slice "pre-check slice" b start_idx end_idx ;;
    if lazy_sb c e then
      Ok (if stest R e pre then Some (start_idx, None) else None)
    else
      Ok (match sdecode R e pre with Some t => Some (start_idx, Some t) | None => None end).

  (* everything after the similarity gate *)
  Definition probe_rest (c : ctx) (e : string) (start_idx : N) (decoded : option text) : res verdict :=
    let cfg := c_cfg c in
    let b := c_bytes c in
    let bom := is_bom c e in
    let mb := is_multi_byte e in
    q <- udiv "steps / 4" (steps cfg) 4 ;;
    let max_gave_up := N.max 2 q in
    let target_languages := if mb then mb_languages e else sb_langs R e in
    let seq_len := match decoded with Some t => len t | None => c_len c end in
    let starting_offset := match bom, decoded with true, None => start_idx | _, _ => 0 end in
    d <- udiv "seq_len / steps" seq_len (steps cfg) ;;
    let offs := offsets starting_offset seq_len (N.max d 1) in
    st <- chunk_loop cfg b e decoded seq_len max_gave_up
            {| early_stop := 0; lazy_hard_failure := false; md_ratios := []; md_chunks := [] |} offs ;;
    remainder_ok <- (if negb (lazy_hard_failure st) && lazy_sb c e then
                       tail <- slice "remainder slice" b MAX_PROCESSED_BYTES (c_len c) ;;
                       Ok (negb (is_invalid_chunk (sdecode R e tail) e))
                     else Ok true) ;;
    if negb remainder_ok then Ok HardFail
    else
      let mean := match md_ratios st with [] => fzero FO | _ => fmean FO (md_ratios st) end in
      if fge FO mean (threshold cfg) || (max_gave_up <=? early_stop st) then
        Ok (SoftFail (if enable_fallback cfg && negb (lazy_hard_failure st) && mem e (c_prio c)
                      then Some (new_match b e (threshold cfg) false [] decoded) else None))
      else
        let cd_ratios := if String.eqb e "ascii" then []
                         else flat_map (fun ch => match coh R ch (language_threshold cfg) target_languages with
                                                  | Some l => [l] | None => [] end) (md_chunks st) in
        let merged := merge R cd_ratios in
        let m := new_match b e mean bom merged decoded in
        Ok (Accept m ((flt FO mean (c_01 FO) && mem e (c_prio c))
                      || String.eqb e (unwrap_or (sig_enc c) ""))).

  (* the stand-alone verdict of an encoding: what the body computes when nothing skips it;
     a function of the payload, the settings and the mark only *)
  Definition probe (c : ctx) (e : string) : res verdict :=
    p <- probe_pre c e ;;
    match p with
    | None => Ok HardFail
    | Some (start_idx, decoded) => probe_rest c e start_idx decoded
    end.

  Definition gate_filtered (c : ctx) (e : string) : bool :=
    let cfg := c_cfg c in
    (negb (len (include_encodings cfg) =? 0) && negb (mem e (include_encodings cfg)))
    || mem e (exclude_encodings cfg).
  Definition gate_utf16 (c : ctx) (e : string) : bool :=
    negb (is_bom c e) && mem e ["utf-16le"; "utf-16be"]%string.
  Definition gate_similar (s_soft : list string) (e : string) : bool :=
    existsb (fun sf => is_cp_similar e sf) s_soft.

  Inductive step_out : Type :=
  | Next (s : loop_state)
  | Return (r : list cmatch).

  Definition set_soft (s : loop_state) (e : string) : loop_state :=
    {| soft_failed := soft_failed s ++ [e]; results := results s;
       fb_ascii := fb_ascii s; fb_u8 := fb_u8 s; fb_specified := fb_specified s |}.
  Definition set_fallback (c : ctx) (s : loop_state) (e : string) (entry : cmatch) : loop_state :=
    if String.eqb e (c_specified c) then
      {| soft_failed := soft_failed s; results := results s; fb_ascii := fb_ascii s;
         fb_u8 := fb_u8 s; fb_specified := Some entry |}
    else if String.eqb e "ascii" then
      {| soft_failed := soft_failed s; results := results s; fb_ascii := Some entry;
         fb_u8 := fb_u8 s; fb_specified := fb_specified s |}
    else
      {| soft_failed := soft_failed s; results := results s; fb_ascii := fb_ascii s;
         fb_u8 := Some entry; fb_specified := fb_specified s |}.
  Definition set_results (s : loop_state) (rs : list cmatch) : loop_state :=
    {| soft_failed := soft_failed s; results := rs; fb_ascii := fb_ascii s;
       fb_u8 := fb_u8 s; fb_specified := fb_specified s |}.

  (* what the loop does with a verdict *)
  Definition apply_verdict (c : ctx) (s : loop_state) (e : string) (v : verdict) : res step_out :=
    match v with
    | Skip | HardFail => Ok (Next s)
    | SoftFail fb =>
        let s1 := set_soft s e in
        Ok (Next match fb with None => s1 | Some entry => set_fallback c s1 e entry end)
    | Accept m exit =>
        let rs := append FO (results s) m in
        if exit then
          match get_by_encoding FO rs e with
          | Some found => Ok (Return (from_single FO found))
          | None => Err (e ++ " entry not present")
          end
        else Ok (Next (set_results s rs))
    end.

  Definition loop_body (c : ctx) (s : loop_state) (e : string) : res step_out :=
    if gate_filtered c e then Ok (Next s)
    else if gate_utf16 c e then Ok (Next s)
    else
      p <- probe_pre c e ;;
      match p with
      | None => Ok (Next s)                                   (* hard failure *)
      | Some (start_idx, decoded) =>
          if gate_similar (soft_failed s) e then Ok (Next s)
          else v <- probe_rest c e start_idx decoded ;; apply_verdict c s e v
      end.

  Fixpoint main_loop (c : ctx) (s : loop_state) (encs : list string) : res step_out :=
    match encs with
    | [] => Ok (Next s)
    | e :: r => o <- loop_body c s e ;;
                match o with
                | Return x => Ok (Return x)
                | Next s' => main_loop c s' r
                end
    end.

  Definition choose_fallback (s : loop_state) : option cmatch :=
    match fb_specified s, fb_u8 s, fb_ascii s with
    | Some sp, _, _ => Some sp
    | None, Some u8, None => Some u8
    | None, Some u8, Some a =>
        if negb (opt_eqb text_eqb (m_text FO u8) (m_text FO a)) then Some u8 else Some a
    | None, _, Some a => Some a
    | _, _, _ => None
    end.

  Definition make_ctx (b : bytes) (cfg0 : settings) (inc exc : list string) : ctx :=
    let n := len b in
    let fits := n <=? chunk_size cfg0 * steps cfg0 in
    let steps1 := if fits then 1 else steps cfg0 in
    let chunk1 := if fits then n else chunk_size cfg0 in
    let chunk2 := if (1 <? steps1) && (n / steps1 <? chunk1) then n / steps1 else chunk1 in
    let cfg := {| steps := steps1; chunk_size := chunk2; threshold := threshold cfg0;
                  include_encodings := inc; exclude_encodings := exc;
                  preemptive_behaviour := preemptive_behaviour cfg0;
                  language_threshold := language_threshold cfg0;
                  enable_fallback := enable_fallback cfg0 |} in
    let spec := if preemptive_behaviour cfg0 then declared R b else None in
    let sg := identify_sig b in
    {| c_bytes := b; c_len := n; c_cfg := cfg; c_lazy := TOO_BIG_SEQUENCE <? n;
       c_specified := unwrap_or spec "";
       c_sig := sg;
       c_prio := (match spec with Some e => [e] | None => [] end)
                 ++ (match sg with Some (e, _) => [e] | None => [] end)
                 ++ ["ascii"; "utf-8"]%string |}.

  Definition init_state : loop_state :=
    {| soft_failed := []; results := []; fb_ascii := None; fb_u8 := None; fb_specified := None |}.

  Definition from_bytes (b : bytes) (cfg0 : settings) : res (list cmatch) :=
    inc <- canon_list "included " " is not a valid encoding name" (include_encodings cfg0) ;;
    exc <- canon_list "excluded encoding " " is not a valid encoding name" (exclude_encodings cfg0) ;;
    match b with
    | [] => Ok (from_single FO (default_match FO))
    | _ =>
      let c := make_ctx b cfg0 inc exc in
      o <- main_loop c init_state (prioritize (c_prio c) IANA_SUPPORTED) ;;
      match o with
      | Return r => Ok r
      | Next s =>
          match results s with
          | [] => match choose_fallback s with
                  | Some fb => Ok (append FO [] fb)
                  | None => Ok []
                  end
          | rs => Ok rs
          end
      end
    end.
End Detect.
