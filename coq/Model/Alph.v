(* cd::alphabet_languages: the languages whose alphabet shares at least 20 % of its characters with the given
   characters, best ratio first.  The candidate set and the ratios are computed here from the generated
   language table; the ORDER among equal ratios is produced by slice::sort_unstable_by on up to ~40 entries
   (beyond the insertion-sort range of the std implementation) and is therefore not modelled: the library's
   answer is taken as an oracle and VALIDATED against this model on every call (alph_check): it must be a
   permutation of the candidates, in non-increasing ratio order. *)
From Coq Require Import List NArith ZArith String Bool.
From Gen Require Import Tables.
From Model Require Import Base Flt F32 Md.
Import ListNotations.
Open Scope N_scope.
Open Scope list_scope.

Fixpoint dedup (l : list N) : list N :=
  match l with
  | [] => []
  | x :: r => if existsb (N.eqb x) r then dedup r else x :: dedup r
  end.

Section Alph.
  Variable FO : FloatOps.
  Variable k02 : F FO.                 (* 0.2f32 *)
  Variable accentuated : N -> bool.    (* utils::is_accentuated (bit ACCENTUATED of the per-character flag word) *)

  Definition alph_candidates (chars : list N) (ignore_non_latin : bool) : list (string * F FO) :=
    let src_has_accents := existsb accentuated chars in
    flat_map (fun l => match l with
      | (lang, alphabet, target_have_accents, target_pure_latin) =>
          if (ignore_non_latin && negb target_pure_latin) || (negb target_have_accents && src_has_accents) then []
          else
            let aset := dedup alphabet in
            let inter := len (filter (fun c => existsb (N.eqb c) chars) aset) in
            let ratio := fdiv FO (f_of_N FO inter) (f_of_N FO (len aset)) in
            if fge FO ratio k02 then [(lang, ratio)] else []
      end) LANGUAGES.

  (* removal of one occurrence of x: the one with the GREATEST ratio (the first among equals).  A language can have
     several rows in the table (Japanese: kanji, hiragana, katakana) and then occurs several times, best row first *)
  Fixpoint take_lang (x : string) (l : list (string * F FO)) : option (F FO * list (string * F FO)) :=
    match l with
    | [] => None
    | (n, r) :: rest =>
        match take_lang x rest with
        | Some (r', rest') =>
            if String.eqb n x && oge FO r r' then Some (r, rest)
            else Some (r', (n, r) :: rest')
        | None => if String.eqb n x then Some (r, rest) else None
        end
    end.

  (* the answer is a permutation of the candidate names, listed in non-increasing (OrderedFloat) ratio order *)
  Fixpoint alph_check_from (prev : option (F FO)) (cands : list (string * F FO)) (answer : list string) : bool :=
    match answer with
    | [] => match cands with [] => true | _ => false end
    | x :: r => match take_lang x cands with
                | None => false
                | Some (ratio, cands') =>
                    (match prev with None => true | Some p => oge FO p ratio end)
                    && alph_check_from (Some ratio) cands' r
                end
    end.
  Definition alph_check (chars : list N) (ignore_non_latin : bool) (answer : list string) : bool :=
    alph_check_from None (alph_candidates chars ignore_non_latin) answer.
End Alph.

Definition k02_32 : F F32ops := of_bits32 1045220557%Z.   (* 0.2f32 = 0x3e4ccccd *)
Definition alph_check32 (flags : N -> N) (chars : list N) (inl : bool) (answer : list string) : bool :=
  alph_check F32ops k02_32 (fun c => N.testbit (flags c) ACCENTUATED) chars inl answer.
