(* Names: the name canonicaliser, label lookup, multi-byte list, similarity table, BOM table,
   alias lookup -- all over the GENERATED tables (Gen/Tables.v), which the translator rebuilds
   from /repo/src/{consts,utils}.rs and the pinned codec crate on every run.
   Anchors: src/utils.rs iana_name / is_multi_byte_encoding / is_cp_similar / identify_sig_or_bom,
            src/entity.rs encoding_aliases, src/consts.rs IANA_SUPPORTED,
            encoding-0.2.33 src/label.rs encoding_from_whatwg_label. *)
From Coq Require Import List NArith String Ascii Bool.
From Gen Require Import Tables.
From Model Require Import Base.
Import ListNotations.
Open Scope N_scope.

Definition enc_display (e : string * string * option string) : string :=
  match e with (_, n, w) => unwrap_or w n end.

(* consts.rs: encodings().filter(name not in [...]).map(whatwg_name.unwrap_or(name)) *)
Definition IANA_SUPPORTED : list string :=
  map enc_display (filter (fun e => match e with (_, n, _) => negb (mem n FILTERED_NAMES) end) ENCODINGS).

(* label.rs: trim_matches over LABEL_TRIM, then ASCII lower-casing *)
Definition is_trim (c : N) : bool := existsb (N.eqb c) LABEL_TRIM.
Fixpoint trim_left (l : list N) : list N :=
  match l with c :: r => if is_trim c then trim_left r else l | [] => [] end.
Definition trim (l : list N) : list N := rev (trim_left (rev (trim_left l))).
Definition lower (c : N) : N := if (65 <=? c) && (c <=? 90) then c + 32 else c.
Definition normalize_label (s : string) : string :=
  string_of_bytes (map lower (trim (bytes_of_string s))).

(* the encoding constant a label resolves to *)
Definition label_const (s : string) : option string := assoc_first (normalize_label s) LABELS.

Fixpoint const_info (v : string) (l : list (string * string * option string)) : option (string * option string) :=
  match l with
  | [] => None
  | (v', n, w) :: r => if String.eqb v' v then Some (n, w) else const_info v r
  end.

(* utils.rs iana_name *)
Definition iana_name (s : string) : option string :=
  if mem s IANA_SUPPORTED then Some s
  else match label_const s with
       | Some v => match const_info v ENCODING_CONSTS with
                   | Some (n, w) => Some (unwrap_or w n)
                   | None => None
                   end
       | None => None
       end.

(* the codec utils::decode / encode use for a name: encoding_from_whatwg_label(name) *)
Definition codec_of (s : string) : option string := label_const s.

Definition is_multi_byte (s : string) : bool := mem s MULTI_BYTE.

(* HashMap::from_iter keeps the LAST entry of a duplicated key *)
Definition is_cp_similar (a b : string) : bool :=
  match assoc_last a SIMILAR with Some l => mem b l | None => false end.

(* ENCODING_MARKS.iter().find(starts_with): the map order is irrelevant because the marks are
   pairwise non-prefix (Proofs/NamesFacts.v marks_prefix_free) *)
Definition identify_sig (b : bytes) : option (string * list N) :=
  find (fun em => starts_with b (snd em)) MARKS.

Definition alias_lookup (e : string) : option (list string) := assoc_last e ALIASES.

(* entity.rs encoding_aliases: `.expect(..)` *)
Definition encoding_aliases (e : string) : res (list string) :=
  match alias_lookup e with Some l => Ok l | None => Panic "encoding_aliases: expect" end.

(* a name detection can report: in the supported list and resolvable by utils::decode *)
Definition reportable (e : string) : bool :=
  mem e IANA_SUPPORTED && match codec_of e with Some _ => true | None => false end.
Definition REPORTABLE : list string := filter reportable IANA_SUPPORTED.

(* cd.rs mb_encoding_languages *)
Definition mb_languages (e : string) : list string :=
  match assoc_last e ENCODING_TO_LANGUAGE with Some l => [l] | None => [] end.

(* utils.rs unicode_range: first row containing the code point *)
Definition unicode_range (c : N) : option string :=
  match find (fun r => match r with (_, lo, hi) => (lo <=? c) && (c <=? hi) end) UNICODE_RANGES with
  | Some (n, _, _) => Some n
  | None => None
  end.
