(* Extraction of the executable models to OCaml for the correspondence driver.
   Only ExtrOcamlBasic's directives are used (bool, option, unit, list, prod, sumbool, ... to
   their OCaml twins); no Extract Constant, no native integers or strings. *)
From Coq Require Import Extraction ExtrOcamlBasic.
From Coq Require Import List NArith ZArith String.
From Gen Require Import Tables.
From Model Require Import Base Names Flt F32 Matches Detect Declared Cd Decode Cli Md Md32 Layers SbLangs Jaro Jaro32 Pipeline Alph Utf Codecs.

Extraction Language OCaml.
Separate Extraction
  Base.bytes_of_string Base.string_of_bytes
  Names.iana_name Names.is_multi_byte Names.is_cp_similar Names.identify_sig Names.encoding_aliases
  Names.IANA_SUPPORTED Names.REPORTABLE Names.mb_languages Names.unicode_range Names.codec_of
  F32.F32ops F32.of_bits32 F32.to_bits32
  Matches.cmp Matches.cmp_key Matches.append Matches.matches_new Matches.get_by_encoding Matches.get_best
  Matches.unicode_ranges Matches.most_probably_language Matches.multi_byte_usage Matches.coherence
  Matches.languages Matches.suitable_encodings Matches.chaos_percents Matches.coherence_percents
  Detect.from_bytes Detect.probe Detect.make_ctx
  Declared.any_specified_encoding
  Cd.coherence_ratio Cd.merge_coherence_ratios Cd.filter_alt Cd.most_common
  Decode.helper Decode.utf8_decoder Decode.sb_decoder
  Cli.run
  Md.mess_ratio Md.suspicious Md32.md_consts32
  Layers.alpha_unicode_split
  SbLangs.sb_langs32
  Jaro32.popularity32 Jaro32.jaro32
  Pipeline.pipeline Pipeline.pipeline_dec
  Utf.utf8_encode Utf.utf8_chars Utf.utf16_encode Utf.utf16_helper Utf.utf16_decoder Utf.is_scalar
  Codecs.modelled_codec Codecs.codec_strict Codecs.codec_test Codecs.codec_chunk
  Alph.alph_check32.
