(* The Unicode transformation formats as the implementation uses them:
   - UTF-8 at the character level: `char::encode_utf8` / `String` contents (utf8_encode) and `str::chars` on
     the bytes the codec crate's UTF-8 decoder accepted (utf8_chars).  Model/Decode.v has the decoder itself
     (the crate's automaton, whose output is the accepted bytes).
   - UTF-16LE / UTF-16BE: the codec crate's UTF16Decoder<E> (encoding-0.2.33 src/codec/utf_16.rs:167-313) with
     its two-field state (pending lead byte, pending lead surrogate; 0xffff = none, here `option`), and its
     UTF16Encoder<E> (same file, 113-145).
   The decoders plug into the loop of utils::decode (Model/Decode.v `helper`). *)
From Coq Require Import List NArith ZArith String Bool.
From Model Require Import Base Names Decode.
Import ListNotations.
Open Scope N_scope.
Open Scope list_scope.

(* a Rust `char` *)
Definition is_scalar (c : N) : bool := (c <? 55296) || ((57344 <=? c) && (c <? 1114112)).

(* ---------- UTF-8, character level ---------- *)
Definition utf8_encode_char (c : N) : bytes :=
  if c <? 128 then [c]
  else if c <? 2048 then [192 + c / 64; 128 + c mod 64]
  else if c <? 65536 then [224 + c / 4096; 128 + (c / 64) mod 64; 128 + c mod 64]
  else [240 + c / 262144; 128 + (c / 4096) mod 64; 128 + (c / 64) mod 64; 128 + c mod 64].

Definition utf8_encode (t : text) : bytes := flat_map utf8_encode_char t.

(* str::chars() -- meaningful on well-formed UTF-8 only (a String is always well formed); on a truncated
   tail it stops *)
Fixpoint utf8_chars (l : bytes) : text :=
  match l with
  | [] => []
  | b0 :: r =>
      if b0 <? 128 then b0 :: utf8_chars r
      else if b0 <? 224 then
        match r with
        | b1 :: r1 => ((b0 mod 32) * 64 + b1 mod 64) :: utf8_chars r1
        | _ => []
        end
      else if b0 <? 240 then
        match r with
        | b1 :: b2 :: r2 => ((b0 mod 16) * 4096 + (b1 mod 64) * 64 + b2 mod 64) :: utf8_chars r2
        | _ => []
        end
      else
        match r with
        | b1 :: b2 :: b3 :: r3 => ((b0 mod 8) * 262144 + (b1 mod 64) * 4096 + (b2 mod 64) * 64 + b3 mod 64) :: utf8_chars r3
        | _ => []
        end
  end.

(* the helper on UTF-8 with the text as characters *)
Definition utf8_strict_text (input : bytes) : option text := option_map utf8_chars (utf8_strict_decode input).
Definition utf8_chunk_text (input : bytes) : option text := option_map utf8_chars (utf8_chunk_decode input).
Definition utf8_test (input : bytes) : bool :=
  match helper utf8_decoder [239; 191; 189] input Strict true false true with HOk _ => true | _ => false end.

(* ---------- UTF-16 ---------- *)
(* Endian::concat_two_bytes(lead, trail): Little = lead | trail << 8 ; Big = lead << 8 | trail *)
Definition concat2 (big : bool) (lead trail : N) : N := if big then lead * 256 + trail else lead + trail * 256.

Definition is_hi (ch : N) : bool := (55296 <=? ch) && (ch <=? 56319).    (* 0xd800...0xdbff *)
Definition is_lo (ch : N) : bool := (56320 <=? ch) && (ch <=? 57343).    (* 0xdc00...0xdfff *)
Definition pair_char (upper lower : N) : N := (upper - 55296) * 1024 + (lower - 56320) + 65536.

Record u16_state : Type := { lead_byte : option N; lead_surr : option N }.
Definition u16_init : u16_state := {| lead_byte := None; lead_surr := None |}.

Definition inv (upto : Z) : option codec_error := Some {| upto := upto; err_cause := Invalid |}.

(* the `while i < len` loop (utf_16.rs:248-297), entered with i = processed at a code-unit boundary.
   `l` = input[i..]; `racc` = the characters written so far, newest first; returns (state, processed, output, error). *)
Fixpoint u16_main (big : bool) (i : N) (l : bytes) (racc : list N) {struct l} : u16_state * N * list N * option codec_error :=
  match l with
  | [] => (u16_init, i, rev racc, None)
  | [b] => ({| lead_byte := Some b; lead_surr := None |}, i, rev racc, None)
  | b0 :: b1 :: r =>
      let ch := concat2 big b0 b1 in
      if is_hi ch then
        (* i += 1 (to the trail byte), then i += 2 *)
        match r with
        | [] => ({| lead_byte := None; lead_surr := Some ch |}, i, rev racc, None)
        | [b2] => ({| lead_byte := Some b2; lead_surr := Some ch |}, i, rev racc, None)
        | b2 :: b3 :: r' =>
            let ch2 := concat2 big b2 b3 in
            if is_lo ch2 then u16_main big (i + 4) r' (pair_char ch ch2 :: racc)
            else (u16_init, i, rev racc, inv (Z.of_N i + 2))      (* upto = i - 1 with i at the second trail byte *)
        end
      else if is_lo ch then (u16_init, i, rev racc, inv (Z.of_N i + 2))   (* upto = i + 1 with i at the trail byte *)
      else u16_main big (i + 2) r (ch :: racc)
  end.

(* raw_feed *)
Definition u16_feed (big : bool) (s : u16_state) (input : bytes) : u16_state * N * list N * option codec_error :=
  match input with
  | [] => (s, 0, [], None)
  | b0 :: rest =>
    (* phase 1: a pending lead byte *)
    let ph1 : (u16_state * N * list N * option codec_error) + (u16_state * N * N * list N) :=
      (* inl = return now; inr (state, i, processed, out) = go on *)
      match lead_byte s with
      | Some lb =>
          let ch := concat2 big lb b0 in
          match lead_surr s with
          | Some upper =>
              if is_lo ch then inr ({| lead_byte := None; lead_surr := None |}, 1, 1, [pair_char upper ch])
              else inl (u16_init, 0, [], inv (-1))
          | None =>
              if is_hi ch then inr ({| lead_byte := None; lead_surr := Some ch |}, 1, 0, [])
              else if is_lo ch then inl (u16_init, 0, [], inv 1)
              else inr ({| lead_byte := None; lead_surr := None |}, 1, 1, [ch])
          end
      | None => inr (s, 0, 0, [])
      end in
    match ph1 with
    | inl r => r
    | inr (s1, i, processed, out) =>
      if len input <=? i then
        (s1, processed, out, None)
      else
        let l1 := skipn (N.to_nat i) input in
        (* phase 2: a pending lead surrogate *)
        match lead_surr s1 with
        | Some upper =>
            match l1 with
            | [] => (s1, processed, out, None)
            | [b] => ({| lead_byte := Some b; lead_surr := Some upper |}, processed, out, None)
            | b1 :: b2 :: r =>
                let ch := concat2 big b1 b2 in
                if is_lo ch then u16_main big (i + 2) r (pair_char upper ch :: rev out)
                else (u16_init, processed, out, inv (Z.of_N i))     (* upto = i - 2 after i += 2 *)
            end
        | None => u16_main big i l1 (rev out)
        end
    end
  end.

Definition u16_finish (s : u16_state) : u16_state * list N * option codec_error :=
  (u16_init, [],
   match lead_byte s, lead_surr s with
   | None, None => None
   | _, _ => Some {| upto := 0; err_cause := Incomplete |}
   end).

Definition utf16_decoder (big : bool) : raw_decoder N := {|
  dstate := u16_state;
  dinit := u16_init;
  dfeed := u16_feed big;
  dfinish := u16_finish;
|}.

(* UTF16Encoder::raw_feed *)
Definition two_bytes (big : bool) (msb lsb : N) : bytes := if big then [msb; lsb] else [lsb; msb].
Definition utf16_encode_char (big : bool) (c : N) : bytes :=
  if c <? 65536 then two_bytes big (c / 256) (c mod 256)
  else let c' := c - 65536 in
       two_bytes big (216 + c' / 262144) ((c' / 1024) mod 256) ++ two_bytes big (220 + (c' / 256) mod 4) (c' mod 256).
Definition utf16_encode (big : bool) (t : text) : bytes := flat_map (utf16_encode_char big) t.

(* the public helper on UTF-16 (multi-byte: chunk mode trims) *)
Definition utf16_helper (big : bool) (input : bytes) (t : trap_mode) (only_test is_chunk : bool) : helper_result (Out := N) :=
  helper (utf16_decoder big) [65533] input t only_test is_chunk true.
Definition utf16_strict_text (big : bool) (input : bytes) : option text :=
  match utf16_helper big input Strict false false with HOk out => Some out | _ => None end.
Definition utf16_chunk_text (big : bool) (input : bytes) : option text :=
  match utf16_helper big input Strict false true with HOk out => Some out | _ => None end.
Definition utf16_test (big : bool) (input : bytes) : bool :=
  match utf16_helper big input Strict true false with HOk _ => true | _ => false end.
