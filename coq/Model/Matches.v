(* CharsetMatch / CharsetMatches (src/entity.rs): the record, its accessors, the pairwise
   comparison `Ord for CharsetMatch`, and the container with its merge rule and re-sort.
   `sort_unstable` is modelled as the insertion sort the standard library runs for slices of
   at most 20 elements (core::slice::sort::unstable: MAX_LEN_ALWAYS_INSERTION_SORT = 20,
   insertion_sort_shift_left(v, 1, is_less)). *)
From Coq Require Import List NArith String Bool.
From Gen Require Import Tables.
From Model Require Import Base Names Flt.
Import ListNotations.
Open Scope N_scope.

Section Matches.
  Variable O : FloatOps.
  Notation F := (F O).

  Definition cohlist : Type := list (string * F).   (* (language, score) *)

  Inductive cmatch : Type :=
    CM (payload : bytes) (enc : string) (chaos : F) (coh : cohlist) (bom : bool)
       (sub : list cmatch) (txt : option text).

  Definition m_payload m := match m with CM p _ _ _ _ _ _ => p end.
  Definition m_enc m := match m with CM _ e _ _ _ _ _ => e end.
  Definition m_chaos m := match m with CM _ _ c _ _ _ _ => c end.
  Definition m_coh m := match m with CM _ _ _ c _ _ _ => c end.
  Definition m_bom m := match m with CM _ _ _ _ b _ _ => b end.
  Definition m_sub m := match m with CM _ _ _ _ _ s _ => s end.
  Definition m_text m := match m with CM _ _ _ _ _ _ t => t end.

  (* CharsetMatch::default() *)
  Definition default_match : cmatch := CM [] "utf-8" (fzero O) [] false [] None.

  (* coherence(): first score or 0.0 *)
  Definition coherence (m : cmatch) : F :=
    match m_coh m with (_, s) :: _ => s | [] => fzero O end.
  Definition languages (m : cmatch) : list string := map fst (m_coh m).
  Definition suitable_encodings (m : cmatch) : list string := m_enc m :: map m_enc (m_sub m).
  Definition chaos_percents (m : cmatch) : F := fmul O (m_chaos m) (c_100 O).
  Definition coherence_percents (m : cmatch) : F := fmul O (coherence m) (c_100 O).

  (* multi_byte_usage(): 1.0 - (chars as f32 / payload_len as f32) *)
  Definition multi_byte_usage (m : cmatch) : F :=
    fsub O (fone O) (fdiv O (f_of_N O (len (unwrap_or (m_text m) []))) (f_of_N O (len (m_payload m)))).

  (* most_probably_language(); sb_langs is cd::encoding_languages (an oracle) *)
  Definition most_probably_language (sb_langs : string -> list string) (m : cmatch) : string :=
    match m_coh m with
    | (l, _) :: _ => l
    | [] => if mem "ascii" (suitable_encodings m) then "English"
            else let ls := if is_multi_byte (m_enc m) then mb_languages (m_enc m) else sb_langs (m_enc m) in
                 match ls with l :: _ => l | [] => "Unknown" end
    end%string.

  (* unicode_ranges(): set of range names of the characters, sorted, duplicate free.
     Strings are compared bytewise (Rust `String: Ord`). *)
  Fixpoint str_ltb (a b : string) : bool :=
    match a, b with
    | EmptyString, EmptyString => false
    | EmptyString, String _ _ => true
    | String _ _, EmptyString => false
    | String x a', String y b' =>
        let nx := Ascii.N_of_ascii x in let ny := Ascii.N_of_ascii y in
        if nx <? ny then true else if ny <? nx then false else str_ltb a' b'
    end.
  Fixpoint insert_sorted_str (s : string) (l : list string) : list string :=
    match l with
    | [] => [s]
    | x :: r => if String.eqb s x then l else if str_ltb s x then s :: l else x :: insert_sorted_str s r
    end.
  Definition unicode_ranges_of (t : text) : list string :=
    fold_left (fun acc c => match unicode_range c with Some r => insert_sorted_str r acc | None => acc end) t [].
  Definition unicode_ranges (m : cmatch) : list string := unicode_ranges_of (unwrap_or (m_text m) []).

  (* ---- Ord for CharsetMatch ---- *)
  Definition key : Type := (F * F * F)%type.   (* chaos, coherence, multi_byte_usage *)
  Definition key_of (m : cmatch) : key := (m_chaos m, coherence m, multi_byte_usage m).

  Definition cmp_key (a b : key) : comparison :=
    match a, b with
    | (ca, ha, ua), (cb, hb, ub) =>
      let mess_difference := fabs O (fsub O ca cb) in
      let coherence_difference := fabs O (fsub O ha hb) in
      if flt O mess_difference (c_001 O) then
        if fgt O coherence_difference (c_002 O) then ocmp O hb ha
        else
          let delta := fabs O (fsub O ua ub) in
          if fgt O delta (c_eps O) then ocmp O ub ua
          else ocmp O ca cb
      else ocmp O ca cb
    end.
  Definition cmp (a b : cmatch) : comparison := cmp_key (key_of a) (key_of b).
  Definition is_less (a b : cmatch) : bool := match cmp a b with Lt => true | _ => false end.

  (* ---- insertion sort as core::slice::sort::shared::smallsort::insertion_sort_shift_left ----
     `r` is the already sorted prefix in REVERSE order; the new tail element x moves left past
     every y with is_less(x, y) and stops at the first y with !is_less(x, y). *)
  Section Sort.
    Context {A : Type} (lt : A -> A -> bool).
    Fixpoint ins_rev (x : A) (r : list A) : list A :=
      match r with
      | [] => [x]
      | y :: r' => if lt x y then y :: ins_rev x r' else x :: r
      end.
    Definition isort (l : list A) : list A := rev (fold_left (fun r x => ins_rev x r) l []).
  End Sort.

  Definition resort (l : list cmatch) : list cmatch := isort is_less l.

  (* ---- CharsetMatches ---- *)
  Definition matches_new (items : list cmatch) : list cmatch := resort items.
  Definition from_single (m : cmatch) : list cmatch := [m].

  Definition add_submatch (m item : cmatch) : cmatch :=
    match m with CM p e c h b s t => CM p e c h b (s ++ [item]) t end.

  Definition same_result (m item : cmatch) : bool :=
    opt_eqb text_eqb (m_text m) (m_text item)
    && flt O (fabs O (fsub O (m_chaos m) (m_chaos item))) (c_eps O).

  Fixpoint merge_into (items : list cmatch) (item : cmatch) : option (list cmatch) :=
    match items with
    | [] => None
    | m :: r => if same_result m item then Some (add_submatch m item :: r)
                else match merge_into r item with Some r' => Some (m :: r') | None => None end
    end.

  Definition append (items : list cmatch) (item : cmatch) : list cmatch :=
    let pushed := resort (items ++ [item]) in
    if len (m_payload item) <=? TOO_BIG_SEQUENCE then
      match merge_into items item with Some l => l | None => pushed end
    else pushed.

  Definition get_best (items : list cmatch) : option cmatch := hd_error items.

  Definition get_by_encoding (items : list cmatch) (name : string) : option cmatch :=
    match iana_name name with
    | None => None
    | Some e => find (fun i => mem e (suitable_encodings i)) items
    end.

  (* Index<usize>: panics out of bounds *)
  Definition index (items : list cmatch) (i : N) : res cmatch :=
    match nth_error items (N.to_nat i) with Some m => Ok m | None => Panic "index out of bounds" end.
End Matches.

Arguments CM {O}.
Arguments ins_rev {A}.
Arguments isort {A}.
