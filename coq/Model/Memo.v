(* The #[cached] expansion (cached_proc_macro 0.25.0, no sync_writes, no result_fallback):
     { lock; if let Some(v) = cache.get(&key) { return v } unlock }  compute  { lock; cache.set(key, v); unlock }
   as a transition system over N threads, one mutex per cache (each critical section is an atomic
   step: the code never holds the lock across the computation and never takes a second lock while
   holding one), a store whose `set` may evict ANY entries (covers SizedCache LRU of 128 / 2048
   entries and the unbounded map), and an arbitrary scheduler. *)
From Coq Require Import List NArith Bool.
Import ListNotations.

Section Memo.
  Context {A K V : Type}.
  Variable f : A -> V.                 (* the function under the attribute (deterministic: C03) *)
  Variable key : A -> K.               (* the key expression of the attribute *)
  Variable keqb : K -> K -> bool.

  Definition store : Type := list (K * V).

  Fixpoint get (s : store) (k : K) : option V :=
    match s with [] => None | (k', v) :: r => if keqb k' k then Some v else get r k end.

  (* cache_set with an arbitrary eviction policy `keep` *)
  Definition set (keep : K * V -> bool) (s : store) (k : K) (v : V) : store := (k, v) :: filter keep s.

  (* ---------- sequential calls ---------- *)
  Definition call (keep : K * V -> bool) (s : store) (a : A) : V * store :=
    match get s (key a) with
    | Some v => (v, s)
    | None => let v := f a in (v, set keep s (key a) v)
    end.

  (* a history: arguments with the eviction policy in force at each call *)
  Fixpoint run (s : store) (h : list (A * (K * V -> bool))) : list V * store :=
    match h with
    | [] => ([], s)
    | (a, keep) :: r => let (v, s1) := call keep s a in let (vs, s2) := run s1 r in (v :: vs, s2)
    end.

  (* ---------- threads ---------- *)
  Inductive phase : Type :=
  | Idle                         (* about to start the next call: lock, get, unlock *)
  | Computing (a : A)            (* missed: running the function body, no lock held *)
  | Storing (a : A) (v : V).     (* computed: lock, set, unlock, return *)

  Record thread : Type := { todo : list A; ph : phase; done : list (A * V) }.

  Record sys : Type := { cache : store; threads : list thread }.

  (* one step of thread t against the shared cache; None = the thread has finished *)
  Definition thread_step (keep : K * V -> bool) (s : store) (t : thread) : option (store * thread) :=
    match ph t, todo t with
    | Idle, [] => None
    | Idle, a :: r =>
        match get s (key a) with
        | Some v => Some (s, {| todo := r; ph := Idle; done := done t ++ [(a, v)] |})
        | None => Some (s, {| todo := r; ph := Computing a; done := done t |})
        end
    | Computing a, _ => Some (s, {| todo := todo t; ph := Storing a (f a); done := done t |})
    | Storing a v, _ => Some (set keep s (key a) v, {| todo := todo t; ph := Idle; done := done t ++ [(a, v)] |})
    end.

  Fixpoint replace_nth {T} (n : nat) (x : T) (l : list T) : list T :=
    match l, n with
    | [], _ => []
    | _ :: r, O => x :: r
    | y :: r, S m => y :: replace_nth m x r
    end.

  (* the scheduler picks thread i (and the eviction policy of a possible set); a pick of a finished or
     non-existent thread is a stutter *)
  Definition sys_step (st : sys) (pick : nat * (K * V -> bool)) : sys :=
    match nth_error (threads st) (fst pick) with
    | None => st
    | Some t => match thread_step (snd pick) (cache st) t with
                | None => st
                | Some (s', t') => {| cache := s'; threads := replace_nth (fst pick) t' (threads st) |}
                end
    end.

  Definition sys_run (st : sys) (schedule : list (nat * (K * V -> bool))) : sys := fold_left sys_step schedule st.

  (* remaining work of a thread: 3 steps per pending call at most *)
  Definition work (t : thread) : nat :=
    3 * length (todo t) + match ph t with Idle => 0 | Computing _ => 2 | Storing _ _ => 1 end.
  Definition finished (t : thread) : bool := match ph t, todo t with Idle, [] => true | _, _ => false end.
End Memo.
