(* C08 -- ranking: a candidate preferred over all others comes first; one that all others are
   preferred to comes last; get_best() is the first element.
   `sort_unstable` is modelled as the insertion sort the standard library runs for slices of at
   most 20 elements (exact; checked bit for bit by the container correspondence for every list of
   <= 20 items).  For longer lists the std algorithm (pattern-defeating quicksort with insertion
   sort leaves) is NOT modelled: there the theorem is about the model only and the tie is the
   implementation-side dominance check on real containers of 21..64 items. *)
From Coq Require Import List NArith String Bool.
From Model Require Import Base Names Flt F32 Matches Detect.
From Proofs Require Import SortFacts ContainerFacts FloatLaws F32Facts SortAdjacent.
From Model Require Import F32.
From Proofs Require Import F32Laws.
Import ListNotations.

(* every container reachable through the public API keeps its key sequence equal to an insertion
   sort of some key list *)
Theorem C08_container_invariant :
  forall FO, KS FO [] /\ (forall items, KS FO (matches_new FO items)) /\ (forall m, KS FO (from_single FO m))
             /\ (forall items item, KS FO items -> KS FO (append FO items item)).
Proof. intro FO. split; [apply KS_nil|]. split; [apply KS_new|]. split; [apply KS_single|apply KS_append]. Qed.
Print Assumptions C08_container_invariant.

Theorem C08_detection_results_ranked :
  forall FO (R : oracles FO) b cfg r, from_bytes FO R b cfg = Ok r -> KS FO r.
Proof. exact from_bytes_KS. Qed.
Print Assumptions C08_detection_results_ranked.

(* a match that beats every other one is first and is what get_best returns *)
Theorem C08_dominant_first :
  forall FO c l1 d l2, KS FO c -> c = l1 ++ d :: l2 ->
    (forall x, In x (l1 ++ l2) -> kbeats FO (key_of FO d) (key_of FO x)) ->
    l1 = [] /\ get_best FO c = Some d.
Proof. exact dominant_first. Qed.
Print Assumptions C08_dominant_first.

(* a match every other one beats is last *)
Theorem C08_dominated_last :
  forall FO c l1 d l2, KS FO c -> c = l1 ++ d :: l2 ->
    (forall x, In x (l1 ++ l2) -> kbeats FO (key_of FO x) (key_of FO d)) -> l2 = [].
Proof. exact dominated_last. Qed.
Print Assumptions C08_dominated_last.

Theorem C08_get_best_first : forall FO c, get_best FO c = hd_error c.
Proof. exact get_best_is_first. Qed.
Print Assumptions C08_get_best_first.

(* "preferred" in the documented one-sided sense (cmp = Less) gives the two-sided condition:
   the comparison is antisymmetric.  CmpLaws: |x-y| = |y-x| (hypothesis) and totality of the
   NaN-greatest order (proved of the Flocq instance below). *)
Theorem C08_prefers_is_two_sided :
  forall FO, CmpLaws FO -> forall a b, cmp_key FO a b = Lt -> kbeats FO a b.
Proof. exact prefers_kbeats. Qed.
Print Assumptions C08_prefers_is_two_sided.

Theorem C08_f32_order_total : forall a b : f32, oge F32ops a b = true \/ oge F32ops b a = true.
Proof. exact f32_oge_total. Qed.
Print Assumptions C08_f32_order_total.

(* the sort itself: a permutation, for ANY comparison *)
Theorem C08_sort_is_permutation : forall A (lt : A -> A -> bool) l, Permutation.Permutation (isort lt l) l.
Proof. intros. apply isort_perm. Qed.
Print Assumptions C08_sort_is_permutation.

(* for binary32 the order laws are proved (Proofs/F32Laws.v): "a is preferred to b" is two-sided *)
Theorem C08_prefers_is_two_sided_binary32 :
  forall a b, cmp_key F32ops a b = Lt -> kbeats F32ops a b.
Proof. exact (C08_prefers_is_two_sided F32ops F32_CmpLaws). Qed.
Print Assumptions C08_prefers_is_two_sided_binary32.

Theorem C08_cmp_laws_hold_for_binary32 : CmpLaws F32ops.
Proof. exact F32_CmpLaws. Qed.
Print Assumptions C08_cmp_laws_hold_for_binary32.

(* ranking beyond the extremes: in every container reachable through the public API, and in every
   result of from_bytes, NO match is strictly preferred to the one listed just before it -- for any
   number of matches and without transitivity (which the tolerance comparison does not have).
   Needs only |x-y| = |y-x| and totality of the NaN-greatest order (CmpLaws). *)
Theorem C08_no_adjacent_inversion :
  forall FO, CmpLaws FO -> forall c l1 a b l2, KS FO c -> c = l1 ++ a :: b :: l2 -> is_less FO b a = false.
Proof. exact container_adjacent. Qed.
Print Assumptions C08_no_adjacent_inversion.

Theorem C08_detection_no_adjacent_inversion :
  forall FO, CmpLaws FO -> forall (R : oracles FO) bytes cfg r l1 a b l2,
    from_bytes FO R bytes cfg = Ok r -> r = l1 ++ a :: b :: l2 -> cmp FO b a <> Lt.
Proof. exact from_bytes_adjacent. Qed.
Print Assumptions C08_detection_no_adjacent_inversion.

(* the sort itself, for ANY asymmetric comparison *)
Theorem C08_sort_no_adjacent_inversion :
  forall A (lt : A -> A -> bool), (forall a b, lt a b = true -> lt b a = false) ->
  forall l l1 a b l2, isort lt l = l1 ++ a :: b :: l2 -> lt b a = false.
Proof. exact @isort_adjacent. Qed.
Print Assumptions C08_sort_no_adjacent_inversion.

Theorem C08_detection_no_adjacent_inversion_binary32 :
  forall (R : oracles F32ops) bytes cfg r l1 a b l2,
    from_bytes F32ops R bytes cfg = Ok r -> r = l1 ++ a :: b :: l2 -> cmp F32ops b a <> Lt.
Proof. exact (C08_detection_no_adjacent_inversion F32ops F32_CmpLaws). Qed.
Print Assumptions C08_detection_no_adjacent_inversion_binary32.

(* non-vacuity: a list with a tie is sorted without adjacent inversion *)
Example C08_adjacent_example :
  isort N.ltb [3; 1; 2; 1]%N = [1; 1; 2; 3]%N.
Proof. reflexivity. Qed.
