(* C13 -- inputs that fit the analysis window are analysed in full. *)
From Coq Require Import List NArith String Bool.
From Gen Require Import Tables.
From Model Require Import Base Names Flt Matches Detect.
From Proofs Require Import FloatLaws DetectWindow.
From Model Require Import Md.
From Proofs Require Import MdFacts.
From Model Require Import F32.
From Proofs Require Import F32Laws.
Open Scope N_scope.

(* the whole result is identical under any window parameters that also cover the input *)
Theorem C13_covering_windows_agree :
  forall FO (R : oracles FO) b cfg st ch,
    len b <= chunk_size FO cfg * steps FO cfg -> len b <= ch * st ->
    from_bytes FO R b cfg = from_bytes FO R b (with_window FO cfg st ch).
Proof. exact covering_windows_agree. Qed.
Print Assumptions C13_covering_windows_agree.

(* on a covered input (at most TOO_BIG_SEQUENCE bytes) the chaos of any accepted candidate is a
   function of its decoded text and the threshold only: mess(text, threshold), or +0 for an empty
   text; acceptance is chaos_fn < threshold.  DecodeLen: at most one character per byte. *)
Theorem C13_chaos_function :
  forall FO (R : oracles FO), FloatLaws FO ->
    (forall e l t, sdecode FO R e l = Some t -> len t <= len l) ->
  forall b cfg inc exc e m x,
    len b <= chunk_size FO cfg * steps FO cfg -> len b <= TOO_BIG_SEQUENCE ->
    probe FO R (make_ctx FO R b cfg inc exc) e = Ok (Accept FO m x) ->
    exists t, m_text FO m = Some t /\ m_chaos FO m = chaos_fn FO R t (threshold FO cfg)
              /\ fge FO (chaos_fn FO R t (threshold FO cfg)) (threshold FO cfg) = false.
Proof. intros FO R FL HD b cfg inc exc e m x. exact (covered_probe_chaos FO R FL HD b cfg inc exc e m x). Qed.
Print Assumptions C13_chaos_function.

(* hence any two encodings that yield the same text get the same chaos and the same accept /
   reject decision (apart from the 'ascii' is_ascii rule), with or without BOM *)
Theorem C13_same_text_same_chaos :
  forall FO (R : oracles FO), FloatLaws FO ->
  forall c e1 e2 si1 si2 t m1 x1 v2,
    covered FO c -> lazy_sb FO c e1 = false -> lazy_sb FO c e2 = false -> len t <= c_len FO c ->
    probe_rest FO R c e1 si1 (Some t) = Ok (Accept FO m1 x1) ->
    probe_rest FO R c e2 si2 (Some t) = Ok v2 ->
    is_invalid_chunk (Some t) e2 = false ->
    exists m2 x2, v2 = Accept FO m2 x2 /\ m_chaos FO m2 = m_chaos FO m1 /\ m_text FO m2 = m_text FO m1.
Proof. intros FO R FL. exact (same_text_same_chaos FO R FL). Qed.
Print Assumptions C13_same_text_same_chaos.

(* binary32 instance: no float hypothesis left *)
Theorem C13_chaos_function_binary32 :
  forall (R : oracles F32ops),
    (forall e l t, sdecode F32ops R e l = Some t -> len t <= len l) ->
  forall b cfg inc exc e m x,
    len b <= chunk_size F32ops cfg * steps F32ops cfg -> len b <= TOO_BIG_SEQUENCE ->
    probe F32ops R (make_ctx F32ops R b cfg inc exc) e = Ok (Accept F32ops m x) ->
    exists t, m_text F32ops m = Some t /\ m_chaos F32ops m = chaos_fn F32ops R t (threshold F32ops cfg)
              /\ fge F32ops (chaos_fn F32ops R t (threshold F32ops cfg)) (threshold F32ops cfg) = false.
Proof. intros R. exact (C13_chaos_function F32ops R F32_FloatLaws). Qed.
Print Assumptions C13_chaos_function_binary32.

Import ListNotations.
Open Scope list_scope.

(* the mess ratio of a chunk (Model/Md.v) is the detector-bank sum after a prefix of "text + newline":
   a function of the text, the per-character oracles and -- through the position of the early exit only --
   the threshold; with a threshold no checkpoint reaches it is the full-scan sum *)
Theorem C13_mess_is_bank_sum_of_a_prefix :
  forall FO K O t thr,
    exists pre, (exists post, t ++ [10] = pre ++ post)
      /\ mess_ratio FO K O t thr = bank_sum FO K (fold_left (fun b c => bank_feed FO K O b (mk_char O c)) pre bank_init).
Proof. intros. unfold mess_ratio. apply scan_is_a_bank_sum. Qed.
Print Assumptions C13_mess_is_bank_sum_of_a_prefix.

Theorem C13_mess_full_scan_when_threshold_not_reached :
  forall FO K O t thr, (forall b, fge FO (bank_sum FO K b) thr = false) ->
    mess_ratio FO K O t thr = bank_sum FO K (fold_left (fun b c => bank_feed FO K O b (mk_char O c)) (t ++ [10]) bank_init).
Proof. intros. unfold mess_ratio. apply scan_no_exit. assumption. Qed.
Print Assumptions C13_mess_full_scan_when_threshold_not_reached.

From Model Require Import Pipeline Utf Codecs.
From Proofs Require Import DetectSound UtfFacts CodecFacts PipelineFacts UnicodeForms.

(* "identical for the same text presented in any encoding able to represent it (with or without BOM)", across
   DIFFERENT inputs and window settings, for every oracle bundle: two accepted candidates that strictly decode
   (after their own mark) to the same text expose that text and carry the same chaos *)
Theorem C13_same_text_same_chaos_across_inputs :
  forall FO (R : oracles FO), FloatLaws FO ->
    (forall e l t, sdecode FO R e l = Some t -> len t <= len l) ->
  forall b1 b2 cfg1 cfg2 inc1 exc1 inc2 exc2 e1 e2 m1 m2 x1 x2 t,
    len b1 <= chunk_size FO cfg1 * steps FO cfg1 -> len b1 <= TOO_BIG_SEQUENCE ->
    len b2 <= chunk_size FO cfg2 * steps FO cfg2 -> len b2 <= TOO_BIG_SEQUENCE ->
    threshold FO cfg1 = threshold FO cfg2 ->
    sdecode FO R e1 (strip b1 e1) = Some t -> sdecode FO R e2 (strip b2 e2) = Some t ->
    probe FO R (make_ctx FO R b1 cfg1 inc1 exc1) e1 = Ok (Accept FO m1 x1) ->
    probe FO R (make_ctx FO R b2 cfg2 inc2 exc2) e2 = Ok (Accept FO m2 x2) ->
    m_text FO m1 = Some t /\ m_text FO m2 = Some t /\ m_chaos FO m1 = m_chaos FO m2.
Proof. exact same_text_same_chaos_across_inputs. Qed.
Print Assumptions C13_same_text_same_chaos_across_inputs.

(* with the Unicode codecs inside the model (Model/Utf.v, Codecs.v) the hypothesis "decode to the same text" is a
   theorem: a text as UTF-8, UTF-8 with signature, UTF-16LE with BOM or UTF-16BE with BOM *)
Theorem C13_unicode_forms_same_chaos :
  forall (B : base_oracles), (forall e l t, b_sdecode B e l = Some t -> len t <= len l) ->
  forall t b1 e1 b2 e2 cfg1 cfg2 inc1 exc1 inc2 exc2 m1 m2 x1 x2,
    Forall scalar t -> unicode_form t b1 e1 -> unicode_form t b2 e2 ->
    len b1 <= chunk_size F32ops cfg1 * steps F32ops cfg1 -> len b1 <= TOO_BIG_SEQUENCE ->
    len b2 <= chunk_size F32ops cfg2 * steps F32ops cfg2 -> len b2 <= TOO_BIG_SEQUENCE ->
    threshold F32ops cfg1 = threshold F32ops cfg2 ->
    probe F32ops (pipeline_dec B) (make_ctx F32ops (pipeline_dec B) b1 cfg1 inc1 exc1) e1 = Ok (Accept F32ops m1 x1) ->
    probe F32ops (pipeline_dec B) (make_ctx F32ops (pipeline_dec B) b2 cfg2 inc2 exc2) e2 = Ok (Accept F32ops m2 x2) ->
    m_text F32ops m1 = Some t /\ m_text F32ops m2 = Some t /\ m_chaos F32ops m1 = m_chaos F32ops m2.
Proof. exact unicode_forms_same_chaos. Qed.
Print Assumptions C13_unicode_forms_same_chaos.

(* the chaos-function theorem for the pipeline: DecodeLen is proved of every modelled codec and stays a
   hypothesis about the CJK oracle only *)
Theorem C13_chaos_function_pipeline :
  forall (B : base_oracles) b cfg inc exc e m x,
    (forall e l t, b_sdecode B e l = Some t -> len t <= len l) ->
    len b <= chunk_size F32ops cfg * steps F32ops cfg -> len b <= TOO_BIG_SEQUENCE ->
    probe F32ops (pipeline_dec B) (make_ctx F32ops (pipeline_dec B) b cfg inc exc) e = Ok (Accept F32ops m x) ->
    exists t, m_text F32ops m = Some t /\ m_chaos F32ops m = chaos_fn F32ops (pipeline_dec B) t (threshold F32ops cfg)
              /\ fge F32ops (chaos_fn F32ops (pipeline_dec B) t (threshold F32ops cfg)) (threshold F32ops cfg) = false.
Proof. exact pipeline_dec_chaos_function. Qed.
Print Assumptions C13_chaos_function_pipeline.

(* ... and for EVERY single-byte encoding able to represent the text: `text_form` = the four Unicode presentations
   plus the text encoded by any single-byte table (generated from the codec crate) that has all its characters.
   What is left out is the 8 CJK codecs, which stay oracles. *)
Theorem C13_any_modelled_encoding_same_chaos :
  forall (B : base_oracles), (forall e l t, b_sdecode B e l = Some t -> len t <= len l) ->
  forall t b1 e1 b2 e2 cfg1 cfg2 inc1 exc1 inc2 exc2 m1 m2 x1 x2,
    Forall scalar t -> text_form t b1 e1 -> text_form t b2 e2 ->
    len b1 <= chunk_size F32ops cfg1 * steps F32ops cfg1 -> len b1 <= TOO_BIG_SEQUENCE ->
    len b2 <= chunk_size F32ops cfg2 * steps F32ops cfg2 -> len b2 <= TOO_BIG_SEQUENCE ->
    threshold F32ops cfg1 = threshold F32ops cfg2 ->
    probe F32ops (pipeline_dec B) (make_ctx F32ops (pipeline_dec B) b1 cfg1 inc1 exc1) e1 = Ok (Accept F32ops m1 x1) ->
    probe F32ops (pipeline_dec B) (make_ctx F32ops (pipeline_dec B) b2 cfg2 inc2 exc2) e2 = Ok (Accept F32ops m2 x2) ->
    m_text F32ops m1 = Some t /\ m_text F32ops m2 = Some t /\ m_chaos F32ops m1 = m_chaos F32ops m2.
Proof. exact all_forms_same_chaos. Qed.
Print Assumptions C13_any_modelled_encoding_same_chaos.
