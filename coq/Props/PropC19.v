(* C19 -- languages are listed by score; the language threshold is a pure cut-off.
   Theorems about Model/Cd.v (cd::coherence_ratio after fix daf7c42, filter_alt, merge), for every
   behaviour of its three oracles (alpha_unicode_split, alphabet_languages,
   characters_popularity_compare).  `visited t include` is the threshold-INDEPENDENT list of
   (language, score) pairs the scan evaluates. *)
From Coq Require Import List NArith String Bool.
From Model Require Import Base Names Flt Matches Cd.
From Proofs Require Import FloatLaws CdFacts.
From Model Require Import Alph.
From Proofs Require Import AlphFacts.
From Model Require Import F32.
From Proofs Require Import F32Laws.
Import ListNotations.

(* the result at any threshold is: keep the visited pairs whose score reaches it, one entry per
   language with its best score, stable sort by descending score *)
Theorem C19_threshold_is_a_cutoff :
  forall FO (C : cd_oracles FO) t thr include,
    coherence_ratio FO C t thr include =
      option_map (fun v => sort_desc FO (filter_alt FO (filter (keep FO thr) v))) (visited FO C t include).
Proof. exact coherence_ratio_as_cutoff. Qed.
Print Assumptions C19_threshold_is_a_cutoff.

(* a language is listed exactly when one of its scores reaches the threshold *)
Theorem C19_listed_iff_reaches :
  forall FO (C : cd_oracles FO) t thr include v l L,
    visited FO C t include = Some v -> coherence_ratio FO C t thr include = Some l ->
    (In L (keys FO l) <-> exists s, In (L, s) v /\ fge FO s thr = true).
Proof. exact listed_iff_reaches. Qed.
Print Assumptions C19_listed_iff_reaches.

(* raising the threshold only ever removes languages (t1 <= t2 expressed on the float order:
   whatever reaches t2 reaches t1) *)
Theorem C19_raising_only_removes :
  forall FO (C : cd_oracles FO) t t1 t2 include l1 l2 L,
    (forall s, fge FO s t2 = true -> fge FO s t1 = true) ->
    coherence_ratio FO C t t1 include = Some l1 -> coherence_ratio FO C t t2 include = Some l2 ->
    In L (keys FO l2) -> In L (keys FO l1).
Proof. exact raising_threshold_only_removes. Qed.
Print Assumptions C19_raising_only_removes.

(* the list has one entry per language and is ordered by non-increasing score
   (CmpLaws: totality of the NaN-greatest order, proved of the Flocq instance -- C08_f32_order_total) *)
Theorem C19_ordered_by_score :
  forall FO (C : cd_oracles FO), CmpLaws FO -> forall t thr include l,
    coherence_ratio FO C t thr include = Some l -> NoDup (keys FO l) /\ nonincreasing FO l.
Proof.
  intros FO C CL t thr include l H. split; [eapply coherence_ratio_nodup; eauto|eapply coherence_ratio_ordered; eauto].
Qed.
Print Assumptions C19_ordered_by_score.

(* a single analysed chunk: merging leaves the chunk's list unchanged, so the match's language list
   IS that list; coherence() is the score of its first element and the most probable language is
   that element (C10_most_probable_language).  FloatLaws.law_mean_single: (-0 + x) / 1 = x. *)
Theorem C19_single_chunk :
  forall FO (C : cd_oracles FO), CmpLaws FO -> FloatLaws FO -> forall t thr include l,
    coherence_ratio FO C t thr include = Some l -> merge_coherence_ratios FO [l] = l.
Proof.
  intros FO C CL FL t thr include l H. apply (merge_single FO FL).
  - eapply coherence_ratio_nodup; eauto.
  - eapply coherence_ratio_ordered; eauto.
Qed.
Print Assumptions C19_single_chunk.

Theorem C19_coherence_is_first_score :
  forall FO (m : cmatch FO) L s rest, m_coh FO m = (L, s) :: rest -> coherence FO m = s /\ hd_error (languages FO m) = Some L.
Proof. intros FO m L s rest H. unfold coherence, languages. rewrite H. split; reflexivity. Qed.
Print Assumptions C19_coherence_is_first_score.

(* binary32 instance: no float hypothesis left *)
Theorem C19_ordered_by_score_binary32 :
  forall (C : cd_oracles F32ops) t thr include l,
    coherence_ratio F32ops C t thr include = Some l -> NoDup (keys F32ops l) /\ nonincreasing F32ops l.
Proof. intros C. exact (C19_ordered_by_score F32ops C F32_CmpLaws). Qed.
Print Assumptions C19_ordered_by_score_binary32.

Theorem C19_single_chunk_binary32 :
  forall (C : cd_oracles F32ops) t thr include l,
    coherence_ratio F32ops C t thr include = Some l -> merge_coherence_ratios F32ops [l] = l.
Proof. intros C. exact (C19_single_chunk F32ops C F32_CmpLaws F32_FloatLaws). Qed.
Print Assumptions C19_single_chunk_binary32.

(* cd::alphabet_languages (which languages are scored for a script layer, and in which order) is not modelled as a
   function: its order among equal ratios comes from sort_unstable_by on up to ~40 entries.  Its answer is VALIDATED by
   the model on every call of every correspondence run (Model/Alph.v); a passed validation means the answer lists exactly
   the candidates the model computes from the generated language table, each once: *)
Theorem C19_validated_alphabet_languages_answer :
  forall FO k02 acc chars inl answer,
    alph_check FO k02 acc chars inl answer = true ->
    Permutation.Permutation (map fst (alph_candidates FO k02 acc chars inl)) answer.
Proof. exact alph_check_sound. Qed.
Print Assumptions C19_validated_alphabet_languages_answer.
