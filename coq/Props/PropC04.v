(* C04 -- the chaos threshold is honoured; the fall-back is a lone entry at the threshold whose
   encoding is one of the hints; coherence lies in [0,1]; percents are 100 x the ratios. *)
From Coq Require Import List NArith String Bool.
From Model Require Import Base Names Flt F32 Matches Detect.
From Proofs Require Import DetectInv DetectChaos FloatLaws F32Facts.
From Model Require Import F32.
From Proofs Require Import F32Laws DetectUtf8.
Import ListNotations.
Open Scope N_scope.

(* (i) every result of a non-empty input is
       - a non-empty list whose matches (and listed alternatives) all have a non-NaN chaos with
         0 <= chaos < threshold, or
       - a single fall-back entry (no alternatives) whose chaos IS the threshold, whose encoding is
         one of the prioritised hints (declared / BOM / ascii / utf-8) and which exists only when
         the fall-back switch is on -- reached only when no encoding was accepted, or
       - empty.
   MessOK: mess_ratio returns a non-NaN, non-negative number (validated on every oracle answer of
   every correspondence run).  DecodeLen: a decoder emits at most one character per byte.
   FloatLaws: Proofs/FloatLaws.v.  The bounds len b < 2^64 and "threshold is not NaN" are the
   property's own well-formedness conditions. *)
Theorem C04_threshold :
  forall FO (R : oracles FO), FloatLaws FO -> MessOK FO R -> DecodeLen FO R ->
  forall b cfg r, b <> [] -> len b < 2 ^ 64 -> fisnan FO (threshold FO cfg) = false ->
    from_bytes FO R b cfg = Ok r ->
    exists inc exc, shape (chaos_ok FO (make_ctx FO R b cfg inc exc)) (chaos_fb FO (make_ctx FO R b cfg inc exc)) r.
Proof. intros FO R FL HM HD. exact (chaos_shape FO R FL HM HD). Qed.
Print Assumptions C04_threshold.

(* (ii) coherence always lies in [0,1] *)
Theorem C04_coherence_range :
  forall FO (R : oracles FO), FloatLaws FO -> MergeOK FO R ->
  forall b cfg r, b <> [] -> from_bytes FO R b cfg = Ok r ->
    forall m, In m r -> good FO (coherence FO m) /\ fle FO (coherence FO m) (fone FO) = true.
Proof. intros FO R FL HMg. exact (coherence_in_unit_interval FO R FL HMg). Qed.
Print Assumptions C04_coherence_range.

(* (iii) the percent accessors are exactly 100 times the ratios (binary32 multiplication) *)
Theorem C04_percents :
  forall FO (m : cmatch FO),
    chaos_percents FO m = fmul FO (m_chaos FO m) (c_100 FO)
    /\ coherence_percents FO m = fmul FO (coherence FO m) (c_100 FO).
Proof. intros. split; reflexivity. Qed.
Print Assumptions C04_percents.

(* the comparison law of FloatLaws, proved of the Flocq binary32 instance *)
Theorem C04_f32_not_ge_lt :
  forall x t : f32, isnan32 x = false -> isnan32 t = false -> le32 t x = false -> lt32 x t = true.
Proof. exact f32_not_ge_lt. Qed.
Print Assumptions C04_f32_not_ge_lt.

(* the same statements for the binary32 instance that is extracted and run: the float laws are
   PROVED of it (Proofs/F32Laws.v), so nothing about floats is assumed any more *)
Theorem C04_threshold_binary32 :
  forall (R : oracles F32ops), MessOK F32ops R -> DecodeLen F32ops R ->
  forall b cfg r, b <> [] -> len b < 2 ^ 64 -> fisnan F32ops (threshold F32ops cfg) = false ->
    from_bytes F32ops R b cfg = Ok r ->
    exists inc exc, shape (chaos_ok F32ops (make_ctx F32ops R b cfg inc exc)) (chaos_fb F32ops (make_ctx F32ops R b cfg inc exc)) r.
Proof. intros R. exact (C04_threshold F32ops R F32_FloatLaws). Qed.
Print Assumptions C04_threshold_binary32.

Theorem C04_coherence_range_binary32 :
  forall (R : oracles F32ops), MergeOK F32ops R ->
  forall b cfg r, b <> [] -> from_bytes F32ops R b cfg = Ok r ->
    forall m, In m r -> good F32ops (coherence F32ops m) /\ fle F32ops (coherence F32ops m) (fone F32ops) = true.
Proof. intros R. exact (C04_coherence_range F32ops R F32_FloatLaws). Qed.
Print Assumptions C04_coherence_range_binary32.

Theorem C04_float_laws_hold_for_binary32 : FloatLaws F32ops.
Proof. exact F32_FloatLaws. Qed.
Print Assumptions C04_float_laws_hold_for_binary32.

(* (last clause) with the fall-back enabled and no encoding filters, an input that is valid UTF-8 (the
   strict utf-8 decode of the input minus its own mark succeeds) yields at least one match, whatever
   the mess / coherence / declaration oracles answer -- it is never classified as binary.  Together
   with C02_no_panic / C02_only_filter_errors (no filters: no error) the result is Ok and non-empty. *)
Theorem C04_valid_utf8_yields_match :
  forall FO (R : oracles FO) b cfg r,
    include_encodings FO cfg = [] -> exclude_encodings FO cfg = [] -> enable_fallback FO cfg = true ->
    valid_utf8 FO R b -> from_bytes FO R b cfg = Ok r -> r <> [].
Proof. exact valid_utf8_yields_match. Qed.
Print Assumptions C04_valid_utf8_yields_match.
