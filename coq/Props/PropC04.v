(* C04 -- the chaos threshold is honoured; the fall-back is a lone entry at the threshold whose
   encoding is one of the hints; coherence lies in [0,1]; percents are 100 x the ratios. *)
From Coq Require Import List NArith ZArith String Bool.
From Model Require Import Base Names Flt F32 Matches Detect.
From Proofs Require Import DetectInv DetectChaos FloatLaws F32Facts.
From Model Require Import F32.
From Proofs Require Import F32Laws DetectUtf8 MdFacts.
From Gen Require Import Tables.
From Model Require Import Md Md32.
From Model Require Import Cd Jaro Jaro32.
From Proofs Require Import JaroFacts CdScoreFacts CoherenceRefined CoherenceCapstone PipelineFacts.
From Model Require Import Pipeline.
Import ListNotations.
Open Scope N_scope.

(* (i) every result of a non-empty input is
       - a non-empty list whose matches (and listed alternatives) all have a non-NaN chaos with
         0 <= chaos < threshold, or
       - a single fall-back entry (no alternatives) whose chaos IS the threshold, whose encoding is
         one of the prioritised hints (declared / BOM / ascii / utf-8) and which exists only when
         the fall-back switch is on -- reached only when no encoding was accepted, or
       - empty.
   MessOK: mess_ratio returns a non-NaN, non-negative number (validated on every oracle answer of
   every correspondence run).  DecodeLen: a decoder emits at most one character per byte.
   FloatLaws: Proofs/FloatLaws.v.  The bounds len b < 2^64 and "threshold is not NaN" are the
   property's own well-formedness conditions. *)
Theorem C04_threshold :
  forall FO (R : oracles FO), FloatLaws FO -> MessOK FO R -> DecodeLen FO R ->
  forall b cfg r, b <> [] -> len b < 2 ^ 64 -> fisnan FO (threshold FO cfg) = false ->
    from_bytes FO R b cfg = Ok r ->
    exists inc exc, shape (chaos_ok FO (make_ctx FO R b cfg inc exc)) (chaos_fb FO (make_ctx FO R b cfg inc exc)) r.
Proof. intros FO R FL HM HD. exact (chaos_shape FO R FL HM HD). Qed.
Print Assumptions C04_threshold.

(* (ii) coherence always lies in [0,1] *)
Theorem C04_coherence_range :
  forall FO (R : oracles FO), FloatLaws FO -> MergeOK FO R ->
  forall b cfg r, b <> [] -> from_bytes FO R b cfg = Ok r ->
    forall m, In m r -> good FO (coherence FO m) /\ fle FO (coherence FO m) (fone FO) = true.
Proof. intros FO R FL HMg. exact (coherence_in_unit_interval FO R FL HMg). Qed.
Print Assumptions C04_coherence_range.

(* (iii) the percent accessors are exactly 100 times the ratios (binary32 multiplication) *)
Theorem C04_percents :
  forall FO (m : cmatch FO),
    chaos_percents FO m = fmul FO (m_chaos FO m) (c_100 FO)
    /\ coherence_percents FO m = fmul FO (coherence FO m) (c_100 FO).
Proof. intros. split; reflexivity. Qed.
Print Assumptions C04_percents.

(* the comparison law of FloatLaws, proved of the Flocq binary32 instance *)
Theorem C04_f32_not_ge_lt :
  forall x t : f32, isnan32 x = false -> isnan32 t = false -> le32 t x = false -> lt32 x t = true.
Proof. exact f32_not_ge_lt. Qed.
Print Assumptions C04_f32_not_ge_lt.

(* the same statements for the binary32 instance that is extracted and run: the float laws are
   PROVED of it (Proofs/F32Laws.v), so nothing about floats is assumed any more *)
Theorem C04_threshold_binary32 :
  forall (R : oracles F32ops), MessOK F32ops R -> DecodeLen F32ops R ->
  forall b cfg r, b <> [] -> len b < 2 ^ 64 -> fisnan F32ops (threshold F32ops cfg) = false ->
    from_bytes F32ops R b cfg = Ok r ->
    exists inc exc, shape (chaos_ok F32ops (make_ctx F32ops R b cfg inc exc)) (chaos_fb F32ops (make_ctx F32ops R b cfg inc exc)) r.
Proof. intros R. exact (C04_threshold F32ops R F32_FloatLaws). Qed.
Print Assumptions C04_threshold_binary32.

Theorem C04_coherence_range_binary32 :
  forall (R : oracles F32ops), MergeOK F32ops R ->
  forall b cfg r, b <> [] -> from_bytes F32ops R b cfg = Ok r ->
    forall m, In m r -> good F32ops (coherence F32ops m) /\ fle F32ops (coherence F32ops m) (fone F32ops) = true.
Proof. intros R. exact (C04_coherence_range F32ops R F32_FloatLaws). Qed.
Print Assumptions C04_coherence_range_binary32.

Theorem C04_float_laws_hold_for_binary32 : FloatLaws F32ops.
Proof. exact F32_FloatLaws. Qed.
Print Assumptions C04_float_laws_hold_for_binary32.

(* (last clause) with the fall-back enabled and no encoding filters, an input that is valid UTF-8 (the
   strict utf-8 decode of the input minus its own mark succeeds) yields at least one match, whatever
   the mess / coherence / declaration oracles answer -- it is never classified as binary.  Together
   with C02_no_panic / C02_only_filter_errors (no filters: no error) the result is Ok and non-empty. *)
Theorem C04_valid_utf8_yields_match :
  forall FO (R : oracles FO) b cfg r,
    include_encodings FO cfg = [] -> exclude_encodings FO cfg = [] -> enable_fallback FO cfg = true ->
    valid_utf8 FO R b -> from_bytes FO R b cfg = Ok r -> r <> [].
Proof. exact valid_utf8_yields_match. Qed.
Print Assumptions C04_valid_utf8_yields_match.

(* ---- the mess detector itself (Model/Md.v: md.rs + plugins.rs), no longer only an oracle ---- *)
(* MessOK proved of the model: on binary32, for EVERY behaviour of the two per-character oracles (ICU flag
   word, accent removal), every threshold and every text of fewer than 2^97 - 1 characters, mess_ratio is
   neither NaN nor negative: every division is by a counter shown to be >= 1 by the detector invariants *)
Theorem C04_mess_never_nan_or_negative :
  forall (O : md_oracles) t thr, len t + 1 < BIG -> good F32ops (mess_ratio F32ops md_consts32 O t thr).
Proof. exact mess_ratio_good. Qed.
Print Assumptions C04_mess_never_nan_or_negative.

(* hence the threshold theorem with the mess contract discharged: the mess oracle is the model on every text
   that can exist (the second hypothesis speaks about texts of at least 2^97 - 1 characters only) *)
Theorem C04_threshold_mess_modelled :
  forall (R : oracles F32ops) (O : md_oracles),
    (forall t thr, len t + 1 < BIG -> mess F32ops R t thr = mess_ratio F32ops md_consts32 O t thr) ->
    (forall t thr, BIG <= len t + 1 -> good F32ops (mess F32ops R t thr)) ->
    DecodeLen F32ops R ->
  forall b cfg r, b <> [] -> len b < 2 ^ 64 -> fisnan F32ops (threshold F32ops cfg) = false ->
    from_bytes F32ops R b cfg = Ok r ->
    exists inc exc, shape (chaos_ok F32ops (make_ctx F32ops R b cfg inc exc)) (chaos_fb F32ops (make_ctx F32ops R b cfg inc exc)) r.
Proof.
  intros R O H1 H2. apply C04_threshold_binary32.
  intros t thr. destruct (N.lt_ge_cases (len t + 1) BIG) as [Hl|Hl].
  - rewrite H1 by exact Hl. apply mess_ratio_good. exact Hl.
  - apply H2. exact Hl.
Qed.
Print Assumptions C04_threshold_mess_modelled.

(* the shape Model/Md.v was written for, regenerated from md.rs / plugins.rs / structs.rs on every run:
   detector order, checkpoint periods, default threshold, every numeric literal of every plugin, flag bits *)
Theorem C04_md_shape_pinned :
  MD_DETECTORS = ["TooManySymbolOrPunctuationPlugin"; "TooManyAccentuatedPlugin"; "UnprintablePlugin"; "SuspiciousRangePlugin";
                  "SuspiciousDuplicateAccentPlugin"; "SuperWeirdWordPlugin"; "CjkInvalidStopPlugin"; "ArchaicUpperLowerPlugin"]%string
  /\ MD_PERIODS = [510; 32; 511; 1023; 64; 128]
  /\ MD_DEFAULT_THRESHOLD = "0.2"%string
  /\ MD_LITERALS = [
       ("TooManySymbolOrPunctuationPlugin", ["1"; "1"; "2"; "0"; "0.0"; "0.3"; "0.0"]);
       ("TooManyAccentuatedPlugin", ["1"; "1"; "8"; "0.35"; "0.0"]);
       ("UnprintablePlugin", ["1"; "1"; "0"; "0.0"; "8.0"]);
       ("SuspiciousDuplicateAccentPlugin", ["1"; "1"; "1"; "0"; "0.0"; "2.0"]);
       ("SuspiciousRangePlugin", ["1"; "1"; "0"; "2.0"; "0.1"; "0.0"]);
       ("SuperWeirdWordPlugin", ["1"; "1"; "4"; "0.34"; "1"; "24"; "0"; "0.3"; "1"; "1"; "0"; "10"; "0"; "0.0"]);
       ("CjkInvalidStopPlugin", ["1"; "1"; "16"; "0.0"]);
       ("ArchaicUpperLowerPlugin", ["0"; "64"; "0"; "0"; "1"; "2"; "1"; "1"; "0"; "0.0"])]%string
  /\ MD_FLAGS = [("WHITESPACE", WHITESPACE); ("UNPRINTABLE", UNPRINTABLE); ("SYMBOL", SYMBOL); ("EMOTICON", EMOTICON);
                 ("COMMON_SAFE", COMMON_SAFE); ("WEIRD_SAFE", WEIRD_SAFE); ("PUNCTUATION", PUNCTUATION); ("SEPARATOR", SEPARATOR);
                 ("ASCII", ASCII_F); ("ASCII_ALPHABETIC", ASCII_ALPHABETIC); ("ASCII_GRAPHIC", ASCII_GRAPHIC); ("ASCII_DIGIT", ASCII_DIGIT);
                 ("LATIN", LATIN); ("ALPHABETIC", ALPHABETIC); ("ACCENTUATED", ACCENTUATED); ("CJK", CJK);
                 ("HANGUL", HANGUL); ("KATAKANA", KATAKANA); ("HIRAGANA", HIRAGANA); ("THAI", THAI);
                 ("CASE_VARIABLE", CASE_VARIABLE); ("LOWERCASE", LOWERCASE); ("UPPERCASE", UPPERCASE); ("NUMERIC", NUMERIC)]%string.
Proof. repeat split; reflexivity. Qed.
Print Assumptions C04_md_shape_pinned.

(* ---- coherence in [0,1] with the score contracts discharged ---- *)
(* the Jaro score behind every language score (strsim::jaro in binary64, then `as f32`; Model/Jaro.v, Jaro32.v):
   never NaN, between 0 and 1, for all character sequences whose lengths fit usize *)
Theorem C04_jaro_score_in_unit_interval :
  forall a b, len a < 2 ^ 64 -> len b < 2 ^ 64 ->
    fisnan F32ops (jaro32 a b) = false /\ fle F32ops (fzero F32ops) (jaro32 a b) = true /\ fle F32ops (jaro32 a b) (fone F32ops) = true.
Proof. exact jaro32_score_ok. Qed.
Print Assumptions C04_jaro_score_in_unit_interval.

(* the mean of fewer than 2^24 scores in [0,1] is in [0,1] on binary32 (integers up to 2^24 are exact) *)
Theorem C04_mean_of_unit_scores :
  forall l : list f32, l <> [] -> (Z.of_nat (List.length l) <= 2 ^ 24)%Z -> Forall unit32 l -> unit32 (fmean F32ops l).
Proof. exact mean_unit32. Qed.
Print Assumptions C04_mean_of_unit_scores.

(* coherence lies in [0,1] when the coherence and merge oracles are their models (Model/Cd.v) and the popularity
   oracle is the Jaro model wherever lengths fit usize: no score contract is assumed any more.  Nothing is assumed
   about the script-layer and alphabet_languages oracles.  steps < 2^22 bounds the number of chunks below 2^24. *)
Theorem C04_coherence_in_unit_interval_modelled :
  forall (R : oracles F32ops) (C : cd_oracles F32ops),
    (forall t thr langs, coh F32ops R t thr langs = coherence_ratio F32ops C t thr langs) ->
    (forall ls, merge F32ops R ls = merge_coherence_ratios F32ops ls) ->
    (forall L t, len t < 2 ^ 64 -> popularity F32ops C L t = popularity32 L t) ->
    (forall L t s, 2 ^ 64 <= len t -> popularity F32ops C L t = Some s -> unit32 s) ->
  forall b cfg r, b <> [] -> 1 <= steps F32ops cfg -> steps F32ops cfg < 2 ^ 22 -> from_bytes F32ops R b cfg = Ok r ->
    forall m, In m r -> good F32ops (coherence F32ops m) /\ fle F32ops (coherence F32ops m) (fone F32ops) = true.
Proof. exact coherence_in_unit_interval_modelled. Qed.
Print Assumptions C04_coherence_in_unit_interval_modelled.

(* ---- the whole pipeline as one Coq object (Model/Pipeline.v) ----
   `pipeline B` builds the oracle bundle of the detection model from the MODELS of the heuristics (mess detector,
   coherence scan, script layers, Jaro score, merge, single-byte languages, declaration matcher) over the primitives
   B that remain outside: codecs, per-character properties, alphabet_languages.  It is what the end-to-end
   correspondence (DETECTFULL) runs against the real from_bytes.  For it the chaos and coherence clauses hold with
   one hypothesis left: a strict decode emits at most one character per byte. *)
Theorem C04_pipeline_chaos :
  forall (B : base_oracles) b cfg r,
    (forall e l t, b_sdecode B e l = Some t -> len t <= len l) ->
    b <> [] -> len b < 2 ^ 64 -> fisnan F32ops (threshold F32ops cfg) = false ->
    from_bytes F32ops (pipeline B) b cfg = Ok r ->
    exists inc exc, shape (chaos_ok F32ops (make_ctx F32ops (pipeline B) b cfg inc exc))
                          (chaos_fb F32ops (make_ctx F32ops (pipeline B) b cfg inc exc)) r.
Proof. exact pipeline_chaos. Qed.
Print Assumptions C04_pipeline_chaos.

Theorem C04_pipeline_coherence :
  forall (B : base_oracles) b cfg r,
    b <> [] -> 1 <= steps F32ops cfg -> steps F32ops cfg < 2 ^ 22 -> from_bytes F32ops (pipeline B) b cfg = Ok r ->
    forall m, In m r -> good F32ops (coherence F32ops m) /\ fle F32ops (coherence F32ops m) (fone F32ops) = true.
Proof. exact pipeline_coherence. Qed.
Print Assumptions C04_pipeline_coherence.

From Model Require Import Utf Codecs.
From Proofs Require Import UtfFacts CodecFacts UnicodeForms.
Open Scope list_scope.

(* the same two clauses for the pipeline that also DECODES with the models (what DETECTFULL runs): the remaining
   hypothesis is DecodeLen of the CJK oracle only *)
Theorem C04_pipeline_dec_chaos :
  forall (B : base_oracles) b cfg r,
    (forall e l t, b_sdecode B e l = Some t -> len t <= len l) ->
    b <> [] -> len b < 2 ^ 64 -> fisnan F32ops (threshold F32ops cfg) = false ->
    from_bytes F32ops (pipeline_dec B) b cfg = Ok r ->
    exists inc exc, shape (chaos_ok F32ops (make_ctx F32ops (pipeline_dec B) b cfg inc exc))
                          (chaos_fb F32ops (make_ctx F32ops (pipeline_dec B) b cfg inc exc)) r.
Proof. exact pipeline_dec_chaos. Qed.
Print Assumptions C04_pipeline_dec_chaos.

Theorem C04_pipeline_dec_coherence :
  forall (B : base_oracles) b cfg r,
    b <> [] -> 1 <= steps F32ops cfg -> steps F32ops cfg < 2 ^ 22 -> from_bytes F32ops (pipeline_dec B) b cfg = Ok r ->
    forall m, In m r -> good F32ops (coherence F32ops m) /\ fle F32ops (coherence F32ops m) (fone F32ops) = true.
Proof. exact pipeline_dec_coherence. Qed.
Print Assumptions C04_pipeline_dec_coherence.

(* last clause, with the UTF-8 codec inside the model: the bytes of EVERY string (the UTF-8 form of any sequence of
   Unicode scalar values, with or without a leading U+FEFF) yield at least one match when the fall-back is on and
   no filter is given -- the crate's automaton accepts every encoded scalar value (UtfFacts.utf8_encode_char_is_char) *)
Theorem C04_every_string_yields_a_match :
  forall (B : base_oracles) t cfg r, Forall scalar t ->
    include_encodings F32ops cfg = [] -> exclude_encodings F32ops cfg = [] -> enable_fallback F32ops cfg = true ->
    from_bytes F32ops (pipeline_dec B) (utf8_encode t) cfg = Ok r -> r <> [].
Proof.
  intros B t cfg r Ht Hi He Hf. apply (valid_utf8_yields_match F32ops (pipeline_dec B) _ cfg r Hi He Hf).
  exact (every_string_is_valid_utf8 B t Ht).
Qed.
Print Assumptions C04_every_string_yields_a_match.
