(* C11 -- memoisation is unobservable: results do not depend on call history.
   Model/Memo.v: a memoised call is `get(key a)` else `f a` then `set`, where `set` may evict ANY
   entries (covers the LRU caches of 128 / 2048 entries and the unbounded per-character map). *)
From Coq Require Import List NArith String Bool.
From Gen Require Import Tables.
From Model Require Import Base Memo.
From Proofs Require Import MemoFacts.
Import ListNotations.

(* from any good cache state -- cold, warm, after arbitrary evictions -- a memoised call returns
   exactly the function's value; `key_complete`: equal keys imply equal results, i.e. every argument
   the function reads is part of the key *)
Theorem C11_call_transparent :
  forall A K V (f : A -> V) (key : A -> K) keqb,
    (forall x y, keqb x y = true <-> x = y) -> (forall a a', key a = key a' -> f a = f a') ->
    forall keep s a, Good f key s ->
      fst (call f key keqb keep s a) = f a /\ Good f key (snd (call f key keqb keep s a)).
Proof. intros A K V f key keqb H1 H2. exact (call_transparent f key keqb H1 H2). Qed.
Print Assumptions C11_call_transparent.

(* any history of calls, with any eviction behaviour at every step, returns the pure results *)
Theorem C11_history_transparent :
  forall A K V (f : A -> V) (key : A -> K) keqb,
    (forall x y, keqb x y = true <-> x = y) -> (forall a a', key a = key a' -> f a = f a') ->
    forall h s, Good f key s ->
      fst (run f key keqb s h) = map (fun x => f (fst x)) h /\ Good f key (snd (run f key keqb s h)).
Proof. intros A K V f key keqb H1 H2. exact (history_transparent f key keqb H1 H2). Qed.
Print Assumptions C11_history_transparent.

(* the key of every #[cached] declaration found in the source TODAY mentions every argument of the
   function (default key = all arguments; `convert` expressions are parsed by the translator), and none
   uses sync_writes / result_fallback (whose expansion differs): dropping an argument from a key, or
   adding a parameter the key omits, re-opens this obligation *)
Theorem C11_keys_cover_all_arguments : forallb key_covers CACHED_DECLS = true.
Proof. exact Cached_keys_complete. Qed.
Print Assumptions C11_keys_cover_all_arguments.

Theorem C11_declarations_pinned :
  map (fun d => match d with (n, _, _, _, _, _) => n end) CACHED_DECLS
    = ["mess_ratio"; "encoding_languages"; "coherence_ratio"; "new_mess_detector_character"]%string
  /\ CACHED_PROC_MACRO_VERSION = "0.25.0"%string.
Proof. exact Cached_decls_pinned. Qed.
Print Assumptions C11_declarations_pinned.
