(* C15 -- CLI normalisation is non-destructive and faithful.
   Model/Cli.v: normalizer() over a finite-map file system, for ANY library behaviour.  `effects`
   is the chain of file-system effects of the inputs, each evaluated in the state reached so far. *)
From Coq Require Import List NArith String Bool Ascii.
From Model Require Import Base Names Flt Matches Cli.
From Proofs Require Import CliFacts.

(* without --normalize nothing changes on disk *)
Theorem C15_no_normalize_no_change :
  forall FO lib sb utf8 fl files d d' rep st,
    f_normalize FO fl = false -> run FO lib sb utf8 fl files d = (d', rep, st) -> d' = d.
Proof. intros FO lib sb utf8. exact (no_normalize_no_change FO lib sb utf8). Qed.
Print Assumptions C15_no_normalize_no_change.

(* with --normalize and without --replace every input file stays byte-identical *)
Theorem C15_inputs_unchanged :
  forall FO lib sb utf8 fl files d d' rep st,
    f_replace FO fl = false -> run FO lib sb utf8 fl files d = (d', rep, st) ->
    forall q, In q files -> lookup d' q = lookup d q.
Proof. intros FO lib sb utf8. exact (inputs_unchanged FO lib sb utf8). Qed.
Print Assumptions C15_inputs_unchanged.

(* nothing else changes either: a path that is neither an input nor a sibling name of an input *)
Theorem C15_unrelated_paths_unchanged :
  forall FO lib sb utf8 fl files d d' rep st q,
    run FO lib sb utf8 fl files d = (d', rep, st) -> ~ In q files -> (forall p e, In p files -> sibling_name p e <> q) ->
    lookup d' q = lookup d q.
Proof. intros FO lib sb utf8. exact (unrelated_paths_unchanged FO lib sb utf8). Qed.
Print Assumptions C15_unrelated_paths_unchanged.

(* every write the tool performs: only with --normalize; only for an input whose best guess is not
   UTF-*; --replace only together with --force; the content is the UTF-8 form of the best guess's
   text (by C01: the strict decode of the original minus a leading mark) of the file as read at that
   moment; the target is <stem>.<encoding>[.<ext>] (never one of the inputs) or, with --replace --force,
   the input itself *)
Theorem C15_every_write :
  forall FO lib sb utf8 fl files d d' rep st,
    run FO lib sb utf8 fl files d = (d', rep, st) -> bad_flags FO fl = false -> effects FO lib utf8 fl files d files d'.
Proof. intros FO lib sb utf8. exact (run_effects FO lib sb utf8). Qed.
Print Assumptions C15_every_write.

(* the sibling name splits at the LAST dot of the file name *)
Theorem C15_sibling_name :
  forall dir base enc, rsplit_at "/"%char base = None ->
    sibling_name (dir ++ "/" ++ base) enc =
      (dir ++ "/" ++ match rsplit_at "."%char base with
                     | None => base ++ "." ++ enc
                     | Some (stem, ext) => stem ++ "." ++ enc ++ "." ++ ext
                     end)%string.
Proof. exact sibling_name_shape. Qed.
Print Assumptions C15_sibling_name.

From Model Require Import Base Names Flt F32 Matches Detect Decode Utf Codecs Pipeline Cli.
From Proofs Require Import DetectSound UtfFacts CliFacts CliComposed.
Import ListNotations.

(* the parameters of the CLI model instantiated: library := from_bytes over the pipeline that decodes with the modelled
   codecs, writer := utf8_encode.  A write caused by input p with content c holds exactly the UTF-8 form of the STRICT
   DECODE of c, minus the detected encoding's own mark, under the detected encoding (C01 inside C15) -- and that
   file reads back, as UTF-8, to the same text *)
Theorem C15_written_file_is_the_utf8_form_of_the_strict_decode :
  forall (B : base_oracles) (cfg_of : F F32ops -> settings F32ops) fl inputs d p d',
    effect F32ops (the_lib B cfg_of) utf8_encode fl inputs d p d' ->
    d' = d \/
    exists c best t,
      lookup d p = Some (Regular c)
      /\ d' = write d (target F32ops fl p best) (utf8_encode t)
      /\ sdecode F32ops (pipeline_dec B) (m_enc F32ops best) (strip c (m_enc F32ops best)) = Some t
      /\ (Forall scalar t -> utf8_strict_text (utf8_encode t) = Some t).
Proof. exact written_file_is_the_utf8_form_of_the_strict_decode. Qed.
Print Assumptions C15_written_file_is_the_utf8_form_of_the_strict_decode.
