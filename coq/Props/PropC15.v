(* C15 -- CLI normalisation is non-destructive and faithful.
   Model/Cli.v: normalizer() over a finite-map file system, for ANY library behaviour.  `effects`
   is the chain of file-system effects of the inputs, each evaluated in the state reached so far. *)
From Coq Require Import List NArith String Bool Ascii.
From Model Require Import Base Names Flt Matches Cli.
From Proofs Require Import CliFacts.

(* without --normalize nothing changes on disk *)
Theorem C15_no_normalize_no_change :
  forall FO lib sb utf8 fl files d d' rep st,
    f_normalize FO fl = false -> run FO lib sb utf8 fl files d = (d', rep, st) -> d' = d.
Proof. intros FO lib sb utf8. exact (no_normalize_no_change FO lib sb utf8). Qed.
Print Assumptions C15_no_normalize_no_change.

(* with --normalize and without --replace every input file stays byte-identical *)
Theorem C15_inputs_unchanged :
  forall FO lib sb utf8 fl files d d' rep st,
    f_replace FO fl = false -> run FO lib sb utf8 fl files d = (d', rep, st) ->
    forall q, In q files -> lookup d' q = lookup d q.
Proof. intros FO lib sb utf8. exact (inputs_unchanged FO lib sb utf8). Qed.
Print Assumptions C15_inputs_unchanged.

(* nothing else changes either: a path that is neither an input nor a sibling name of an input *)
Theorem C15_unrelated_paths_unchanged :
  forall FO lib sb utf8 fl files d d' rep st q,
    run FO lib sb utf8 fl files d = (d', rep, st) -> ~ In q files -> (forall p e, In p files -> sibling_name p e <> q) ->
    lookup d' q = lookup d q.
Proof. intros FO lib sb utf8. exact (unrelated_paths_unchanged FO lib sb utf8). Qed.
Print Assumptions C15_unrelated_paths_unchanged.

(* every write the tool performs: only with --normalize; only for an input whose best guess is not
   UTF-*; --replace only together with --force; the content is the UTF-8 form of the best guess's
   text (by C01: the strict decode of the original minus a leading mark) of the file as read at that
   moment; the target is <stem>.<encoding>[.<ext>] (never one of the inputs) or, with --replace --force,
   the input itself *)
Theorem C15_every_write :
  forall FO lib sb utf8 fl files d d' rep st,
    run FO lib sb utf8 fl files d = (d', rep, st) -> bad_flags FO fl = false -> effects FO lib utf8 fl files d files d'.
Proof. intros FO lib sb utf8. exact (run_effects FO lib sb utf8). Qed.
Print Assumptions C15_every_write.

(* the sibling name splits at the LAST dot of the file name *)
Theorem C15_sibling_name :
  forall dir base enc, rsplit_at "/"%char base = None ->
    sibling_name (dir ++ "/" ++ base) enc =
      (dir ++ "/" ++ match rsplit_at "."%char base with
                     | None => base ++ "." ++ enc
                     | Some (stem, ext) => stem ++ "." ++ enc ++ "." ++ ext
                     end)%string.
Proof. exact sibling_name_shape. Qed.
Print Assumptions C15_sibling_name.
