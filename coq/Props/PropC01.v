(* C01 -- every reported candidate really decodes the input (no unsound encodings).
   Theorems about Model/Detect.from_bytes for EVERY oracle bundle: no assumption on the mess,
   coherence, merge, language or declaration oracles; unbounded in the input length, the
   settings, and the size constants. *)
From Coq Require Import List NArith String Bool.
From Gen Require Import Tables.
From Model Require Import Base Names Flt F32 Matches Detect Decode SbLangs.
From Proofs Require Import DetectFacts DetectSound SbFacts.
Import ListNotations.
Open Scope N_scope.

(* (1) what the control program itself establishes, with no codec assumption at all:
       every match and every alternative carries the input unmodified and its text is the strict
       decode of the stripped input (inputs up to TOO_BIG_SEQUENCE, and multi-byte candidates of
       larger inputs) or, in lazy single-byte mode, the chunk-mode decode of an input whose
       500,000-byte prefix and whose remainder both decode strictly. *)
Theorem C01_sound :
  forall FO (R : oracles FO) b cfg r, b <> [] -> from_bytes FO R b cfg = Ok r ->
    Forall (SoundM FO R b) r.
Proof. exact from_bytes_sound. Qed.
Print Assumptions C01_sound.

(* (2) the property as stated, for every encoding listed by a match: strict decode of the input
       minus that encoding's own mark succeeds and equals the exposed text; raw() is the input.
       LazyContract is the byte-wise nature of single-byte decoders (see Proofs/DetectSound.v). *)
Theorem C01_decodes :
  forall FO (R : oracles FO) b cfg r,
    LazyContract FO R -> b <> [] -> from_bytes FO R b cfg = Ok r ->
    forall m e, In m r -> In e (suitable_encodings FO m) ->
      m_payload FO m = b /\ exists t, m_text FO m = Some t /\ sdecode FO R e (strip b e) = Some t.
Proof. exact from_bytes_decodes. Qed.
Print Assumptions C01_decodes.

(* (3) the 'ascii' conjunct, PARTIAL: an accepted 'ascii' candidate has only ASCII characters in
       every window the chunk loop samples (probe level; chars mode, i.e. inputs up to
       TOO_BIG_SEQUENCE).  The full conjunct (every input byte < 0x80) is false of the faithful
       model -- C01_ascii_refuted below, finding D1. *)
Theorem C01_ascii_partial :
  forall FO (R : oracles FO) c si t m x,
    probe_rest FO R c "ascii" si (Some t) = Ok (Accept FO m x) ->
    exists d, udiv "seq_len / steps" (len t) (steps FO (c_cfg FO c)) = Ok d
      /\ Forall (fun o => is_ascii_text (window FO (c_cfg FO c) t o) = true)
                (offsets 0 (len t) (N.max d 1)).
Proof.
  intros FO R c si t m x H. destruct (probe_rest_accept_windows FO R c _ si t m x H) as (d & Hd & Hw).
  exists d. split; [exact Hd|]. eapply Forall_impl; [|exact Hw].
  intros o Ho. unfold is_invalid_chunk in Ho. cbn in Ho. apply negb_false_iff in Ho. exact Ho.
Qed.
Print Assumptions C01_ascii_partial.

(* a concrete toy oracle bundle: only "ascii" decodes, one character per byte (as windows-1252
   does), everything is perfectly clean *)
Definition toy : oracles F32ops := {|
  sdecode := fun e l => if String.eqb e "ascii" then Some l else None;
  stest := fun e l => String.eqb e "ascii";
  cdecode := fun e l => if String.eqb e "ascii" then Some l else None;
  mess := fun _ _ => fzero F32ops;
  coh := fun _ _ _ => None;
  merge := fun _ => [];
  sb_langs := fun _ => [];
  declared := fun _ => None;
|}.
Definition toy_cfg : settings F32ops := {|
  steps := 2; chunk_size := 2; threshold := c_01 F32ops; include_encodings := []; exclude_encodings := [];
  preemptive_behaviour := true; language_threshold := c_01 F32ops; enable_fallback := true |}.
(* "ab cd\xE9ef gh ij kl": the byte 0xE9 sits between the sampled windows [0,2) [8,10) [16,17) *)
Definition toy_input : bytes := [97;98;32;99;100;233;101;102;32;103;104;32;105;106;32;107;108].

(* evaluated as a boolean so that no float proof term has to be read back *)
Definition toy_outcome : bool :=
  match from_bytes F32ops toy toy_input toy_cfg with
  | Ok [m] => String.eqb (m_enc F32ops m) "ascii" && existsb (N.eqb 233) (m_payload F32ops m)
              && match m_text F32ops m with Some t => existsb (N.eqb 233) t | None => false end
  | _ => false
  end.
Lemma toy_outcome_true : toy_outcome = true.
Proof. vm_compute. reflexivity. Qed.

Theorem C01_ascii_refuted :
  exists r m, from_bytes F32ops toy toy_input toy_cfg = Ok r /\ In m r
              /\ m_enc F32ops m = "ascii"%string /\ In 233 (m_payload F32ops m).
Proof.
  pose proof toy_outcome_true as H. unfold toy_outcome in H.
  destruct (from_bytes F32ops toy toy_input toy_cfg) as [[|m [|m' r']]| |]; try discriminate.
  apply andb_true_iff in H as [H _]. apply andb_true_iff in H as [H1 H2].
  exists [m], m. split; [reflexivity|]. split; [left; reflexivity|].
  split; [apply String.eqb_eq; exact H1|].
  apply existsb_exists in H2 as (x & Hx & Hx'). apply N.eqb_eq in Hx'. subst x. exact Hx.
Qed.
Print Assumptions C01_ascii_refuted.

(* non-vacuity: the premises of C01_sound are met by a concrete run with a non-empty result *)
Example C01_nonvacuous :
  toy_input <> [] /\ exists m, from_bytes F32ops toy toy_input toy_cfg = Ok [m].
Proof.
  split; [discriminate|]. pose proof toy_outcome_true as H. unfold toy_outcome in H.
  destruct (from_bytes F32ops toy toy_input toy_cfg) as [[|m [|m' r']]| |]; try discriminate. eauto.
Qed.

(* (4) LazyContract discharged: if the three decode oracles are, on non-multi-byte encodings, the model of
       utils::decode over the table decoder of Model/Decode.v (what the `decode` level compares with the
       helper for the crate's 30 single-byte tables, in strict / test-only / chunk mode, on every run) and no
       table contains U+FEFF (checked on the dumped tables on every run), the property holds with no
       contract left -- on both sides of the 1,000,000-byte limit. *)
Theorem C01_decodes_single_byte_modelled :
  forall FO (R : oracles FO) tables,
    SbModelled FO R tables -> (forall e, Forall (fun c => c <> 65279) (tables e)) ->
  forall b cfg r, b <> [] -> from_bytes FO R b cfg = Ok r ->
    forall m e, In m r -> In e (suitable_encodings FO m) ->
      m_payload FO m = b /\ exists t, m_text FO m = Some t /\ sdecode FO R e (strip b e) = Some t.
Proof.
  intros FO R tables HM HN b cfg r. apply C01_decodes. exact (sb_lazy_contract FO R tables HM HN).
Qed.
Print Assumptions C01_decodes_single_byte_modelled.

Theorem C01_single_byte_decoding_is_bytewise :
  forall table l1 l2 t1 t2,
    sb_strict table l1 = Some t1 -> sb_strict table l2 = Some t2 -> sb_strict table (l1 ++ l2) = Some (t1 ++ t2).
Proof. exact sb_strict_app. Qed.
Print Assumptions C01_single_byte_decoding_is_bytewise.

(* the single-byte forward tables themselves are generated from the codec crate's index files on every run
   (Tables.SB_TABLES, compared with the running crate byte by byte by the `names` level): none of them
   contains U+FEFF, so the NoFeff hypothesis above holds for the tables of the crate *)
Definition table_of (e : string) : list N := match SbLangs.sb_table e with Some t => t | None => [] end.

Theorem C01_no_single_byte_table_holds_feff : forall e, Forall (fun c => c <> 65279) (table_of e).
Proof.
  assert (H : forallb (fun vt => forallb (fun c => negb (c =? 65279)) (snd vt)) SB_TABLES = true) by (vm_compute; reflexivity).
  intro e. unfold table_of, SbLangs.sb_table. destruct (codec_of e) as [v|]; [|constructor].
  destruct (assoc_first v SB_TABLES) as [t|] eqn:E; [|constructor].
  assert (Hin : In (v, t) SB_TABLES).
  { clear H. revert E. generalize SB_TABLES as l. induction l as [|[k x] l IH]; cbn [assoc_first]; [discriminate|].
    destruct (String.eqb k v) eqn:Ek.
    - intros [= <-]. apply String.eqb_eq in Ek. subst. left. reflexivity.
    - intro H. right. apply IH. exact H. }
  rewrite forallb_forall in H. specialize (H _ Hin). cbn [snd] in H. rewrite forallb_forall in H.
  apply Forall_forall. intros c Hc Heq. specialize (H _ Hc). subst c. discriminate.
Qed.
Print Assumptions C01_no_single_byte_table_holds_feff.

Theorem C01_decodes_with_the_crates_tables :
  forall FO (R : oracles FO), SbModelled FO R table_of ->
  forall b cfg r, b <> [] -> from_bytes FO R b cfg = Ok r ->
    forall m e, In m r -> In e (suitable_encodings FO m) ->
      m_payload FO m = b /\ exists t, m_text FO m = Some t /\ sdecode FO R e (strip b e) = Some t.
Proof.
  intros FO R HM. apply C01_decodes_single_byte_modelled with (tables := table_of); [exact HM|].
  exact C01_no_single_byte_table_holds_feff.
Qed.
Print Assumptions C01_decodes_with_the_crates_tables.

From Model Require Import Pipeline Utf Codecs.
From Proofs Require Import CodecFacts PipelineFacts.

(* With the codecs modelled (Model/Codecs.v: UTF-8, UTF-16LE/BE and every single-byte table; the CJK decoders stay
   an arbitrary oracle inside B) the decoding clause holds of the composed pipeline with NO hypothesis: LazyContract
   is a theorem about it (no generated table holds U+FEFF, every supported single-byte name has a table). *)
Theorem C01_decodes_pipeline :
  forall (B : base_oracles) b cfg r, b <> [] -> from_bytes F32ops (pipeline_dec B) b cfg = Ok r ->
  forall m e, In m r -> In e (suitable_encodings F32ops m) ->
    m_payload F32ops m = b /\ exists t, m_text F32ops m = Some t /\ sdecode F32ops (pipeline_dec B) e (strip b e) = Some t.
Proof. exact pipeline_dec_decodes. Qed.
Print Assumptions C01_decodes_pipeline.

Theorem C01_lazy_contract_holds_of_the_pipeline : forall B, LazyContract F32ops (pipeline_dec B).
Proof. exact pipeline_dec_lazy_contract. Qed.
Print Assumptions C01_lazy_contract_holds_of_the_pipeline.

Theorem C01_supported_single_byte_names_have_tables :
  forallb (fun e => is_multi_byte e || match sb_table e with Some _ => true | None => false end) IANA_SUPPORTED = true.
Proof. exact supported_single_byte_names_have_tables. Qed.
Print Assumptions C01_supported_single_byte_names_have_tables.
