(* C14 -- detecting from a path equals detecting from the file's bytes (the modelled part).
   Said plainly: over a file system that is a finite map, from_path IS "look the path up, delegate
   to the detection on the bytes, or return an error"; what the theorem adds is only that the
   delegation cannot produce a partial result or a panic.  That File::open / read_to_end deliver the
   complete content and fail on each failure kind is runtime behaviour, exercised by the `path`
   level on real files (sizes 0, 1, around steps*chunk_size, > 1 MB; missing, directory, path through
   a regular file, dangling symlink, mode 000 under an unprivileged uid). *)
From Coq Require Import List NArith String Bool.
From Model Require Import Base Names Flt Matches Cli.
From Proofs Require Import CliFacts.

Theorem C14_from_path_delegates :
  forall FO (lib : bytes -> F FO -> res (list (cmatch FO))) d p thr,
    match lookup d p with
    | Some (Regular c) => from_path FO lib d p thr = lib c thr
    | Some Directory => exists m, from_path FO lib d p thr = Err m
    | None => exists m, from_path FO lib d p thr = Err m
    end.
Proof. intros FO lib. exact (from_path_spec FO lib). Qed.
Print Assumptions C14_from_path_delegates.
