(* C06 -- self-identifying content is believed exactly when it checks out.
   `qualifies c e` = e passes the include/exclude and UTF-16 gates and its stand-alone verdict
   (probe, see C09) is Accept with the exit test firing: chaos < 0.1 for a hint, or merely
   accepted for the BOM-indicated encoding.  The hint list c_prio is: declared encoding (only
   with pre-emptive behaviour; the `declared` oracle is utils::any_specified_encoding on the
   first 4096 bytes), BOM/signature encoding, ascii, utf-8. *)
From Coq Require Import List NArith String Bool.
From Gen Require Import Tables.
From Model Require Import Base Names Flt Matches Detect.
From Model Require Import Declared.
From Proofs Require Import NamesFacts DetectRestrict DetectHints DeclaredFacts.
Import ListNotations.

(* the probing order tries the hints first, in the order of the hint list *)
Theorem C06_hints_first :
  forall prio l pre h post, NoDup l -> prioritize prio l = pre ++ h :: post -> In h prio ->
    forall x, In x pre -> In x prio.
Proof. exact prioritize_before_hint. Qed.
Print Assumptions C06_hints_first.

(* the first candidate of the probing order that qualifies -- every candidate before it is a hint,
   and none of them qualifies -- is returned as the single result (it is the main encoding or a
   listed alternative of that single match; by C09 its entry carries its stand-alone verdict) *)
Theorem C06_first_qualifying_hint_wins :
  forall FO (R : oracles FO) b cfg r inc exc pre h post,
    b <> [] ->
    canon_list "included " " is not a valid encoding name" (include_encodings FO cfg) = Ok inc ->
    canon_list "excluded encoding " " is not a valid encoding name" (exclude_encodings FO cfg) = Ok exc ->
    let c := make_ctx FO R b cfg inc exc in
    prioritize (c_prio FO c) IANA_SUPPORTED = pre ++ h :: post ->
    In h (c_prio FO c) -> qualifies FO R c h -> (forall x, In x pre -> ~ qualifies FO R c x) ->
    from_bytes FO R b cfg = Ok r ->
    (forall x, In x pre -> In x (c_prio FO c))
    /\ exists found, r = [found] /\ In h (suitable_encodings FO found).
Proof. exact first_qualifying_hint_wins. Qed.
Print Assumptions C06_first_qualifying_hint_wins.

(* if no hint qualifies, detection does not stop early: the loop runs over the whole order *)
Theorem C06_no_qualifying_hint_no_early_exit :
  forall FO (R : oracles FO) b cfg r inc exc,
    b <> [] ->
    canon_list "included " " is not a valid encoding name" (include_encodings FO cfg) = Ok inc ->
    canon_list "excluded encoding " " is not a valid encoding name" (exclude_encodings FO cfg) = Ok exc ->
    let c := make_ctx FO R b cfg inc exc in
    (forall h, In h (c_prio FO c) -> ~ qualifies FO R c h) ->
    from_bytes FO R b cfg = Ok r ->
    exists s, main_loop FO R c (init_state FO) (prioritize (c_prio FO c) IANA_SUPPORTED) = Ok (Next FO s).
Proof. exact no_qualifying_hint_no_early_exit. Qed.
Print Assumptions C06_no_qualifying_hint_no_early_exit.

(* a declaration or mark that does not check out is never taken for granted: every early exit is
   caused by a qualifying candidate, and only hints can qualify *)
Theorem C06_early_exit_only_when_qualifying :
  forall FO (R : oracles FO) c encs s r,
    (forall e, In e encs -> In e IANA_SUPPORTED) ->
    main_loop FO R c s encs = Ok (Return FO r) ->
    exists h, In h encs /\ qualifies FO R c h /\ exists found, r = [found] /\ In h (suitable_encodings FO found).
Proof. exact main_loop_return. Qed.
Print Assumptions C06_early_exit_only_when_qualifying.

Theorem C06_only_hints_qualify :
  forall FO (R : oracles FO) b cfg inc exc e m,
    In e IANA_SUPPORTED ->
    probe FO R (make_ctx FO R b cfg inc exc) e = Ok (Accept FO m true) ->
    In e (c_prio FO (make_ctx FO R b cfg inc exc)).
Proof. exact exit_only_hints. Qed.
Print Assumptions C06_only_hints_qualify.

(* hints other than the declared one are never keys of the similarity table (generated), so a
   hint cannot be skipped because of an earlier soft failure *)
Theorem C06_hints_not_similarity_keys : forall h x, In h HINT_NAMES -> is_cp_similar h x = false.
Proof. exact hint_not_similar. Qed.
Print Assumptions C06_hints_not_similarity_keys.

(* the declaration matcher, concretely (Model/Declared.v; the correspondence driver uses THIS function
   as the `declared` oracle, so a change to utils::any_specified_encoding shows up as a disagreement):
   only the first 4096 bytes matter, a declared encoding is the canonical name of a capture, and the
   expression modelled is the one in consts.rs today *)
Theorem C06_declared_zone :
  forall b1 b2, firstn (N.to_nat SEARCH_ZONE) b1 = firstn (N.to_nat SEARCH_ZONE) b2 ->
    any_specified_encoding b1 = any_specified_encoding b2.
Proof. exact declared_zone. Qed.
Print Assumptions C06_declared_zone.

Theorem C06_declared_sound :
  forall b n, any_specified_encoding b = Some n ->
    exists cap, iana_name (string_of_bytes cap) = Some n
                /\ In cap (let v := ascii_view (firstn (N.to_nat SEARCH_ZONE) b) in captures (S (List.length v)) v).
Proof. exact declared_sound. Qed.
Print Assumptions C06_declared_sound.

Theorem C06_regex_pinned :
  RE_LITERAL = "(?:(?:encoding)|(?:charset)|(?:coding))(?:[\:= ]{1,10})(?:[""']?)([a-zA-Z0-9\-_]+)(?:[""']?)"%string
  /\ SEARCH_ZONE = 4096%N.
Proof. exact regex_literal_pinned. Qed.
Print Assumptions C06_regex_pinned.
