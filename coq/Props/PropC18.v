(* C18 -- every reportable encoding name is canonical, usable and safely aliased.
   Statement over the tables generated from the source on this run; finite and complete. *)
From Coq Require Import List String.
From Model Require Import Base Names.
From Proofs Require Import NamesFacts.

(* codec identity = identity of the codec crate's encoding constant reached through
   encoding_from_whatwg_label, which is what utils::decode (used by detection and by the public
   helper alike) resolves a name with; equal constants decode every byte string identically. *)
Theorem C18_names :
  forall e, In e REPORTABLE ->
    iana_name e = Some e
    /\ (exists c, codec_of e = Some c)
    /\ (exists l, encoding_aliases e = Ok l)
    /\ (forall l a e', alias_lookup e = Some l -> In a l -> iana_name a = Some e' -> codec_of e' = codec_of e).
Proof.
  intros e He. split; [|split; [|split]].
  - exact (iana_name_supported e (reportable_supported e He)).
  - exact (reportable_codec e He).
  - exact (alias_total e He).
  - intros l a e' Hl Ha Hn. exact (alias_safe e l a e' He Hl Ha Hn).
Qed.
Print Assumptions C18_names.

(* the canonicaliser is idempotent (shared with C05) *)
Theorem C18_canonical_idempotent :
  forall x n, iana_name x = Some n -> n <> "replacement"%string -> iana_name n = Some n.
Proof. exact iana_name_idem. Qed.
Print Assumptions C18_canonical_idempotent.

(* which supported names can never be reported (no label resolves them) *)
Theorem C18_unreportable : filter (fun e => negb (reportable e)) IANA_SUPPORTED = cons "hz"%string nil.
Proof. exact unresolvable_supported. Qed.
Print Assumptions C18_unreportable.
