(* C17 -- the decode helper equals the codec; chunk mode trims cut UTF-8 cleanly.
   Model/Decode.v: the helper's loop over an abstract raw decoder, the codec crate's UTF-8 decoder
   as the table-driven automaton it is (tables regenerated from encoding-0.2.33 on every run), and
   the single-byte decoder over a forward table.
   (a) "helper = codec" for strict / ignore / replace: the helper's decode_to is a copy of the crate's
       loop; in the model both are the SAME function, so that clause is definitional here and its tie
       is the decode correspondence (helper vs codec crate on every resolvable encoding).
   (b) test-only mode: C17_test_only_agrees.
   (c) windows of valid UTF-8: C17_utf8_window_decodes. *)
From Coq Require Import List NArith String Bool.
From Gen Require Import Tables.
From Model Require Import Base Names Decode.
From Proofs Require Import DecodeFacts.
From Proofs Require Import FuelFacts.
Import ListNotations.
Open Scope N_scope.

(* a window cut at arbitrary byte positions out of valid UTF-8 that contains at least one complete
   character is: the tail s of a character cut by the window start (continuation bytes only, at most
   3, possibly none), complete characters cs (at least one), and the head p of a character cut by the
   window end (a non-empty proper prefix of a character, at most 3 bytes, or nothing).  The helper in
   chunk mode returns exactly the complete characters: nothing dropped, duplicated or invented.
   `is_char` = a byte string that takes the crate's automaton from the initial state back to it for
   the first time at its end. *)
Theorem C17_utf8_window_decodes :
  forall s cs p,
    all_cont s -> len s <= 3 -> cs <> [] -> Forall is_char cs -> (p = [] \/ is_open_prefix p) -> len p <= 3 ->
    utf8_chunk_decode (s ++ List.concat cs ++ p) = Some (List.concat cs).
Proof. exact utf8_window_decodes. Qed.
Print Assumptions C17_utf8_window_decodes.

(* what is cut off at the front of a window really is of that shape *)
Theorem C17_char_suffix_is_continuation :
  forall pre s, pre <> [] -> is_char (pre ++ s) -> all_cont s.
Proof. exact char_suffix_cont. Qed.
Print Assumptions C17_char_suffix_is_continuation.

(* strict decode of complete characters returns exactly their bytes *)
Theorem C17_strict_ok :
  forall cs, Forall is_char cs -> decode_to utf8_decoder [239; 191; 189] (List.concat cs) Strict = DtOk (List.concat cs).
Proof. exact attempt_ok. Qed.
Print Assumptions C17_strict_ok.

(* test-only mode succeeds exactly when the real decode succeeds, with the same error, and
   materialises no text -- for ANY raw decoder, trap and flags *)
Theorem C17_test_only_agrees :
  forall Out (D : raw_decoder Out) repl input t chunk mb,
    match helper D repl input t true chunk mb, helper D repl input t false chunk mb with
    | HOk o1, HOk _ => o1 = []
    | HErr e1, HErr e2 => e1 = e2
    | HFuel, HFuel => True
    | _, _ => False
    end.
Proof. intros Out D. exact (@test_only_agrees Out D). Qed.
Print Assumptions C17_test_only_agrees.

(* the automaton facts the proof rests on, decided over the tables generated on this run *)
Theorem C17_automaton_facts :
  forallb (fun b => negb (cont b) || (u8_next 0 b =? 98)) ALLB = true
  /\ forallb (fun st => forallb (fun b => u8_is_reject (u8_next st b) || cont b) ALLB) LIVE = true
  /\ forallb (fun b => negb (b <? 128) || (u8_next 0 b =? 0)) ALLB = true.
Proof. split; [exact D1_all|split; [exact D2_all|exact D3_all]]. Qed.
Print Assumptions C17_automaton_facts.

(* non-vacuity: 'é', '你', '😀' are characters; a window "A9 | 41 E4 BD A0 | F0 9F" decodes to "A你" *)
Example C17_chars_exist :
  is_char [195; 169] /\ is_char [228; 189; 160] /\ is_char [240; 159; 152; 128] /\ is_char [65]
  /\ utf8_chunk_decode ([169] ++ List.concat [[65]; [228; 189; 160]] ++ [240; 159]) = Some [65; 228; 189; 160].
Proof.
  repeat split; try (repeat constructor; vm_compute; reflexivity); try (cbn; vm_compute; auto).
  all: try (unfold bytes_ok; repeat constructor; reflexivity).
Qed.

(* the retry loops of the model are written with explicit fuel; the out-of-fuel value cannot be observed: the
   helper model is total in strict, ignore and replace mode, with or without test-only / chunk mode, on UTF-8
   and on every single-byte table (every decoder error consumes at least one byte; from the initial state no
   byte leads to a reject-with-backup state -- a finite fact of the generated automaton) *)
Theorem C17_utf8_helper_never_out_of_fuel :
  forall input t only_test is_chunk mb, helper utf8_decoder [239; 191; 189] input t only_test is_chunk mb <> HFuel.
Proof. exact utf8_helper_total. Qed.
Print Assumptions C17_utf8_helper_never_out_of_fuel.

Theorem C17_single_byte_helper_never_out_of_fuel :
  forall table input t only_test is_chunk mb, helper (sb_decoder table) [65533] input t only_test is_chunk mb <> HFuel.
Proof. exact sb_helper_total. Qed.
Print Assumptions C17_single_byte_helper_never_out_of_fuel.

From Model Require Import Utf Codecs.
From Proofs Require Import UtfFacts CodecFacts Utf16Fuel.

(* ---- the Unicode codecs at the character level (Model/Utf.v) ---- *)
(* "valid UTF-8" of the window theorem is met by every string: the crate's automaton (generated tables) takes the
   encoding of every Unicode scalar value from the initial state back to it *)
Theorem C17_every_scalar_value_encodes_to_a_character :
  forall c, is_scalar c = true -> is_char (utf8_encode_char c).
Proof. exact utf8_encode_char_is_char. Qed.
Print Assumptions C17_every_scalar_value_encodes_to_a_character.

(* the helper decodes the UTF-8 form of any text to exactly that text, strictly and in chunk mode *)
Theorem C17_utf8_round_trip :
  forall t, Forall (fun c => is_scalar c = true) t ->
    utf8_strict_text (utf8_encode t) = Some t /\ utf8_chunk_text (utf8_encode t) = Some t.
Proof. intros t Ht. split; [exact (utf8_strict_text_encode t Ht) | exact (utf8_chunk_text_encode t Ht)]. Qed.
Print Assumptions C17_utf8_round_trip.

(* the UTF-16 decoder (the crate's UTF16Decoder with its pending-byte / pending-surrogate state) inverts the
   UTF-16 encoder, for both byte orders, strictly and in chunk mode *)
Theorem C17_utf16_round_trip :
  forall big t, Forall (fun c => is_scalar c = true) t ->
    utf16_strict_text big (utf16_encode big t) = Some t /\ utf16_chunk_text big (utf16_encode big t) = Some t.
Proof. intros big t Ht. split; [exact (utf16_strict_text_encode big t Ht) | exact (utf16_chunk_text_encode big t Ht)]. Qed.
Print Assumptions C17_utf16_round_trip.

(* every modelled codec emits at most one character per byte *)
Theorem C17_modelled_codecs_one_char_per_byte_at_most :
  forall k b t, codec_strict k b = Some t -> len t <= len b.
Proof. exact codec_strict_len. Qed.
Print Assumptions C17_modelled_codecs_one_char_per_byte_at_most.

(* the closed form used for single-byte codecs is the helper *)
Theorem C17_single_byte_closed_form_is_the_helper :
  forall table l,
    sb_closed table l = (match helper (sb_decoder table) [65533] l Strict false false false with HOk o => Some o | _ => None end)
    /\ sb_closed table l = (match helper (sb_decoder table) [65533] l Strict false true false with HOk o => Some o | _ => None end)
    /\ sb_all table l = (match helper (sb_decoder table) [65533] l Strict true false false with HOk _ => true | _ => false end).
Proof. intros table l. split; [exact (sb_closed_strict table l)|split; [exact (sb_closed_chunk table l) | exact (sb_all_test table l)]]. Qed.
Print Assumptions C17_single_byte_closed_form_is_the_helper.

Example C17_utf16_example :
  utf16_strict_text false [255; 254; 65; 0; 61; 216; 0; 222] = Some [65279; 65; 128512].
Proof. vm_compute. reflexivity. Qed.

(* the UTF-16 helper model is total as well: the fuel of its loops never runs out, in any mode *)
Theorem C17_utf16_helper_never_out_of_fuel :
  forall big input t only_test is_chunk, utf16_helper big input t only_test is_chunk <> HFuel.
Proof. exact utf16_helper_total. Qed.
Print Assumptions C17_utf16_helper_never_out_of_fuel.

From Proofs Require Import Utf8Sound ScalarFacts.

(* the converse of C17_every_scalar_value_encodes_to_a_character: the crate's automaton accepts ONLY encodings of
   scalar values -- no overlong form, no surrogate, nothing above U+10FFFF *)
Theorem C17_automaton_accepts_only_scalar_encodings :
  forall c, is_char c -> exists s, is_scalar s = true /\ c = utf8_encode_char s.
Proof. exact is_char_is_encoded_scalar. Qed.
Print Assumptions C17_automaton_accepts_only_scalar_encodings.

(* strict UTF-8 decoding through the helper is the exact inverse of encoding: what decodes to t IS the UTF-8 form of t *)
Theorem C17_utf8_decoding_is_the_exact_inverse_of_encoding :
  forall b t, Forall (fun x => x < 256) b -> utf8_strict_text b = Some t ->
    Forall (fun c => is_scalar c = true) t /\ b = utf8_encode t.
Proof. exact utf8_strict_text_inv. Qed.
Print Assumptions C17_utf8_decoding_is_the_exact_inverse_of_encoding.

(* every modelled codec emits Unicode scalar values only (what a String can hold) *)
Theorem C17_modelled_codecs_emit_scalar_values :
  forall e k b t, modelled_codec e = Some k -> Forall (fun x => x < 256) b -> codec_strict k b = Some t ->
    Forall (fun c => is_scalar c = true) t.
Proof. exact modelled_codecs_emit_scalars. Qed.
Print Assumptions C17_modelled_codecs_emit_scalar_values.
