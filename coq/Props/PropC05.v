(* C05 -- include/exclude are exact filters and accept any label spelling.
   iana_name in the model performs the real normalisation (trim of the codec crate's five
   whitespace characters, ASCII-only lower-casing) over the GENERATED label table, so "any
   spelling the canonicaliser accepts" is inside the statements. *)
From Coq Require Import List NArith String Bool.
From Model Require Import Base Names Flt Matches Detect.
From Proofs Require Import DetectFilters.
Import ListNotations.

(* every encoding of a result (main or alternative) is in the canonicalised include list when
   one is given and never in the canonicalised exclude list *)
Theorem C05_membership :
  forall FO (R : oracles FO) b cfg r, b <> [] -> from_bytes FO R b cfg = Ok r ->
  exists inc exc,
    canon_list "included " " is not a valid encoding name" (include_encodings FO cfg) = Ok inc
    /\ canon_list "excluded encoding " " is not a valid encoding name" (exclude_encodings FO cfg) = Ok exc
    /\ forall m e, In m r -> In e (suitable_encodings FO m) -> (inc = [] \/ In e inc) /\ ~ In e exc.
Proof. exact filters_respected. Qed.
Print Assumptions C05_membership.

(* the canonicalised lists are the entry-wise canonical names *)
Theorem C05_canon_is_entrywise :
  forall pre post l l', canon_list pre post l = Ok l' ->
    l' = map (fun x => unwrap_or (iana_name x) x) l /\ Forall (fun x => iana_name x <> None) l.
Proof. exact canon_list_ok. Qed.
Print Assumptions C05_canon_is_entrywise.

(* replacing each entry by its canonical name leaves the whole result unchanged *)
Theorem C05_canonical_twin :
  forall FO (R : oracles FO) b cfg inc exc,
    canon_list "included " " is not a valid encoding name" (include_encodings FO cfg) = Ok inc ->
    canon_list "excluded encoding " " is not a valid encoding name" (exclude_encodings FO cfg) = Ok exc ->
    ~ In "replacement"%string (inc ++ exc) ->
    from_bytes FO R b (with_filters FO cfg inc exc) = from_bytes FO R b cfg.
Proof. exact canonical_filters_same_result. Qed.
Print Assumptions C05_canonical_twin.

(* an entry that is not a known label is an error naming it, never silently ignored *)
Theorem C05_unknown_include :
  forall FO (R : oracles FO) b cfg,
    (exists x, In x (include_encodings FO cfg) /\ iana_name x = None) ->
    exists y, In y (include_encodings FO cfg) /\ iana_name y = None
              /\ from_bytes FO R b cfg = Err ("included " ++ y ++ " is not a valid encoding name")%string.
Proof. exact unknown_include_is_error. Qed.
Print Assumptions C05_unknown_include.

Theorem C05_unknown_exclude :
  forall FO (R : oracles FO) b cfg,
    Forall (fun x => iana_name x <> None) (include_encodings FO cfg) ->
    (exists x, In x (exclude_encodings FO cfg) /\ iana_name x = None) ->
    exists y, In y (exclude_encodings FO cfg) /\ iana_name y = None
              /\ from_bytes FO R b cfg = Err ("excluded encoding " ++ y ++ " is not a valid encoding name")%string.
Proof. exact unknown_exclude_is_error. Qed.
Print Assumptions C05_unknown_exclude.
