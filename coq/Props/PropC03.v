(* C03 -- detection is deterministic.
   The models are total functions of their inputs and oracles; what has to be shown is that the
   places where the implementation enumerates a hash map / hash set cannot influence the result.
   After fix ab19220 the coherence code keeps its intermediate data in insertion-ordered vectors
   (Model/Cd.v is written over lists in that order and corresponds bit for bit); the remaining
   enumeration sites are covered here.  The hash function itself, and a new order-sensitive site
   inside code the model treats as an oracle, are covered only by the multi-launch comparison. *)
From Coq Require Import List NArith String Bool Sorted Permutation.
From Gen Require Import Tables.
From Model Require Import Base Names Flt Matches Cd.
From Proofs Require Import NamesFacts RangesFacts OrderIndep CdFacts.
From Model Require Import Md Layers.
From Proofs Require Import MdFacts LayersFacts.
From Gen Require Import Tables.
Import ListNotations.

(* sorting a duplicate-free collection under a strict total order does not depend on the order in
   which the collection is enumerated *)
Theorem C03_sorted_unique :
  forall A (lt : A -> A -> Prop), (forall x, ~ lt x x) -> (forall x y z, lt x y -> lt y z -> lt x z) ->
  forall l1 l2, StronglySorted lt l1 -> StronglySorted lt l2 -> (forall x, In x l1 <-> In x l2) -> l1 = l2.
Proof. intros A lt H1 H2 l1 l2. apply (sorted_unique lt H1 H2). Qed.
Print Assumptions C03_sorted_unique.

(* unicode_ranges(): HashSet of range names, then sort_unstable *)
Theorem C03_unicode_ranges_order_independent :
  forall t l, StronglySorted slt l -> (forall r, In r l <-> exists c, In c t /\ unicode_range c = Some r) ->
    l = unicode_ranges_of t.
Proof. exact ranges_order_independent. Qed.
Print Assumptions C03_unicode_ranges_order_independent.

(* identify_sig_or_bom: ENCODING_MARKS is a hash map searched with find(starts_with) *)
Theorem C03_marks_order_independent :
  forall b M, Permutation MARKS M -> find (fun em => starts_with b (snd em)) M = identify_sig b.
Proof. exact marks_order_independent. Qed.
Print Assumptions C03_marks_order_independent.

(* the generated tables used through keyed lookups have distinct keys where the code relies on it
   (marks), and the two duplicated keys of the similarity table resolve to the LAST entry in the
   model exactly as HashMap::from_iter does (checked exhaustively against is_cp_similar each run) *)
Theorem C03_marks_keys_distinct : NoDup (map fst MARKS).
Proof. exact marks_names_nodup. Qed.
Print Assumptions C03_marks_keys_distinct.

(* the coherence result is a function of the visited list (itself a function of the oracles'
   answers in scan order): nothing else -- in particular no enumeration order -- enters *)
Theorem C03_coherence_function_of_visited :
  forall FO (C : cd_oracles FO) t thr include,
    coherence_ratio FO C t thr include =
      option_map (fun v => sort_desc FO (filter_alt FO (filter (keep FO thr) v))) (visited FO C t include).
Proof. exact coherence_ratio_as_cutoff. Qed.
Print Assumptions C03_coherence_function_of_visited.

(* utils::is_suspiciously_successive_range (the site the mess detector consults for every pair of adjacent
   characters) builds two hash sets of the words of the range names and asks whether ANY common word is not a
   secondary keyword.  Model/Md.suspicious corresponds with it on all 280 x 280 argument pairs on every run;
   its keyword clause is a set-level statement and the whole function is symmetric: no enumeration order of
   either set, and no argument order, can influence the answer. *)
Theorem C03_suspicious_keyword_clause_is_set_level :
  forall a b, kw_clause a b = true <->
    exists w, In w (split_ws a) /\ In w (split_ws b) /\ ~ In w SECONDARY_KEYWORDS.
Proof. exact kw_clause_spec. Qed.
Print Assumptions C03_suspicious_keyword_clause_is_set_level.

Theorem C03_suspicious_range_symmetric : forall ra rb, suspicious ra rb = suspicious rb ra.
Proof. exact suspicious_sym. Qed.
Print Assumptions C03_suspicious_range_symmetric.

(* cd::alpha_unicode_split (Model/Layers.v; the site of defect D3): layer keys are pairwise distinct, the
   layers together hold exactly the lower-cased alphabetic characters that have a range -- nothing lost,
   duplicated or invented --, and the key list only ever grows at its end (order of first appearance).  The
   model is a fold over the text in scan order and corresponds with the code on every cd-level text. *)
Theorem C03_layers_partition :
  forall is_alpha to_lower t,
    NoDup (map fst (layers_of is_alpha to_lower t))
    /\ Permutation.Permutation (List.concat (alpha_unicode_split is_alpha to_lower t)) (flat_map (contrib is_alpha to_lower) t).
Proof. exact layers_partition. Qed.
Print Assumptions C03_layers_partition.

Theorem C03_layers_in_order_of_first_appearance :
  forall is_alpha to_lower t1 t2,
    exists extra, map fst (layers_of is_alpha to_lower (t1 ++ t2)%list) = (map fst (layers_of is_alpha to_lower t1) ++ extra)%list.
Proof. exact layers_order_of_first_appearance. Qed.
Print Assumptions C03_layers_in_order_of_first_appearance.
