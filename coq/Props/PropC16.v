(* C16 -- the CLI report matches the library; bad invocations fail cleanly (the modelled part).
   clap argument parsing and serde_json rendering are outside the model: it starts from parsed flags
   and ends at an abstract report (object / array / lines of records) and an exit status. *)
From Coq Require Import List NArith String Bool.
From Model Require Import Base Names Flt Matches Cli.
From Proofs Require Import CliFacts.

(* contradictory flags (--replace without --normalize, --force without --replace) or a threshold
   outside [0,1] (NaN included): rejected before any file is touched; no report; non-zero status *)
Theorem C16_bad_invocation_rejected :
  forall FO lib sb utf8 fl files d,
    bad_flags FO fl = true -> run FO lib sb utf8 fl files d = (d, NoReport FO, 101%N).
Proof. intros FO lib sb utf8. exact (bad_invocation_rejected FO lib sb utf8). Qed.
Print Assumptions C16_bad_invocation_rejected.

(* the outcome is either failure (status 101, nothing on stdout) or success (status 0) with ONE
   document: an object for exactly one record, otherwise an array; or one line per input with --minimal *)
Theorem C16_report_shape :
  forall FO lib sb utf8 fl files d d' rep st,
    run FO lib sb utf8 fl files d = (d', rep, st) ->
    (st = 101%N /\ rep = NoReport FO)
    \/ (st = 0%N /\ bad_flags FO fl = false
        /\ if f_minimal FO fl then exists lines, rep = Minimal FO lines /\ List.length lines = List.length files
           else (exists r, rep = JsonObject FO r) \/ (exists rs, rep = JsonArray FO rs /\ List.length rs <> 1%nat)).
Proof. intros FO lib sb utf8. exact (report_shape FO lib sb utf8). Qed.
Print Assumptions C16_report_shape.

(* a missing input is an error; an error anywhere means no report and a non-zero status *)
Theorem C16_missing_file :
  forall FO lib sb utf8 fl inputs d acc p, lookup d p = None -> exists m, process_file FO lib sb utf8 fl inputs d acc p = Err m.
Proof. intros FO lib sb utf8. exact (missing_file_is_error FO lib sb utf8). Qed.
Print Assumptions C16_missing_file.

Theorem C16_error_means_no_report :
  forall FO lib sb utf8 fl files d m d2,
    bad_flags FO fl = false -> process_files FO lib sb utf8 fl files d nil files = (Err m, d2) ->
    run FO lib sb utf8 fl files d = (d2, NoReport FO, 101%N).
Proof. intros FO lib sb utf8. exact (error_means_no_report FO lib sb utf8). Qed.
Print Assumptions C16_error_means_no_report.

(* every record of the report is built from a match the library returned for that input (encoding,
   aliases, alternatives = candidates minus the main one, language, alphabets, BOM flag, chaos and
   coherence percents), or is the "undefined" record of an input for which nothing was detected *)
Theorem C16_records_from_library :
  forall FO lib sb utf8 fl files d d' rep st,
    run FO lib sb utf8 fl files d = (d', rep, st) ->
    match rep with
    | JsonObject _ r => from_library FO sb r
    | JsonArray _ rs => Forall (from_library FO sb) rs
    | _ => True
    end.
Proof. intros FO lib sb utf8. exact (report_records_from_library FO lib sb utf8). Qed.
Print Assumptions C16_records_from_library.
