(* C02 -- detection and every accessor are total (the modelled part).
   In the model every `&bytes[a..b]`, `/`, `expect`, `?`/`ok_or_else` of src/lib.rs and
   src/entity.rs is a checked operation that yields `Panic site` / `Err msg`; the theorems show
   none of them can fire for steps >= 1, whatever the oracles (codecs, heuristics) answer.
   Outside the model: panics inside the codec crate, ICU, regex, allocation, and the logging
   side effects (covered by the implementation-side `total` search with a trace-level logger). *)
From Coq Require Import List NArith String Bool Lia.
From Gen Require Import Tables.
From Model Require Import Base Names Flt Matches Detect.
From Proofs Require Import NamesFacts DetectTotal.
Import ListNotations.
Open Scope N_scope.

Theorem C02_no_panic :
  forall FO (R : oracles FO) b cfg, 1 <= steps FO cfg -> forall s, from_bytes FO R b cfg <> Panic s.
Proof. exact from_bytes_no_panic. Qed.
Print Assumptions C02_no_panic.

Theorem C02_only_filter_errors :
  forall FO (R : oracles FO) b cfg msg, 1 <= steps FO cfg -> from_bytes FO R b cfg = Err msg ->
    (exists y, In y (include_encodings FO cfg) /\ iana_name y = None
               /\ msg = ("included " ++ y ++ " is not a valid encoding name")%string)
    \/ (exists y, In y (exclude_encodings FO cfg) /\ iana_name y = None
                  /\ msg = ("excluded encoding " ++ y ++ " is not a valid encoding name")%string).
Proof. exact from_bytes_errors. Qed.
Print Assumptions C02_only_filter_errors.

(* the size constants satisfy what the slice-bound proofs need; editing either constant in
   consts.rs re-opens this obligation *)
Theorem C02_sizes_ordered : (MAX_PROCESSED_BYTES <=? TOO_BIG_SEQUENCE) = true.
Proof. exact sizes_ordered. Qed.
Print Assumptions C02_sizes_ordered.

(* accessors: alias list of every reportable name (the `expect` in encoding_aliases), in-bounds
   indexing, lookup by any string *)
Theorem C02_aliases_total : forall e, In e REPORTABLE -> exists l, encoding_aliases e = Ok l.
Proof. exact alias_total. Qed.
Print Assumptions C02_aliases_total.

Theorem C02_index_in_bounds :
  forall FO (items : list (cmatch FO)) i, i < len items -> exists m, index FO items i = Ok m.
Proof.
  intros FO items i H. unfold index.
  destruct (nth_error items (N.to_nat i)) as [m|] eqn:E; [eauto|].
  apply nth_error_None in E. unfold len in H. exfalso. lia.
Qed.
Print Assumptions C02_index_in_bounds.

(* the modelling of panics is not decorative: with steps = 0 the model panics, as the code does
   (division by zero in `seq_len / steps`); the correspondence runs this case on both sides *)
