(* C07 -- BOM/signature flag is truthful; UTF-16 only with its BOM.
   identify_sig is the model of utils::identify_sig_or_bom over the generated mark table; its
   independence of the hash-map order is NamesFacts.marks_prefix_free.  That the exposed text
   starts after the mark is C01_sound (Dec uses `strip`, which drops exactly one mark). *)
From Coq Require Import List NArith String Bool.
From Model Require Import Base Names Flt Matches Detect.
From Proofs Require Import NamesFacts DetectFilters DetectSound SbFacts.
Import ListNotations.

Theorem C07_flag_truthful :
  forall FO (R : oracles FO) b cfg r, b <> [] -> from_bytes FO R b cfg = Ok r ->
    (forall m, In m r ->
       (m_bom FO m = true -> starts_with_mark_of b (m_enc FO m))
       /\ (forall e, In e (suitable_encodings FO m) -> In e ["utf-16le"; "utf-16be"]%string -> starts_with_mark_of b e))
    /\ ((r <> [] /\ forall m, In m r -> (m_bom FO m = true <-> starts_with_mark_of b (m_enc FO m)))
        \/ (exists fb, r = [fb] /\ m_bom FO fb = false /\ m_sub FO fb = [])
        \/ r = []).
Proof. exact bom_flag_truthful. Qed.
Print Assumptions C07_flag_truthful.

(* the text of a flagged match is the strict decode of the input after ONE mark *)
Theorem C07_text_after_mark :
  forall FO (R : oracles FO) b cfg r m mark,
    LazyContract FO R -> b <> [] -> from_bytes FO R b cfg = Ok r -> In m r ->
    identify_sig b = Some (m_enc FO m, mark) ->
    exists t, m_text FO m = Some t /\ sdecode FO R (m_enc FO m) (skipn (List.length mark) b) = Some t.
Proof.
  intros FO R b cfg r m mark HL Hb H Hm Hs.
  destruct (from_bytes_decodes FO R b cfg r HL Hb H m (m_enc FO m) Hm (or_introl eq_refl)) as (_ & t & Ht & Hd).
  exists t. split; [exact Ht|]. unfold strip in Hd. rewrite Hs, String.eqb_refl in Hd. exact Hd.
Qed.
Print Assumptions C07_text_after_mark.

(* the marks are pairwise non-prefix, so "the mark the input starts with" is well defined
   whatever order the hash map is iterated in *)
Theorem C07_marks_prefix_free : marks_prefix_free_b = true.
Proof. exact marks_prefix_free. Qed.
Print Assumptions C07_marks_prefix_free.

(* LazyContract discharged for table-modelled single-byte decoders (Proofs/SbFacts.v) *)
Theorem C07_text_after_mark_single_byte_modelled :
  forall FO (R : oracles FO) tables,
    SbModelled FO R tables -> (forall e, Forall (fun c => c <> 65279) (tables e)) ->
  forall b cfg r m mark, b <> [] -> from_bytes FO R b cfg = Ok r -> In m r ->
    identify_sig b = Some (m_enc FO m, mark) ->
    exists t, m_text FO m = Some t /\ sdecode FO R (m_enc FO m) (skipn (List.length mark) b) = Some t.
Proof.
  intros FO R tables HM HN b cfg r m mark. apply C07_text_after_mark. exact (sb_lazy_contract FO R tables HM HN).
Qed.
Print Assumptions C07_text_after_mark_single_byte_modelled.

From Model Require Import F32 Pipeline Utf Codecs.
From Proofs Require Import UtfFacts CodecFacts PipelineFacts UnicodeForms.
Open Scope N_scope.

(* with the codecs modelled the clause needs no LazyContract hypothesis *)
Theorem C07_text_after_mark_pipeline :
  forall (B : base_oracles) b cfg r m mark, b <> [] -> from_bytes F32ops (pipeline_dec B) b cfg = Ok r -> In m r ->
    identify_sig b = Some (m_enc F32ops m, mark) ->
    exists t, m_text F32ops m = Some t /\ sdecode F32ops (pipeline_dec B) (m_enc F32ops m) (skipn (List.length mark) b) = Some t.
Proof. intros B b cfg r m mark. apply C07_text_after_mark. exact (pipeline_dec_lazy_contract B). Qed.
Print Assumptions C07_text_after_mark_pipeline.

(* the marks ARE the encodings of U+FEFF, and what follows a mark decodes to the text it encodes: a marked
   UTF-16 / UTF-8 input exposes exactly the characters after the mark *)
Theorem C07_marks_encode_feff :
  utf8_encode [65279] = [239; 187; 191] /\ utf16_encode false [65279] = [255; 254] /\ utf16_encode true [65279] = [254; 255].
Proof. repeat split; vm_compute; reflexivity. Qed.
Print Assumptions C07_marks_encode_feff.

Theorem C07_marked_unicode_input_exposes_the_text_after_the_mark :
  forall (B : base_oracles) t b e, Forall scalar t -> unicode_form t b e ->
    sdecode F32ops (pipeline_dec B) e (strip b e) = Some t.
Proof. exact unicode_form_decodes. Qed.
Print Assumptions C07_marked_unicode_input_exposes_the_text_after_the_mark.
