(* C07 -- BOM/signature flag is truthful; UTF-16 only with its BOM.
   identify_sig is the model of utils::identify_sig_or_bom over the generated mark table; its
   independence of the hash-map order is NamesFacts.marks_prefix_free.  That the exposed text
   starts after the mark is C01_sound (Dec uses `strip`, which drops exactly one mark). *)
From Coq Require Import List NArith String Bool.
From Model Require Import Base Names Flt Matches Detect.
From Proofs Require Import NamesFacts DetectFilters DetectSound SbFacts.
Import ListNotations.

Theorem C07_flag_truthful :
  forall FO (R : oracles FO) b cfg r, b <> [] -> from_bytes FO R b cfg = Ok r ->
    (forall m, In m r ->
       (m_bom FO m = true -> starts_with_mark_of b (m_enc FO m))
       /\ (forall e, In e (suitable_encodings FO m) -> In e ["utf-16le"; "utf-16be"]%string -> starts_with_mark_of b e))
    /\ ((r <> [] /\ forall m, In m r -> (m_bom FO m = true <-> starts_with_mark_of b (m_enc FO m)))
        \/ (exists fb, r = [fb] /\ m_bom FO fb = false /\ m_sub FO fb = [])
        \/ r = []).
Proof. exact bom_flag_truthful. Qed.
Print Assumptions C07_flag_truthful.

(* the text of a flagged match is the strict decode of the input after ONE mark *)
Theorem C07_text_after_mark :
  forall FO (R : oracles FO) b cfg r m mark,
    LazyContract FO R -> b <> [] -> from_bytes FO R b cfg = Ok r -> In m r ->
    identify_sig b = Some (m_enc FO m, mark) ->
    exists t, m_text FO m = Some t /\ sdecode FO R (m_enc FO m) (skipn (List.length mark) b) = Some t.
Proof.
  intros FO R b cfg r m mark HL Hb H Hm Hs.
  destruct (from_bytes_decodes FO R b cfg r HL Hb H m (m_enc FO m) Hm (or_introl eq_refl)) as (_ & t & Ht & Hd).
  exists t. split; [exact Ht|]. unfold strip in Hd. rewrite Hs, String.eqb_refl in Hd. exact Hd.
Qed.
Print Assumptions C07_text_after_mark.

(* the marks are pairwise non-prefix, so "the mark the input starts with" is well defined
   whatever order the hash map is iterated in *)
Theorem C07_marks_prefix_free : marks_prefix_free_b = true.
Proof. exact marks_prefix_free. Qed.
Print Assumptions C07_marks_prefix_free.

(* LazyContract discharged for table-modelled single-byte decoders (Proofs/SbFacts.v) *)
Theorem C07_text_after_mark_single_byte_modelled :
  forall FO (R : oracles FO) tables,
    SbModelled FO R tables -> (forall e, Forall (fun c => c <> 65279) (tables e)) ->
  forall b cfg r m mark, b <> [] -> from_bytes FO R b cfg = Ok r -> In m r ->
    identify_sig b = Some (m_enc FO m, mark) ->
    exists t, m_text FO m = Some t /\ sdecode FO R (m_enc FO m) (skipn (List.length mark) b) = Some t.
Proof.
  intros FO R tables HM HN b cfg r m mark. apply C07_text_after_mark. exact (sb_lazy_contract FO R tables HM HN).
Qed.
Print Assumptions C07_text_after_mark_single_byte_modelled.
