(* C12 -- concurrent detections are independent (the modelled part).
   Model/Memo.v: N threads, each a list of memoised calls, run the #[cached] expansion as three atomic
   steps per call (lock-get-unlock | compute unlocked | lock-set-unlock) under an ARBITRARY scheduler
   and arbitrary eviction.  NOT modelled: the OS scheduler, std::sync::Mutex / once_cell::Lazy and the
   memory model; that each critical section is atomic and that no lock is held across `compute` is read
   off the expansion of cached_proc_macro 0.25.0 (version pinned by C11_declarations_pinned). *)
From Coq Require Import List NArith String Bool.
From Model Require Import Base Memo.
From Proofs Require Import MemoFacts.
Import ListNotations.

(* safety: whatever the schedule, every call completed by any thread returned what it returns alone *)
Theorem C12_safety :
  forall A K V (f : A -> V) (key : A -> K) keqb,
    (forall x y, keqb x y = true <-> x = y) -> (forall a a', key a = key a' -> f a = f a') ->
    forall schedule progs,
      let st0 := {| cache := []; threads := map (fun p => {| todo := p; ph := Idle; done := [] |}) progs |} in
      forall t a v, In t (threads (sys_run f key keqb st0 schedule)) -> In (a, v) (done t) -> v = f a.
Proof. intros A K V f key keqb H1 H2. exact (concurrent_results f key keqb H1 H2). Qed.
Print Assumptions C12_safety.

(* the invariant is kept from ANY good state (warm caches, calls in flight) *)
Theorem C12_invariant :
  forall A K V (f : A -> V) (key : A -> K) keqb,
    (forall x y, keqb x y = true <-> x = y) -> (forall a a', key a = key a' -> f a = f a') ->
    forall schedule st, sys_ok f key st -> sys_ok f key (sys_run f key keqb st schedule).
Proof. intros A K V f key keqb H1 H2. exact (concurrent_safety f key keqb H1 H2). Qed.
Print Assumptions C12_invariant.

(* progress: an unfinished thread always has an enabled step (it never waits for another thread), each
   step strictly decreases the total remaining work, and no remaining work means every thread is done:
   no deadlock, and every fair schedule completes within total_work steps *)
Theorem C12_progress :
  forall A K V (f : A -> V) (key : A -> K) keqb st i keep t,
    nth_error (threads st) i = Some t -> finished t = false ->
    (total_work (sys_step f key keqb st (i, keep)) < total_work st)%nat.
Proof. intros A K V f key keqb. exact (step_decreases f key keqb). Qed.
Print Assumptions C12_progress.

Theorem C12_done_when_no_work :
  forall A K V (st : @sys A K V), total_work st = 0%nat -> forallb (@finished A V) (threads st) = true.
Proof. intros A K V. exact (@all_finished_when_no_work A K V). Qed.
Print Assumptions C12_done_when_no_work.
