(* C09 -- restricting detection to one encoding does not change that encoding's verdict. *)
From Coq Require Import List NArith String Bool.
From Gen Require Import Tables.
From Model Require Import Base Names Flt Matches Detect.
From Proofs Require Import DetectRestrict.
Import ListNotations.

(* forward: every encoding that appears in an unrestricted result -- as a match or as a listed
   alternative, fall-back entry included -- is reported by the run restricted to it alone, with
   the same payload, chaos, coherence list (hence languages), BOM flag and text.
   Holds for every input, settings and oracle behaviour. *)
Theorem C09_restricted_verdict_agrees :
  forall FO (R : oracles FO) b cfg r, b <> [] -> from_bytes FO R b cfg = Ok r ->
  forall m s, In m r -> (s = m \/ In s (m_sub FO m)) ->
    exists me, from_bytes FO R b (restrict FO cfg (m_enc FO s)) = Ok [me] /\ flat_eq FO s me.
Proof. exact restricted_verdict_agrees. Qed.
Print Assumptions C09_restricted_verdict_agrees.

(* what a restricted run returns: exactly the stand-alone verdict of that encoding *)
Theorem C09_restricted_run :
  forall FO (R : oracles FO) b cfg e, b <> [] -> In e IANA_SUPPORTED ->
    let c := make_ctx FO R b (restrict FO cfg e) [e] [] in
    from_bytes FO R b (restrict FO cfg e) =
      if gate_utf16 FO c e then Ok [] else verdict_result FO (probe FO R c e).
Proof. exact restricted_run. Qed.
Print Assumptions C09_restricted_run.

(* the stand-alone verdict does not depend on the filters *)
Theorem C09_probe_ignores_filters :
  forall FO (R : oracles FO) c c' e, same_core FO c c' -> probe FO R c e = probe FO R c' e.
Proof. exact probe_core. Qed.
Print Assumptions C09_probe_ignores_filters.

(* converse: an encoding accepted alone is missing only after an early exit on a candidate whose
   exit test fired (C06), or because a code page similar to it soft-failed earlier *)
Theorem C09_missing_is_explained :
  forall FO (R : oracles FO) b cfg r, b <> [] -> from_bytes FO R b cfg = Ok r ->
  exists inc exc,
    let c := make_ctx FO R b cfg inc exc in
    let order := prioritize (c_prio FO c) IANA_SUPPORTED in
    early_exit FO R c
    \/ forall e, In e IANA_SUPPORTED -> passes_gates FO c e -> accepted_alone FO R c e ->
         In e (all_encs FO r)
         \/ exists sf, is_cp_similar e sf = true /\ soft_alone FO R c sf /\ before_in order sf e.
Proof. exact missing_is_explained. Qed.
Print Assumptions C09_missing_is_explained.
