(* C10 -- alternatives partition the accepted encodings; match fields are coherent. *)
From Coq Require Import List NArith String Bool Sorted.
From Gen Require Import Tables.
From Model Require Import Base Names Flt Matches Detect.
From Proofs Require Import FloatLaws DetectRestrict DetectPartition RangesFacts.
From Model Require Import SbLangs.
From Proofs Require Import SbLangsFacts.
From Model Require Import F32.
From Proofs Require Import F32Laws.
Import ListNotations.
Open Scope N_scope.

(* for inputs of at most TOO_BIG_SEQUENCE bytes, every result r satisfies Part:
   - no encoding occurs twice among all matches and their alternatives (p_nodup),
   - a listed alternative passes the merge test with its match: same text, |chaos difference| < eps (p_sub),
   - two matches of different encodings never pass the merge test (p_diff),
   - every match carries the input (p_payload).
   CmpLaws.law_abs_sub_sym (|x-y| = |y-x|) makes the merge test symmetric. *)
Theorem C10_partition :
  forall FO (R : oracles FO), CmpLaws FO ->
  forall b cfg r, b <> [] -> len b <= TOO_BIG_SEQUENCE -> from_bytes FO R b cfg = Ok r ->
    exists inc exc, Part FO (make_ctx FO R b cfg inc exc) r.
Proof. intros FO R CL. exact (from_bytes_partition FO R CL). Qed.
Print Assumptions C10_partition.

(* looking a match up by the name of any of its candidates, or by any label that canonicalises to
   such a name, returns that match *)
Theorem C10_lookup :
  forall FO (r : list (cmatch FO)) m e l,
    NoDup (all_encs FO r) -> In m r -> In e (suitable_encodings FO m) -> iana_name l = Some e ->
    get_by_encoding FO r l = Some m.
Proof. exact lookup_returns_its_match. Qed.
Print Assumptions C10_lookup.

(* languages: no repeats; an encoding tied to one language names no other.  Under the contracts on
   the coherence oracles (MergeNoDup, MergeSub, CohInclude; discharged for the Cd.v model in
   Proofs/CdFacts.v and asserted on the real functions' answers) *)
Theorem C10_languages :
  forall FO (R : oracles FO), MergeNoDup FO R -> MergeSub FO R -> CohInclude FO R ->
  forall b cfg r, b <> [] -> from_bytes FO R b cfg = Ok r ->
  forall m, In m r ->
    NoDup (languages FO m)
    /\ forall L, is_multi_byte (m_enc FO m) = true -> mb_languages (m_enc FO m) = [L] -> L <> "Unknown"%string ->
         forall x, In x (languages FO m) -> x = L.
Proof. intros FO R H1 H2 H3. exact (languages_coherent FO R H1 H2 H3). Qed.
Print Assumptions C10_languages.

(* the most probable language, by cases *)
Theorem C10_most_probable_language :
  forall FO (sb_langs : string -> list string) (m : cmatch FO),
    (forall l s rest, m_coh FO m = (l, s) :: rest -> most_probably_language FO sb_langs m = l)
    /\ (m_coh FO m = [] -> In "ascii"%string (suitable_encodings FO m) -> most_probably_language FO sb_langs m = "English"%string)
    /\ (m_coh FO m = [] -> ~ In "ascii"%string (suitable_encodings FO m) -> is_multi_byte (m_enc FO m) = true ->
        forall L, mb_languages (m_enc FO m) = [L] -> most_probably_language FO sb_langs m = L)
    /\ (m_coh FO m = [] -> ~ In "ascii"%string (suitable_encodings FO m) ->
        most_probably_language FO sb_langs m =
          match (if is_multi_byte (m_enc FO m) then mb_languages (m_enc FO m) else sb_langs (m_enc FO m)) with
          | l :: _ => l | [] => "Unknown"%string end).
Proof. exact mpl_cases. Qed.
Print Assumptions C10_most_probable_language.

(* unicode_ranges(): strictly sorted (bytewise string order), duplicate free, and exactly the union
   of what each character of the text yields on its own (first matching row of the generated table) *)
Theorem C10_unicode_ranges :
  forall t, StronglySorted slt (unicode_ranges_of t) /\ NoDup (unicode_ranges_of t)
            /\ forall r, In r (unicode_ranges_of t) <-> exists c, In c t /\ unicode_range c = Some r.
Proof. intro t. split; [apply ranges_sorted|]. split; [apply ranges_nodup|apply ranges_union]. Qed.
Print Assumptions C10_unicode_ranges.

(* binary32 instance: no float hypothesis left *)
Theorem C10_partition_binary32 :
  forall (R : oracles F32ops) b cfg r, b <> [] -> len b <= TOO_BIG_SEQUENCE -> from_bytes F32ops R b cfg = Ok r ->
    exists inc exc, Part F32ops (make_ctx F32ops R b cfg inc exc) r.
Proof. intros R. exact (C10_partition F32ops R F32_CmpLaws). Qed.
Print Assumptions C10_partition_binary32.

(* "in general, a fixed function of the encoding": the language list of a single-byte encoding is computed by
   Model/SbLangs.v from generated tables only (compared with the library for every supported name on every run);
   it is never empty, so the most probable language of a match without languages is always its first element *)
Theorem C10_single_byte_languages_never_empty :
  forall e, In e IANA_SUPPORTED -> is_multi_byte e = false -> sb_langs32 e <> [].
Proof. exact sb_langs_nonempty. Qed.
Print Assumptions C10_single_byte_languages_never_empty.
