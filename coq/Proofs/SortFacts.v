(* Facts about the insertion sort of Model/Matches.v that hold for ANY comparison function
   (the comparison of matches is deliberately non-transitive): it returns a permutation, an
   element preferred to all others ends up first, an element all others are preferred to ends
   up last. *)
From Coq Require Import List Bool Permutation.
From Model Require Import Matches.
Import ListNotations.

Section Sort.
  Context {A : Type} (lt : A -> A -> bool).

  Lemma ins_rev_perm x r : Permutation (ins_rev lt x r) (x :: r).
  Proof.
    induction r as [|y r IH]; cbn [ins_rev]; [apply Permutation_refl|].
    destruct (lt x y); [|apply Permutation_refl].
    eapply Permutation_trans; [apply perm_skip, IH | apply perm_swap].
  Qed.

  Lemma fold_ins_perm l r : Permutation (fold_left (fun r x => ins_rev lt x r) l r) (rev l ++ r).
  Proof.
    revert r; induction l as [|x l IH]; intro r; cbn [fold_left rev app]; [apply Permutation_refl|].
    eapply Permutation_trans; [apply IH|].
    rewrite <- app_assoc. cbn [app]. apply Permutation_app_head, ins_rev_perm.
  Qed.

  Lemma isort_perm l : Permutation (isort lt l) l.
  Proof.
    unfold isort. eapply Permutation_trans; [apply Permutation_sym, Permutation_rev|].
    eapply Permutation_trans; [apply fold_ins_perm|]. rewrite app_nil_r.
    apply Permutation_sym, Permutation_rev.
  Qed.

  Lemma isort_In l x : In x (isort lt l) <-> In x l.
  Proof.
    split; apply Permutation_in; [apply isort_perm | apply Permutation_sym, isort_perm].
  Qed.

  Lemma isort_length l : length (isort lt l) = length l.
  Proof. apply Permutation_length, isort_perm. Qed.

  (* ---- dominance ---- *)
  (* d beats x: the sort's is_less puts d before x and never x before d *)
  Definition beats (d x : A) : Prop := lt d x = true /\ lt x d = false.

  Lemma ins_rev_ne x r : ins_rev lt x r <> [].
  Proof.
    intro E. pose proof (ins_rev_perm x r) as P. rewrite E in P. apply Permutation_nil in P. discriminate.
  Qed.

  Lemma last_cons_ne (y : A) l d : l <> [] -> last (y :: l) d = last l d.
  Proof. destruct l; [contradiction|reflexivity]. Qed.

  (* r is the sorted prefix reversed, so "first element" = last of r *)
  Lemma ins_rev_keep_last d x r :
    last r d = d -> r <> [] -> lt x d = false -> last (ins_rev lt x r) d = d.
  Proof.
    induction r as [|y r IH]; intros Hl Hne Hx; [contradiction|].
    cbn [ins_rev]. destruct r as [|z r].
    - cbn in Hl. subst y. rewrite Hx. reflexivity.
    - destruct (lt x y).
      + rewrite last_cons_ne by apply ins_rev_ne.
        apply IH; [exact Hl | discriminate | exact Hx].
      + exact Hl.
  Qed.

  Lemma ins_rev_dom d r :
    (forall x, In x r -> lt d x = true) -> ins_rev lt d r = r ++ [d].
  Proof.
    induction r as [|y r IH]; intro H; cbn [ins_rev app]; [reflexivity|].
    rewrite (H y (or_introl eq_refl)). f_equal. apply IH. intros x Hx. apply H. right; exact Hx.
  Qed.

  Lemma last_app_single (r : list A) d d' : last (r ++ [d]) d' = d.
  Proof.
    induction r as [|y r IH]; [reflexivity|]. cbn [app].
    rewrite last_cons_ne by (destruct r; discriminate). exact IH.
  Qed.

  (* fold over the remaining elements keeps d as the last element of the reversed prefix *)
  Lemma fold_keep_last d l r :
    last r d = d -> r <> [] -> (forall x, In x l -> lt x d = false) ->
    last (fold_left (fun r x => ins_rev lt x r) l r) d = d.
  Proof.
    revert r; induction l as [|x l IH]; intros r Hl Hne H; cbn [fold_left]; [exact Hl|].
    apply IH.
    - apply ins_rev_keep_last; [exact Hl | exact Hne | apply H; left; reflexivity].
    - apply ins_rev_ne.
    - intros y Hy. apply H. right; exact Hy.
  Qed.

  Lemma fold_dominant d l1 l2 r :
    (forall x, In x r -> beats d x) -> (forall x, In x l1 -> beats d x) -> (forall x, In x l2 -> beats d x) ->
    last (fold_left (fun r x => ins_rev lt x r) (l1 ++ d :: l2) r) d = d.
  Proof.
    intros Hr H1 H2. rewrite fold_left_app. cbn [fold_left].
    set (r1 := fold_left (fun r x => ins_rev lt x r) l1 r).
    assert (Hr1 : forall x, In x r1 -> beats d x).
    { intros x Hx. unfold r1 in Hx. apply (Permutation_in _ (fold_ins_perm l1 r)) in Hx.
      apply in_app_or in Hx as [Hx|Hx]; [apply H1, in_rev; exact Hx | apply Hr; exact Hx]. }
    rewrite ins_rev_dom by (intros x Hx; apply Hr1; exact Hx).
    apply fold_keep_last.
    - apply last_app_single.
    - destruct r1; discriminate.
    - intros x Hx. apply H2; exact Hx.
  Qed.

  Lemma hd_rev_last (l : list A) d : hd d (rev l) = last l d.
  Proof.
    induction l as [|x l IH]; [reflexivity|]. cbn [rev]. destruct l as [|y l].
    - reflexivity.
    - rewrite last_cons_ne by discriminate. rewrite <- IH.
      destruct (rev (y :: l)) eqn:E; [|reflexivity].
      exfalso. apply (f_equal (@length A)) in E. rewrite rev_length in E. discriminate.
  Qed.

  (* an element that beats every other one comes first, whatever the rest of the relation is *)
  Theorem isort_dominant_first d l1 l2 :
    (forall x, In x (l1 ++ l2) -> beats d x) -> hd d (isort lt (l1 ++ d :: l2)) = d.
  Proof.
    intro H. unfold isort. rewrite hd_rev_last. apply fold_dominant.
    - intros x [].
    - intros x Hx. apply H, in_or_app. left; exact Hx.
    - intros x Hx. apply H, in_or_app. right; exact Hx.
  Qed.

  (* dually, an element every other one beats comes last *)
  Lemma ins_rev_dominated_head d x r :
    hd d r = d -> r <> [] -> lt x d = true -> hd d (ins_rev lt x r) = d.
  Proof.
    destruct r as [|y r]; intros Hh Hne Hx; [contradiction|]. cbn in Hh. subst y.
    cbn [ins_rev]. rewrite Hx. reflexivity.
  Qed.

  Lemma ins_rev_dominated_new d r :
    (forall x, In x r -> lt d x = false) -> ins_rev lt d r = d :: r.
  Proof.
    destruct r as [|y r]; intro H; cbn [ins_rev]; [reflexivity|].
    rewrite (H y (or_introl eq_refl)). reflexivity.
  Qed.

  Lemma fold_keep_head d l r :
    hd d r = d -> r <> [] -> (forall x, In x l -> lt x d = true) ->
    hd d (fold_left (fun r x => ins_rev lt x r) l r) = d.
  Proof.
    revert r; induction l as [|x l IH]; intros r Hh Hne H; cbn [fold_left]; [exact Hh|].
    apply IH.
    - apply ins_rev_dominated_head; [exact Hh | exact Hne | apply H; left; reflexivity].
    - intro E. pose proof (ins_rev_perm x r) as P. rewrite E in P. apply Permutation_nil in P. discriminate.
    - intros y Hy. apply H. right; exact Hy.
  Qed.

  Theorem isort_dominated_last d l1 l2 :
    (forall x, In x (l1 ++ l2) -> beats x d) -> last (isort lt (l1 ++ d :: l2)) d = d.
  Proof.
    intro H. unfold isort. rewrite <- hd_rev_last, rev_involutive.
    rewrite fold_left_app. cbn [fold_left].
    set (r1 := fold_left (fun r x => ins_rev lt x r) l1 []).
    assert (Hr1 : forall x, In x r1 -> beats x d).
    { intros x Hx. unfold r1 in Hx. apply (Permutation_in _ (fold_ins_perm l1 [])) in Hx.
      rewrite app_nil_r in Hx. apply H, in_or_app. left. apply in_rev; exact Hx. }
    rewrite ins_rev_dominated_new by (intros x Hx; apply Hr1; exact Hx).
    apply fold_keep_head; [reflexivity | discriminate |].
    intros x Hx. apply H, in_or_app. right; exact Hx.
  Qed.
End Sort.
