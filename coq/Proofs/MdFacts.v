(* Facts about the mess-detector model (Model/Md.v):
   - utils::is_suspiciously_successive_range is symmetric and its keyword clause is a set-level
     statement (no enumeration order can influence it);
   - mess_ratio is the detector-bank sum at the first checkpoint that reaches the threshold, else at
     the end: the threshold enters nowhere else;
   - on binary32 the result is never NaN and never negative (the MessOK contract of C04), for every
     behaviour of the two per-character oracles and every text shorter than 2^60 characters. *)
From Coq Require Import List NArith ZArith String Ascii Bool Lia Reals Psatz.
From Flocq Require Import Core IEEE754.BinarySingleNaN.
From Gen Require Import Tables.
From Model Require Import Base Names Flt F32 Md Md32.
From Proofs Require Import FloatLaws F32Facts F32Laws.
Import ListNotations.
Open Scope N_scope.
Open Scope list_scope.

(* ------------------------------------------------------------------ suspicious ranges *)
Definition kw_clause (a b : string) : bool :=
  existsb (fun w => mem w (split_ws b) && negb (mem w SECONDARY_KEYWORDS)) (split_ws a).

Lemma kw_clause_spec a b :
  kw_clause a b = true <->
  exists w, In w (split_ws a) /\ In w (split_ws b) /\ ~ In w SECONDARY_KEYWORDS.
Proof.
  unfold kw_clause. rewrite existsb_exists. split.
  - intros (w & Ha & H). apply andb_true_iff in H as [Hb Hs]. apply mem_In in Hb.
    apply negb_true_iff in Hs. exists w. repeat split; auto. intro Hin. apply mem_In in Hin. congruence.
  - intros (w & Ha & Hb & Hs). exists w. split; [exact Ha|]. apply andb_true_iff. split; [apply mem_In; exact Hb|].
    apply negb_true_iff. destruct (mem w SECONDARY_KEYWORDS) eqn:E; [|reflexivity]. apply mem_In in E. contradiction.
Qed.

Lemma kw_clause_sym a b : kw_clause a b = kw_clause b a.
Proof.
  destruct (kw_clause a b) eqn:E1, (kw_clause b a) eqn:E2; try reflexivity.
  - apply kw_clause_spec in E1 as (w & H1 & H2 & H3).
    assert (kw_clause b a = true) by (apply kw_clause_spec; exists w; auto). congruence.
  - apply kw_clause_spec in E2 as (w & H1 & H2 & H3).
    assert (kw_clause a b = true) by (apply kw_clause_spec; exists w; auto). congruence.
Qed.

Lemma str_eqb_sym a b : String.eqb a b = String.eqb b a.
Proof. apply String.eqb_sym. Qed.

Theorem suspicious_sym ra rb : suspicious ra rb = suspicious rb ra.
Proof.
  destruct ra as [a|], rb as [b|]; try reflexivity. unfold suspicious.
  fold (kw_clause a b). fold (kw_clause b a). rewrite (kw_clause_sym b a), (str_eqb_sym b a).
  rewrite (str_eqb_sym b "Basic Latin"), (str_eqb_sym a "Basic Latin").
  destruct (String.eqb a b); [reflexivity|].
  destruct (str_contains a "Latin"), (str_contains b "Latin"), (str_contains a "Emoticons"), (str_contains b "Emoticons");
    cbn [andb orb]; try reflexivity;
  destruct (str_contains a "Combining"), (str_contains b "Combining"); cbn [andb orb]; try reflexivity;
  destruct (kw_clause a b); try reflexivity;
  destruct (mem a ["Hiragana"; "Katakana"]%string), (mem b ["Hiragana"; "Katakana"]%string),
           (str_contains a "CJK"), (str_contains b "CJK"); cbn [andb orb]; try reflexivity;
  destruct (str_contains a "Hangul"), (str_contains b "Hangul"); cbn [andb orb]; try reflexivity;
  destruct (str_contains a "Punctuation"), (str_contains b "Punctuation"), (str_contains a "Forms"), (str_contains b "Forms");
    cbn [andb orb]; try reflexivity;
  destruct (String.eqb "Basic Latin" a), (String.eqb "Basic Latin" b); reflexivity.
Qed.

(* ------------------------------------------------------------------ the threshold enters only the early exit *)
Section Scan.
  Variable FO : FloatOps.
  Variable K : md_consts FO.
  Variable O : md_oracles.

  (* the result is the bank sum after some prefix of the scanned characters *)
  Lemma scan_is_a_bank_sum period ti thr : forall cs b index,
    exists pre, (exists post, cs = pre ++ post)
                /\ scan FO K O period ti thr b index cs
                   = bank_sum FO K (fold_left (fun b c => bank_feed FO K O b (mk_char O c)) pre b).
  Proof.
    induction cs as [|c r IH]; intros b index; cbn [scan].
    - exists []. split; [exists []; reflexivity | reflexivity].
    - destruct ((index mod period =? period - 1) && fge FO (bank_sum FO K (bank_feed FO K O b (mk_char O c))) thr).
      + exists [c]. split; [exists r; reflexivity | reflexivity].
      + destruct (IH (bank_feed FO K O b (mk_char O c)) (index + 1)) as (pre & (post & Hp) & Hs).
        exists (c :: pre). split; [exists post; rewrite Hp; reflexivity | exact Hs].
  Qed.

  (* with a threshold no checkpoint reaches, the result is the full-scan sum *)
  Lemma scan_no_exit period ti thr : forall cs b index,
    (forall b', fge FO (bank_sum FO K b') thr = false) ->
    scan FO K O period ti thr b index cs
      = bank_sum FO K (fold_left (fun b c => bank_feed FO K O b (mk_char O c)) cs b).
  Proof.
    induction cs as [|c r IH]; intros b index H; cbn [scan fold_left]; [reflexivity|].
    rewrite H, andb_false_r. apply IH. exact H.
  Qed.
End Scan.

(* ------------------------------------------------------------------ binary32: never NaN, never negative *)
Local Notation f32 := (binary_float 24 128).
Local Notation R2 := (B2R (prec := 24) (emax := 128)).
Local Notation fexp32 := (SpecFloat.fexp 24 128).
Local Notation rnd := (round radix2 fexp32 ZnearestE).
Local Instance Vexp32' : Valid_exp fexp32 := fexp_correct 24 128 Hprec32.

Lemma of_N32_small (n : N) : n < 2 ^ 100 ->
  is_finite (of_N32 n) = true /\ (0 <= R2 (of_N32 n))%R /\ (1 <= n -> (1 <= R2 (of_N32 n))%R).
Proof.
  intros Hn. destruct (N.eq_dec n 0) as [->|Hz].
  - repeat split; try (cbn; lra). intro H. lia.
  - destruct (of_N32_pos n) as (Hf & Hp); [lia|]. repeat split; auto. lra.
Qed.

Lemma of_N32_good (n : N) : n < 2 ^ 100 -> good32 (of_N32 n).
Proof. intro H. destruct (of_N32_small n H) as (Hf & Hp & _). apply finite_nonneg_good; assumption. Qed.

Lemma ratio_good (a b : N) : a < 2 ^ 100 -> 1 <= b < 2 ^ 100 -> good32 (div32 (of_N32 a) (of_N32 b)).
Proof.
  intros Ha Hb. destruct (of_N32_small b) as (Hf & _ & Hp); [lia|].
  apply div32_good; [apply of_N32_good; exact Ha | exact Hf |]. specialize (Hp (proj1 Hb)). lra.
Qed.

Lemma pos_of_flags (x : f32) : is_finite_strict x = true -> Bsign x = false -> (0 < R2 x)%R.
Proof.
  destruct x as [s|s| |s m e H]; cbn; try discriminate. intros _ ->. apply F2R_gt_0. cbn. lia.
Qed.

Lemma mul32_good (x k : f32) : good32 x -> is_finite_strict k = true -> Bsign k = false -> good32 (mul32 x k).
Proof.
  intros Hx Hk Hs. pose proof (pos_of_flags k Hk Hs) as Hp.
  destruct (is_finite x) eqn:Fx.
  - pose proof (Bmult_correct 24 128 Hprec32 Hemax32 mode_NE x k) as HC.
    fold (mul32 x k) in HC. cbn [round_mode] in HC.
    destruct (Rlt_bool _ _) eqn:HB in HC.
    + destruct HC as (HR & HF & _). rewrite Fx in HF.
      assert (Fk : is_finite k = true) by (destruct k; cbn in *; try discriminate; reflexivity).
      rewrite Fk in HF. apply finite_nonneg_good; [exact HF|]. rewrite HR.
      rewrite <- (round_0 radix2 fexp32 ZnearestE). apply round_le; auto with typeclass_instances.
      pose proof (good32_nonneg x Hx). apply Rmult_le_pos; lra.
    + apply overflow_inf in HC. rewrite Hs, xorb_false_r in HC. destruct (Bsign x) eqn:Sx.
      * exfalso. pose proof (good32_sign_true x Hx Sx) as ->. change (R2 (B754_zero true)) with 0%R in HB.
        rewrite Rmult_0_l, round_0, Rabs_R0 in HB; auto with typeclass_instances.
        rewrite Rlt_bool_true in HB; [discriminate|]. apply bpow_gt_0.
      * rewrite HC. apply good32_cases. auto.
  - apply good32_cases in Hx. destruct Hx as [->|[->|[->|(m & e & H & ->)]]]; try discriminate.
    destruct k as [s|s| |s mk ek Hk']; cbn in Hk, Hs; try discriminate. subst s. cbn. apply good32_cases. auto.
Qed.

Lemma zero_good32 : good32 (B754_zero false).
Proof. apply good32_cases. auto. Qed.

Local Arguments N.add : simpl never.
Local Arguments N.mul : simpl never.
Local Arguments N.sub : simpl never.
Local Arguments N.leb : simpl never.
Local Arguments N.ltb : simpl never.
Local Arguments N.eqb : simpl never.

Section Good.
  Variable O : md_oracles.
  Notation FO := F32ops.
  Notation K := md_consts32.

  Lemma at_least_good x k : good32 x -> good32 (at_least FO x k).
  Proof. intro H. unfold at_least. destruct (fge FO x k); [exact H | exact zero_good32]. Qed.

  Lemma k2_flags : is_finite_strict (k_2 FO K) = true /\ Bsign (k_2 FO K) = false.
  Proof. split; vm_compute; reflexivity. Qed.
  Lemma k8_flags : is_finite_strict (k_8 FO K) = true /\ Bsign (k_8 FO K) = false.
  Proof. split; vm_compute; reflexivity. Qed.

  Definition BIG : N := 158456325028528675187087900672.   (* 2^97 *)
  Lemma pow100 : 2 ^ 100 = 1267650600228229401496703205376. Proof. reflexivity. Qed.

  (* invariants of the eight detector states after n characters *)
  Definition sym_inv (s : p_sym) (n : N) := sy_punct s <= n /\ sy_symbol s <= 2 * n /\ sy_count s <= n.
  Definition acc_inv (s : p_acc) (n : N) := ac_acc s <= n /\ ac_count s <= n.
  Definition unp_inv (s : p_unp) (n : N) := un_unp s <= n /\ un_count s <= n.
  Definition rng_inv (s : p_rng) (n : N) := rg_susp s <= n /\ rg_count s <= n.
  Definition dup_inv (s : p_dup) (n : N) := du_succ s <= 2 * n /\ du_count s <= n.
  Definition sww_inv (s : p_sww) (n : N) :=
    sw_count s + len (sw_buf s) <= n /\ sw_bad_chars s <= sw_count s
    /\ (0 < sw_words s -> 0 < sw_count s) /\ (0 < sw_foreign s -> 0 < sw_words s).
  Definition cjk_inv (s : p_cjk) (n : N) := cj_wrong s <= n /\ cj_count s <= n.
  Definition aul_inv (s : p_aul) (n : N) := au_succ_final s + au_succ s <= 2 * n /\ au_count s <= n.

  Ltac split_ifs :=
    repeat match goal with
           | |- context [if ?c then _ else _] => destruct c eqn:?
           | |- context [match ?o with Some _ => _ | None => _ end] => destruct o eqn:?
           end.

  Lemma len_snoc {A} (l : list A) x : len (l ++ [x]) = len l + 1.
  Proof. unfold len. rewrite app_length. cbn. lia. Qed.

  Lemma sym_step s c n : sym_inv s n -> sym_inv (sym_feed s c) (n + 1).
  Proof. unfold sym_inv, sym_feed. intros (H1 & H2 & H3). cbv zeta; split_ifs; cbn; lia. Qed.
  Lemma acc_step s c n : acc_inv s n -> acc_inv (acc_feed s c) (n + 1).
  Proof. unfold acc_inv, acc_feed. intros (H1 & H2). cbv zeta; split_ifs; cbn; lia. Qed.
  Lemma unp_step s c n : unp_inv s n -> unp_inv (unp_feed s c) (n + 1).
  Proof. unfold unp_inv, unp_feed. intros (H1 & H2). cbv zeta; split_ifs; cbn; lia. Qed.
  Lemma rng_step s c n : rng_inv s n -> rng_inv (rng_feed s c) (n + 1).
  Proof. unfold rng_inv, rng_feed. intros (H1 & H2). cbv zeta; split_ifs; cbn; lia. Qed.
  Lemma dup_step s c n : dup_inv s n -> dup_inv (dup_feed O s c) (n + 1).
  Proof. unfold dup_inv, dup_feed. intros (H1 & H2). cbv zeta; split_ifs; cbn; lia. Qed.
  Lemma cjk_step s c n : cjk_inv s n -> cjk_inv (cjk_feed s c) (n + 1).
  Proof. unfold cjk_inv, cjk_feed. intros (H1 & H2). cbv zeta; split_ifs; cbn; lia. Qed.
  Lemma aul_step s c n : aul_inv s n -> aul_inv (aul_feed s c) (n + 1).
  Proof.
    unfold aul_inv, aul_feed. intros (H1 & H2).
    destruct (negb (is c ALPHABETIC && is c CASE_VARIABLE) && (0 <? au_since_sep s)).
    - split_ifs; cbn; lia.
    - destruct (au_last s) as [l|]; [|cbn; lia].
      destruct ((is c UPPERCASE && is l LOWERCASE) || (is c LOWERCASE && is l UPPERCASE)); [|cbn; lia].
      destruct (au_buf s); cbn; lia.
  Qed.
  Lemma sww_step s c n : sww_inv s n -> sww_inv (sww_feed FO K s c) (n + 1).
  Proof.
    unfold sww_inv, sww_feed. intros (H1 & H2 & H3 & H4).
    destruct (is c ASCII_ALPHABETIC).
    - cbn. rewrite len_snoc. repeat split; try lia; auto.
    - destruct (sw_buf s) as [|x buf] eqn:Hb.
      { rewrite Hb. repeat split; try lia; auto. }
      assert (Hl : 1 <= len (x :: buf)) by (unfold len; cbn [List.length]; lia).
      destruct (is c WHITESPACE || is c PUNCTUATION || is c SEPARATOR).
      + cbv zeta. remember (len (x :: buf)) as bl eqn:Hbl. clear Hbl. split_ifs; cbn; repeat split; try lia.
      + destruct (negb (is c WEIRD_SAFE) && negb (is c ASCII_DIGIT) && is c SYMBOL).
        * cbn [sw_count sw_buf sw_bad_chars sw_words sw_foreign]. rewrite len_snoc. repeat split; try lia; auto.
        * rewrite Hb. repeat split; try lia; auto.
  Qed.

  Lemma mono_sym s n : sym_inv s n -> sym_inv s (n + 1). Proof. unfold sym_inv. lia. Qed.
  Lemma mono_acc s n : acc_inv s n -> acc_inv s (n + 1). Proof. unfold acc_inv. lia. Qed.
  Lemma mono_rng s n : rng_inv s n -> rng_inv s (n + 1). Proof. unfold rng_inv. lia. Qed.
  Lemma mono_dup s n : dup_inv s n -> dup_inv s (n + 1). Proof. unfold dup_inv. lia. Qed.

  Definition bank_inv (b : bank) (n : N) :=
    sym_inv (b_sym b) n /\ acc_inv (b_acc b) n /\ unp_inv (b_unp b) n /\ rng_inv (b_rng b) n
    /\ dup_inv (b_dup b) n /\ sww_inv (b_sww b) n /\ cjk_inv (b_cjk b) n /\ aul_inv (b_aul b) n.

  Lemma bank_init_inv : bank_inv bank_init 0.
  Proof. unfold bank_inv, bank_init, sym_inv, acc_inv, unp_inv, rng_inv, dup_inv, sww_inv, cjk_inv, aul_inv. cbn. lia. Qed.

  Lemma bank_step b c n : bank_inv b n -> bank_inv (bank_feed FO K O b c) (n + 1).
  Proof.
    unfold bank_inv, bank_feed. intros (H1 & H2 & H3 & H4 & H5 & H6 & H7 & H8). cbn [b_sym b_acc b_unp b_rng b_dup b_sww b_cjk b_aul].
    refine (conj _ (conj _ (conj _ (conj _ (conj _ (conj _ (conj _ _))))))).
    - destruct (sym_eligible c); [apply sym_step | apply mono_sym]; exact H1.
    - destruct (acc_eligible c); [apply acc_step | apply mono_acc]; exact H2.
    - apply unp_step; exact H3.
    - destruct (rng_eligible c); [apply rng_step | apply mono_rng]; exact H4.
    - destruct (dup_eligible c); [apply dup_step | apply mono_dup]; exact H5.
    - apply sww_step; exact H6.
    - apply cjk_step; exact H7.
    - apply aul_step; exact H8.
  Qed.

  (* ---- every ratio of a reachable bank is good ---- *)
  Lemma ratio_good' a b : a < 4 * BIG -> 1 <= b -> b < 4 * BIG -> good32 (ratio_of FO a b).
  Proof.
    intros Ha Hb1 Hb2. unfold ratio_of. cbn [fdiv f_of_N F32ops]. unfold BIG in *.
    apply ratio_good; rewrite pow100; lia.
  Qed.

  Lemma scaled_ratio_good a k b :
    is_finite_strict k = true /\ Bsign k = false -> a < 4 * BIG -> 1 <= b -> b < 4 * BIG ->
    good32 (fdiv FO (fmul FO (f_of_N FO a) k) (f_of_N FO b)).
  Proof.
    intros (Hk1 & Hk2) Ha Hb1 Hb2. cbn [fdiv fmul f_of_N F32ops]. unfold BIG in *.
    destruct (of_N32_small b) as (Hf & _ & Hp); [rewrite pow100; lia|].
    apply div32_good; [|exact Hf|specialize (Hp Hb1); lra].
    apply mul32_good; [apply of_N32_good; rewrite pow100; lia | exact Hk1 | exact Hk2].
  Qed.

  Lemma sym_ratio_good s n : sym_inv s n -> n < BIG -> good32 (sym_ratio FO K s).
  Proof.
    intros (H1 & H2 & H3) Hn. unfold sym_ratio. destruct (sy_count s =? 0) eqn:E; [exact zero_good32|].
    apply N.eqb_neq in E. apply at_least_good. apply ratio_good'; lia.
  Qed.
  Lemma acc_ratio_good s n : acc_inv s n -> n < BIG -> good32 (acc_ratio FO K s).
  Proof.
    intros (H1 & H2) Hn. unfold acc_ratio. destruct (8 <=? ac_count s) eqn:E; [|exact zero_good32].
    apply N.leb_le in E. apply at_least_good. apply ratio_good'; lia.
  Qed.
  Lemma unp_ratio_good s n : unp_inv s n -> n < BIG -> good32 (unp_ratio FO K s).
  Proof.
    intros (H1 & H2) Hn. unfold unp_ratio. destruct (un_count s =? 0) eqn:E; [exact zero_good32|].
    apply N.eqb_neq in E. apply scaled_ratio_good; [exact k8_flags | lia | lia | lia].
  Qed.
  Lemma rng_ratio_good s n : rng_inv s n -> n < BIG -> good32 (rng_ratio FO K s).
  Proof.
    intros (H1 & H2) Hn. unfold rng_ratio. destruct (0 <? rg_count s) eqn:E; [|exact zero_good32].
    apply N.ltb_lt in E. apply at_least_good. apply scaled_ratio_good; [exact k2_flags | lia | lia | lia].
  Qed.
  Lemma dup_ratio_good s n : dup_inv s n -> n < BIG -> good32 (dup_ratio FO K s).
  Proof.
    intros (H1 & H2) Hn. unfold dup_ratio. destruct (du_count s =? 0) eqn:E; [exact zero_good32|].
    apply N.eqb_neq in E. apply scaled_ratio_good; [exact k2_flags | lia | lia | lia].
  Qed.
  Lemma sww_ratio_good s n : sww_inv s n -> n < BIG -> good32 (sww_ratio FO s).
  Proof.
    intros (H1 & H2 & H3 & H4) Hn. unfold sww_ratio.
    destruct ((sw_words s <=? 10) && (sw_foreign s =? 0)) eqn:E; [exact zero_good32|].
    assert (Hc : 0 < sw_count s).
    { apply andb_false_iff in E as [E|E].
      - apply N.leb_gt in E. apply H3. lia.
      - apply N.eqb_neq in E. apply H3, H4. lia. }
    apply ratio_good'; lia.
  Qed.
  Lemma cjk_ratio_good s n : cjk_inv s n -> n < BIG -> good32 (cjk_ratio FO s).
  Proof.
    intros (H1 & H2) Hn. unfold cjk_ratio. destruct (cj_count s <? 16) eqn:E; [exact zero_good32|].
    apply N.ltb_ge in E. apply ratio_good'; lia.
  Qed.
  Lemma aul_ratio_good s n : aul_inv s n -> n < BIG -> good32 (aul_ratio FO s).
  Proof.
    intros (H1 & H2) Hn. unfold aul_ratio. destruct (au_count s =? 0) eqn:E; [exact zero_good32|].
    apply N.eqb_neq in E. apply ratio_good'; lia.
  Qed.

  Lemma bank_sum_good b n : bank_inv b n -> n < BIG -> good32 (bank_sum FO K b).
  Proof.
    intros (H1 & H2 & H3 & H4 & H5 & H6 & H7 & H8) Hn. unfold bank_sum, bank_ratios.
    apply fsum_good.
    repeat match goal with |- Forall _ (_ :: _) => apply Forall_cons | |- Forall _ [] => apply Forall_nil end.
    - eapply sym_ratio_good; eauto.
    - eapply acc_ratio_good; eauto.
    - eapply unp_ratio_good; eauto.
    - eapply rng_ratio_good; eauto.
    - eapply dup_ratio_good; eauto.
    - eapply sww_ratio_good; eauto.
    - eapply cjk_ratio_good; eauto.
    - eapply aul_ratio_good; eauto.
  Qed.

  Lemma fold_inv pre : forall b n,
    bank_inv b n -> bank_inv (fold_left (fun b c => bank_feed FO K O b (mk_char O c)) pre b) (n + len pre).
  Proof.
    induction pre as [|c r IH]; intros b n H; cbn [fold_left].
    - unfold len. cbn. rewrite N.add_0_r. exact H.
    - replace (n + len (c :: r)) with ((n + 1) + len r) by (unfold len; cbn [List.length]; lia).
      apply IH. apply bank_step. exact H.
  Qed.

  (* MessOK for the model: not NaN, not negative -- for every behaviour of the per-character oracles *)
  Theorem mess_ratio_good t thr : len t + 1 < BIG -> good32 (mess_ratio FO K O t thr).
  Proof.
    intro Hl. unfold mess_ratio.
    destruct (scan_is_a_bank_sum FO K O (period_of (len t)) 0 thr (t ++ [10]) bank_init 0) as (pre & (post & Hp) & ->).
    pose proof (fold_inv pre bank_init 0 bank_init_inv) as Hi. rewrite N.add_0_l in Hi.
    eapply bank_sum_good; [exact Hi|].
    assert (len pre <= len (t ++ [10])) by (rewrite Hp; unfold len; rewrite app_length; lia).
    assert (len (t ++ [10]) = len t + 1) by (unfold len; rewrite app_length; cbn; lia).
    lia.
  Qed.
End Good.
