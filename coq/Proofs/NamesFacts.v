(* Finite facts about the generated tables, decided by vm_compute on what the translator read
   from the source on THIS run, and lifted to quantified statements with forallb_forall. *)
From Coq Require Import List NArith String Ascii Bool.
From Gen Require Import Tables.
From Model Require Import Base Names.
Import ListNotations.
Open Scope N_scope.

Fixpoint nodupb (l : list string) : bool :=
  match l with [] => true | x :: r => negb (mem x r) && nodupb r end.

Lemma nodupb_NoDup l : nodupb l = true -> NoDup l.
Proof.
  induction l as [|x l IH]; simpl; intro H; [constructor|].
  apply andb_true_iff in H as [H1 H2]. constructor; [|auto].
  intro Hin. apply mem_In in Hin. rewrite Hin in H1. discriminate.
Qed.

Lemma supported_nodup : NoDup IANA_SUPPORTED.
Proof. apply nodupb_NoDup. vm_compute. reflexivity. Qed.

Definition opt_str_eqb (a b : option string) : bool := opt_eqb String.eqb a b.

Lemma opt_str_eqb_eq a b : opt_str_eqb a b = true -> a = b.
Proof.
  destruct a, b; simpl; intro H; try discriminate; auto. apply String.eqb_eq in H; subst; auto.
Qed.

(* ---- every supported name canonicalises to itself ---- *)
Lemma iana_name_supported e : In e IANA_SUPPORTED -> iana_name e = Some e.
Proof. intro H. unfold iana_name. apply mem_In in H. rewrite H. reflexivity. Qed.

Lemma reportable_supported_all : forallb (fun e => mem e IANA_SUPPORTED) REPORTABLE = true.
Proof. vm_compute. reflexivity. Qed.
Lemma reportable_supported e : In e REPORTABLE -> In e IANA_SUPPORTED.
Proof.
  intro H. pose proof reportable_supported_all as HA. rewrite forallb_forall in HA.
  apply mem_In. exact (HA _ H).
Qed.

(* ---- idempotence of the canonicaliser ---- *)
Definition label_target_ok (lv : string * string) : bool :=
  match const_info (snd lv) ENCODING_CONSTS with
  | Some (n, w) => String.eqb (unwrap_or w n) "replacement"
                  || opt_str_eqb (iana_name (unwrap_or w n)) (Some (unwrap_or w n))
  | None => false
  end.

Lemma labels_targets_ok : forallb label_target_ok LABELS = true.
Proof. vm_compute. reflexivity. Qed.

Lemma assoc_first_In {B} k (l : list (string * B)) v : assoc_first k l = Some v -> In (k, v) l.
Proof.
  induction l as [|[k' v'] l IH]; simpl; [discriminate|].
  destruct (String.eqb k' k) eqn:E; intro H.
  - apply String.eqb_eq in E. inversion H; subst. left; reflexivity.
  - right; auto.
Qed.

(* the five WHATWG labels of the "replacement" encoding canonicalise to a name that is itself not
   a label: that is the only exception, and "replacement" is not a supported encoding *)
Lemma iana_name_idem x n : iana_name x = Some n -> n <> "replacement"%string -> iana_name n = Some n.
Proof.
  unfold iana_name at 1. destruct (mem x IANA_SUPPORTED) eqn:Hm.
  - intros H _; inversion H; subst. apply iana_name_supported. apply mem_In; assumption.
  - destruct (label_const x) as [v|] eqn:Hl; [|discriminate].
    unfold label_const in Hl. apply assoc_first_In in Hl.
    pose proof labels_targets_ok as HA. rewrite forallb_forall in HA. specialize (HA _ Hl).
    unfold label_target_ok in HA. cbn [snd] in HA.
    destruct (const_info v ENCODING_CONSTS) as [[n' w]|]; [|discriminate].
    intros H Hne; inversion H; subst. apply orb_true_iff in HA as [HA|HA].
    + apply String.eqb_eq in HA. contradiction.
    + apply opt_str_eqb_eq in HA. exact HA.
Qed.

Lemma replacement_unsupported : mem "replacement" IANA_SUPPORTED = false.
Proof. vm_compute. reflexivity. Qed.

(* ---- aliases: available for every reportable name, and safe ---- *)
Definition alias_total_b (e : string) : bool :=
  match alias_lookup e with Some _ => true | None => false end.

Lemma alias_total_all : forallb alias_total_b REPORTABLE = true.
Proof. vm_compute. reflexivity. Qed.

Lemma alias_total e : In e REPORTABLE -> exists l, encoding_aliases e = Ok l.
Proof.
  intro H. pose proof alias_total_all as HA. rewrite forallb_forall in HA. specialize (HA _ H).
  unfold alias_total_b in HA. unfold encoding_aliases. destruct (alias_lookup e); [eauto|discriminate].
Qed.

Definition alias_safe_b (e : string) : bool :=
  match alias_lookup e with
  | Some l => forallb (fun a => match iana_name a with
                                | Some e' => opt_str_eqb (codec_of e') (codec_of e)
                                | None => true
                                end) l
  | None => true
  end.

Lemma alias_safe_all : forallb alias_safe_b REPORTABLE = true.
Proof. vm_compute. reflexivity. Qed.

Lemma alias_safe e l a e' :
  In e REPORTABLE -> alias_lookup e = Some l -> In a l -> iana_name a = Some e' -> codec_of e' = codec_of e.
Proof.
  intros He Hl Ha Hn. pose proof alias_safe_all as HA. rewrite forallb_forall in HA. specialize (HA _ He).
  unfold alias_safe_b in HA. rewrite Hl in HA. rewrite forallb_forall in HA. specialize (HA _ Ha).
  rewrite Hn in HA. apply opt_str_eqb_eq; assumption.
Qed.

(* every reportable name resolves to a codec *)
Definition has_codec_b (e : string) : bool := match codec_of e with Some _ => true | None => false end.
Lemma reportable_codec_all : forallb has_codec_b REPORTABLE = true.
Proof. vm_compute. reflexivity. Qed.
Lemma reportable_codec e : In e REPORTABLE -> exists c, codec_of e = Some c.
Proof.
  intro H. pose proof reportable_codec_all as HA. rewrite forallb_forall in HA. specialize (HA _ H).
  unfold has_codec_b in HA. destruct (codec_of e); [eauto|discriminate].
Qed.

(* the reportable names do not drift silently: exactly the supported list minus what the label
   table cannot resolve *)
Lemma unresolvable_supported :
  filter (fun e => negb (reportable e)) IANA_SUPPORTED = ["hz"%string].
Proof. vm_compute. reflexivity. Qed.

(* ---- BOM / signature marks ---- *)
Definition marks_prefix_free_b : bool :=
  forallb (fun a => forallb (fun b => String.eqb (fst a) (fst b) || negb (starts_with (snd a) (snd b))) MARKS) MARKS.

Lemma marks_prefix_free : marks_prefix_free_b = true.
Proof. vm_compute. reflexivity. Qed.

Lemma marks_names_nodup : NoDup (map fst MARKS).
Proof. apply nodupb_NoDup. vm_compute. reflexivity. Qed.

Lemma marks_nonempty : forallb (fun a => negb (len (snd a) =? 0)) MARKS = true.
Proof. vm_compute. reflexivity. Qed.

Lemma marks_multibyte : forallb (fun a => is_multi_byte (fst a) && mem (fst a) IANA_SUPPORTED) MARKS = true.
Proof. vm_compute. reflexivity. Qed.

(* ---- hints are never keys of the similarity table ---- *)
Definition HINT_NAMES : list string := ("ascii" :: "utf-8" :: map fst MARKS)%string.

Lemma hints_not_similar_keys :
  forallb (fun h => match assoc_last h SIMILAR with None => true | Some _ => false end) HINT_NAMES = true.
Proof. vm_compute. reflexivity. Qed.

Lemma hint_not_similar h x : In h HINT_NAMES -> is_cp_similar h x = false.
Proof.
  intro H. pose proof hints_not_similar_keys as HA. rewrite forallb_forall in HA. specialize (HA _ H).
  unfold is_cp_similar. destruct (assoc_last h SIMILAR); [discriminate|reflexivity].
Qed.

Lemma utf8_supported : In "utf-8"%string IANA_SUPPORTED.
Proof. apply mem_In. vm_compute. reflexivity. Qed.
Lemma ascii_supported : In "ascii"%string IANA_SUPPORTED.
Proof. apply mem_In. vm_compute. reflexivity. Qed.

Lemma sizes_ordered : (MAX_PROCESSED_BYTES <=? TOO_BIG_SEQUENCE) = true.
Proof. vm_compute. reflexivity. Qed.

(* similarity values and keys are supported names (a typo would silently disable a skip) *)
Lemma similar_names_supported :
  forallb (fun kv => mem (fst kv) IANA_SUPPORTED && forallb (fun v => mem v IANA_SUPPORTED) (snd kv)) SIMILAR = true.
Proof. vm_compute. reflexivity. Qed.

(* multi-byte list and language table mention supported names only *)
Lemma multibyte_supported : forallb (fun e => mem e IANA_SUPPORTED) MULTI_BYTE = true.
Proof. vm_compute. reflexivity. Qed.
Lemma enc_lang_supported : forallb (fun kv => mem (fst kv) IANA_SUPPORTED && mem (snd kv) LANGUAGE_ENUM) ENCODING_TO_LANGUAGE = true.
Proof. vm_compute. reflexivity. Qed.
