(* The fuel of the decode model (Model/Decode.v) is never exhausted in strict mode: the out-of-fuel value
   HFuel / DtFuel is an artefact of writing the retry loops as structural recursions, and the theorems below
   show it cannot be observed -- for ANY raw decoder in plain strict mode, and in chunk mode for any decoder
   whose errors are "invalid sequence" or "incomplete sequence" (all decoder errors of the codec crate are:
   the translator extracts the cause strings into Tables.CODEC_ERROR_CAUSES; the other three causes there are
   raised by encoders only). *)
From Coq Require Import List NArith ZArith String Bool Lia.
From Gen Require Import Tables.
From Model Require Import Base Names Decode.
Import ListNotations.
Open Scope N_scope.
Open Scope list_scope.

Section Fuel.
  Context {Out : Type} (D : raw_decoder Out) (repl : list Out).

  Lemma decode_to_strict_no_fuel input : decode_to D repl input Strict <> DtFuel.
  Proof.
    unfold decode_to. cbn [decode_to_loop].
    destruct (dfeed Out D (dinit Out D) (skipn (N.to_nat 0) input)) as [[[st1 off] o1] err].
    destruct err as [e|]; cbn [do_trap]; [discriminate|].
    destruct (dfinish Out D st1) as [[st2 o2] err2]. destruct err2 as [e|]; cbn [do_trap]; discriminate.
  Qed.

  (* every error the decoder can report in strict mode is one of the two the retry loop understands *)
  Definition TwoCauses : Prop :=
    forall input e o, decode_to D repl input Strict = DtErr e o -> err_cause e = Invalid \/ err_cause e = Incomplete.

  Lemma chunk_loop_no_fuel : TwoCauses ->
    forall fuel input b e, b <= e -> (Z.of_N e - Z.of_N b < Z.of_nat fuel)%Z -> chunk_loop D repl fuel input b e <> HFuel.
  Proof.
    intros HC. induction fuel as [|f IH]; intros input b e Hle Hlt.
    - exfalso. lia.
    - cbn [chunk_loop].
      destruct (decode_to D repl (firstn (N.to_nat (e - b)) (skipn (N.to_nat b) input)) Strict) as [out|err out|] eqn:Ed.
      + discriminate.
      + destruct (HC _ _ _ Ed) as [Hc|Hc]; rewrite Hc.
        * destruct ((e - (b + 1) <? 1) || (3 <? b + 1) || (3 <? len input - e)) eqn:Ex; [discriminate|].
          apply orb_false_iff in Ex as [Ex _]. apply orb_false_iff in Ex as [Ex _]. apply N.ltb_ge in Ex. apply IH; lia.
        * destruct ((e - 1 - b <? 1) || (3 <? b) || (3 <? len input - (e - 1))) eqn:Ex; [discriminate|].
          apply orb_false_iff in Ex as [Ex _]. apply orb_false_iff in Ex as [Ex _]. apply N.ltb_ge in Ex. apply IH; lia.
      + exfalso. exact (decode_to_strict_no_fuel _ Ed).
  Qed.

  Theorem helper_strict_no_fuel : TwoCauses ->
    forall input only_test is_chunk mb, helper D repl input Strict only_test is_chunk mb <> HFuel.
  Proof.
    intros HC input ot ch mb. unfold helper. destruct (ch && mb).
    - pose proof (chunk_loop_no_fuel HC (S (List.length input)) input 0 (len input)) as H.
      destruct (chunk_loop D repl (S (List.length input)) input 0 (len input)) eqn:E; try discriminate.
      exfalso. apply H; [lia | unfold len; lia | reflexivity].
    - destruct (decode_to D repl input Strict) eqn:E; try discriminate. exfalso. exact (decode_to_strict_no_fuel _ E).
  Qed.
End Fuel.

(* the two concrete decoder models only ever report Invalid / Incomplete *)
Lemma sb_two_causes table repl : TwoCauses (sb_decoder table) repl.
Proof.
  intros input e o H. unfold decode_to in H. cbn [decode_to_loop dfeed dfinish dinit sb_decoder] in H.
  destruct (sb_scan table 0 (skipn (N.to_nat 0) input) []) as [out [i|]]; cbn [do_trap] in H.
  - inversion H; subst. left. reflexivity.
  - discriminate.
Qed.

Lemma utf8_two_causes repl : TwoCauses utf8_decoder repl.
Proof.
  intros input e o H. unfold decode_to in H. cbn [decode_to_loop dfeed dfinish dinit utf8_decoder] in H.
  unfold u8_feed in H.
  match type of H with context [u8_scan ?a ?b ?c ?d] => destruct (u8_scan a b c d) as [[st' processed] rej] end.
  destruct rej as [up|]; cbn [do_trap] in H.
  - inversion H; subst. left. reflexivity.
  - unfold u8_finish in H.
    match type of H with context [if ?c then None else _] => destruct c end; cbn [do_trap] in H.
    + discriminate.
    + inversion H; subst. right. reflexivity.
Qed.

(* hence the strict helper on UTF-8 and on any single-byte table never runs out of fuel *)
Theorem utf8_helper_strict_total input ot ch mb : helper utf8_decoder [239; 191; 189] input Strict ot ch mb <> HFuel.
Proof. apply helper_strict_no_fuel. apply utf8_two_causes. Qed.

Theorem sb_helper_strict_total table input ot ch mb : helper (sb_decoder table) [65533] input Strict ot ch mb <> HFuel.
Proof. apply helper_strict_no_fuel. apply sb_two_causes. Qed.

(* ---- ignore / replace mode on a single-byte table: every error consumes at least the offending byte ---- *)
Lemma sb_scan_index table : forall l i acc out j, sb_scan table i l acc = (out, Some j) -> i <= j /\ j < i + len l.
Proof.
  induction l as [|b r IH]; intros i acc out j H; cbn [sb_scan] in H; [discriminate|].
  destruct (sb_lookup table b).
  - apply IH in H. unfold len in *. cbn [List.length]. lia.
  - inversion H; subst. unfold len. cbn [List.length]. lia.
Qed.

Lemma len_skipn {A} (l : list A) n : n <= len l -> len (skipn (N.to_nat n) l) = len l - n.
Proof. intro H. unfold len in *. rewrite skipn_length. lia. Qed.

Lemma sb_loop_no_fuel table repl t : forall fuel input remaining out,
  remaining <= len input -> (Z.of_N (len input) - Z.of_N remaining < Z.of_nat fuel)%Z ->
  decode_to_loop (sb_decoder table) repl fuel tt input remaining out t <> DtFuel.
Proof.
  induction fuel as [|f IH]; intros input remaining out Hle Hlt; [exfalso; lia|].
  cbn [decode_to_loop dfeed dfinish sb_decoder].
  destruct (sb_scan table 0 (skipn (N.to_nat remaining) input) []) as [o [i|]] eqn:Es.
  - apply sb_scan_index in Es as [_ Hi]. rewrite len_skipn in Hi by exact Hle.
    cbn [upto]. destruct (do_trap repl t) as [goon o2]. destruct goon; [|discriminate].
    apply IH; unfold add_signed; lia.
  - discriminate.
Qed.

Theorem sb_helper_total table input t ot ch mb : helper (sb_decoder table) [65533] input t ot ch mb <> HFuel.
Proof.
  destruct t as [| |r].
  - apply sb_helper_strict_total.
  - unfold helper, decode_to. cbn [dinit sb_decoder].
    pose proof (sb_loop_no_fuel table [65533] Ignore (S (S (List.length input))) input 0 []) as H.
    destruct (decode_to_loop (sb_decoder table) [65533] (S (S (List.length input))) tt input 0 [] Ignore) eqn:E; try discriminate.
    exfalso. apply H; [lia | unfold len; lia | reflexivity].
  - unfold helper, decode_to. cbn [dinit sb_decoder].
    pose proof (sb_loop_no_fuel table [65533] (Replace r) (S (S (List.length input))) input 0 []) as H.
    destruct (decode_to_loop (sb_decoder table) [65533] (S (S (List.length input))) tt input 0 [] (Replace r)) eqn:E; try discriminate.
    exfalso. apply H; [lia | unfold len; lia | reflexivity].
Qed.

(* ---- ignore / replace mode on UTF-8: every error consumes at least one byte ---- *)
Definition ALL_BYTES : list N := map N.of_nat (seq 0 256).

(* from the initial state no byte leads to a reject-with-backup state: a backup can only follow a lead byte *)
Lemma initial_no_backup_b :
  forallb (fun b => let s := u8_next UTF8_INITIAL_STATE b in negb (u8_is_reject s) || (s =? UTF8_REJECT_STATE)) ALL_BYTES = true.
Proof. vm_compute. reflexivity. Qed.

Lemma u8_category_total b : 256 <= b -> u8_category b = 8.
Proof.
  intro H. unfold u8_category. apply nth_overflow.
  assert (List.length UTF8_CHAR_CATEGORY = 256%nat) by reflexivity. lia.
Qed.

Lemma u8_scan_reject : forall l st i p st' p' up,
  u8_scan st i p l = (st', p', Some up) ->
  i <= up /\ up <= i + len l
  /\ (up = i -> exists b r, l = b :: r /\ u8_is_reject (u8_next st b) = true /\ (u8_next st b =? UTF8_REJECT_STATE) = false).
Proof.
  induction l as [|ch r IH]; intros st i p st' p' up H; cbn [u8_scan] in H; [discriminate|].
  destruct (u8_next st ch =? UTF8_ACCEPT_STATE) eqn:Ea.
  - apply IH in H as (H1 & H2 & _). unfold len in *. cbn [List.length]. split; [lia | split; [lia | intro; lia]].
  - destruct (u8_is_reject (u8_next st ch)) eqn:Er.
    + inversion H; subst. destruct (u8_next st ch =? UTF8_REJECT_STATE) eqn:Ep.
      * unfold len. cbn [List.length]. split; [lia | split; [lia | intro; lia]].
      * unfold len. cbn [List.length]. split; [lia | split; [lia | intros _; exists ch, r; auto]].
    + apply IH in H as (H1 & H2 & _). unfold len in *. cbn [List.length]. split; [lia | split; [lia | intro; lia]].
Qed.

Lemma category_witness b : exists b0, In b0 ALL_BYTES /\ u8_category b = u8_category b0.
Proof.
  destruct (N.lt_ge_cases b 256) as [H|H].
  - exists b. split; [|reflexivity]. unfold ALL_BYTES. apply in_map_iff. exists (N.to_nat b).
    split; [apply N2Nat.id | apply in_seq; lia].
  - exists 192. split; [unfold ALL_BYTES; apply in_map_iff; exists 192%nat; split; [reflexivity | apply in_seq; lia]|].
    rewrite u8_category_total by exact H. reflexivity.
Qed.

Lemma initial_no_backup b :
  u8_is_reject (u8_next UTF8_INITIAL_STATE b) = true -> (u8_next UTF8_INITIAL_STATE b =? UTF8_REJECT_STATE) = true.
Proof.
  destruct (category_witness b) as (b0 & Hin & Hc).
  assert (E : u8_next UTF8_INITIAL_STATE b = u8_next UTF8_INITIAL_STATE b0) by (unfold u8_next; rewrite Hc; reflexivity).
  rewrite E. pose proof initial_no_backup_b as H. rewrite forallb_forall in H. specialize (H _ Hin). cbn zeta in H.
  intro Hr. rewrite Hr in H. cbn [negb orb] in H. exact H.
Qed.

Lemma first_msb_le l : first_msb l <= len l.
Proof.
  induction l as [|c r IH]; unfold len in *; cbn [first_msb List.length]; [lia|].
  destruct (128 <=? c); lia.
Qed.

Definition U8_INIT : u8_state := {| u8_queue := []; u8_st := UTF8_INITIAL_STATE |}.

Lemma u8_loop_no_fuel repl t : forall fuel input remaining out,
  remaining <= len input -> (Z.of_N (len input) - Z.of_N remaining < Z.of_nat fuel)%Z ->
  decode_to_loop utf8_decoder repl fuel U8_INIT input remaining out t <> DtFuel.
Proof.
  induction fuel as [|f IH]; intros input remaining out Hle Hlt; [exfalso; lia|].
  cbn [decode_to_loop dfeed dfinish utf8_decoder]. unfold u8_feed. cbn [u8_st u8_queue U8_INIT].
  rewrite N.eqb_refl.
  set (sl := skipn (N.to_nat remaining) input).
  assert (Hsl : len sl = len input - remaining) by (apply len_skipn; exact Hle).
  destruct (u8_scan UTF8_INITIAL_STATE (first_msb sl) (first_msb sl) (skipn (N.to_nat (first_msb sl)) sl)) as [[st' processed] rej] eqn:Es.
  destruct rej as [up|].
  - (* a reject: at least one byte is consumed, the state is reset *)
    destruct (u8_scan_reject _ _ _ _ _ _ _ Es) as (H1 & H2 & H3).
    pose proof (first_msb_le sl) as Hm. rewrite len_skipn in H2 by exact Hm.
    assert (Hup : 1 <= up).
    { destruct (N.eq_dec up (first_msb sl)) as [Heq|Hne]; [|lia].
      destruct (H3 Heq) as (b & r & _ & Hr & Hp). rewrite (initial_no_backup b Hr) in Hp. discriminate. }
    cbn [upto]. destruct (do_trap repl t) as [goon o2]. destruct goon; [|discriminate].
    apply IH; unfold add_signed; lia.
  - unfold u8_finish. cbn [u8_st].
    destruct (st' =? UTF8_ACCEPT_STATE); [discriminate|].
    cbn [upto]. destruct (do_trap repl t) as [goon o3]. destruct goon; [|discriminate].
    assert (Hr : add_signed (len input) 0 = len input) by (unfold add_signed; lia).
    rewrite Hr, N.leb_refl. discriminate.
Qed.

Theorem utf8_helper_total input t ot ch mb : helper utf8_decoder [239; 191; 189] input t ot ch mb <> HFuel.
Proof.
  destruct t as [| |r].
  - apply utf8_helper_strict_total.
  - unfold helper, decode_to. change (dinit N utf8_decoder) with U8_INIT.
    pose proof (u8_loop_no_fuel [239; 191; 189] Ignore (S (S (List.length input))) input 0 []) as H.
    destruct (decode_to_loop utf8_decoder [239; 191; 189] (S (S (List.length input))) U8_INIT input 0 [] Ignore) eqn:E; try discriminate.
    exfalso. apply H; [lia | unfold len; lia | reflexivity].
  - unfold helper, decode_to. change (dinit N utf8_decoder) with U8_INIT.
    pose proof (u8_loop_no_fuel [239; 191; 189] (Replace r) (S (S (List.length input))) input 0 []) as H.
    destruct (decode_to_loop utf8_decoder [239; 191; 189] (S (S (List.length input))) U8_INIT input 0 [] (Replace r)) eqn:E; try discriminate.
    exfalso. apply H; [lia | unfold len; lia | reflexivity].
Qed.
