(* C15 end to end inside the model: the CLI model (Model/Cli.v) with its two parameters instantiated --
   the library := from_bytes over the pipeline that decodes with the modelled codecs (Model/Pipeline.v pipeline_dec),
   the UTF-8 writer := utf8_encode (Model/Utf.v) -- writes, for an input file with content c, exactly the UTF-8 form
   of the STRICT DECODE of c (minus the detected encoding's own mark) under the detected encoding; and that file
   reads back, as UTF-8, to that very text. *)
From Coq Require Import List NArith ZArith String Bool Lia.
From Gen Require Import Tables.
From Model Require Import Base Names Flt F32 Matches Detect Decode Utf Codecs Pipeline Cli.
From Proofs Require Import DetectSound UtfFacts CodecFacts PipelineFacts CliFacts.
Import ListNotations.
Open Scope N_scope.
Open Scope list_scope.

Section Composed.
  Variable B : base_oracles.
  Variable cfg_of : F F32ops -> settings F32ops.

  Definition the_lib (c : bytes) (thr : F F32ops) : res (list (cmatch F32ops)) :=
    from_bytes F32ops (pipeline_dec B) c (cfg_of thr).

  Lemma empty_input_is_utf8 thr ms best :
    the_lib [] thr = Ok ms -> get_best F32ops ms = Some best -> starts_with_utf (m_enc F32ops best) = true.
  Proof.
    unfold the_lib, from_bytes. intro H.
    destruct (canon_list _ _ (include_encodings F32ops (cfg_of thr))); cbn [bind] in H; try discriminate.
    destruct (canon_list _ _ (exclude_encodings F32ops (cfg_of thr))); cbn [bind] in H; try discriminate.
    inversion H; subst. cbn. intros [= <-]. reflexivity.
  Qed.

  Theorem written_file_is_the_utf8_form_of_the_strict_decode fl inputs d p d' :
    effect F32ops the_lib utf8_encode fl inputs d p d' ->
    d' = d \/
    exists c best t,
      lookup d p = Some (Regular c)
      /\ d' = write d (target F32ops fl p best) (utf8_encode t)
      /\ sdecode F32ops (pipeline_dec B) (m_enc F32ops best) (strip c (m_enc F32ops best)) = Some t
      /\ (Forall scalar t -> utf8_strict_text (utf8_encode t) = Some t).
  Proof.
    intro H. inversion H as [|ms best t Hn Hrf Hfp Hb Hu Ht Hin]; subst; [left; reflexivity|right].
    pose proof (from_path_spec F32ops the_lib d p (f_threshold F32ops fl)) as S.
    destruct (lookup d p) as [[c|]|] eqn:El.
    - rewrite S in Hfp. exists c, best, t. split; [reflexivity|]. split; [reflexivity|].
      destruct c as [|b0 c'].
      + rewrite (empty_input_is_utf8 _ _ _ Hfp Hb) in Hu. discriminate.
      + assert (Hne : b0 :: c' <> []) by discriminate.
        assert (Hinb : In best ms) by (unfold get_best in Hb; destruct ms; [discriminate|inversion Hb; left; reflexivity]).
        destruct (pipeline_dec_decodes B (b0 :: c') (cfg_of (f_threshold F32ops fl)) ms Hne Hfp best (m_enc F32ops best) Hinb (or_introl eq_refl))
          as (_ & t' & Ht' & Hd).
        assert (t' = t) by congruence. subst t'. split; [exact Hd|]. apply utf8_strict_text_encode.
    - destruct S as [m Em]. rewrite Em in Hfp. discriminate.
    - destruct S as [m Em]. rewrite Em in Hfp. discriminate.
  Qed.
End Composed.
