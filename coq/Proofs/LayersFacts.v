(* Facts about the model of cd::alpha_unicode_split (Model/Layers.v): layer keys are pairwise distinct,
   every alphabetic character with a known range lands (lower-cased) in exactly one layer -- nothing is
   lost, duplicated or invented --, and layers appear in order of first appearance.  The function is
   written over lists in scan order: no hash iteration order can enter (the defect repaired by ab19220). *)
From Coq Require Import List NArith String Bool Lia Permutation.
From Gen Require Import Tables.
From Model Require Import Base Names Md Layers.
Import ListNotations.
Open Scope N_scope.
Open Scope list_scope.

Lemma NoDup_app_single_end {A} (l : list A) x : NoDup l -> ~ In x l -> NoDup (l ++ [x]).
Proof.
  intros Hn Hx. induction l as [|y l IH]; cbn; [constructor; [intros []|constructor]|].
  inversion Hn; subst. constructor.
  - intro Hin. apply in_app_or in Hin as [Hin|[<-|[]]]; [contradiction|]. apply Hx. left; reflexivity.
  - apply IH; [assumption|]. intro H. apply Hx. right; exact H.
Qed.

Section LF.
  Variable is_alpha : N -> bool.
  Variable to_lower : N -> list N.

  Notation place := Layers.place.
  Notation layer_step := (layer_step is_alpha to_lower).
  Notation layers_of := (layers_of is_alpha to_lower).

  Definition content (ls : list layer) : list N := List.concat (map snd ls).

  Lemma place_some ls r cs ls' :
    place ls r cs = Some ls' ->
    map fst ls' = map fst ls /\ Permutation (content ls') (content ls ++ cs)
    /\ exists k, In k (map fst ls) /\ suspicious (Some k) (Some r) = false.
  Proof.
    revert ls'. induction ls as [|[key t] rest IH]; intros ls' H; cbn [place] in H; [discriminate|].
    destruct (negb (suspicious (Some key) (Some r))) eqn:E.
    - inversion H; subst. cbn [map fst snd]. split; [reflexivity|]. split.
      + unfold content. cbn [map snd List.concat]. rewrite <- !app_assoc. apply Permutation_app_head. apply Permutation_app_comm.
      + exists key. split; [left; reflexivity|]. apply negb_true_iff in E. exact E.
    - destruct (place rest r cs) as [rest'|] eqn:Hr; [|discriminate]. inversion H; subst.
      destruct (IH _ eq_refl) as (Hk & Hp & (k & Hin & Hs)). cbn [map fst snd]. split; [rewrite Hk; reflexivity|]. split.
      + unfold content in *. cbn [map snd List.concat]. rewrite <- app_assoc. apply Permutation_app_head. exact Hp.
      + exists k. split; [right; exact Hin | exact Hs].
  Qed.

  Lemma place_none ls r cs :
    place ls r cs = None -> forall k, In k (map fst ls) -> suspicious (Some k) (Some r) = true.
  Proof.
    induction ls as [|[key t] rest IH]; intros H k Hin; [destruct Hin|]. cbn [place] in H.
    destruct (negb (suspicious (Some key) (Some r))) eqn:E; [discriminate|].
    destruct (place rest r cs) eqn:Hr; [discriminate|].
    destruct Hin as [<-|Hin]; [apply negb_false_iff in E; exact E | apply IH; auto].
  Qed.

  Lemma suspicious_same r : suspicious (Some r) (Some r) = false.
  Proof. unfold suspicious. rewrite String.eqb_refl. reflexivity. Qed.

  (* the characters a scan step contributes *)
  Definition contrib (c : N) : list N :=
    if is_alpha c then match unicode_range c with Some _ => to_lower c | None => [] end else [].

  Lemma layer_step_inv ls c :
    NoDup (map fst ls) ->
    NoDup (map fst (layer_step ls c))
    /\ Permutation (content (layer_step ls c)) (content ls ++ contrib c)
    /\ (exists extra, map fst (layer_step ls c) = map fst ls ++ extra).
  Proof.
    intros Hnd. unfold Layers.layer_step, contrib. destruct (is_alpha c).
    - destruct (unicode_range c) as [r|].
      + destruct (place ls r (to_lower c)) as [ls'|] eqn:Hp.
        * destruct (place_some _ _ _ _ Hp) as (Hk & Hperm & _). rewrite Hk. split; [exact Hnd|]. split; [exact Hperm|].
          exists []. rewrite app_nil_r. reflexivity.
        * split; [|split].
          -- rewrite map_app. cbn [map fst]. apply NoDup_app_single_end; [exact Hnd|].
             intro Hin. pose proof (place_none _ _ _ Hp r Hin) as Hs. rewrite suspicious_same in Hs. discriminate.
          -- unfold content. rewrite map_app, concat_app. cbn [map snd List.concat]. rewrite app_nil_r. reflexivity.
          -- exists [r]. rewrite map_app. reflexivity.
      + split; [exact Hnd|]. split; [rewrite app_nil_r; reflexivity|]. exists []. rewrite app_nil_r. reflexivity.
    - split; [exact Hnd|]. split; [rewrite app_nil_r; reflexivity|]. exists []. rewrite app_nil_r. reflexivity.
  Qed.

  Lemma fold_inv t : forall ls,
    NoDup (map fst ls) ->
    NoDup (map fst (fold_left layer_step t ls))
    /\ Permutation (content (fold_left layer_step t ls)) (content ls ++ flat_map contrib t).
  Proof.
    induction t as [|c r IH]; intros ls Hnd; cbn [fold_left flat_map].
    - split; [exact Hnd|]. rewrite app_nil_r. reflexivity.
    - destruct (layer_step_inv ls c Hnd) as (H1 & H2 & _). destruct (IH _ H1) as (H3 & H4).
      split; [exact H3|]. rewrite H4. rewrite app_assoc. apply Permutation_app_tail. exact H2.
  Qed.

  (* keys distinct; the layers together hold exactly the lower-cased alphabetic characters that have a range *)
  Theorem layers_partition t :
    NoDup (map fst (layers_of t))
    /\ Permutation (List.concat (alpha_unicode_split is_alpha to_lower t)) (flat_map contrib t).
  Proof.
    unfold alpha_unicode_split, Layers.layers_of. destruct (fold_inv t [] (NoDup_nil _)) as (H1 & H2).
    split; [exact H1 | exact H2].
  Qed.

  (* layers are opened in order of first appearance and never reordered: the key list only grows at the end *)
  Theorem layers_order_of_first_appearance t1 t2 :
    exists extra, map fst (layers_of (t1 ++ t2)) = map fst (layers_of t1) ++ extra.
  Proof.
    unfold Layers.layers_of. rewrite fold_left_app. generalize (fold_left layer_step t1 []) as ls.
    induction t2 as [|c r IH]; intros ls; cbn [fold_left].
    - exists []. rewrite app_nil_r. reflexivity.
    - destruct (IH (layer_step ls c)) as (e1 & H1).
      assert (H2 : exists extra, map fst (layer_step ls c) = map fst ls ++ extra).
      { unfold Layers.layer_step. destruct (is_alpha c); [|exists []; rewrite app_nil_r; reflexivity].
        destruct (unicode_range c) as [rg|]; [|exists []; rewrite app_nil_r; reflexivity].
        destruct (place ls rg (to_lower c)) as [ls'|] eqn:Hp.
        - destruct (place_some _ _ _ _ Hp) as (Hk & _). exists []. rewrite app_nil_r. exact Hk.
        - exists [rg]. rewrite map_app. reflexivity. }
      destruct H2 as (e2 & H2). exists (e2 ++ e1). rewrite H1, H2, app_assoc. reflexivity.
  Qed.
End LF.
