(* C08: ranking.  The container is always the insertion sort (by the pairwise comparison of the
   keys) of some key list -- whatever sequence of new / from_single / append built it -- so a
   match that is preferred over all others is first and one that all others are preferred to is
   last.  The comparison is deliberately non-transitive; nothing here assumes transitivity. *)
From Coq Require Import List NArith String Bool Lia Permutation.
From Gen Require Import Tables.
From Model Require Import Base Names Flt Matches Detect.
From Proofs Require Import SortFacts DetectFacts.
Import ListNotations.
Open Scope list_scope.

Section Sorting.
  Context {A B : Type} (g : A -> B) (lt : B -> B -> bool).

  Lemma ins_rev_map x r :
    map g (ins_rev (fun a b => lt (g a) (g b)) x r) = ins_rev lt (g x) (map g r).
  Proof.
    induction r as [|y r IH]; cbn [ins_rev map]; [reflexivity|].
    destruct (lt (g x) (g y)); cbn [map]; [rewrite IH|]; reflexivity.
  Qed.

  Lemma fold_ins_map l r :
    map g (fold_left (fun r x => ins_rev (fun a b => lt (g a) (g b)) x r) l r)
    = fold_left (fun r x => ins_rev lt x r) (map g l) (map g r).
  Proof.
    revert r; induction l as [|x l IH]; intro r; cbn [fold_left map]; [reflexivity|].
    rewrite IH, ins_rev_map. reflexivity.
  Qed.

  Lemma isort_map l : map g (isort (fun a b => lt (g a) (g b)) l) = isort lt (map g l).
  Proof. unfold isort. rewrite map_rev, fold_ins_map. reflexivity. Qed.
End Sorting.

Section Container.
  Variable FO : FloatOps.
  Notation cmatch := (cmatch FO).
  Notation key := (key FO).

  Definition klt (a b : key) : bool := match cmp_key FO a b with Lt => true | _ => false end.

  Lemma is_less_klt a b : is_less FO a b = klt (key_of FO a) (key_of FO b).
  Proof. reflexivity. Qed.

  (* the container's key sequence is an insertion sort of some key list *)
  Definition KS (c : list cmatch) : Prop := exists K, map (key_of FO) c = isort klt K.

  Lemma resort_keys l : map (key_of FO) (resort FO l) = isort klt (map (key_of FO) l).
  Proof. unfold resort. apply (isort_map (key_of FO) klt). Qed.

  Lemma KS_new items : KS (matches_new FO items).
  Proof. exists (map (key_of FO) items). apply resort_keys. Qed.

  Lemma KS_single m : KS (from_single FO m).
  Proof. exists [key_of FO m]. reflexivity. Qed.

  Lemma KS_nil : KS [].
  Proof. exists []. reflexivity. Qed.

  Lemma key_add_submatch m item : key_of FO (add_submatch FO m item) = key_of FO m.
  Proof. destruct m. reflexivity. Qed.

  Lemma KS_append items item : KS items -> KS (append FO items item).
  Proof.
    intros [K HK]. unfold append.
    assert (Hp : KS (resort FO (items ++ [item]))) by (eexists; apply resort_keys).
    destruct (_ <=? _)%N; [|exact Hp].
    destruct (merge_into FO items item) as [l|] eqn:Hm; [|exact Hp].
    apply merge_into_spec in Hm as (l1 & m & l2 & -> & -> & _).
    exists K. rewrite <- HK. rewrite !map_app. cbn [map]. rewrite key_add_submatch. reflexivity.
  Qed.

  (* ---------- dominance ---------- *)
  Definition kbeats (a b : key) : Prop := klt a b = true /\ klt b a = false.

  Lemma in_split_perm {T} (k : T) K rest :
    Permutation K (k :: rest) -> exists K1 K2, K = K1 ++ k :: K2 /\ Permutation (K1 ++ K2) rest.
  Proof.
    intro P. assert (Hin : In k K) by (eapply Permutation_in; [apply Permutation_sym; exact P | left; reflexivity]).
    apply in_split in Hin as (K1 & K2 & ->). exists K1, K2. split; [reflexivity|].
    eapply Permutation_cons_inv. eapply Permutation_trans; [apply Permutation_middle|exact P].
  Qed.

  Theorem dominant_first c l1 d l2 :
    KS c -> c = l1 ++ d :: l2 ->
    (forall x, In x (l1 ++ l2) -> kbeats (key_of FO d) (key_of FO x)) ->
    l1 = [] /\ get_best FO c = Some d.
  Proof.
    intros [K HK] -> Hb.
    assert (P : Permutation K (key_of FO d :: map (key_of FO) (l1 ++ l2))).
    { eapply Permutation_trans; [apply Permutation_sym, (isort_perm klt)|]. rewrite <- HK.
      rewrite !map_app. cbn [map]. apply Permutation_sym, Permutation_middle. }
    apply in_split_perm in P as (K1 & K2 & -> & P).
    assert (Hh : hd (key_of FO d) (isort klt (K1 ++ key_of FO d :: K2)) = key_of FO d).
    { apply isort_dominant_first. intros k Hk. eapply Permutation_in in Hk; [|exact P].
      apply in_map_iff in Hk as (x & <- & Hx). apply Hb; exact Hx. }
    rewrite <- HK in Hh. destruct l1 as [|y l1].
    - split; reflexivity.
    - exfalso. cbn [app map hd] in Hh.
      destruct (Hb y (or_introl eq_refl)) as [B1 B2]. rewrite Hh in B1. congruence.
  Qed.

  Theorem dominated_last c l1 d l2 :
    KS c -> c = l1 ++ d :: l2 ->
    (forall x, In x (l1 ++ l2) -> kbeats (key_of FO x) (key_of FO d)) ->
    l2 = [].
  Proof.
    intros [K HK] -> Hb.
    assert (P : Permutation K (key_of FO d :: map (key_of FO) (l1 ++ l2))).
    { eapply Permutation_trans; [apply Permutation_sym, (isort_perm klt)|]. rewrite <- HK.
      rewrite !map_app. cbn [map]. apply Permutation_sym, Permutation_middle. }
    apply in_split_perm in P as (K1 & K2 & -> & P).
    assert (Hh : last (isort klt (K1 ++ key_of FO d :: K2)) (key_of FO d) = key_of FO d).
    { apply isort_dominated_last. intros k Hk. eapply Permutation_in in Hk; [|exact P].
      apply in_map_iff in Hk as (x & <- & Hx). apply Hb; exact Hx. }
    rewrite <- HK in Hh. destruct l2 as [|y l2] using rev_ind; [reflexivity|]. exfalso.
    rewrite app_comm_cons, app_assoc, map_app in Hh. cbn [map] in Hh. rewrite last_app_single in Hh.
    destruct (Hb y) as [B1 B2]; [apply in_or_app; right; apply in_or_app; right; left; reflexivity|].
    rewrite Hh in B1. congruence.
  Qed.

  Theorem get_best_is_first c : get_best FO c = hd_error c.
  Proof. reflexivity. Qed.
End Container.

(* every result of from_bytes is such a container *)
Section DetectKS.
  Variable FO : FloatOps.
  Variable R : oracles FO.

  Lemma apply_verdict_KS c s e v out :
    KS FO (results FO s) -> apply_verdict FO c s e v = Ok out ->
    match out with Next _ s' => KS FO (results FO s') | Return _ r => KS FO r end.
  Proof.
    intros HK H. destruct v as [| |fb|m ex]; cbn [apply_verdict] in H.
    - injection H as <-. exact HK.
    - injection H as <-. exact HK.
    - injection H as <-. destruct fb as [entry|]; [|exact HK].
      unfold set_fallback, set_soft. destruct (String.eqb _ _); [|destruct (String.eqb _ _)]; exact HK.
    - destruct ex.
      + destruct (get_by_encoding FO _ e); [|discriminate]. injection H as <-. apply KS_single.
      + injection H as <-. cbn [set_results results]. apply KS_append; exact HK.
  Qed.

  Lemma main_loop_KS c encs : forall s out,
    KS FO (results FO s) -> main_loop FO R c s encs = Ok out ->
    match out with Next _ s' => KS FO (results FO s') | Return _ r => KS FO r end.
  Proof.
    induction encs as [|e encs IH]; intros s out HK H; cbn [main_loop] in H.
    - injection H as <-. exact HK.
    - bind_inv H. assert (Hb : match a with Next _ s' => KS FO (results FO s') | Return _ r => KS FO r end).
      { unfold loop_body in E. destruct (gate_filtered FO c e); [injection E as <-; exact HK|].
        destruct (gate_utf16 FO c e); [injection E as <-; exact HK|].
        bind_inv E. destruct a0 as [[si dec]|]; [|injection E as <-; exact HK].
        destruct (gate_similar _ e); [injection E as <-; exact HK|].
        bind_inv E. eapply apply_verdict_KS; eauto. }
      destruct a as [s'|r]; [eapply IH; eauto | injection H as <-; exact Hb].
  Qed.

  Theorem from_bytes_KS b cfg r : from_bytes FO R b cfg = Ok r -> KS FO r.
  Proof.
    intro H. unfold from_bytes in H. bind_inv H. bind_inv H.
    destruct b as [|x b']; [injection H as <-; apply KS_single|].
    bind_inv H. pose proof (main_loop_KS _ _ (init_state FO) _ (KS_nil FO) E1) as Hm.
    destruct a1 as [s|r0]; [|injection H as <-; exact Hm].
    destruct (results FO s) eqn:Hr.
    - destruct (choose_fallback FO s); injection H as <-; [apply KS_append, KS_nil | apply KS_nil].
    - injection H as <-. exact Hm.
  Qed.
End DetectKS.

(* ---------- the pairwise rule is antisymmetric (so "preferred to" already excludes the converse) ---------- *)
From Proofs Require Import FloatLaws.
Section Antisym.
  Variable FO : FloatOps.
  Hypothesis CL : CmpLaws FO.

  Lemma cmp_key_antisym a b : cmp_key FO a b = CompOpp (cmp_key FO b a).
  Proof.
    destruct a as [[ca ha] ua], b as [[cb hb] ub]. unfold cmp_key.
    rewrite (law_abs_sub_sym FO CL cb ca), (law_abs_sub_sym FO CL hb ha), (law_abs_sub_sym FO CL ub ua).
    destruct (flt FO _ (c_001 FO)); [|apply (ocmp_antisym FO CL)].
    destruct (fgt FO _ (c_002 FO)); [apply (ocmp_antisym FO CL)|].
    destruct (fgt FO _ (c_eps FO)); apply (ocmp_antisym FO CL).
  Qed.

  (* preferred (cmp = Less) implies the sort's two-sided condition *)
  Lemma prefers_kbeats a b : cmp_key FO a b = Lt -> kbeats FO a b.
  Proof.
    intro H. unfold kbeats, klt. rewrite H. split; [reflexivity|].
    rewrite (cmp_key_antisym b a), H. reflexivity.
  Qed.
End Antisym.
