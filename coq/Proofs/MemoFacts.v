(* C11 / C12: memoisation is unobservable, sequentially and under every interleaving. *)
From Coq Require Import List NArith Bool Lia String.
From Gen Require Import Tables.
From Model Require Import Base Memo.
Import ListNotations.

Section MemoFacts.
  Context {A K V : Type}.
  Variable f : A -> V.
  Variable key : A -> K.
  Variable keqb : K -> K -> bool.
  Hypothesis keqb_eq : forall x y, keqb x y = true <-> x = y.
  (* the key determines the result: every argument the function reads is part of the key
     (discharged for the four declarations of the code by Cached_keys_complete below) *)
  Hypothesis key_complete : forall a a', key a = key a' -> f a = f a'.

  (* every stored value is the function's value for every argument with that key *)
  Definition Good (s : store) : Prop := forall k v, In (k, v) s -> forall a, key a = k -> v = f a.

  Lemma get_In (s : @store K V) k v : get keqb s k = Some v -> In (k, v) s.
  Proof.
    induction s as [|[k' v'] r IH]; cbn [get]; [discriminate|].
    destruct (keqb k' k) eqn:E; [apply keqb_eq in E; subst; intro H; injection H as <-; left; reflexivity|].
    intro H. right. apply IH, H.
  Qed.

  Lemma Good_set keep s a : Good s -> Good (set keep s (key a) (f a)).
  Proof.
    intros H k v [E|Hin] a' Hk.
    - injection E as <- <-. apply key_complete. symmetry. exact Hk.
    - apply filter_In in Hin as [Hin _]. eapply H; eauto.
  Qed.

  (* C11, one call: from any good cache state -- cold, warm, after arbitrary evictions -- the
     memoised call returns exactly the function's value and leaves a good state *)
  Theorem call_transparent keep s a : Good s -> fst (call f key keqb keep s a) = f a /\ Good (snd (call f key keqb keep s a)).
  Proof.
    intro H. unfold call. destruct (get keqb s (key a)) as [v|] eqn:E; cbn [fst snd].
    - split; [eapply H; [apply get_In; exact E|reflexivity]|exact H].
    - split; [reflexivity|apply Good_set; exact H].
  Qed.

  (* C11, any history of calls with any eviction policies *)
  Theorem history_transparent h : forall s, Good s ->
    fst (run f key keqb s h) = map (fun x => f (fst x)) h /\ Good (snd (run f key keqb s h)).
  Proof.
    induction h as [|[a keep] r IH]; intros s H; cbn [run map fst snd]; [auto|].
    destruct (call_transparent keep s a H) as [H1 H2]. destruct (call f key keqb keep s a) as [v s1]. cbn [fst snd] in *.
    destruct (IH s1 H2) as [H3 H4]. destruct (run f key keqb s1 r) as [vs s2]. cbn [fst snd] in *. subst. auto.
  Qed.

  Lemma Good_nil : Good [].
  Proof. intros k v []. Qed.

  (* ---------- threads ---------- *)
  Definition thread_ok (t : @thread A V) : Prop :=
    (forall a v, In (a, v) (done t) -> v = f a)
    /\ match ph t with Storing a v => v = f a | _ => True end.

  Definition sys_ok (st : @sys A K V) : Prop := Good (cache st) /\ Forall thread_ok (threads st).

  Lemma thread_step_ok keep s t s' t' :
    Good s -> thread_ok t -> thread_step f key keqb keep s t = Some (s', t') -> Good s' /\ thread_ok t'.
  Proof.
    intros Hs [Hd Hp] H. unfold thread_step in H. destruct (ph t) as [|a|a v] eqn:Ep.
    - destruct (todo t) as [|a r]; [discriminate|]. destruct (get keqb s (key a)) as [v|] eqn:E; injection H as <- <-.
      + split; [exact Hs|]. split; cbn [done ph]; [|exact I]. intros a' v' Hin. apply in_app_or in Hin as [Hin|[Hin|[]]]; [apply Hd; exact Hin|].
        injection Hin as <- <-. eapply Hs; [apply get_In; exact E|reflexivity].
      + split; [exact Hs|]. split; cbn [done ph]; [exact Hd|exact I].
    - injection H as <- <-. split; [exact Hs|]. split; cbn [done ph]; [exact Hd|reflexivity].
    - injection H as <- <-. subst v. split; [apply Good_set; exact Hs|]. split; cbn [done ph]; [|exact I].
      intros a' v' Hin. apply in_app_or in Hin as [Hin|[Hin|[]]]; [apply Hd; exact Hin|]. injection Hin as <- <-. reflexivity.
  Qed.

  Lemma replace_nth_Forall {T} (P : T -> Prop) n x l : Forall P l -> P x -> Forall P (replace_nth n x l).
  Proof.
    revert n; induction l as [|y r IH]; intros n Hl Hx; [destruct n; constructor|].
    inversion Hl; subst. destruct n; cbn [replace_nth]; constructor; auto.
  Qed.

  Lemma sys_step_ok st pick : sys_ok st -> sys_ok (sys_step f key keqb st pick).
  Proof.
    intros [Hc Ht]. unfold sys_step. destruct (nth_error (threads st) (fst pick)) as [t|] eqn:E; [|split; assumption].
    destruct (thread_step f key keqb (snd pick) (cache st) t) as [[s' t']|] eqn:E2; [|split; assumption].
    assert (Hok : thread_ok t) by (rewrite Forall_forall in Ht; apply Ht; eapply nth_error_In; eauto).
    destruct (thread_step_ok _ _ _ _ _ Hc Hok E2) as [H1 H2]. split; cbn [cache threads]; [exact H1|].
    apply replace_nth_Forall; assumption.
  Qed.

  (* C12, safety: under EVERY schedule and eviction behaviour, every call completed by any thread
     returned exactly what the same call returns when run alone *)
  Theorem concurrent_safety schedule st :
    sys_ok st -> sys_ok (sys_run f key keqb st schedule).
  Proof.
    revert st; induction schedule as [|p r IH]; intros st H; cbn [sys_run fold_left]; [exact H|].
    apply IH, sys_step_ok, H.
  Qed.

  Corollary concurrent_results schedule progs :
    let st0 := {| cache := []; threads := map (fun p => {| todo := p; ph := Idle; done := [] |}) progs |} in
    forall t a v, In t (threads (sys_run f key keqb st0 schedule)) -> In (a, v) (done t) -> v = f a.
  Proof.
    intros st0 t a v Ht Hd.
    assert (H0 : sys_ok st0).
    { split; [apply Good_nil|]. apply Forall_forall. intros t0 Hin. apply in_map_iff in Hin as (p & <- & _). split; cbn; [intros ? ? []|exact I]. }
    destruct (concurrent_safety schedule st0 H0) as [_ Hf]. rewrite Forall_forall in Hf. destruct (Hf t Ht) as [Hdone _]. eapply Hdone; eauto.
  Qed.

  (* C12, progress: an unfinished thread can always take a step (no step waits for another thread:
     no lock is held across steps), and each step strictly reduces its remaining work *)
  Theorem thread_progress keep s t :
    finished t = false -> exists s' t', thread_step f key keqb keep s t = Some (s', t') /\ (work t' < work t)%nat.
  Proof.
    unfold finished, thread_step, work. destruct (ph t) as [|a|a v] eqn:Ep.
    - destruct (todo t) as [|a r] eqn:Et; [discriminate|]. intros _.
      destruct (get keqb s (key a)); eexists; eexists; (split; [reflexivity|]); cbn [todo ph List.length]; lia.
    - intros _. eexists; eexists; split; [reflexivity|]. cbn [todo ph]. lia.
    - intros _. eexists; eexists; split; [reflexivity|]. cbn [todo ph]. lia.
  Qed.

  Definition total_work (st : @sys A K V) : nat := fold_right (fun (t : @thread A V) n => (work t + n)%nat) 0%nat (threads st).

  Lemma replace_nth_work n (t t' : @thread A V) l :
    nth_error l n = Some t -> (work t' < work t)%nat ->
    (fold_right (fun (t : @thread A V) n => (work t + n)%nat) 0%nat (replace_nth n t' l) < fold_right (fun (t : @thread A V) n => (work t + n)%nat) 0%nat l)%nat.
  Proof.
    revert n; induction l as [|y r IH]; intros n E Hw; [destruct n; discriminate|].
    destruct n; cbn [nth_error replace_nth fold_right] in *.
    - injection E as ->. lia.
    - specialize (IH n E Hw). lia.
  Qed.

  (* a fair round-robin driver: picking any unfinished thread strictly decreases the total work, so
     every maximal schedule has at most total_work st0 effective steps and ends with all threads done *)
  Theorem step_decreases st i keep t :
    nth_error (threads st) i = Some t -> finished t = false ->
    (total_work (sys_step f key keqb st (i, keep)) < total_work st)%nat.
  Proof.
    intros E Hf. unfold sys_step. cbn [fst snd]. rewrite E.
    destruct (thread_progress keep (cache st) t Hf) as (s' & t' & -> & Hw). unfold total_work. cbn [threads].
    apply replace_nth_work with (t := t); assumption.
  Qed.

  Theorem all_finished_when_no_work st : total_work st = 0%nat -> forallb (@finished A V) (threads st) = true.
  Proof.
    unfold total_work. induction (threads st) as [|t r IH]; cbn [fold_right forallb]; [reflexivity|].
    intro H. assert (Hw : work t = 0%nat) by lia. rewrite IH by lia. rewrite andb_true_r.
    unfold work in Hw. unfold finished. destruct (ph t), (todo t); cbn [List.length] in Hw; try lia; reflexivity.
  Qed.
End MemoFacts.

(* ---------- the key of every #[cached] declaration of the code covers all its arguments ---------- *)
(* generated: (function, argument names, key argument names (None = all arguments), size, sync_writes, result_fallback) *)
Definition key_covers (d : string * list string * option (list string) * option N * bool * bool) : bool :=
  match d with
  | (_, args, None, _, sw, rf) => negb sw && negb rf
  | (_, args, Some ks, _, sw, rf) => forallb (fun a => mem a ks) args && negb sw && negb rf
  end.

Theorem Cached_keys_complete : forallb key_covers CACHED_DECLS = true.
Proof. vm_compute. reflexivity. Qed.

Theorem Cached_decls_pinned :
  map (fun d => match d with (n, _, _, _, _, _) => n end) CACHED_DECLS
    = ["mess_ratio"; "encoding_languages"; "coherence_ratio"; "new_mess_detector_character"]%string
  /\ CACHED_PROC_MACRO_VERSION = "0.25.0"%string.
Proof. split; reflexivity. Qed.
