(* Facts about the concrete declaration matcher (Model/Declared.v). *)
From Coq Require Import List NArith String Bool.
From Gen Require Import Tables.
From Model Require Import Base Names Declared.
Import ListNotations.
Open Scope N_scope.

(* only the first SEARCH_ZONE (4096) bytes matter *)
Theorem declared_zone b1 b2 :
  firstn (N.to_nat SEARCH_ZONE) b1 = firstn (N.to_nat SEARCH_ZONE) b2 ->
  any_specified_encoding b1 = any_specified_encoding b2.
Proof. unfold any_specified_encoding. intros ->. reflexivity. Qed.

Lemma first_known_some caps n :
  first_known caps = Some n -> exists cap, In cap caps /\ iana_name (string_of_bytes cap) = Some n.
Proof.
  induction caps as [|c r IH]; cbn [first_known]; [discriminate|].
  destruct (iana_name (string_of_bytes c)) eqn:E.
  - intro H; injection H as <-. exists c. split; [left; reflexivity|exact E].
  - intro H. destruct (IH H) as (cap & Hc & Hn). exists cap. split; [right; exact Hc|exact Hn].
Qed.

(* a declared encoding is the canonical name of some capture of the expression *)
Theorem declared_sound b n :
  any_specified_encoding b = Some n ->
  exists cap, iana_name (string_of_bytes cap) = Some n
              /\ In cap (let v := ascii_view (firstn (N.to_nat SEARCH_ZONE) b) in captures (S (List.length v)) v).
Proof.
  unfold any_specified_encoding, declared_in_zone. intro H. apply first_known_some in H as (cap & Hc & Hn). eauto.
Qed.

(* every capture is a non-empty run of name characters *)
Lemma span_all p l a r : span p l = (a, r) -> forallb p a = true.
Proof.
  revert a r; induction l as [|c l IH]; intros a r; cbn [span].
  - intro H; injection H as <- <-. reflexivity.
  - destruct (p c) eqn:E.
    + destruct (span p l) as [a' r'] eqn:E2. intro H; injection H as <- <-. cbn [forallb]. rewrite E. apply (IH _ _ eq_refl).
    + intro H; injection H as <- <-. reflexivity.
Qed.

Lemma match_tail_capture r cap rest : match_tail r = Some (cap, rest) -> cap <> [] /\ forallb is_name cap = true.
Proof.
  unfold match_tail. destruct (span is_sep r) as [seps r1]. destruct (_ && _); [|discriminate].
  destruct (span is_name (drop_quote r1)) as [name r3] eqn:E. destruct name as [|c name]; [discriminate|].
  intro H; injection H as <- <-. split; [discriminate|]. eapply span_all; eauto.
Qed.

(* the regular expression the model was written for is the one in consts.rs today *)
Theorem regex_literal_pinned :
  RE_LITERAL = "(?:(?:encoding)|(?:charset)|(?:coding))(?:[\:= ]{1,10})(?:[""']?)([a-zA-Z0-9\-_]+)(?:[""']?)"%string
  /\ SEARCH_ZONE = 4096.
Proof. split; reflexivity. Qed.
