(* C04: the chaos threshold is honoured by every regular match; a fall-back entry is a lone
   match whose chaos equals the threshold and whose encoding is one of the hints. *)
From Coq Require Import List NArith String Bool Lia.
From Gen Require Import Tables.
From Model Require Import Base Names Flt Matches Detect.
From Proofs Require Import SortFacts NamesFacts DetectFacts DetectInv DetectSound DetectFilters FloatLaws.
Import ListNotations.
Open Scope N_scope.
Open Scope list_scope.

Opaque iana_name identify_sig is_multi_byte is_cp_similar.

Section Chaos.
  Variable FO : FloatOps.
  Variable R : oracles FO.
  Notation cmatch := (cmatch FO).
  Hypothesis FL : FloatLaws FO.

  (* contract on the mess oracle: a non-NaN, non-negative number *)
  Definition MessOK : Prop := forall t thr, good FO (mess FO R t thr).
  (* contract on the strict decoder: never more characters than bytes *)
  Definition DecodeLen : Prop := forall e l t, sdecode FO R e l = Some t -> len t <= len l.
  Hypothesis HM : MessOK.
  Hypothesis HD : DecodeLen.

  Lemma offsets_from_length fuel a b s : (List.length (offsets_from fuel a b s) <= fuel)%nat.
  Proof.
    revert a; induction fuel as [|f IH]; intro a; cbn [offsets_from List.length]; [lia|].
    destruct (a <? b); cbn [List.length]; [specialize (IH (a + s))|]; lia.
  Qed.

  Lemma offsets_length a b s : 1 <= s -> N.of_nat (List.length (offsets a b s)) <= b + 1.
  Proof.
    intro Hs. unfold offsets. pose proof (offsets_from_length (N.to_nat ((b - a) / s + 1)) a b s) as H.
    assert (Hd : (b - a) / s <= b - a) by (apply N.div_le_upper_bound; [lia|nia]).
    lia.
  Qed.

  Lemma chunk_loop_ratios cfg b e dec sl mg offs : forall st st',
    chunk_loop FO R cfg b e dec sl mg st offs = Ok st' ->
    Forall (good FO) (md_ratios FO st) ->
    Forall (good FO) (md_ratios FO st')
    /\ (List.length (md_ratios FO st') <= List.length (md_ratios FO st) + List.length offs)%nat.
  Proof.
    induction offs as [|o offs IH]; intros st st' H Hg; cbn [chunk_loop] in H.
    - inversion H; subst. split; [exact Hg|lia].
    - bind_inv H. unfold chunk_step in E. bind_inv E.
      match type of E with (if ?c then _ else _) = _ => destruct c end.
      + injection E as <-. injection H as <-. cbn. split; [exact Hg|lia].
      + destruct a0 as [chunk|]; [|discriminate].
        match type of E with (if ?c then _ else _) = _ => destruct c end; injection E as <-.
        * injection H as <-. cbn [md_ratios]. split.
          -- apply Forall_app. split; [exact Hg|]. constructor; [apply HM|constructor].
          -- rewrite app_length. cbn [List.length]. lia.
        * apply IH in H.
          -- cbn [md_ratios] in H. destruct H as [H1 H2]. split; [exact H1|].
             rewrite app_length in H2. cbn [List.length] in *. lia.
          -- cbn [md_ratios]. apply Forall_app. split; [exact Hg|]. constructor; [apply HM|constructor].
  Qed.

  (* the chaos of an accepted candidate *)
  Lemma probe_accept_chaos c e si dec m x :
    c_len FO c < 2 ^ 64 ->
    (forall t, dec = Some t -> len t <= c_len FO c) ->
    fisnan FO (threshold FO (c_cfg FO c)) = false ->
    probe_rest FO R c e si dec = Ok (Accept FO m x) ->
    good FO (m_chaos FO m) /\ flt FO (m_chaos FO m) (threshold FO (c_cfg FO c)) = true.
  Proof.
    intros Hlen Hdec Hthr H. unfold probe_rest in H. bind_inv H. bind_inv H. bind_inv H.
    pose proof E1 as Hr. apply chunk_loop_ratios in Hr; [|constructor]. destruct Hr as [Hg Hl].
    bind_inv H. destruct (negb a2); [discriminate|].
    match type of H with (if ?c then _ else _) = _ => destruct c eqn:Hsoft end; [discriminate|].
    apply orb_false_iff in Hsoft as [Hge _].
    injection H as <- _. cbn [new_match m_chaos].
    set (ratios := md_ratios FO a1) in *.
    assert (Hgood : good FO (match ratios with [] => fzero FO | _ :: _ => fmean FO ratios end)).
    { destruct ratios as [|r0 rs] eqn:Er; [apply (law_zero_good FO FL)|]. rewrite <- Er in *.
      apply (law_mean_good FO FL); [rewrite Er; discriminate| |exact Hg].
      cbn [md_ratios List.length] in Hl.
      assert (Hp : 2 ^ 64 + 2 < 2 ^ 100) by (vm_compute; reflexivity).
      match type of Hl with context [offsets ?x ?y ?z] =>
        assert (Hsl : y <= c_len FO c) by (destruct dec; [apply Hdec; reflexivity|lia]);
        pose proof (offsets_length x y z ltac:(lia)) as Ho;
        revert Hl Ho Hsl Hlen Hp; generalize (Datatypes.length (offsets x y z)); generalize y
      end.
      unfold ratios.
      generalize (2 ^ 64). generalize (2 ^ 100). generalize (Datatypes.length (md_ratios FO a1)).
      generalize (c_len FO c). intros. lia. }
    split; [exact Hgood|].
    apply (law_not_ge_lt FO FL); [apply Hgood | exact Hthr | exact Hge].
  Qed.

  Definition chaos_ok (c : ctx FO) (m : cmatch) : Prop :=
    good FO (m_chaos FO m) /\ flt FO (m_chaos FO m) (threshold FO (c_cfg FO c)) = true.
  Definition chaos_fb (c : ctx FO) (m : cmatch) : Prop :=
    m_chaos FO m = threshold FO (c_cfg FO c) /\ mem (m_enc FO m) (c_prio FO c) = true
    /\ enable_fallback FO (c_cfg FO c) = true.

  Lemma chaos_ok_add c m item : chaos_ok c m -> chaos_ok c (add_submatch FO m item).
  Proof. unfold chaos_ok. destruct m; cbn. auto. Qed.

  Lemma pre_decoded_len c e si t :
    probe_pre FO R c e = Ok (Some (si, Some t)) -> len t <= c_len FO c.
  Proof.
    unfold probe_pre. intro H. bind_inv H. bind_inv H.
    destruct (lazy_sb FO c e).
    - destruct (stest FO R e a0); discriminate.
    - destruct (sdecode FO R e a0) as [t'|] eqn:Hd; [|discriminate]. injection H as _ <-.
      apply HD in Hd. apply slice_ok in E0 as (H1 & H2 & ->).
      etransitivity; [exact Hd|]. unfold len in *. rewrite firstn_length, skipn_length.
      destruct (is_bom FO c e); lia.
  Qed.

  Lemma chaos_verdict c :
    c_len FO c = len (c_bytes FO c) -> c_len FO c < 2 ^ 64 -> fisnan FO (threshold FO (c_cfg FO c)) = false ->
    VerdictOK FO R c (chaos_ok c) (chaos_fb c).
  Proof.
    intros Hcl Hlen Hthr e si dec v _ _ _ Hpre H.
    destruct v as [| |[fb|]|m x]; auto.
    - apply verdict_fields in H. destruct H as (He & _ & Hs & _ & Hc & Hf & Hp).
      split; [|exact Hs]. unfold chaos_fb. rewrite He. auto.
    - pose proof H as H'. apply verdict_fields in H'. destruct H' as (_ & _ & Hs & _).
      split; [|rewrite Hs; constructor]. eapply probe_accept_chaos; eauto.
      intros t ->. eapply pre_decoded_len; eauto.
  Qed.

  Theorem chaos_shape b cfg r :
    b <> [] -> len b < 2 ^ 64 -> fisnan FO (threshold FO cfg) = false ->
    from_bytes FO R b cfg = Ok r ->
    exists inc exc, shape (chaos_ok (make_ctx FO R b cfg inc exc)) (chaos_fb (make_ctx FO R b cfg inc exc)) r.
  Proof.
    intros Hb Hlen Hthr H.
    (* the generic theorem wants the verdict property for every context; it is only used at
       make_ctx, where the side conditions hold, so restrict the predicates to such contexts *)
    set (okc := fun c : ctx FO => c_len FO c = len (c_bytes FO c) /\ c_len FO c < 2 ^ 64
                                  /\ fisnan FO (threshold FO (c_cfg FO c)) = false).
    set (PA := fun c m => okc c -> chaos_ok c m).
    set (PF := fun c m => okc c -> chaos_fb c m).
    assert (Hadd : forall c m item, PA c m -> PA c (add_submatch FO m item)).
    { intros c m item Hp Hc. apply chaos_ok_add, Hp, Hc. }
    assert (HV : forall c, VerdictOK FO R c (PA c) (PF c)).
    { intros c e si dec v HE G1 G2 Hpre Hr.
      destruct v as [| |[fb|]|m x]; auto.
      - pose proof Hr as Hf. apply verdict_fields in Hf. destruct Hf as (_ & _ & Hs & _).
        split; [|exact Hs]. intros (Hc1 & Hc2 & Hc3).
        pose proof (chaos_verdict c Hc1 Hc2 Hc3 e si dec _ HE G1 G2 Hpre Hr) as Hv. apply Hv.
      - pose proof Hr as Hf. apply verdict_fields in Hf. destruct Hf as (_ & _ & Hs & _).
        split; [|rewrite Hs; constructor]. intros (Hc1 & Hc2 & Hc3).
        pose proof (chaos_verdict c Hc1 Hc2 Hc3 e si dec _ HE G1 G2 Hpre Hr) as Hv. apply Hv. }
    destruct (from_bytes_shape FO R PA PF Hadd HV b cfg r Hb H) as (inc & exc & _ & _ & Hs).
    exists inc, exc.
    assert (Hok : okc (make_ctx FO R b cfg inc exc)).
    { unfold okc. cbn [make_ctx c_len c_bytes c_cfg threshold]. auto. }
    destruct Hs as [Hne Hf|fb Hr [Hp Hsub]|Hr].
    - apply shape_regular; [exact Hne|]. eapply Forall_impl; [|exact Hf].
      intros m [Hm Hsubs]. split; [exact (Hm Hok)|]. eapply Forall_impl; [|exact Hsubs]. intros s Hs. exact (Hs Hok).
    - eapply shape_fallback; [exact Hr|]. split; [exact (Hp Hok)|exact Hsub].
    - apply shape_empty; exact Hr.
  Qed.
End Chaos.

(* ---------- coherence lies in [0,1]; percents ---------- *)
Section Coherence.
  Variable FO : FloatOps.
  Variable R : oracles FO.
  Notation cmatch := (cmatch FO).
  Hypothesis FL : FloatLaws FO.

  Definition score_ok (p : string * F FO) : Prop := good FO (snd p) /\ fle FO (snd p) (fone FO) = true.
  (* contract on cd::merge_coherence_ratios (refined by Proofs/CdFacts.v): scores are non-NaN and in [0,1] *)
  Definition MergeOK : Prop := forall ls, Forall score_ok (merge FO R ls).
  Hypothesis HMg : MergeOK.

  Definition coh_ok (_ : ctx FO) (m : cmatch) : Prop := Forall score_ok (m_coh FO m).

  Lemma coh_ok_add c m item : coh_ok c m -> coh_ok c (add_submatch FO m item).
  Proof. unfold coh_ok. destruct m; cbn. auto. Qed.

  Lemma coh_verdict c : VerdictOK FO R c (coh_ok c) (coh_ok c).
  Proof.
    intros e si dec v _ _ _ _ H. destruct v as [| |[fb|]|m x]; auto.
    - pose proof H as Hf. apply verdict_fields in Hf. destruct Hf as (_ & _ & Hs & _).
      apply probe_rest_soft in H as [-> _]. split; [|exact Hs]. unfold coh_ok. cbn. constructor.
    - pose proof H as Hf. apply verdict_fields in Hf. destruct Hf as (_ & _ & Hs & _).
      split; [|rewrite Hs; constructor].
      unfold probe_rest in H. bind_inv H. bind_inv H. bind_inv H. bind_inv H.
      destruct (negb a2); [discriminate|].
      match type of H with (if ?c then _ else _) = _ => destruct c end; [discriminate|].
      injection H as <- _. unfold coh_ok. cbn [new_match m_coh]. apply HMg.
  Qed.

  Lemma coherence_of_ok m : Forall score_ok (m_coh FO m) ->
    good FO (coherence FO m) /\ fle FO (coherence FO m) (fone FO) = true.
  Proof.
    unfold coherence. destruct (m_coh FO m) as [|[l s] rest]; intro H.
    - split; [apply (law_zero_good FO FL) | apply (law_zero_le_one FO FL)].
    - inversion H as [|p ps Hp _]; subst. exact Hp.
  Qed.

  Theorem coherence_in_unit_interval b cfg r :
    b <> [] -> from_bytes FO R b cfg = Ok r ->
    forall m, In m r -> good FO (coherence FO m) /\ fle FO (coherence FO m) (fone FO) = true.
  Proof.
    intros Hb H m Hm.
    destruct (from_bytes_shape FO R coh_ok coh_ok coh_ok_add coh_verdict b cfg r Hb H) as (inc & exc & _ & _ & Hs).
    apply coherence_of_ok.
    destruct Hs as [_ Hf|fb Hr [Hp _]|Hr].
    - rewrite Forall_forall in Hf. apply (Hf _ Hm).
    - subst r. destruct Hm as [<-|[]]. exact Hp.
    - subst r. destruct Hm.
  Qed.
End Coherence.
