(* C04: coherence lies in [0,1] -- with the coherence and merge oracles replaced by their models
   (Model/Cd.v) and the popularity oracle by the Jaro model (Model/Jaro32.v), no score contract is left:
   the remaining oracles of the chain are the script layers and alphabet_languages, about which nothing
   is assumed. *)
From Coq Require Import List NArith ZArith String Bool Lia Reals.
From Flocq Require Import Core IEEE754.BinarySingleNaN.
From Gen Require Import Tables.
From Model Require Import Base Names Flt F32 Matches Detect Cd Jaro Jaro32.
From Proofs Require Import FloatLaws F32Facts F32Laws DetectChaos CdFacts JaroFacts CdScoreFacts CoherenceRefined.
Import ListNotations.
Open Scope N_scope.
Open Scope list_scope.

Lemma alphabets_short_b :
  forallb (fun l => match l with (_, alphabet, _, _) => len alphabet <? 2 ^ 64 end) LANGUAGES = true.
Proof. vm_compute. reflexivity. Qed.

Lemma popularity32_unit L chars s : len chars < 2 ^ 64 -> popularity32 L chars = Some s -> unit32 s.
Proof.
  intros Hl H. unfold popularity32 in H.
  destruct (find _ LANGUAGES) as [[[[n alphabet] a1] a2]|] eqn:Ef; [|discriminate]. inversion H; subst.
  apply find_some in Ef as [Hin _]. pose proof alphabets_short_b as Hb. rewrite forallb_forall in Hb.
  specialize (Hb _ Hin). cbn in Hb. apply N.ltb_lt in Hb. apply jaro32_unit; assumption.
Qed.

Section Capstone.
  Variable R : oracles F32ops.
  Variable C : cd_oracles F32ops.
  Hypothesis Hcoh : forall t thr langs, coh F32ops R t thr langs = coherence_ratio F32ops C t thr langs.
  Hypothesis Hmerge : forall ls, merge F32ops R ls = merge_coherence_ratios F32ops ls.
  (* the popularity oracle is the Jaro model on every character list that can exist (usize lengths) *)
  Hypothesis Hpop : forall L t, len t < 2 ^ 64 -> popularity F32ops C L t = popularity32 L t.
  Hypothesis Hpop_big : forall L t s, 2 ^ 64 <= len t -> popularity F32ops C L t = Some s -> unit32 s.

  Lemma PopOK_holds : forall L chars s, popularity F32ops C L chars = Some s -> unit32 s.
  Proof.
    intros L chars s H. destruct (N.lt_ge_cases (len chars) (2 ^ 64)) as [Hl|Hl].
    - rewrite Hpop in H by exact Hl. eapply popularity32_unit; eauto.
    - eapply Hpop_big; eauto.
  Qed.

  Lemma CohOK_holds : CohOK F32ops R.
  Proof.
    intros t thr langs l H. rewrite Hcoh in H. split.
    - eapply coherence_model_scores; [exact PopOK_holds | exact H].
    - exact (coherence_ratio_nodup F32ops C t thr langs l H).
  Qed.

  Lemma MergeOKon_holds : MergeOKon F32ops R.
  Proof. intros ls Hls Hlen. rewrite Hmerge. apply merge_model_scores; assumption. Qed.

  Theorem coherence_in_unit_interval_modelled b cfg r :
    b <> [] -> 1 <= steps F32ops cfg -> steps F32ops cfg < 2 ^ 22 -> from_bytes F32ops R b cfg = Ok r ->
    forall m, In m r -> good F32ops (coherence F32ops m) /\ fle F32ops (coherence F32ops m) (fone F32ops) = true.
  Proof.
    apply (coherence_in_unit_interval_refined F32ops R F32_FloatLaws CohOK_holds MergeOKon_holds).
  Qed.
End Capstone.
