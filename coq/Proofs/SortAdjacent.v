(* The insertion sort of Model/Matches.v leaves NO adjacent pair out of order, for any list length
   and any comparison that is merely asymmetric (lt a b = true -> lt b a = false) -- transitivity,
   which the tolerance comparison of matches does not have, is not needed.  Lifted to containers
   (KS) and to every result of from_bytes. *)
From Coq Require Import List Bool Permutation.
From Model Require Import Base Flt Matches Detect.
From Proofs Require Import SortFacts ContainerFacts FloatLaws.
Import ListNotations.

Section Adjacent.
  Context {A : Type} (lt : A -> A -> bool).
  Hypothesis asym : forall a b, lt a b = true -> lt b a = false.

  (* r is the sorted prefix in REVERSE order: a :: b :: _ means b precedes a in the output *)
  Definition radj_hd (a : A) (r : list A) : Prop :=
    match r with [] => True | b :: _ => lt a b = false end.
  Fixpoint radj (r : list A) : Prop :=
    match r with [] => True | a :: r' => radj_hd a r' /\ radj r' end.

  Lemma ins_rev_hd a x r : lt a x = false -> radj_hd a r -> radj_hd a (ins_rev lt x r).
  Proof.
    destruct r as [|y r']; cbn [ins_rev radj_hd]; intros Hx Hy; [exact Hx|].
    destruct (lt x y); cbn [radj_hd]; assumption.
  Qed.

  Lemma ins_rev_radj x r : radj r -> radj (ins_rev lt x r).
  Proof.
    induction r as [|y r' IH]; cbn [ins_rev radj].
    - intros _. split; exact I.
    - intros [Hh Hr]. destruct (lt x y) eqn:E; cbn [radj].
      + split; [apply ins_rev_hd; [apply asym; exact E|exact Hh]|apply IH; exact Hr].
      + split; [exact E|]. split; assumption.
  Qed.

  Lemma fold_radj l : forall r, radj r -> radj (fold_left (fun r x => ins_rev lt x r) l r).
  Proof.
    induction l as [|x l IH]; cbn [fold_left]; intros r Hr; [exact Hr|].
    apply IH, ins_rev_radj, Hr.
  Qed.

  Lemma radj_middle p b a q : radj (p ++ b :: a :: q) -> lt b a = false.
  Proof.
    induction p as [|z p IH]; cbn [app radj].
    - intros [Hh _]. exact Hh.
    - intros [_ Hr]. apply IH, Hr.
  Qed.

  Theorem isort_adjacent l l1 a b l2 :
    isort lt l = l1 ++ a :: b :: l2 -> lt b a = false.
  Proof.
    unfold isort. intro E.
    assert (R : radj (fold_left (fun r x => ins_rev lt x r) l [])) by (apply fold_radj; exact I).
    rewrite <- (rev_involutive (fold_left _ l [])) in R. rewrite E in R.
    rewrite rev_app_distr in R. cbn [rev] in R. rewrite <- !app_assoc in R. cbn [app] in R.
    eapply radj_middle; exact R.
  Qed.
End Adjacent.

Section ContainerAdjacent.
  Variable FO : FloatOps.
  Hypothesis CL : CmpLaws FO.

  Lemma klt_asym a b : klt FO a b = true -> klt FO b a = false.
  Proof.
    unfold klt. rewrite (cmp_key_antisym FO CL b a).
    destruct (cmp_key FO a b); cbn [CompOpp]; congruence.
  Qed.

  (* in every container, a match is never strictly preferred to the one just before it *)
  Theorem container_adjacent c l1 a b l2 :
    KS FO c -> c = l1 ++ a :: b :: l2 -> is_less FO b a = false.
  Proof.
    intros [K HK] ->. rewrite is_less_klt.
    rewrite map_app in HK. cbn [map] in HK. symmetry in HK.
    eapply isort_adjacent; [exact klt_asym|exact HK].
  Qed.

  Theorem from_bytes_adjacent (R : oracles FO) bytes cfg r l1 a b l2 :
    from_bytes FO R bytes cfg = Ok r -> r = l1 ++ a :: b :: l2 -> cmp FO b a <> Lt.
  Proof.
    intros H E. pose proof (container_adjacent r l1 a b l2 (from_bytes_KS FO R bytes cfg r H) E) as L.
    unfold is_less in L. destruct (cmp FO b a); congruence.
  Qed.
End ContainerAdjacent.
