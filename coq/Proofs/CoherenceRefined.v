(* C04, coherence in [0,1], with the contract on the merge oracle weakened to what a faithful merge can
   satisfy: merged scores are in [0,1] WHEN the per-chunk scores are and there are fewer than 2^24 chunk
   lists -- plus the corresponding contract on the per-chunk coherence oracle.  Both are then proved of
   the models (Model/Cd.v merge over binary32; Jaro scores of Model/Jaro32.v), see CdScoreFacts.v. *)
From Coq Require Import List NArith String Bool Lia.
From Gen Require Import Tables.
From Model Require Import Base Names Flt Matches Detect.
From Proofs Require Import SortFacts NamesFacts DetectFacts DetectInv DetectFilters FloatLaws DetectChaos DetectTotal.
Import ListNotations.
Open Scope N_scope.
Open Scope list_scope.

Opaque iana_name identify_sig is_multi_byte is_cp_similar.

Lemma offsets_from_length fuel a b s : len (offsets_from fuel a b s) <= N.of_nat fuel.
Proof.
  revert a; induction fuel as [|f IH]; intros a; unfold len in *; cbn [offsets_from List.length]; [lia|].
  destruct (a <? b); cbn [List.length]; [specialize (IH (a + s)); lia | lia].
Qed.

Lemma chunk_count_bound s n st : 1 <= st -> (n - s) / N.max (n / st) 1 + 1 <= 2 * st + 2.
Proof.
  intro Hst. remember (n / st) as d eqn:Ed. destruct (N.eq_dec d 0) as [Hd|Hd].
  - subst d. rewrite Hd. change (N.max 0 1) with 1. rewrite N.div_1_r. apply N.div_small_iff in Hd; lia.
  - assert (Hm : N.max d 1 = d) by (apply N.max_l; lia). rewrite Hm.
    assert (Hlt : n < st * N.succ d) by (subst d; apply N.mul_succ_div_gt; lia).
    assert (H : (n - s) / d < 2 * st + 1).
    { apply N.div_lt_upper_bound; [exact Hd|]. clear Ed. nia. }
    lia.
Qed.

Section CoherenceRefined.
  Variable FO : FloatOps.
  Variable R : oracles FO.
  Notation cmatch := (cmatch FO).
  Hypothesis FL : FloatLaws FO.

  Definition list_ok (l : cohlist FO) : Prop := Forall (score_ok FO) l /\ NoDup (map fst l).
  Definition CohOK : Prop := forall t thr langs l, coh FO R t thr langs = Some l -> list_ok l.
  Definition MergeOKon : Prop :=
    forall ls, Forall list_ok ls -> len ls < 2 ^ 24 -> Forall (score_ok FO) (merge FO R ls).
  Hypothesis HC : CohOK.
  Hypothesis HMg : MergeOKon.

  (* the chunk loop records at most one chunk per offset *)
  Lemma chunk_loop_chunks cfg b e dec sl mg offs : forall st st',
    chunk_loop FO R cfg b e dec sl mg st offs = Ok st' -> len (md_chunks FO st') <= len (md_chunks FO st) + len offs.
  Proof.
    induction offs as [|o offs IH]; intros st st' H; cbn [chunk_loop] in H.
    - inversion H; subst. unfold len. cbn. lia.
    - bind_inv H. unfold chunk_step in E. bind_inv E.
      assert (Hone : match a with Continue _ s1 | Break _ s1 => len (md_chunks FO s1) <= len (md_chunks FO st) + 1 end).
      { destruct (is_invalid_chunk a0 e); [inversion E; subst; cbn; lia|].
        destruct a0 as [chunk|]; [|discriminate].
        match type of E with (if ?c then _ else _) = _ => destruct c end; inversion E; subst; cbn [md_chunks];
          unfold len; rewrite app_length; cbn; lia. }
      destruct a as [s1|s1].
      + specialize (IH _ _ H). unfold len in *. cbn [List.length]. lia.
      + inversion H; subst. unfold len in *. cbn [List.length]. lia.
  Qed.

  Definition few_steps (c : ctx FO) : Prop := 1 <= steps FO (c_cfg FO c) /\ steps FO (c_cfg FO c) < 2 ^ 22.

  Lemma coh_verdict' c : few_steps c -> VerdictOK FO R c (coh_ok FO c) (coh_ok FO c).
  Proof.
    intros (Hs1 & Hs2) e si dec v _ _ _ _ H. destruct v as [| |[fb|]|m x]; auto.
    - pose proof H as Hf. apply verdict_fields in Hf. destruct Hf as (_ & _ & Hs & _).
      apply probe_rest_soft in H as [-> _]. split; [|exact Hs]. unfold coh_ok. cbn. constructor.
    - pose proof H as Hf. apply verdict_fields in Hf. destruct Hf as (_ & _ & Hs & _).
      split; [|rewrite Hs; constructor].
      unfold probe_rest in H. bind_inv H. bind_inv H. bind_inv H.
      pose proof (chunk_loop_chunks _ _ _ _ _ _ _ _ _ E1) as Hch. cbn [md_chunks] in Hch.
      bind_inv H. destruct (negb a2); [discriminate|].
      match type of H with (if ?c then _ else _) = _ => destruct c end; [discriminate|].
      injection H as <- _. unfold coh_ok. cbn [new_match m_coh]. apply HMg.
      + destruct (String.eqb e "ascii"); [constructor|].
        apply Forall_forall. intros l Hl. apply in_flat_map in Hl as (ch & _ & Hl).
        destruct (coh FO R ch _ _) as [l'|] eqn:Ec; [|destruct Hl]. destruct Hl as [<-|[]]. eapply HC; eauto.
      + assert (Hlen : forall (chunks : list text),
                  len (flat_map (fun ch => match coh FO R ch (language_threshold FO (c_cfg FO c))
                                                          (if is_multi_byte e then mb_languages e else sb_langs FO R e) with
                                           | Some l => [l] | None => [] end) chunks) <= len chunks).
        { induction chunks as [|ch r IHr]; unfold len in *; cbn [flat_map List.length]; [lia|].
          rewrite app_length. destruct (coh FO R ch _ _); cbn [List.length]; lia. }
        assert (Hoffs : len (md_chunks FO a1) <= 2 * steps FO (c_cfg FO c) + 2).
        { unfold udiv in E0. destruct (steps FO (c_cfg FO c) =? 0) eqn:Ez; [discriminate|]. inversion E0; subst.
          eapply N.le_trans; [exact Hch|]. unfold len at 1. cbn [List.length]. rewrite N.add_0_l.
          unfold offsets. eapply N.le_trans; [apply offsets_from_length|]. rewrite N2Nat.id.
          apply chunk_count_bound. exact Hs1. }
        destruct (String.eqb e "ascii"); [unfold len; cbn; lia|].
        eapply N.le_lt_trans; [apply Hlen|]. eapply N.le_lt_trans; [exact Hoffs|].
        assert (2 ^ 24 = 16777216) by reflexivity. assert (2 ^ 22 = 4194304) by reflexivity. lia.
  Qed.

  Definition PAc (c : ctx FO) (m : cmatch) : Prop := few_steps c -> coh_ok FO c m.

  Lemma PAc_add c m item : PAc c m -> PAc c (add_submatch FO m item).
  Proof. intros H Hf. apply coh_ok_add. apply H. exact Hf. Qed.

  Lemma PAc_verdict c : VerdictOK FO R c (PAc c) (PAc c).
  Proof.
    intros e si dec v H1 H2 H3 H4 H5.
    destruct v as [| |[fb|]|m x]; auto.
    - split.
      + intro Hf. pose proof (coh_verdict' c Hf e si dec _ H1 H2 H3 H4 H5) as Hv. cbn in Hv. apply Hv.
      + pose proof H5 as Hx. apply verdict_fields in Hx. destruct Hx as (_ & _ & Hs & _). exact Hs.
    - split.
      + intro Hf. pose proof (coh_verdict' c Hf e si dec _ H1 H2 H3 H4 H5) as Hv. cbn in Hv. apply Hv.
      + pose proof H5 as Hx. apply verdict_fields in Hx. destruct Hx as (_ & _ & Hs & _). rewrite Hs. constructor.
  Qed.

  Lemma make_ctx_few_steps b cfg inc exc :
    1 <= steps FO cfg -> steps FO cfg < 2 ^ 22 -> few_steps (make_ctx FO R b cfg inc exc).
  Proof.
    intros H1 H2. unfold few_steps. cbn [make_ctx c_cfg steps].
    destruct (len b <=? chunk_size FO cfg * steps FO cfg); [split; [lia | reflexivity] | split; assumption].
  Qed.

  Theorem coherence_in_unit_interval_refined b cfg r :
    b <> [] -> 1 <= steps FO cfg -> steps FO cfg < 2 ^ 22 -> from_bytes FO R b cfg = Ok r ->
    forall m, In m r -> good FO (coherence FO m) /\ fle FO (coherence FO m) (fone FO) = true.
  Proof.
    intros Hb Hs1 Hs2 H m Hm.
    destruct (from_bytes_shape FO R PAc PAc PAc_add PAc_verdict b cfg r Hb H) as (inc & exc & _ & _ & Hs).
    pose proof (make_ctx_few_steps b cfg inc exc Hs1 Hs2) as Hf.
    apply (coherence_of_ok FO FL).
    destruct Hs as [_ Hall|fb Hr [Hp _]|Hr].
    - rewrite Forall_forall in Hall. destruct (Hall _ Hm) as [Hpm _]. apply Hpm. exact Hf.
    - subst r. destruct Hm as [<-|[]]. apply Hp. exact Hf.
    - subst r. destruct Hm.
  Qed.
End CoherenceRefined.
