(* Every modelled codec (Model/Codecs.v) emits Unicode scalar values only -- what a Rust `String` can hold:
   - single-byte: every entry of every generated table is a scalar value or the "undefined" marker 0xFFFF
     (a finite fact of the tables generated on this run);
   - UTF-16: a code unit outside the surrogate range, or a high / low surrogate pair combined;
   - UTF-8: Proofs/Utf8Sound.v. *)
From Coq Require Import List NArith ZArith String Bool Lia.
From Gen Require Import Tables.
From Model Require Import Base Names Decode Utf SbLangs Codecs.
From Proofs Require Import DecodeFacts UtfFacts Utf8Sound CodecFacts.
Import ListNotations.
Open Scope N_scope.
Open Scope list_scope.

(* ---------- single-byte tables ---------- *)
Lemma tables_hold_scalars :
  forallb (fun kv => forallb (fun c => (c =? 65535) || is_scalar c) (snd kv)) SB_TABLES = true.
Proof. vm_compute. reflexivity. Qed.

Lemma sb_table_scalars e t : sb_table e = Some t -> Forall (fun c => c = 65535 \/ scalar c) t.
Proof.
  unfold sb_table. destruct (codec_of e) as [v|]; [|discriminate]. intro H.
  assert (Hin : In (v, t) SB_TABLES).
  { clear -H. induction SB_TABLES as [|[k x] r IH]; cbn [assoc_first] in H; [discriminate|].
    destruct (String.eqb k v) eqn:E; [apply String.eqb_eq in E; inversion H; subst; left; reflexivity | right; apply IH; exact H]. }
  pose proof tables_hold_scalars as F. rewrite forallb_forall in F. specialize (F _ Hin). cbn [snd] in F.
  rewrite forallb_forall in F. apply Forall_forall. intros c Hc. specialize (F c Hc).
  apply orb_true_iff in F as [F|F]; [left; apply N.eqb_eq; exact F | right; exact F].
Qed.

Lemma sb_lookup_scalar t b c : Forall (fun c => c = 65535 \/ scalar c) t -> sb_lookup t b = Some c -> scalar c.
Proof.
  intros Ht. unfold sb_lookup. destruct (b <? 128) eqn:Hb.
  - intros [= <-]. apply N.ltb_lt in Hb. apply scalar_spec. lia.
  - destruct (nth_error t (N.to_nat (b - 128))) as [x|] eqn:Hn; [|discriminate].
    destruct (x =? 65535) eqn:Ex; [discriminate|]. intros [= <-].
    apply nth_error_In in Hn. rewrite Forall_forall in Ht. destruct (Ht _ Hn) as [E|S]; [|exact S].
    apply N.eqb_neq in Ex. contradiction.
Qed.

Lemma sb_chars_scalars t l : Forall (fun c => c = 65535 \/ scalar c) t -> Forall scalar (sb_chars t l).
Proof.
  intro Ht. induction l as [|b r IH]; cbn [sb_chars flat_map]; [constructor|].
  apply Forall_app. split; [|exact IH].
  destruct (sb_lookup t b) as [c|] eqn:E; [|constructor]. constructor; [|constructor]. exact (sb_lookup_scalar t b c Ht E).
Qed.

(* ---------- UTF-16 ---------- *)
Lemma concat2_small big b0 b1 : b0 < 256 -> b1 < 256 -> concat2 big b0 b1 < 65536.
Proof. intros. unfold concat2. destruct big; lia. Qed.

Lemma unit_scalar ch : ch < 65536 -> is_hi ch = false -> is_lo ch = false -> scalar ch.
Proof.
  intros H Hh Hl. apply scalar_spec. unfold is_hi, is_lo in *.
  apply andb_false_iff in Hh. apply andb_false_iff in Hl. rewrite !N.leb_gt in *. lia.
Qed.

Lemma pair_scalar hi lo : is_hi hi = true -> is_lo lo = true -> scalar (pair_char hi lo).
Proof.
  unfold is_hi, is_lo, pair_char. rewrite !andb_true_iff, !N.leb_le. intros [H1 H2] [H3 H4]. apply scalar_spec. lia.
Qed.

Lemma u16_main_scalars big n : forall l i racc s p out e, (List.length l <= n)%nat -> bytes_ok l -> Forall scalar racc ->
  u16_main big i l racc = (s, p, out, e) -> Forall scalar out.
Proof.
  induction n as [|n IH]; intros l i racc s p out e Hl Hok Hr H.
  - destruct l; [|cbn in Hl; lia]. cbn [u16_main] in H. inversion H; subst. apply Forall_rev. exact Hr.
  - destruct l as [|b0 [|b1 r]]; cbn [u16_main] in H.
    + inversion H; subst. apply Forall_rev. exact Hr.
    + inversion H; subst. apply Forall_rev. exact Hr.
    + apply bytes_ok_cons in Hok as [H0 Hok]. apply bytes_ok_cons in Hok as [H1 Hok]. cbn [List.length] in Hl.
      destruct (is_hi (concat2 big b0 b1)) eqn:Ehi.
      * destruct r as [|b2 [|b3 r']].
        -- inversion H; subst. apply Forall_rev. exact Hr.
        -- inversion H; subst. apply Forall_rev. exact Hr.
        -- apply bytes_ok_cons in Hok as [H2 Hok]. apply bytes_ok_cons in Hok as [H3 Hok].
           destruct (is_lo (concat2 big b2 b3)) eqn:Elo.
           ++ cbn [List.length] in Hl. eapply IH; [| exact Hok | | exact H]; [lia|]. constructor; [|exact Hr]. apply pair_scalar; assumption.
           ++ inversion H; subst. apply Forall_rev. exact Hr.
      * destruct (is_lo (concat2 big b0 b1)) eqn:Elo.
        -- inversion H; subst. apply Forall_rev. exact Hr.
        -- eapply IH; [| exact Hok | | exact H]; [lia|]. constructor; [|exact Hr].
           apply unit_scalar; [apply concat2_small; assumption | exact Ehi | exact Elo].
Qed.

Lemma utf16_strict_scalars big b t : bytes_ok b -> utf16_strict_text big b = Some t -> Forall scalar t.
Proof.
  intros Hok. unfold utf16_strict_text, utf16_helper, helper. cbn [andb].
  destruct (decode_to (utf16_decoder big) [65533] b Strict) as [out|e out|] eqn:E; try discriminate.
  intros [= <-]. revert E. unfold decode_to. cbn [decode_to_loop]. cbn [dfeed dinit dfinish utf16_decoder N.to_nat skipn].
  destruct b as [|b0 r].
  - cbn. intros [= <-]. constructor.
  - unfold u16_feed. cbn [lead_byte u16_init lead_surr].
    replace (len (b0 :: r) <=? 0) with false by (symmetry; apply N.leb_gt; unfold len; cbn [List.length]; lia).
    cbn [N.to_nat skipn]. change (rev (@nil N)) with (@nil N).
    destruct (u16_main big 0 (b0 :: r) []) as [[[s p] o] e] eqn:M.
    pose proof (u16_main_scalars big _ _ _ _ _ _ _ _ (le_n _) Hok (Forall_nil _) M) as S.
    destruct e as [e|]; cbn [do_trap]; [discriminate|].
    unfold u16_finish. destruct (lead_byte s), (lead_surr s); cbn [do_trap]; try discriminate.
    intros [= <-]. cbn [app]. rewrite app_nil_r. exact S.
Qed.

(* ---------- all modelled codecs ---------- *)
Theorem modelled_codecs_emit_scalars e k b t :
  modelled_codec e = Some k -> bytes_ok b -> codec_strict k b = Some t -> Forall scalar t.
Proof.
  intros Hk Hok. unfold modelled_codec in Hk.
  destruct (String.eqb e "utf-8"); [inversion Hk; subst; cbn [codec_strict]; intro H; exact (proj1 (utf8_strict_text_inv b t Hok H))|].
  destruct (String.eqb e "utf-16le"); [inversion Hk; subst; cbn [codec_strict]; apply utf16_strict_scalars; exact Hok|].
  destruct (String.eqb e "utf-16be"); [inversion Hk; subst; cbn [codec_strict]; apply utf16_strict_scalars; exact Hok|].
  destruct (is_multi_byte e); [discriminate|].
  destruct (sb_table e) as [tb|] eqn:Et; inversion Hk; subst; cbn [codec_strict]; [|discriminate].
  unfold sb_closed. destruct (sb_all tb b); [|discriminate]. intros [= <-].
  apply sb_chars_scalars. exact (sb_table_scalars e tb Et).
Qed.
