(* What a passed alph_check means: the library's answer lists exactly the languages the model computes as
   candidates (alphabet overlap >= 20 %, accent / Latin filters), each once, best ratio first. *)
From Coq Require Import List NArith String Bool Permutation.
From Gen Require Import Tables.
From Model Require Import Base Flt Alph.
Import ListNotations.
Open Scope list_scope.

Section AF.
  Variable FO : FloatOps.

  Lemma take_lang_perm x : forall (l l' : list (string * F FO)) r,
    take_lang FO x l = Some (r, l') -> Permutation l ((x, r) :: l').
  Proof.
    induction l as [|[n s] rest IH]; intros l' r H; cbn [take_lang] in H; [discriminate|].
    destruct (take_lang FO x rest) as [[r' rest']|] eqn:Ht.
    - destruct (String.eqb n x && oge FO s r') eqn:E.
      + inversion H; subst. apply andb_true_iff in E as [E _]. apply String.eqb_eq in E. subst n. apply Permutation_refl.
      + inversion H; subst. specialize (IH _ _ eq_refl). eapply perm_trans; [apply perm_skip; exact IH | apply perm_swap].
    - destruct (String.eqb n x) eqn:E; [|discriminate].
      inversion H; subst. apply String.eqb_eq in E. subst n. apply Permutation_refl.
  Qed.

  Theorem alph_check_from_perm : forall answer prev cands,
    alph_check_from FO prev cands answer = true -> Permutation (map fst cands) answer.
  Proof.
    induction answer as [|x r IH]; intros prev cands H; cbn [alph_check_from] in H.
    - destruct cands; [constructor | discriminate].
    - destruct (take_lang FO x cands) as [[ratio cands']|] eqn:Ht; [|discriminate].
      apply andb_true_iff in H as [_ H]. specialize (IH _ _ H).
      apply take_lang_perm in Ht. apply (Permutation_map fst) in Ht. cbn [map fst] in Ht.
      eapply perm_trans; [exact Ht | apply perm_skip; exact IH].
  Qed.

  Theorem alph_check_sound k02 acc chars inl answer :
    alph_check FO k02 acc chars inl answer = true ->
    Permutation (map fst (alph_candidates FO k02 acc chars inl)) answer.
  Proof. apply alph_check_from_perm. Qed.
End AF.
