(* Finite facts about the computed single-byte language table (Model/SbLangs.v over the generated tables). *)
From Coq Require Import List NArith String Bool.
From Gen Require Import Tables.
From Model Require Import Base Names Flt F32 SbLangs.
Import ListNotations.

(* every supported name that is not multi-byte gets a non-empty language list (so the
   "first language of the encoding" of most_probably_language is always defined) *)
Lemma sb_langs_nonempty_b :
  forallb (fun e => is_multi_byte e || negb (match sb_langs32 e with [] => true | _ => false end)) IANA_SUPPORTED = true.
Proof. vm_compute. reflexivity. Qed.

Lemma sb_langs_nonempty e : In e IANA_SUPPORTED -> is_multi_byte e = false -> sb_langs32 e <> [].
Proof.
  intros Hin Hmb. pose proof sb_langs_nonempty_b as H. rewrite forallb_forall in H. specialize (H _ Hin).
  rewrite Hmb in H. cbn [orb] in H. destruct (sb_langs32 e); [discriminate|discriminate].
Qed.

(* the languages of a single-byte encoding are either [Unknown] or names of the language table *)
Lemma sb_langs_known_b :
  forallb (fun e => forallb (fun l => String.eqb l "Unknown" || existsb (fun x => match x with (n, _, _, _) => String.eqb n l end) LANGUAGES)
                            (sb_langs32 e)) IANA_SUPPORTED = true.
Proof. vm_compute. reflexivity. Qed.
