(* C14 / C15 / C16 over the model of the command line tool, for ANY library behaviour. *)
From Coq Require Import List NArith String Bool Lia Ascii.
From Model Require Import Base Names Flt Matches Cli.
Import ListNotations.
Open Scope list_scope.

Section CliFacts.
  Variable FO : FloatOps.
  Notation cmatch := (cmatch FO).
  Variable lib : bytes -> F FO -> res (list cmatch).
  Variable sb_langs : string -> list string.
  Variable utf8 : text -> bytes.

  Notation process_file := (process_file FO lib sb_langs utf8).
  Notation process_files := (process_files FO lib sb_langs utf8).
  Notation run := (run FO lib sb_langs utf8).
  Notation from_path := (from_path FO lib).

  (* C14: detecting from a path is detecting from the file's bytes; a missing path or a directory is a
     returned error (never a panic, never a partial result) *)
  Theorem from_path_spec d p thr :
    match lookup d p with
    | Some (Regular c) => from_path d p thr = lib c thr
    | Some Directory => exists m, from_path d p thr = Err m
    | None => exists m, from_path d p thr = Err m
    end.
  Proof. unfold Cli.from_path. destruct (lookup d p) as [[c|]|]; eauto. Qed.

  (* ---------- what one input file can do to the file system ---------- *)
  (* the write an input causes: target path and content *)
  Definition target (fl : flags FO) (p : string) (best : cmatch) : string :=
    if negb (f_replace FO fl) then sibling_name p (m_enc FO best) else p.

  Inductive effect (fl : flags FO) (inputs : list string) (d : fs) (p : string) : fs -> Prop :=
  | eff_none : effect fl inputs d p d
  | eff_write ms best t :
      f_normalize FO fl = true ->
      (f_replace FO fl = true -> f_force FO fl = true) ->
      from_path d p (f_threshold FO fl) = Ok ms -> get_best FO ms = Some best ->
      starts_with_utf (m_enc FO best) = false -> m_text FO best = Some t ->
      (f_replace FO fl = false -> ~ In (target fl p best) inputs) ->
      effect fl inputs d p (write d (target fl p best) (utf8 t)).

  Lemma process_file_effect fl inputs d acc p d' acc' :
    process_file fl inputs d acc p = Ok (d', acc') -> effect fl inputs d p d'.
  Proof.
    unfold Cli.process_file. destruct (lookup d p) as [n|]; [|discriminate].
    destruct (from_path d p (f_threshold FO fl)) as [ms| |] eqn:Efp; cbn [bind]; try discriminate.
    destruct (get_best FO ms) as [best|] eqn:Eb; [|intro H; injection H as <- _; constructor].
    destruct (add_records FO sb_langs (f_alternatives FO fl) p best ms acc) as [recs| |]; cbn [bind]; try discriminate.
    destruct (negb (f_normalize FO fl)) eqn:En; [intro H; injection H as <- _; constructor|].
    destruct (starts_with_utf (m_enc FO best)) eqn:Eu; [intro H; injection H as <- _; constructor|].
    apply negb_false_iff in En.
    destruct (negb (f_replace FO fl)) eqn:Er.
    - destruct (mem (sibling_name p (m_enc FO best)) inputs) eqn:Em; [intro H; injection H as <- _; constructor|].
      destruct recs as [|r0 rest]; [discriminate|]. destruct (m_text FO best) as [t|] eqn:Et; [|discriminate].
      intro H; injection H as <- _.
      assert (Ht : sibling_name p (m_enc FO best) = target fl p best) by (unfold target; rewrite Er; reflexivity).
      rewrite Ht in *. eapply eff_write; eauto.
      + intro Hr. apply negb_true_iff in Er. congruence.
      + intros _ Hin. apply mem_In in Hin. congruence.
    - destruct (f_force FO fl) eqn:Ef; [|intro H; injection H as <- _; constructor].
      destruct recs as [|r0 rest]; [discriminate|]. destruct (m_text FO best) as [t|] eqn:Et; [|discriminate].
      intro H; injection H as <- _.
      replace p with (target fl p best) at 2 by (unfold target; rewrite Er; reflexivity).
      eapply eff_write; eauto. intro Hr. apply negb_false_iff in Er. congruence.
  Qed.

  (* the chain of effects of a list of inputs, each evaluated in the file system reached so far *)
  Inductive effects (fl : flags FO) (inputs : list string) : fs -> list string -> fs -> Prop :=
  | effs_nil d : effects fl inputs d [] d
  | effs_stop d ps : effects fl inputs d ps d                           (* the run stopped on an error *)
  | effs_cons d p d1 ps d2 : effect fl inputs d p d1 -> effects fl inputs d1 ps d2 -> effects fl inputs d (p :: ps) d2.

  Lemma process_files_effects fl inputs ps : forall d acc,
    effects fl inputs d ps (snd (process_files fl inputs d acc ps)).
  Proof.
    induction ps as [|p r IH]; intros d acc; cbn [Cli.process_files snd]; [constructor|].
    destruct (process_file fl inputs d acc p) as [[d' acc']| |] eqn:E; cbn [snd]; try apply effs_stop.
    eapply effs_cons; [eapply process_file_effect; eauto|apply IH].
  Qed.

  Lemma process_files_ok_fs fl inputs ps d acc d' recs :
    process_files fl inputs d acc ps = (Ok (d', recs), snd (process_files fl inputs d acc ps)) -> snd (process_files fl inputs d acc ps) = d'.
  Proof.
    revert d acc. induction ps as [|p r IH]; intros d acc; cbn [Cli.process_files snd].
    - intro H; injection H as <- _. reflexivity.
    - destruct (process_file fl inputs d acc p) as [[d1 acc1]| |]; cbn [snd]; try discriminate. apply IH.
  Qed.


  (* the file system after a run *)
  Theorem run_effects fl files d d' rep st :
    run fl files d = (d', rep, st) -> bad_flags FO fl = false -> effects fl files d files d'.
  Proof.
    unfold Cli.run. intros H Hb. rewrite Hb in H.
    pose proof (process_files_effects fl files files d []) as He.
    destruct (process_files fl files d [] files) as [[[d1 recs]| |] d2] eqn:E; cbn [snd] in He.
    - assert (d2 = d1).
      { pose proof (process_files_ok_fs fl files files d [] d1 recs) as Hx. rewrite E in Hx. cbn [snd] in Hx. apply Hx. reflexivity. }
      subst d2. destruct (f_minimal FO fl).
      + destruct (forallb _ files); injection H as <- _ _; exact He.
      + destruct recs as [|r0 [|r1 rs]]; injection H as <- _ _; exact He.
    - injection H as <- _ _. exact He.
    - injection H as <- _ _. exact He.
  Qed.

  (* C16: contradictory flags or a threshold outside [0,1] (NaN included): nothing is touched, no report,
     non-zero exit status -- decided before any file system access *)
  Theorem bad_invocation_rejected fl files d :
    bad_flags FO fl = true -> run fl files d = (d, NoReport FO, 101%N).
  Proof. intro H. unfold Cli.run. rewrite H. reflexivity. Qed.

  (* C15: without --normalize nothing changes on disk *)
  Lemma effects_no_normalize fl inputs d ps d' : f_normalize FO fl = false -> effects fl inputs d ps d' -> d' = d.
  Proof.
    intros Hn H. induction H as [| |d p d1 ps d2 He Hes IH]; try reflexivity.
    destruct He as [|ms best t Hn' _ _ _ _ _ _]; [exact IH|congruence].
  Qed.

  Theorem no_normalize_no_change fl files d d' rep st :
    f_normalize FO fl = false -> run fl files d = (d', rep, st) -> d' = d.
  Proof.
    intros Hn H. destruct (bad_flags FO fl) eqn:Hb.
    - rewrite (bad_invocation_rejected fl files d Hb) in H. injection H as <- _ _. reflexivity.
    - eapply effects_no_normalize; [exact Hn|eapply run_effects; eauto].
  Qed.

  (* C15: a path that is not the target of a write keeps its content; every write puts the UTF-8 form of
     the best guess's text of the file AS READ AT THAT MOMENT at the target path *)
  Lemma lookup_write d tp c q : q <> tp -> lookup (write d tp c) q = lookup d q.
  Proof.
    intro H. unfold lookup, write. cbn [assoc_first]. destruct (String.eqb tp q) eqn:E; [apply String.eqb_eq in E; congruence|reflexivity].
  Qed.

  (* a path is written only as the target of some input *)
  Lemma effects_preserve fl inputs d ps d' q :
    effects fl inputs d ps d' ->
    (forall p best, In p ps -> target fl p best = q -> f_replace FO fl = false -> In q inputs) ->
    (f_replace FO fl = true -> ~ In q ps) ->
    lookup d' q = lookup d q.
  Proof.
    intros H. induction H as [| |d p d1 ps d2 He Hes IH]; intros Hn Hr; try reflexivity.
    rewrite IH; [|intros p' b' Hin; apply Hn; right; exact Hin|intros Hx Hin; apply (Hr Hx); right; exact Hin].
    destruct He as [|ms best t _ _ _ _ _ _ Hni]; [reflexivity|]. apply lookup_write. intro Heq.
    destruct (f_replace FO fl) eqn:Er.
    - apply (Hr eq_refl). left. unfold target in Heq. rewrite Er in Heq. cbn [negb] in Heq. symmetry. exact Heq.
    - apply (Hni eq_refl). rewrite <- Heq. eapply Hn; [left; reflexivity|symmetry; exact Heq|reflexivity].
  Qed.

  (* C15: with --normalize and without --replace every input file stays byte-identical -- with no side
     condition: a sibling name that is itself an input is never written (fix 10e7b07) *)
  Theorem inputs_unchanged fl files d d' rep st :
    f_replace FO fl = false -> run fl files d = (d', rep, st) -> forall q, In q files -> lookup d' q = lookup d q.
  Proof.
    intros Hr H q Hq. destruct (bad_flags FO fl) eqn:Hb.
    - rewrite (bad_invocation_rejected fl files d Hb) in H. injection H as <- _ _. reflexivity.
    - eapply effects_preserve; [eapply run_effects; eauto| |congruence]. intros; assumption.
  Qed.

  (* any path that is neither an input (under --replace) nor a sibling name of an input keeps its content *)
  Theorem unrelated_paths_unchanged fl files d d' rep st q :
    run fl files d = (d', rep, st) -> ~ In q files -> (forall p e, In p files -> sibling_name p e <> q) ->
    lookup d' q = lookup d q.
  Proof.
    intros H Hq Hs. destruct (bad_flags FO fl) eqn:Hb.
    - rewrite (bad_invocation_rejected fl files d Hb) in H. injection H as <- _ _. reflexivity.
    - eapply effects_preserve; [eapply run_effects; eauto| |intros _; exact Hq].
      intros p best Hp Ht Hr. exfalso. unfold target in Ht. rewrite Hr in Ht. cbn [negb] in Ht. eapply Hs; eauto.
  Qed.

  (* ---------- the sibling name ---------- *)
  Lemma rsplit_at_none sep s : rsplit_at sep s = None -> forall a b, s <> (a ++ String sep b)%string.
  Proof.
    induction s as [|c r IH]; cbn [rsplit_at]; intros H a b E.
    - destruct a; discriminate.
    - destruct (rsplit_at sep r) as [[x y]|] eqn:Er; [discriminate|].
      destruct (Ascii.eqb c sep) eqn:Ec; [discriminate|].
      destruct a as [|a0 a']; cbn in E; injection E as -> E'.
      + rewrite Ascii.eqb_refl in Ec. discriminate.
      + eapply IH; eauto.
  Qed.

  Lemma rsplit_at_some sep s a b : rsplit_at sep s = Some (a, b) -> s = (a ++ String sep b)%string /\ rsplit_at sep b = None.
  Proof.
    revert a b; induction s as [|c r IH]; cbn [rsplit_at]; intros a b H; [discriminate|].
    destruct (rsplit_at sep r) as [[x y]|] eqn:Er.
    - injection H as <- <-. destruct (IH x y eq_refl) as [-> Hn]. split; [reflexivity|exact Hn].
    - destruct (Ascii.eqb c sep) eqn:Ec; [|discriminate]. injection H as <- <-.
      apply Ascii.eqb_eq in Ec. subst c. split; [reflexivity|exact Er].
  Qed.

  Lemma sappend_assoc (a b c : string) : ((a ++ b) ++ c = a ++ b ++ c)%string.
  Proof. induction a as [|x a IH]; simpl; [reflexivity|]. rewrite IH. reflexivity. Qed.

  (* <stem>.<encoding>[.<ext>]: split at the LAST dot of the file name *)
  Theorem sibling_name_shape dir base enc :
    rsplit_at "/"%char base = None ->
    sibling_name (dir ++ "/" ++ base) enc =
      (dir ++ "/" ++ match rsplit_at "."%char base with
                     | None => base ++ "." ++ enc
                     | Some (stem, ext) => stem ++ "." ++ enc ++ "." ++ ext
                     end)%string.
  Proof.
    intro Hb. unfold sibling_name, dirname_basename.
    assert (Hs : rsplit_at "/"%char (dir ++ "/" ++ base) = Some (dir, base)).
    { clear -Hb. induction dir as [|c d IH]; simpl.
      - rewrite Hb. reflexivity.
      - simpl in IH. rewrite IH. reflexivity. }
    rewrite Hs. destruct (rsplit_at "."%char base) as [[a b]|]; rewrite sappend_assoc; reflexivity.
  Qed.
  (* ---------- exit status and report shape (C16) ---------- *)
  Theorem report_shape fl files d d' rep st :
    run fl files d = (d', rep, st) ->
    (st = 101%N /\ rep = NoReport FO)
    \/ (st = 0%N /\ bad_flags FO fl = false
        /\ if f_minimal FO fl then exists lines, rep = Minimal FO lines /\ List.length lines = List.length files
           else (exists r, rep = JsonObject FO r) \/ (exists rs, rep = JsonArray FO rs /\ List.length rs <> 1%nat)).
  Proof.
    unfold Cli.run. destruct (bad_flags FO fl) eqn:Hb; [intro H; injection H as _ <- <-; left; auto|].
    destruct (process_files fl files d [] files) as [[[d1 recs]| |] d2].
    - destruct (f_minimal FO fl) eqn:Hm.
      + destruct (forallb _ files); intro H; injection H as _ <- <-; [|left; auto].
        right. split; [reflexivity|]. split; [reflexivity|]. eexists. split; [reflexivity|]. apply map_length.
      + destruct recs as [|r0 [|r1 rs]]; intro H; injection H as _ <- <-; [left; auto| |].
        * right. split; [reflexivity|]. split; [reflexivity|]. left. eauto.
        * right. split; [reflexivity|]. split; [reflexivity|]. right. eexists. split; [reflexivity|]. cbn. discriminate.
    - intro H; injection H as _ <- <-. left; auto.
    - intro H; injection H as _ <- <-. left; auto.
  Qed.

  (* a missing input (at the moment it is processed) is an error: non-zero status, no report *)
  Theorem missing_file_is_error fl inputs d acc p : lookup d p = None -> exists m, process_file fl inputs d acc p = Err m.
  Proof. intro H. unfold Cli.process_file. rewrite H. eauto. Qed.

  Theorem error_means_no_report fl files d m d2 :
    bad_flags FO fl = false -> process_files fl files d [] files = (Err m, d2) -> run fl files d = (d2, NoReport FO, 101%N).
  Proof. intros Hb H. unfold Cli.run. rewrite Hb, H. reflexivity. Qed.

  (* every record of the report is the undefined record of an input, or built by record_of from a match
     the library returned for that input (up to the unicode_path field the tool fills in): its fields are
     the library's *)
  Definition base_record (u : record FO) : Prop :=
    (exists p, u = undefined_record FO p) \/ (exists p m, record_of FO sb_langs p m = Ok u).
  Definition from_library (r : record FO) : Prop :=
    exists u, base_record u /\ (r = u \/ exists tp, r = set_unicode_path FO u tp).

  Lemma set_upath_from r tp : from_library r -> from_library (set_unicode_path FO r tp).
  Proof.
    intros (u & Hu & [->|[tp0 ->]]); exists u; (split; [exact Hu|]); right; exists tp; [reflexivity|].
    destruct u; reflexivity.
  Qed.

  Lemma base_from u : base_record u -> from_library u.
  Proof. intro H. exists u. auto. Qed.

  Lemma add_records_from alt p best ms : forall acc recs,
    Forall from_library acc -> add_records FO sb_langs alt p best ms acc = Ok recs -> Forall from_library recs.
  Proof.
    induction ms as [|m r IH]; intros acc recs Ha H; cbn [add_records] in H; [injection H as <-; exact Ha|].
    destruct (match_eq FO m best).
    - destruct (record_of FO sb_langs p m) as [u| |] eqn:Eu; cbn [bind] in H; try discriminate.
      eapply IH; [|exact H]. constructor; [|exact Ha]. apply base_from. right. eauto.
    - destruct alt.
      + destruct (record_of FO sb_langs p m) as [u| |] eqn:Eu; cbn [bind] in H; try discriminate.
        eapply IH; [|exact H]. apply Forall_app. split; [exact Ha|]. constructor; [|constructor]. apply base_from. right. eauto.
      + destruct (record_of FO sb_langs p m); cbn [bind] in H; try discriminate. injection H as <-. exact Ha.
  Qed.

  Lemma process_file_from fl inputs d acc p d' acc' :
    Forall from_library acc -> process_file fl inputs d acc p = Ok (d', acc') -> Forall from_library acc'.
  Proof.
    intros Ha. unfold Cli.process_file. destruct (lookup d p); [|discriminate].
    destruct (from_path d p (f_threshold FO fl)) as [ms| |]; cbn [bind]; try discriminate.
    destruct (get_best FO ms) as [best|].
    2: { intro H; injection H as _ <-. apply Forall_app. split; [exact Ha|]. constructor; [apply base_from; left; eauto|constructor]. }
    destruct (add_records FO sb_langs (f_alternatives FO fl) p best ms acc) as [recs| |] eqn:Er; cbn [bind]; try discriminate.
    pose proof (add_records_from _ _ _ _ _ _ Ha Er) as Hr.
    destruct (negb (f_normalize FO fl)); [intro H; injection H as _ <-; exact Hr|].
    destruct (starts_with_utf (m_enc FO best)); [intro H; injection H as _ <-; exact Hr|].
    match goal with |- context [match ?tg with Some _ => _ | None => _ end] => destruct tg as [tp|] end;
      [|intro H; injection H as _ <-; exact Hr].
    destruct recs as [|r0 rest]; [discriminate|]. destruct (m_text FO best); [|discriminate].
    intro H; injection H as _ <-. inversion Hr as [|? ? H0 Hrest]; subst. constructor; [apply set_upath_from; exact H0|exact Hrest].
  Qed.

  Lemma process_files_from fl inputs ps : forall d acc d' recs d2,
    Forall from_library acc -> process_files fl inputs d acc ps = (Ok (d', recs), d2) -> Forall from_library recs.
  Proof.
    induction ps as [|p r IH]; intros d acc d' recs d2 Ha H; cbn [Cli.process_files] in H.
    - injection H as _ <- _. exact Ha.
    - destruct (process_file fl inputs d acc p) as [[d1 acc1]| |] eqn:E; try discriminate.
      eapply IH; [|exact H]. eapply process_file_from; eauto.
  Qed.

  Theorem report_records_from_library fl files d d' rep st :
    run fl files d = (d', rep, st) ->
    match rep with
    | JsonObject _ r => from_library r
    | JsonArray _ rs => Forall from_library rs
    | _ => True
    end.
  Proof.
    unfold Cli.run. destruct (bad_flags FO fl); [intro H; injection H as _ <- _; exact I|].
    destruct (process_files fl files d [] files) as [[[d1 recs]| |] d2] eqn:E; try (intro H; injection H as _ <- _; exact I).
    pose proof (process_files_from _ _ _ _ _ _ _ _ (Forall_nil _) E) as Hr.
    destruct (f_minimal FO fl).
    - destruct (forallb _ files); intro H; injection H as _ <- _; exact I.
    - destruct recs as [|r0 [|r1 rs]]; intro H; injection H as _ <- _; [exact I| |exact Hr].
      inversion Hr; assumption.
  Qed.
End CliFacts.
