(* C10 (partition part): no encoding occurs twice in a result; a listed alternative has the same
   text as its match and a chaos within epsilon; matches of different encodings never satisfy the
   merge test (inputs up to TOO_BIG_SEQUENCE); lookup by a candidate's name returns its match. *)
From Coq Require Import List NArith String Bool Lia Permutation.
From Gen Require Import Tables.
From Model Require Import Base Names Flt Matches Detect.
From Proofs Require Import SortFacts NamesFacts OrderFacts DetectFacts DetectInv DetectSound DetectFilters DetectTotal DetectRestrict FloatLaws.
Import ListNotations.
Open Scope N_scope.
Open Scope list_scope.

Opaque iana_name identify_sig is_multi_byte is_cp_similar.

Lemma flat_map_perm {A B} (f : A -> list B) l l' : Permutation l l' -> Permutation (flat_map f l) (flat_map f l').
Proof.
  induction 1; cbn [flat_map]; [apply Permutation_refl| apply Permutation_app_head; assumption | |eapply Permutation_trans; eassumption].
  rewrite !app_assoc. apply Permutation_app_tail, Permutation_app_comm.
Qed.

Lemma NoDup_app_right {A} (l1 l2 : list A) : NoDup (l1 ++ l2) -> NoDup l2.
Proof. induction l1 as [|x l1 IH]; cbn [app]; [auto|]. intro H. inversion H; auto. Qed.
Lemma NoDup_app_left {A} (l1 l2 : list A) : NoDup (l1 ++ l2) -> NoDup l1.
Proof.
  induction l1 as [|x l1 IH]; cbn [app]; intro H; [constructor|]. inversion H; subst.
  constructor; [intro Hin; apply H2, in_or_app; left; exact Hin|auto].
Qed.

Lemma NoDup_flat_map_unique {A B} (f : A -> list B) l a b x :
  NoDup (flat_map f l) -> In a l -> In b l -> In x (f a) -> In x (f b) -> a = b.
Proof.
  induction l as [|y l IH]; intros Hnd Ha Hb Hxa Hxb; [destruct Ha|]. cbn [flat_map] in Hnd.
  assert (Hdis : forall z, In z (f y) -> ~ In z (flat_map f l)).
  { intros z Hz. clear -Hnd Hz. induction (f y) as [|w ws IHw]; [destruct Hz|]. cbn [app] in Hnd. inversion Hnd; subst.
    destruct Hz as [->|Hz]; [intro Hin; apply H1, in_or_app; right; exact Hin|apply IHw; assumption]. }
  assert (Hnd' : NoDup (flat_map f l)) by (clear -Hnd; induction (f y); [exact Hnd|inversion Hnd; auto]).
  destruct Ha as [<-|Ha], Hb as [<-|Hb]; [reflexivity| | |apply IH; assumption].
  - exfalso. apply (Hdis x Hxa). apply in_flat_map. eauto.
  - exfalso. apply (Hdis x Hxb). apply in_flat_map. eauto.
Qed.

Section Partition.
  Variable FO : FloatOps.
  Variable R : oracles FO.
  Notation cmatch := (cmatch FO).
  Hypothesis CL : CmpLaws FO.

  Lemma same_result_sym a b : same_result FO a b = same_result FO b a.
  Proof.
    unfold same_result. rewrite (law_abs_sub_sym FO CL (m_chaos FO a) (m_chaos FO b)). f_equal.
    destruct (m_text FO a) as [ta|], (m_text FO b) as [tb|]; cbn; try reflexivity.
    destruct (text_eqb ta tb) eqn:E1, (text_eqb tb ta) eqn:E2; try reflexivity.
    - apply text_eqb_eq in E1. subst. rewrite (proj2 (text_eqb_eq tb tb) eq_refl) in E2. discriminate.
    - apply text_eqb_eq in E2. subst. rewrite (proj2 (text_eqb_eq ta ta) eq_refl) in E1. discriminate.
  Qed.

  Lemma same_result_add_l m item x : same_result FO (add_submatch FO m item) x = same_result FO m x.
  Proof. destruct m; reflexivity. Qed.
  Lemma same_result_add_r m item x : same_result FO x (add_submatch FO m item) = same_result FO x m.
  Proof. destruct m; reflexivity. Qed.

  Lemma merge_into_none items item : merge_into FO items item = None -> forall m, In m items -> same_result FO m item = false.
  Proof.
    induction items as [|y l IH]; intros H m Hm; [destruct Hm|]. cbn [merge_into] in H.
    destruct (same_result FO y item) eqn:E; [discriminate|].
    destruct (merge_into FO l item) eqn:E2; [discriminate|].
    destruct Hm as [<-|Hm]; [exact E|apply IH; auto].
  Qed.

  Lemma append_encs_perm items item :
    m_sub FO item = [] ->
    Permutation (all_encs FO (append FO items item)) (all_encs FO items ++ [m_enc FO item]).
  Proof.
    intro Hs. unfold append.
    assert (Hp : Permutation (all_encs FO (resort FO (items ++ [item]))) (all_encs FO items ++ [m_enc FO item])).
    { unfold all_encs. eapply Permutation_trans; [apply flat_map_perm, isort_perm|].
      rewrite flat_map_app. cbn [flat_map]. unfold suitable_encodings at 2. rewrite Hs. cbn [map]. rewrite app_nil_r. apply Permutation_refl. }
    destruct (_ <=? _); [|exact Hp]. destruct (merge_into FO items item) as [l|] eqn:Hm; [|exact Hp].
    apply merge_into_spec in Hm as (l1 & m & l2 & -> & -> & _).
    unfold all_encs. rewrite !flat_map_app. cbn [flat_map].
    destruct (add_submatch_fields FO m item) as (_ & F2 & _ & _ & _ & _ & F7).
    unfold suitable_encodings at 2. rewrite F2, F7, map_app. cbn [map].
    change (m_enc FO m :: map (m_enc FO) (m_sub FO m) ++ [m_enc FO item]) with (suitable_encodings FO m ++ [m_enc FO item]).
    rewrite <- !app_assoc. do 2 apply Permutation_app_head. apply Permutation_app_comm.
  Qed.

  Variable c : ctx FO.
  Hypothesis Hsmall : len (c_bytes FO c) <= TOO_BIG_SEQUENCE.

  (* the properties of a container the loop maintains *)
  Record Part (l : list cmatch) : Prop := {
    p_nodup : NoDup (all_encs FO l);
    p_sub : forall m s, In m l -> In s (m_sub FO m) -> same_result FO m s = true;
    p_diff : forall a b, In a l -> In b l -> m_enc FO a <> m_enc FO b -> same_result FO a b = false;
    p_payload : forall m, In m l -> m_payload FO m = c_bytes FO c;
  }.

  Lemma Part_nil : Part [].
  Proof. constructor; cbn; try constructor; intros; contradiction. Qed.

  Lemma Part_append items item :
    Part items -> m_sub FO item = [] -> m_payload FO item = c_bytes FO c ->
    ~ In (m_enc FO item) (all_encs FO items) -> Part (append FO items item).
  Proof.
    intros [P1 P2 P3 P4] Hs Hpl Hnew. constructor.
    - eapply Permutation_NoDup; [apply Permutation_sym, append_encs_perm; exact Hs|].
      eapply Permutation_NoDup; [apply Permutation_cons_append|]. constructor; assumption.
    - intros m s Hm Hsub. apply append_In in Hm as [Hm|[->|(m0 & Hm0 & -> & Hsr)]].
      + apply (P2 m s Hm Hsub).
      + rewrite Hs in Hsub. destruct Hsub.
      + destruct (add_submatch_fields FO m0 item) as (_ & _ & _ & _ & _ & _ & F7). rewrite F7 in Hsub.
        rewrite same_result_add_l. apply in_app_or in Hsub as [Hsub|[<-|[]]]; [apply (P2 m0 s Hm0 Hsub)|exact Hsr].
    - intros a b Ha Hb Hne.
      assert (Hmerge : forall x, In x (append FO items item) ->
               (In x items) \/ (x = item /\ merge_into FO items item = None)
               \/ (exists m0, In m0 items /\ x = add_submatch FO m0 item)).
      { intros x Hx. unfold append in Hx. rewrite Hpl in Hx. apply N.leb_le in Hsmall. rewrite Hsmall in Hx.
        destruct (merge_into FO items item) as [l|] eqn:Hm.
        - apply merge_into_spec in Hm as (l1 & m & l2 & -> & -> & _).
          apply in_app_or in Hx as [Hx|[<-|Hx]]; [left; apply in_or_app; auto| |left; apply in_or_app; right; right; exact Hx].
          right. right. exists m. split; [apply in_or_app; right; left; reflexivity|reflexivity].
        - apply isort_In in Hx. apply in_app_or in Hx as [Hx|[<-|[]]]; [left; exact Hx|right; left; auto]. }
      assert (Hcore : forall x, In x (append FO items item) ->
               exists x0, (In x0 items \/ (x0 = item /\ merge_into FO items item = None))
                          /\ m_enc FO x = m_enc FO x0 /\ (forall y, same_result FO x y = same_result FO x0 y)
                          /\ (forall y, same_result FO y x = same_result FO y x0)).
      { intros x Hx. destruct (Hmerge x Hx) as [H1|[[-> H1]|(m0 & H1 & ->)]].
        - exists x. auto.
        - exists item. auto.
        - exists m0. split; [left; exact H1|]. split; [destruct m0; reflexivity|].
          split; intro y; [apply same_result_add_l|apply same_result_add_r]. }
      destruct (Hcore a Ha) as (a0 & Ha0 & Ea & Sa & _). destruct (Hcore b Hb) as (b0 & Hb0 & Eb & _ & Sb).
      rewrite Sa, Sb. rewrite Ea, Eb in Hne.
      destruct Ha0 as [Ha0|[-> Hn]], Hb0 as [Hb0|[-> Hn']].
      + apply P3; assumption.
      + apply (merge_into_none _ _ Hn' a0 Ha0).
      + rewrite same_result_sym. apply (merge_into_none _ _ Hn b0 Hb0).
      + congruence.
    - intros m Hm. apply append_In in Hm as [Hm|[->|(m0 & Hm0 & -> & _)]]; [apply P4; exact Hm|exact Hpl|].
      destruct m0; cbn. apply (P4 _ Hm0).
  Qed.

  Lemma Part_single_of l found : Part l -> In found l -> Part [found].
  Proof.
    intros [P1 P2 P3 P4] Hf. constructor.
    - unfold all_encs. cbn [flat_map]. rewrite app_nil_r.
      apply in_split in Hf as (l1 & l2 & ->). unfold all_encs in P1. rewrite flat_map_app in P1. cbn [flat_map] in P1.
      apply NoDup_app_right in P1. apply NoDup_app_left in P1. exact P1.
    - intros m s [<-|[]] Hs. apply (P2 _ _ Hf Hs).
    - intros a b [<-|[]] [<-|[]] Hne. congruence.
    - intros m [<-|[]]. apply (P4 _ Hf).
  Qed.
End Partition.

Section PartitionLoop.
  Variable FO : FloatOps.
  Variable R : oracles FO.
  Notation cmatch := (cmatch FO).
  Hypothesis CL : CmpLaws FO.
  Variable c : ctx FO.
  Hypothesis Hsmall : len (c_bytes FO c) <= TOO_BIG_SEQUENCE.

  Definition fb_ok (o : option cmatch) : Prop :=
    forall fb, o = Some fb -> m_sub FO fb = [] /\ m_payload FO fb = c_bytes FO c.

  Record Q (done : list string) (s : loop_state FO) : Prop := {
    q_part : Part FO c (results FO s);
    q_done : forall x, In x (all_encs FO (results FO s)) -> In x done;
    q_a : fb_ok (fb_ascii FO s);
    q_u : fb_ok (fb_u8 FO s);
    q_s : fb_ok (fb_specified FO s);
  }.

  Lemma loop_body_Q done s e out :
    ~ In e done -> Q done s -> loop_body FO R c s e = Ok out ->
    match out with Next _ s' => Q (done ++ [e]) s' | Return _ r => Part FO c r end.
  Proof.
    intros Hnew HQ H.
    assert (Hkeep : Q (done ++ [e]) s).
    { destruct HQ. constructor; auto. intros x Hx. apply in_or_app. left. auto. }
    unfold loop_body in H.
    destruct (gate_filtered FO c e); [injection H as <-; exact Hkeep|].
    destruct (gate_utf16 FO c e); [injection H as <-; exact Hkeep|].
    bind_inv H. destruct a as [[si dec]|]; [|injection H as <-; exact Hkeep].
    destruct (gate_similar _ e); [injection H as <-; exact Hkeep|]. bind_inv H.
    pose proof (verdict_fields FO R c e si dec a E0) as Hf.
    destruct a as [| |fb|m x]; cbn [apply_verdict] in H.
    - injection H as <-; exact Hkeep.
    - injection H as <-; exact Hkeep.
    - injection H as <-. destruct Hkeep as [K1 K2 K3 K4 K5]. destruct fb as [entry|].
      + destruct Hf as (_ & _ & Hs & Hp & _).
        assert (Hok : fb_ok (Some entry)) by (intros fb Hfb; injection Hfb as <-; auto).
        unfold set_fallback, set_soft. destruct (String.eqb _ _); [|destruct (String.eqb _ _)]; constructor; cbn; auto.
      + constructor; cbn; auto.
    - destruct Hf as (He & _ & Hs & Hp). destruct HQ as [K1 K2 K3 K4 K5].
      assert (Hpa : Part FO c (append FO (results FO s) m)).
      { apply (Part_append FO CL c Hsmall); auto. rewrite He. intro Hin. apply Hnew, K2, Hin. }
      destruct x.
      + destruct (get_by_encoding FO _ e) as [found|] eqn:Hg; [|discriminate]. injection H as <-.
        apply get_by_encoding_In in Hg. eapply Part_single_of; eauto.
      + injection H as <-. constructor; cbn [set_results results fb_ascii fb_u8 fb_specified]; auto.
        intros y Hy. eapply Permutation_in in Hy; [|apply append_encs_perm; exact Hs].
        apply in_app_or in Hy as [Hy|[<-|[]]]; apply in_or_app; [left; apply K2; exact Hy|right; left; symmetry; exact He].
  Qed.

  Lemma main_loop_Q encs : forall done s out,
    NoDup (done ++ encs) -> Q done s -> main_loop FO R c s encs = Ok out ->
    match out with Next _ s' => Q (done ++ encs) s' | Return _ r => Part FO c r end.
  Proof.
    induction encs as [|e encs IH]; intros done s out Hnd HQ H; cbn [main_loop] in H.
    - injection H as <-. rewrite app_nil_r. exact HQ.
    - bind_inv H.
      assert (Hnew : ~ In e done).
      { intro Hin. apply NoDup_remove_2 in Hnd. apply Hnd, in_or_app. left; exact Hin. }
      pose proof (loop_body_Q done s e a Hnew HQ E) as Hb. destruct a as [s'|r].
      + specialize (IH (done ++ [e]) s' out). rewrite <- app_assoc in IH. apply IH; assumption.
      + injection H as <-. exact Hb.
  Qed.
End PartitionLoop.

Section PartitionTop.
  Variable FO : FloatOps.
  Variable R : oracles FO.
  Hypothesis CL : CmpLaws FO.

  Theorem from_bytes_partition b cfg r :
    b <> [] -> len b <= TOO_BIG_SEQUENCE -> from_bytes FO R b cfg = Ok r ->
    exists inc exc, Part FO (make_ctx FO R b cfg inc exc) r.
  Proof.
    intros Hb Hsmall H. unfold from_bytes in H. bind_inv H. bind_inv H. exists a, a0.
    destruct b as [|x0 b']; [contradiction|]. set (b := x0 :: b') in *.
    set (c := make_ctx FO R b cfg a a0) in *. bind_inv H.
    assert (Hs : len (c_bytes FO c) <= TOO_BIG_SEQUENCE) by exact Hsmall.
    assert (Q0 : Q FO c [] (init_state FO)).
    { constructor; cbn; try (intros fb Hfb; discriminate); [apply Part_nil|intros x []]. }
    pose proof (main_loop_Q FO R CL c Hs _ [] _ _ (order_nodup _) Q0 E1) as Hm.
    destruct a1 as [s|r0]; [|injection H as <-; exact Hm].
    destruct (results FO s) eqn:Hr.
    - destruct (choose_fallback FO s) as [fb|] eqn:Hf; injection H as <-; [|apply Part_nil].
      rewrite append_nil.
      assert (Hok : m_sub FO fb = [] /\ m_payload FO fb = c_bytes FO c).
      { destruct Hm as [_ _ K3 K4 K5]. unfold choose_fallback in Hf.
        destruct (fb_specified FO s) as [sp|]; [injection Hf as <-; apply K5; reflexivity|].
        destruct (fb_u8 FO s) as [u|], (fb_ascii FO s) as [a'|]; try discriminate.
        - destruct (negb _); injection Hf as <-; [apply K4|apply K3]; reflexivity.
        - injection Hf as <-. apply K4; reflexivity.
        - injection Hf as <-. apply K3; reflexivity. }
      destruct Hok as [Hs1 Hs2]. constructor.
      + unfold all_encs, suitable_encodings. cbn [flat_map]. rewrite Hs1. cbn. constructor; [intros []|constructor].
      + intros m s0 [<-|[]] Hin. rewrite Hs1 in Hin. destruct Hin.
      + intros x y [<-|[]] [<-|[]] Hne. congruence.
      + intros m [<-|[]]. exact Hs2.
    - injection H as <-. rewrite <- Hr. apply (q_part _ _ _ _ Hm).
  Qed.

  (* lookup by the name of any candidate returns the match that lists it *)
  Theorem lookup_returns_its_match r m e l :
    NoDup (all_encs FO r) -> In m r -> In e (suitable_encodings FO m) -> iana_name l = Some e ->
    get_by_encoding FO r l = Some m.
  Proof.
    intros Hnd Hm He Hl. unfold get_by_encoding. rewrite Hl.
    destruct (find (fun i => mem e (suitable_encodings FO i)) r) as [found|] eqn:Hf.
    - apply find_some in Hf as [Hf1 Hf2]. apply mem_In in Hf2. f_equal.
      eapply (NoDup_flat_map_unique (suitable_encodings FO) r found m e); eauto.
    - exfalso. eapply find_none in Hf; [|exact Hm]. cbn beta in Hf. apply mem_In in He. congruence.
  Qed.
End PartitionTop.

(* ---------- languages of a match ---------- *)
Section Languages.
  Variable FO : FloatOps.
  Variable R : oracles FO.
  Notation cmatch := (cmatch FO).

  (* contracts on the coherence oracles, proved of the Cd.v model in Proofs/CdFacts.v and
     asserted on every answer of the real functions during the correspondence runs *)
  Definition MergeNoDup : Prop := forall ls, NoDup (map fst (merge FO R ls)).
  Definition MergeSub : Prop :=
    forall ls x, In x (map fst (merge FO R ls)) -> exists l, In l ls /\ In x (map fst l).
  Definition CohInclude : Prop :=
    forall t thr L l, L <> "Unknown"%string -> coh FO R t thr [L] = Some l -> forall x, In x (map fst l) -> x = L.

  Definition langs_ok (_ : ctx FO) (m : cmatch) : Prop :=
    NoDup (languages FO m)
    /\ forall L, is_multi_byte (m_enc FO m) = true -> mb_languages (m_enc FO m) = [L] -> L <> "Unknown"%string ->
         forall x, In x (languages FO m) -> x = L.

  Lemma langs_ok_add c m item : langs_ok c m -> langs_ok c (add_submatch FO m item).
  Proof. unfold langs_ok, languages. destruct m; cbn. auto. Qed.

  Hypothesis H1 : MergeNoDup.
  Hypothesis H2 : MergeSub.
  Hypothesis H3 : CohInclude.

  Lemma langs_verdict c : VerdictOK FO R c (langs_ok c) (langs_ok c).
  Proof.
    intros e si dec v _ _ _ _ H. destruct v as [| |[fb|]|m x]; auto.
    - pose proof H as Hf. apply verdict_fields in Hf. destruct Hf as (_ & _ & Hs & _).
      apply probe_rest_soft in H as [-> _]. split; [|exact Hs]. unfold langs_ok, languages. cbn. split; [constructor|intros; contradiction].
    - pose proof H as Hf. apply verdict_fields in Hf. destruct Hf as (He & _ & Hs & _).
      split; [|rewrite Hs; constructor].
      unfold probe_rest in H. bind_inv H. bind_inv H. bind_inv H. bind_inv H.
      destruct (negb a2); [discriminate|].
      match type of H with (if ?c then _ else _) = _ => destruct c end; [discriminate|].
      injection H as <- _. unfold langs_ok, languages. cbn [new_match m_coh m_enc]. split; [apply H1|].
      intros L Hmb HL HnU y Hx. apply H2 in Hx as (l & Hl & Hxl).
      destruct (String.eqb e "ascii"); [destruct Hl|]. apply in_flat_map in Hl as (ch & _ & Hl).
      rewrite Hmb, HL in Hl. destruct (coh FO R ch _ [L]) as [l0|] eqn:Hc; [|destruct Hl]. destruct Hl as [<-|[]].
      eapply H3; eauto.
  Qed.

  Theorem languages_coherent b cfg r :
    b <> [] -> from_bytes FO R b cfg = Ok r ->
    forall m, In m r ->
      NoDup (languages FO m)
      /\ forall L, is_multi_byte (m_enc FO m) = true -> mb_languages (m_enc FO m) = [L] -> L <> "Unknown"%string ->
           forall x, In x (languages FO m) -> x = L.
  Proof.
    intros Hb H m Hm.
    destruct (from_bytes_shape FO R langs_ok langs_ok langs_ok_add langs_verdict b cfg r Hb H) as (inc & exc & _ & _ & Hs).
    destruct Hs as [_ Hf|fb Hr [Hp _]|Hr].
    - rewrite Forall_forall in Hf. apply (Hf _ Hm).
    - subst r. destruct Hm as [<-|[]]. exact Hp.
    - subst r. destruct Hm.
  Qed.
End Languages.
