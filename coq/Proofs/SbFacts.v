(* The single-byte decoder model (Model/Decode.v: sb_decoder over a forward table) driven through the
   model of utils::decode satisfies the LazyContract that C01_decodes / C07_text_after_mark assume for
   inputs above TOO_BIG_SEQUENCE: a single-byte decoder is byte-wise, so "the 500,000-byte prefix
   decodes" and "the remainder decodes" give "the whole input decodes, to the same text in chunk mode",
   and no single-byte table contains U+FEFF (hypothesis NoFeff, checked on the 30 tables of the codec
   crate by the `decode` level on every run). *)
From Coq Require Import List NArith ZArith String Bool Lia.
From Gen Require Import Tables.
From Model Require Import Base Names Flt Matches Detect Decode.
From Proofs Require Import DetectSound.
Import ListNotations.
Open Scope N_scope.
Open Scope list_scope.

Section Sb.
  Variable table : list N.

  Local Notation sb_all := (Decode.sb_all table).
  Local Notation sb_chars := (Decode.sb_chars table).

  Lemma sb_scan_ok l : forall i acc, sb_all l = true -> sb_scan table i l acc = (acc ++ sb_chars l, None).
  Proof.
    induction l as [|b r IH]; intros i acc H; cbn [sb_scan sb_chars flat_map].
    - rewrite app_nil_r. reflexivity.
    - cbn [sb_all forallb] in H. apply andb_true_iff in H as [Hb Hr].
      destruct (sb_lookup table b) as [c|]; [|discriminate].
      rewrite IH by exact Hr. rewrite <- app_assoc. reflexivity.
  Qed.

  Lemma sb_scan_bad l : forall i acc, sb_all l = false -> exists out j, sb_scan table i l acc = (out, Some j).
  Proof.
    induction l as [|b r IH]; intros i acc H; cbn [sb_scan].
    - discriminate.
    - cbn [sb_all forallb] in H. destruct (sb_lookup table b) as [c|]; [|eauto].
      cbn [andb] in H. apply IH. exact H.
  Qed.

  (* the model of decode_to on a single-byte decoder, strict: Ok(all characters) iff every byte is defined *)
  Lemma sb_decode_to_strict l repl :
    decode_to (sb_decoder table) repl l Strict =
      if sb_all l then DtOk (sb_chars l)
      else match decode_to (sb_decoder table) repl l Strict with DtErr e o => DtErr e o | _ => DtFuel end.
  Proof.
    unfold decode_to. cbn [decode_to_loop dfeed dfinish dinit sb_decoder]. cbn [N.to_nat skipn].
    destruct (sb_all l) eqn:Ha.
    - rewrite (sb_scan_ok l 0 [] Ha). cbn [app]. rewrite app_nil_r. reflexivity.
    - destruct (sb_scan_bad l 0 [] Ha) as (out & j & ->). cbn [do_trap]. reflexivity.
  Qed.

  Definition sb_strict (l : bytes) : option (list N) :=
    match helper (sb_decoder table) [65533] l Strict false false false with HOk o => Some o | _ => None end.
  Definition sb_test (l : bytes) : bool :=
    match helper (sb_decoder table) [65533] l Strict true false false with HOk _ => true | _ => false end.
  Definition sb_chunk (l : bytes) : option (list N) :=
    match helper (sb_decoder table) [65533] l Strict false true false with HOk o => Some o | _ => None end.

  Lemma sb_strict_spec l : sb_strict l = if sb_all l then Some (sb_chars l) else None.
  Proof.
    unfold sb_strict, helper. cbn [andb]. rewrite sb_decode_to_strict.
    destruct (sb_all l); [reflexivity|]. destruct (decode_to _ _ _ _); reflexivity.
  Qed.
  Lemma sb_chunk_spec l : sb_chunk l = if sb_all l then Some (sb_chars l) else None.
  Proof.
    unfold sb_chunk, helper. rewrite andb_false_r. rewrite sb_decode_to_strict.
    destruct (sb_all l); [reflexivity|]. destruct (decode_to _ _ _ _); reflexivity.
  Qed.
  Lemma sb_test_spec l : sb_test l = sb_all l.
  Proof.
    unfold sb_test, helper. cbn [andb]. rewrite sb_decode_to_strict.
    destruct (sb_all l); [reflexivity|]. destruct (decode_to _ _ _ _); reflexivity.
  Qed.

  Lemma sb_all_app l1 l2 : sb_all (l1 ++ l2) = sb_all l1 && sb_all l2.
  Proof. unfold sb_all. apply forallb_app. Qed.
  Lemma sb_chars_app l1 l2 : sb_chars (l1 ++ l2) = sb_chars l1 ++ sb_chars l2.
  Proof. unfold sb_chars. apply flat_map_app. Qed.

  (* byte-wise: decoding a concatenation is the concatenation of the decodings *)
  Theorem sb_strict_app l1 l2 t1 t2 :
    sb_strict l1 = Some t1 -> sb_strict l2 = Some t2 -> sb_strict (l1 ++ l2) = Some (t1 ++ t2).
  Proof.
    rewrite !sb_strict_spec, sb_all_app, sb_chars_app.
    destruct (sb_all l1); [|discriminate]. destruct (sb_all l2); [|discriminate].
    intros [= <-] [= <-]. reflexivity.
  Qed.

  Hypothesis NoFeff : Forall (fun c => c <> 65279) table.

  Lemma sb_lookup_not_feff b c : sb_lookup table b = Some c -> c <> 65279.
  Proof.
    unfold sb_lookup. destruct (b <? 128) eqn:Hb.
    - intros [= <-]. apply N.ltb_lt in Hb. lia.
    - destruct (nth_error table (N.to_nat (b - 128))) as [x|] eqn:Hn; [|discriminate].
      destruct (x =? 65535); [discriminate|]. intros [= <-].
      apply nth_error_In in Hn. rewrite Forall_forall in NoFeff. apply NoFeff. exact Hn.
  Qed.

  Lemma sb_chars_no_feff l : strip_feff (sb_chars l) = sb_chars l.
  Proof.
    destruct l as [|b r]; [reflexivity|]. cbn [sb_chars flat_map].
    destruct (sb_lookup table b) as [c|] eqn:Hb.
    - cbn [app strip_feff]. destruct (c =? 65279) eqn:E; [|reflexivity].
      apply N.eqb_eq in E. exfalso. exact (sb_lookup_not_feff b c Hb E).
    - cbn [app]. fold (sb_chars r).
      (* first defined byte of the rest *)
      induction r as [|b' r' IH]; [reflexivity|]. cbn [sb_chars flat_map].
      destruct (sb_lookup table b') as [c'|] eqn:Hb'.
      + cbn [app strip_feff]. destruct (c' =? 65279) eqn:E; [|reflexivity].
        apply N.eqb_eq in E. exfalso. exact (sb_lookup_not_feff b' c' Hb' E).
      + cbn [app]. exact IH.
  Qed.

  Theorem sb_lazy l1 l2 t2 :
    sb_test l1 = true -> sb_strict l2 = Some t2 ->
    exists t, sb_strict (l1 ++ l2) = Some t /\ sb_chunk (l1 ++ l2) = Some t /\ strip_feff t = t.
  Proof.
    intros H1 H2. rewrite sb_test_spec in H1. rewrite sb_strict_spec in H2.
    destruct (sb_all l2) eqn:A2; [|discriminate].
    exists (sb_chars (l1 ++ l2)).
    rewrite sb_strict_spec, sb_chunk_spec, sb_all_app, H1, A2. cbn [andb].
    repeat split. apply sb_chars_no_feff.
  Qed.
End Sb.

(* An oracle bundle whose three decode oracles are, on every non-multi-byte encoding, the model of
   utils::decode over the single-byte decoder of that encoding's forward table satisfies LazyContract. *)
Section Discharge.
  Variable FO : FloatOps.
  Variable R : oracles FO.
  Variable tables : string -> list N.

  Definition SbModelled : Prop :=
    forall e l, is_multi_byte e = false ->
      sdecode FO R e l = sb_strict (tables e) l
      /\ stest FO R e l = sb_test (tables e) l
      /\ cdecode FO R e l = sb_chunk (tables e) l.

  Theorem sb_lazy_contract :
    SbModelled -> (forall e, Forall (fun c => c <> 65279) (tables e)) -> LazyContract FO R.
  Proof.
    intros HM HN e l1 l2 t2 Hmb Ht Hs.
    destruct (HM e l1 Hmb) as (_ & T1 & _). destruct (HM e l2 Hmb) as (S2 & _ & _).
    destruct (HM e (l1 ++ l2) Hmb) as (S12 & _ & C12).
    rewrite T1 in Ht. rewrite S2 in Hs. rewrite S12, C12.
    exact (sb_lazy (tables e) (HN e) l1 l2 t2 Ht Hs).
  Qed.
End Discharge.
