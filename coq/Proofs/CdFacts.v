(* Facts about the coherence model (Model/Cd.v): the language threshold is a pure cut-off, the
   output is ordered by non-increasing score with one entry per language, merging a single chunk
   is the identity, and the contracts the detection theorems assume of the coherence oracles. *)
From Coq Require Import List NArith String Bool Lia Permutation.
From Gen Require Import Tables.
From Model Require Import Base Names Flt Matches Cd.
From Proofs Require Import SortFacts FloatLaws.
Import ListNotations.
Open Scope N_scope.
Open Scope list_scope.

Section CdFacts.
  Variable FO : FloatOps.
  Notation F := (F FO).
  Notation cohlist := (cohlist FO).
  Variable C : cd_oracles FO.

  Definition keys (l : cohlist) : list string := map fst l.

  (* ---------- filter_alt: one entry per language, in order of first appearance ---------- *)
  Lemma fa_add_keys x idx :
    keys (fa_add FO x idx) = if mem (fst x) (keys idx) then keys idx else keys idx ++ [fst x].
  Proof.
    induction idx as [|[l s] r IH]; [reflexivity|].
    cbn [fa_add]. unfold keys in *. cbn [map fst mem].
    destruct (String.eqb l (fst x)) eqn:E; cbn [orb map fst]; [reflexivity|].
    rewrite IH. destruct (mem (fst x) (map fst r)); reflexivity.
  Qed.

  Lemma fold_fa_keys_In X : forall idx L,
    In L (keys (fold_left (fun i x => fa_add FO x i) X idx)) <-> In L (keys idx) \/ In L (keys X).
  Proof.
    induction X as [|x X IH]; intros idx L; cbn [fold_left].
    - unfold keys at 3. cbn [map In]. tauto.
    - rewrite IH, fa_add_keys. change (keys (x :: X)) with (fst x :: keys X). cbn [In].
      destruct (mem (fst x) (keys idx)) eqn:E.
      + apply mem_In in E. split; [tauto|]. intros [H|[<-|H]]; auto.
      + rewrite in_app_iff. cbn [In]. tauto.
  Qed.

  Lemma fold_fa_keys_NoDup X : forall idx, NoDup (keys idx) -> NoDup (keys (fold_left (fun i x => fa_add FO x i) X idx)).
  Proof.
    induction X as [|x X IH]; intros idx H; cbn [fold_left]; [exact H|]. apply IH. rewrite fa_add_keys.
    destruct (mem (fst x) (keys idx)) eqn:E; [exact H|].
    eapply Permutation_NoDup; [apply Permutation_cons_append|]. constructor; [|exact H].
    intro Hin. apply mem_In in Hin. congruence.
  Qed.

  Lemma filter_alt_In X L : In L (keys (filter_alt FO X)) <-> In L (keys X).
  Proof. unfold filter_alt. rewrite fold_fa_keys_In. cbn. tauto. Qed.

  Lemma filter_alt_NoDup X : NoDup (keys (filter_alt FO X)).
  Proof. unfold filter_alt. apply fold_fa_keys_NoDup. constructor. Qed.

  (* ---------- sort_desc ---------- *)
  Lemma sort_desc_perm l : Permutation (sort_desc FO l) l.
  Proof. apply isort_perm. Qed.

  Lemma sort_desc_keys_In l L : In L (keys (sort_desc FO l)) <-> In L (keys l).
  Proof.
    unfold keys. split; apply Permutation_in, Permutation_map; [apply sort_desc_perm | apply Permutation_sym, sort_desc_perm].
  Qed.

  Lemma sort_desc_keys_NoDup l : NoDup (keys l) -> NoDup (keys (sort_desc FO l)).
  Proof. intro H. eapply Permutation_NoDup; [apply Permutation_map, Permutation_sym, sort_desc_perm|exact H]. Qed.

  (* ---------- the scan: what is visited does not depend on the threshold ---------- *)
  (* the same loops, pushing every visited pair *)
  Fixpoint lang_visit (popular : text) (langs : list string) (st : scan_state FO) : option (scan_state FO) :=
    match langs with
    | [] => Some st
    | l :: r =>
        match popularity FO C l popular with
        | None => None
        | Some ratio =>
            let suf := if fge FO ratio (c_08 FO) then snd st + 1 else snd st in
            let res := fst st ++ [(l, ratio)] in
            if 3 <=? suf then Some (res, suf) else lang_visit popular r (res, suf)
        end
    end.

  Fixpoint layer_visit (include : list string) (inl : bool) (ls : list text) (st : scan_state FO) : option (scan_state FO) :=
    match ls with
    | [] => Some st
    | layer :: r =>
        if len layer <=? TOO_SMALL_SEQUENCE then layer_visit include inl r st
        else
          let popular := most_common layer in
          let langs := match include with [] => alphabet_langs FO C popular inl | _ => include end in
          match lang_visit popular langs st with
          | None => None
          | Some st' => layer_visit include inl r st'
          end
    end.

  Definition keep (thr : F) (x : string * F) : bool := fge FO (snd x) thr.

  (* the state at threshold thr is the visited state filtered by `keep thr` *)
  Definition rel (thr : F) (sv st : option (scan_state FO)) : Prop :=
    match sv, st with
    | None, None => True
    | Some (rv, nv), Some (rt, nt) => rt = filter (keep thr) rv /\ nt = nv
    | _, _ => False
    end.

  Lemma lang_loop_rel thr popular langs : forall rv n,
    rel thr (lang_visit popular langs (rv, n)) (lang_loop FO C thr popular langs (filter (keep thr) rv, n)).
  Proof.
    induction langs as [|l r IH]; intros rv n; cbn [lang_visit lang_loop]; [cbn; auto|].
    destruct (popularity FO C l popular) as [ratio|]; [|exact I].
    cbn [fst snd].
    set (suf := if fge FO ratio (c_08 FO) then n + 1 else n).
    assert (Hf : (if fge FO ratio thr then filter (keep thr) rv ++ [(l, ratio)] else filter (keep thr) rv)
                 = filter (keep thr) (rv ++ [(l, ratio)])).
    { rewrite filter_app. cbn [filter]. change (keep thr (l, ratio)) with (fge FO ratio thr).
      destruct (fge FO ratio thr); [reflexivity|rewrite app_nil_r; reflexivity]. }
    rewrite Hf. destruct (3 <=? suf); [cbn; auto|apply IH].
  Qed.

  Lemma layer_loop_rel thr include inl ls : forall rv n,
    rel thr (layer_visit include inl ls (rv, n)) (layer_loop FO C thr include inl ls (filter (keep thr) rv, n)).
  Proof.
    induction ls as [|layer r IH]; intros rv n; cbn [layer_visit layer_loop]; [cbn; auto|].
    destruct (len layer <=? TOO_SMALL_SEQUENCE); [apply IH|].
    set (langs := match include with [] => _ | _ => _ end).
    pose proof (lang_loop_rel thr (most_common layer) langs rv n) as H.
    destruct (lang_visit (most_common layer) langs (rv, n)) as [[rv' n']|] eqn:E1;
      destruct (lang_loop FO C thr (most_common layer) langs (filter (keep thr) rv, n)) as [[rt' nt']|] eqn:E2;
      rewrite ?E1, ?E2 in H; cbn in H; try contradiction; [|exact I].
    destruct H as [-> ->]. apply IH.
  Qed.

  (* everything visited for a text and an include list *)
  Definition visited (t : text) (include : list string) : option cohlist :=
    let inl := list_eqb String.eqb include ["Unknown"%string] in
    let include' := if inl then [] else include in
    option_map fst (layer_visit include' inl (layers FO C t) ([], 0)).

  (* the result at threshold thr is computed from the threshold-independent visited list *)
  Theorem coherence_ratio_as_cutoff t thr include :
    coherence_ratio FO C t thr include =
      option_map (fun v => sort_desc FO (filter_alt FO (filter (keep thr) v))) (visited t include).
  Proof.
    unfold coherence_ratio, visited. cbv zeta.
    set (inc := if list_eqb String.eqb include ["Unknown"%string] then [] else include).
    set (inl := list_eqb String.eqb include ["Unknown"%string]).
    pose proof (layer_loop_rel thr inc inl (layers FO C t) [] 0) as H.
    change (filter (keep thr) []) with (@nil (string * F)) in H.
    set (LV := layer_visit inc inl (layers FO C t) ([], 0)).
    set (LL := layer_loop FO C thr inc inl (layers FO C t) ([], 0)).
    change (rel thr LV LL) in H.
    clearbody LV LL. destruct LV as [[rv nv]|], LL as [[rt nt]|]; cbn in H; try contradiction; [|reflexivity].
    destruct H as [-> ->]. reflexivity.
  Qed.

  (* C19: a language is listed exactly when one of its visited scores reaches the threshold *)
  Theorem listed_iff_reaches t thr include v l L :
    visited t include = Some v -> coherence_ratio FO C t thr include = Some l ->
    (In L (keys l) <-> exists s, In (L, s) v /\ fge FO s thr = true).
  Proof.
    intros Hv Hc. rewrite coherence_ratio_as_cutoff, Hv in Hc. cbn in Hc. injection Hc as <-.
    rewrite sort_desc_keys_In, filter_alt_In. unfold keys. rewrite in_map_iff. split.
    - intros ([L' s] & <- & Hin). apply filter_In in Hin as [Hin Hk]. exists s. auto.
    - intros (s & Hin & Hk). exists (L, s). split; [reflexivity|]. apply filter_In. auto.
  Qed.

  (* hence raising the threshold only ever removes languages: if everything that reaches t2 also
     reaches t1 (t1 <= t2 in the float order), the list at t2 is contained in the list at t1 *)
  Theorem raising_threshold_only_removes t t1 t2 include l1 l2 L :
    (forall s, fge FO s t2 = true -> fge FO s t1 = true) ->
    coherence_ratio FO C t t1 include = Some l1 -> coherence_ratio FO C t t2 include = Some l2 ->
    In L (keys l2) -> In L (keys l1).
  Proof.
    intros Hle H1 H2 HL. destruct (visited t include) as [v|] eqn:Hv.
    - rewrite (listed_iff_reaches t t2 include v l2 L Hv H2) in HL. destruct HL as (s & Hin & Hk).
      apply (listed_iff_reaches t t1 include v l1 L Hv H1). exists s. auto.
    - rewrite coherence_ratio_as_cutoff, Hv in H1. discriminate.
  Qed.

  (* whether detection of languages fails (characters_popularity_compare error) does not depend on the threshold *)
  Theorem failure_independent_of_threshold t t1 t2 include :
    coherence_ratio FO C t t1 include = None <-> coherence_ratio FO C t t2 include = None.
  Proof. rewrite !coherence_ratio_as_cutoff. destruct (visited t include); cbn; split; intro; congruence. Qed.

  (* one entry per language *)
  Theorem coherence_ratio_nodup t thr include l : coherence_ratio FO C t thr include = Some l -> NoDup (keys l).
  Proof.
    rewrite coherence_ratio_as_cutoff. destruct (visited t include) as [v|]; [|discriminate]. cbn. intro H; injection H as <-.
    apply sort_desc_keys_NoDup, filter_alt_NoDup.
  Qed.

  (* ---------- ordering: non-increasing scores (adjacent form), needs only the totality law ---------- *)
  Hypothesis CL : CmpLaws FO.

  Definition not_above (a b : string * F) : Prop := score_before FO b a = false.   (* score a >= score b *)

  Lemma score_before_asym a b : score_before FO a b = true -> score_before FO b a = false.
  Proof.
    unfold score_before. rewrite (ocmp_antisym FO CL (snd a) (snd b)). destruct (ocmp FO (snd b) (snd a)); cbn; congruence.
  Qed.

  (* reversed prefix r: adjacent (x :: y :: _) in r means y precedes x in the output *)
  Fixpoint rev_sorted (r : cohlist) : Prop :=
    match r with
    | x :: ((y :: _) as r') => not_above y x /\ rev_sorted r'
    | _ => True
    end.

  Lemma ins_rev_sorted x r : rev_sorted r -> rev_sorted (ins_rev (score_before FO) x r).
  Proof.
    induction r as [|y r IH]; intro H; cbn [ins_rev]; [exact I|].
    destruct (score_before FO x y) eqn:E.
    - destruct r as [|z r]; cbn [ins_rev].
      + cbn. split; [apply score_before_asym; exact E|exact I].
      + destruct H as [H1 H2]. specialize (IH H2). cbn [ins_rev] in IH.
        destruct (score_before FO x z) eqn:E2.
        * cbn [rev_sorted]. split; [exact H1|exact IH].
        * cbn [rev_sorted]. split; [apply score_before_asym; exact E|]. exact IH.
    - cbn [rev_sorted]. split; [exact E|exact H].
  Qed.

  Lemma fold_ins_sorted l : forall r, rev_sorted r -> rev_sorted (fold_left (fun r x => ins_rev (score_before FO) x r) l r).
  Proof. induction l as [|x l IH]; intros r H; cbn [fold_left]; [exact H|]. apply IH, ins_rev_sorted, H. Qed.

  (* forward adjacency: each element is not below its successor *)
  Fixpoint nonincreasing (l : cohlist) : Prop :=
    match l with
    | x :: ((y :: _) as l') => not_above x y /\ nonincreasing l'
    | _ => True
    end.

  Lemma rev_sorted_rev r : rev_sorted r -> nonincreasing (rev r).
  Proof.
    assert (G : forall r acc, rev_sorted r -> nonincreasing acc ->
                 (match r, acc with x :: _, y :: _ => not_above x y | _, _ => True end) ->
                 nonincreasing (rev_append r acc)).
    { induction r0 as [|x r0 IH]; intros acc Hr Ha Hj; cbn [rev_append]; [exact Ha|].
      apply IH.
      - destruct r0; [exact I|]. destruct Hr as [_ Hr]. exact Hr.
      - destruct acc; [exact I|]. split; assumption.
      - destruct r0; [exact I|]. destruct Hr as [Hr _]. exact Hr. }
    intro H. rewrite rev_alt. apply G; [exact H|exact I|destruct r; exact I].
  Qed.

  Theorem sort_desc_nonincreasing l : nonincreasing (sort_desc FO l).
  Proof. unfold sort_desc, isort. apply rev_sorted_rev, fold_ins_sorted. exact I. Qed.

  Theorem coherence_ratio_ordered t thr include l : coherence_ratio FO C t thr include = Some l -> nonincreasing l.
  Proof.
    rewrite coherence_ratio_as_cutoff. destruct (visited t include); [|discriminate]. cbn. intro H; injection H as <-.
    apply sort_desc_nonincreasing.
  Qed.

  (* an already ordered list is left alone by the (stable) sort *)
  Lemma isort_sorted_id l : nonincreasing l -> sort_desc FO l = l.
  Proof.
    unfold sort_desc, isort. intro H.
    assert (G : forall l r, nonincreasing l -> (match l, r with x :: _, y :: _ => not_above y x | _, _ => True end) ->
                fold_left (fun r x => ins_rev (score_before FO) x r) l r = rev l ++ r).
    { induction l0 as [|x l0 IH]; intros r Hl Hj; cbn [fold_left rev app]; [reflexivity|].
      assert (Hins : ins_rev (score_before FO) x r = x :: r).
      { destruct r as [|y r]; [reflexivity|]. cbn [ins_rev]. unfold not_above in Hj. rewrite Hj. reflexivity. }
      rewrite Hins, IH.
      - rewrite <- app_assoc. reflexivity.
      - destruct l0; [exact I|]. destruct Hl as [_ Hl]. exact Hl.
      - destruct l0; [exact I|]. destruct Hl as [Hl _]. exact Hl. }
    rewrite G; [rewrite app_nil_r, rev_involutive; reflexivity|exact H|destruct l; exact I].
  Qed.

  (* ---------- merge ---------- *)
  Definition ikeys (idx : list (string * list F)) : list string := map fst idx.

  Lemma mi_add_keys x idx :
    ikeys (mi_add FO x idx) = if mem (fst x) (ikeys idx) then ikeys idx else ikeys idx ++ [fst x].
  Proof.
    induction idx as [|[l s] r IH]; [reflexivity|].
    cbn [mi_add]. unfold ikeys in *. cbn [map fst mem].
    destruct (String.eqb l (fst x)) eqn:E; cbn [orb map fst]; [reflexivity|].
    rewrite IH. destruct (mem (fst x) (map fst r)); reflexivity.
  Qed.

  Lemma fold_mi_keys X : forall idx,
    (NoDup (ikeys idx) -> NoDup (ikeys (fold_left (fun i x => mi_add FO x i) X idx)))
    /\ (forall L, In L (ikeys (fold_left (fun i x => mi_add FO x i) X idx)) -> In L (ikeys idx) \/ In L (keys X)).
  Proof.
    induction X as [|x X IH]; intros idx; cbn [fold_left]; [split; auto|].
    destruct (IH (mi_add FO x idx)) as [I1 I2]. split.
    - intro H. apply I1. rewrite mi_add_keys. destruct (mem (fst x) (ikeys idx)) eqn:E; [exact H|].
      eapply Permutation_NoDup; [apply Permutation_cons_append|]. constructor; [|exact H].
      intro Hin. apply mem_In in Hin. congruence.
    - intros L HL. apply I2 in HL as [HL|HL]; [|right; right; exact HL].
      rewrite mi_add_keys in HL. destruct (mem (fst x) (ikeys idx)); [left; exact HL|].
      apply in_app_or in HL as [HL|[<-|[]]]; [left; exact HL|right; left; reflexivity].
  Qed.

  Theorem merge_nodup ls : NoDup (keys (merge_coherence_ratios FO ls)).
  Proof.
    unfold merge_coherence_ratios. apply sort_desc_keys_NoDup. unfold keys. rewrite map_map. cbn [fst].
    apply (proj1 (fold_mi_keys (List.concat ls) [])). constructor.
  Qed.

  Theorem merge_sub ls L : In L (keys (merge_coherence_ratios FO ls)) -> exists l, In l ls /\ In L (keys l).
  Proof.
    unfold merge_coherence_ratios. rewrite sort_desc_keys_In. unfold keys at 1. rewrite map_map. cbn [fst].
    intro H. apply (proj2 (fold_mi_keys (List.concat ls) [])) in H as [[]|H].
    unfold keys in H. apply in_map_iff in H as (x & <- & Hx). apply List.in_concat in Hx as (l & Hl & Hxl).
    exists l. split; [exact Hl|]. unfold keys. apply in_map. exact Hxl.
  Qed.

  (* merging the result of a single chunk is the identity (needs (-0 + x) / 1 = x) *)
  Hypothesis FL : FloatLaws FO.

  Lemma merge_index_distinct l : forall idx,
    NoDup (ikeys idx ++ keys l) ->
    fold_left (fun i x => mi_add FO x i) l idx = idx ++ map (fun x => (fst x, [snd x])) l.
  Proof.
    induction l as [|[L s] l IH]; intros idx H; cbn [fold_left map]; [rewrite app_nil_r; reflexivity|].
    assert (Hn : ~ In L (ikeys idx)).
    { intro Hin. cbn [keys map] in H. apply NoDup_remove_2 in H. apply H, in_or_app. left; exact Hin. }
    assert (Hadd : mi_add FO (L, s) idx = idx ++ [(L, [s])]).
    { clear -Hn. induction idx as [|[l' ss] r IH]; cbn [mi_add app fst snd]; [reflexivity|].
      destruct (String.eqb l' L) eqn:E; [apply String.eqb_eq in E; subst; exfalso; apply Hn; left; reflexivity|].
      rewrite IH; [reflexivity|]. intro Hin. apply Hn. right; exact Hin. }
    rewrite Hadd, IH.
    - rewrite <- app_assoc. reflexivity.
    - unfold ikeys. rewrite map_app. cbn [map fst]. rewrite <- app_assoc. cbn [app]. exact H.
  Qed.

  Theorem merge_single l : NoDup (keys l) -> nonincreasing l -> merge_coherence_ratios FO [l] = l.
  Proof.
    intros Hnd Hs. unfold merge_coherence_ratios, merge_index. cbn [List.concat]. rewrite app_nil_r.
    rewrite (merge_index_distinct l []) by (cbn; exact Hnd). cbn [app]. rewrite map_map. cbn [fst snd].
    assert (Hm : map (fun x : string * F => (fst x, fmean FO [snd x])) l = l).
    { clear -FL. induction l as [|[L s] l IH]; cbn [map]; [reflexivity|]. rewrite IH. cbn [fst snd].
      rewrite (law_mean_single FO FL). reflexivity. }
    rewrite Hm. apply isort_sorted_id. exact Hs.
  Qed.

  (* ---------- an include list of one (known) language yields that language only ---------- *)
  Lemma lang_loop_keys thr popular langs : forall st st',
    lang_loop FO C thr popular langs st = Some st' ->
    forall L, In L (keys (fst st')) -> In L (keys (fst st)) \/ In L langs.
  Proof.
    induction langs as [|l r IH]; intros st st' H L HL; cbn [lang_loop] in H; [injection H as <-; auto|].
    destruct (popularity FO C l popular) as [ratio|]; [|discriminate].
    set (res := if fge FO ratio thr then fst st ++ [(l, ratio)] else fst st) in *.
    assert (Hres : forall L', In L' (keys res) -> In L' (keys (fst st)) \/ L' = l).
    { intros L' H'. unfold res in H'. destruct (fge FO ratio thr); [|left; exact H'].
      unfold keys in H'. rewrite map_app in H'. apply in_app_or in H' as [H'|H']; [left; exact H'|].
      destruct H' as [H'|[]]. right. symmetry. exact H'. }
    destruct (3 <=? _).
    - injection H as <-. cbn [fst] in HL. destruct (Hres _ HL) as [H'| ->]; [left; exact H'|right; left; reflexivity].
    - apply (IH _ _ H) in HL as [HL|HL]; [|right; right; exact HL]. cbn [fst] in HL.
      destruct (Hres _ HL) as [H'| ->]; [left; exact H'|right; left; reflexivity].
  Qed.

  Lemma layer_loop_keys thr include inl ls : forall st st',
    include <> [] ->
    layer_loop FO C thr include inl ls st = Some st' ->
    forall L, In L (keys (fst st')) -> In L (keys (fst st)) \/ In L include.
  Proof.
    induction ls as [|layer r IH]; intros st st' Hne H L HL; cbn [layer_loop] in H; [injection H as <-; auto|].
    destruct (len layer <=? TOO_SMALL_SEQUENCE); [eapply IH; eauto|].
    destruct include as [|i0 inc]; [contradiction|].
    destruct (lang_loop FO C thr (most_common layer) (i0 :: inc) st) as [st1|] eqn:E; [|discriminate].
    destruct (IH _ _ Hne H L HL) as [H1|H1]; [|right; exact H1].
    eapply lang_loop_keys in E; eauto.
  Qed.

  Theorem include_single_language t thr L l :
    L <> "Unknown"%string -> coherence_ratio FO C t thr [L] = Some l -> forall x, In x (keys l) -> x = L.
  Proof.
    intros HL H x Hx. unfold coherence_ratio in H. cbv zeta in H.
    assert (Hinl : list_eqb String.eqb [L] ["Unknown"%string] = false).
    { cbn. destruct (String.eqb L "Unknown") eqn:E; [apply String.eqb_eq in E; contradiction|reflexivity]. }
    rewrite Hinl in H.
    destruct (layer_loop FO C thr [L] false (layers FO C t) ([], 0)) as [[res n]|] eqn:E; [|discriminate].
    injection H as <-. rewrite sort_desc_keys_In, filter_alt_In in Hx.
    eapply layer_loop_keys in E; [| discriminate | exact Hx]. cbn [fst keys map] in E.
    destruct E as [[]|[<-|[]]]. reflexivity.
  Qed.
End CdFacts.
