(* C06: self-identifying content is believed exactly when it checks out. *)
From Coq Require Import List NArith String Bool Lia Permutation.
From Gen Require Import Tables.
From Model Require Import Base Names Flt Matches Detect.
From Proofs Require Import SortFacts NamesFacts OrderFacts DetectFacts DetectInv DetectSound DetectFilters DetectTotal DetectRestrict.
Import ListNotations.
Open Scope N_scope.
Open Scope list_scope.

Opaque iana_name identify_sig is_multi_byte is_cp_similar.

(* ---------- the probing order: hints first, in first-occurrence order ---------- *)
Fixpoint dedup (l : list string) : list string :=
  match l with [] => [] | x :: r => x :: remove_all x (dedup r) end
with remove_all (s : string) (l : list string) : list string :=
  match l with [] => [] | x :: r => if String.eqb x s then remove_all s r else x :: remove_all s r end.

Lemma remove_first_notin s l : mem s l = false -> remove_first s l = l.
Proof.
  induction l as [|x l IH]; cbn [mem remove_first]; [reflexivity|].
  destruct (String.eqb x s); cbn [orb]; [discriminate|]. intro H. rewrite IH by exact H. reflexivity.
Qed.

Lemma remove_first_app_in s l1 l2 : mem s l1 = true -> remove_first s (l1 ++ l2) = remove_first s l1 ++ l2.
Proof.
  induction l1 as [|x l1 IH]; cbn [mem remove_first app]; [discriminate|].
  destruct (String.eqb x s); cbn [orb]; [reflexivity|]. intro H. rewrite IH by exact H. reflexivity.
Qed.

Lemma remove_first_app_notin s l1 l2 : mem s l1 = false -> remove_first s (l1 ++ l2) = l1 ++ remove_first s l2.
Proof.
  induction l1 as [|x l1 IH]; cbn [mem remove_first app]; [reflexivity|].
  destruct (String.eqb x s); cbn [orb]; [discriminate|]. intro H. rewrite IH by exact H. reflexivity.
Qed.

Lemma mem_app s l1 l2 : mem s (l1 ++ l2) = mem s l1 || mem s l2.
Proof. induction l1 as [|x l1 IH]; cbn [mem app]; [reflexivity|]. rewrite IH, orb_assoc. reflexivity. Qed.

(* the order is: the hints that are supported, each once, in order of first occurrence, then the
   remaining supported names in their original order *)
Definition hints_in (prio l : list string) : list string := dedup_first (filter (fun h => mem h l) prio)
with dedup_first := fix df (l : list string) : list string :=
  match l with [] => [] | x :: r => x :: filter (fun y => negb (String.eqb y x)) (df r) end.
