(* C06: self-identifying content is believed exactly when it checks out. *)
From Coq Require Import List NArith String Bool Lia Permutation.
From Gen Require Import Tables.
From Model Require Import Base Names Flt Matches Detect.
From Proofs Require Import SortFacts NamesFacts OrderFacts DetectFacts DetectInv DetectSound DetectFilters DetectTotal DetectRestrict.
Import ListNotations.
Open Scope N_scope.
Open Scope list_scope.

Opaque iana_name identify_sig is_multi_byte is_cp_similar.

(* ---------- the probing order puts the hints first ---------- *)
Lemma remove_first_In s l x : In x (remove_first s l) -> In x l.
Proof.
  induction l as [|y l IH]; cbn [remove_first]; [tauto|].
  destruct (String.eqb y s); [intro; right; assumption|]. intros [<-|H]; [left; reflexivity|right; auto].
Qed.

Lemma remove_first_app s l1 l2 :
  remove_first s (l1 ++ l2) = if mem s l1 then remove_first s l1 ++ l2 else l1 ++ remove_first s l2.
Proof.
  induction l1 as [|y l1 IH]; cbn [mem remove_first app]; [reflexivity|].
  destruct (String.eqb y s); cbn [orb]; [reflexivity|]. rewrite IH. destruct (mem s l1); reflexivity.
Qed.

Lemma remove_first_NoDup_notin s l : NoDup l -> ~ In s (remove_first s l).
Proof.
  induction l as [|y l IH]; intro H; cbn [remove_first]; [tauto|]. inversion H; subst.
  destruct (String.eqb y s) eqn:E; [apply String.eqb_eq in E; subst; assumption|].
  intros [->|Hin]; [rewrite String.eqb_refl in E; discriminate|]. apply IH; assumption.
Qed.

Lemma NoDup_app_r {A} (l1 l2 : list A) : NoDup (l1 ++ l2) -> NoDup l2.
Proof. induction l1 as [|x l1 IH]; cbn [app]; [auto|]. intro H. inversion H; auto. Qed.

Lemma NoDup_app_disj {A} (l1 l2 : list A) x : NoDup (l1 ++ l2) -> In x l1 -> ~ In x l2.
Proof.
  induction l1 as [|y l1 IH]; cbn [app]; intros H Hin; [destruct Hin|]. inversion H; subst.
  destruct Hin as [->|Hin]; [intro Hx; apply H2, in_or_app; right; exact Hx|apply IH; assumption].
Qed.

(* prioritize prio l = H ++ T with H made of hints and T free of hints *)
Lemma prioritize_hints_first prio l :
  NoDup l -> exists H T, prioritize prio l = H ++ T /\ (forall x, In x H -> In x prio) /\ (forall x, In x T -> ~ In x prio).
Proof.
  intro Hnd. induction prio as [|p ps IH].
  - exists [], l. cbn. auto.
  - assert (Hstep : prioritize (p :: ps) l = move_front (prioritize ps l) p).
    { unfold prioritize. cbn [rev]. rewrite fold_left_app. reflexivity. }
    destruct IH as (H & T & Heq & HH & HT). rewrite Hstep, Heq. unfold move_front.
    assert (HndHT : NoDup (H ++ T)) by (rewrite <- Heq; apply prioritize_NoDup; exact Hnd).
    destruct (mem p (H ++ T)) eqn:Hm.
    + rewrite remove_first_app. destruct (mem p H) eqn:HmH.
      * exists (p :: remove_first p H), T. split; [reflexivity|]. split.
        -- intros x [<-|Hx]; [left; reflexivity|right; apply HH; eapply remove_first_In; eauto].
        -- intros x Hx [<-|Hin]; [|exact (HT x Hx Hin)].
           apply mem_In in HmH. exact (NoDup_app_disj H T p HndHT HmH Hx).
      * exists (p :: H), (remove_first p T). split; [reflexivity|]. split.
        -- intros x [<-|Hx]; [left; reflexivity|right; apply HH; exact Hx].
        -- intros x Hx [<-|Hin].
           ++ apply NoDup_app_r in HndHT. exact (remove_first_NoDup_notin p T HndHT Hx).
           ++ apply (HT x); [eapply remove_first_In; eauto|exact Hin].
    + exists H, T. split; [reflexivity|]. split.
      * intros x Hx. right. apply HH; exact Hx.
      * intros x Hx [<-|Hin]; [|exact (HT x Hx Hin)].
        assert (Hin : In p (H ++ T)) by (apply in_or_app; right; exact Hx). apply mem_In in Hin. congruence.
Qed.

Lemma prefix_in {A} (pre : list A) h post : forall H T,
  pre ++ h :: post = H ++ T -> NoDup (H ++ T) -> In h H -> forall x, In x pre -> In x H.
Proof.
  induction pre as [|y pre IH]; intros H T Heq Hnd Hh x Hx; [destruct Hx|].
  destruct H as [|z H]; [destruct Hh|]. cbn [app] in Heq. injection Heq as -> Heq.
  destruct Hx as [<-|Hx]; [left; reflexivity|]. right. cbn [app] in Hnd. inversion Hnd; subst.
  apply (IH H T Heq H3); [|exact Hx].
  destruct Hh as [->|Hh]; [|exact Hh]. exfalso. apply H2. rewrite <- Heq. apply in_or_app. right. left. reflexivity.
Qed.

Lemma prioritize_before_hint prio l pre h post :
  NoDup l -> prioritize prio l = pre ++ h :: post -> In h prio -> forall x, In x pre -> In x prio.
Proof.
  intros Hnd Heq Hh x Hx. destruct (prioritize_hints_first prio l Hnd) as (H & T & HHT & HH & HT).
  assert (HndHT : NoDup (H ++ T)) by (rewrite <- HHT; apply prioritize_NoDup; exact Hnd).
  rewrite Heq in HHT. assert (HhH : In h H).
  { assert (Hin : In h (H ++ T)) by (rewrite <- HHT; apply in_or_app; right; left; reflexivity).
    apply in_app_or in Hin as [Hin|Hin]; [exact Hin|]. exfalso. exact (HT h Hin Hh). }
  apply HH. exact (prefix_in pre h post H T HHT HndHT HhH x Hx).
Qed.

Lemma prioritize_head p ps l : In p l -> exists rest, prioritize (p :: ps) l = p :: rest.
Proof.
  intro Hin.
  assert (Hstep : prioritize (p :: ps) l = move_front (prioritize ps l) p).
  { unfold prioritize. cbn [rev]. rewrite fold_left_app. reflexivity. }
  rewrite Hstep. unfold move_front.
  assert (Hm : mem p (prioritize ps l) = true) by (apply mem_In, prioritize_In; exact Hin).
  rewrite Hm. eauto.
Qed.

Section Hints.
  Variable FO : FloatOps.
  Variable R : oracles FO.
  Notation cmatch := (cmatch FO).
  Variable c : ctx FO.

  (* e qualifies: it passes the gates and, probed alone, is accepted with the exit test firing
     (chaos < 0.1 for a hint, or merely accepted for the BOM-indicated encoding) *)
  Definition qualifies (e : string) : Prop :=
    passes_gates FO c e /\ exists m, probe FO R c e = Ok (Accept FO m true).

  Lemma loop_body_return s e r :
    In e IANA_SUPPORTED -> loop_body FO R c s e = Ok (Return FO r) ->
    qualifies e /\ exists found, r = [found] /\ In e (suitable_encodings FO found).
  Proof.
    intros HE H. unfold loop_body in H.
    destruct (gate_filtered FO c e) eqn:G1; [discriminate|]. destruct (gate_utf16 FO c e) eqn:G2; [discriminate|].
    bind_inv H. destruct a as [[si dec]|]; [|discriminate].
    destruct (gate_similar _ e); [discriminate|]. bind_inv H.
    assert (Hp : probe FO R c e = Ok a) by (unfold probe; rewrite E; cbn [bind]; exact E0).
    destruct a as [| |fb|m x]; cbn [apply_verdict] in H; try discriminate.
    destruct x; [|discriminate].
    destruct (get_by_encoding FO _ e) as [found|] eqn:Hg; [|discriminate]. injection H as <-.
    split; [split; [split; assumption|eauto]|]. exists found. split; [reflexivity|].
    unfold get_by_encoding in Hg. rewrite (iana_name_supported e HE) in Hg.
    apply find_some in Hg as [_ Hg]. apply mem_In in Hg. exact Hg.
  Qed.

  Lemma loop_body_soft s e s' :
    loop_body FO R c s e = Ok (Next FO s') ->
    soft_failed FO s' = soft_failed FO s \/ soft_failed FO s' = soft_failed FO s ++ [e].
  Proof.
    intro H. unfold loop_body in H.
    destruct (gate_filtered FO c e); [injection H as <-; left; reflexivity|].
    destruct (gate_utf16 FO c e); [injection H as <-; left; reflexivity|].
    bind_inv H. destruct a as [[si dec]|]; [|injection H as <-; left; reflexivity].
    destruct (gate_similar _ e); [injection H as <-; left; reflexivity|]. bind_inv H.
    destruct a as [| |fb|m x]; cbn [apply_verdict] in H.
    - injection H as <-; left; reflexivity.
    - injection H as <-; left; reflexivity.
    - injection H as <-. right. destruct fb as [entry|]; [|reflexivity].
      unfold set_fallback. destruct (String.eqb _ _); [|destruct (String.eqb _ _)]; reflexivity.
    - destruct x; [destruct (get_by_encoding FO _ e); discriminate|]. injection H as <-. left. reflexivity.
  Qed.

  (* a prefix of the order without qualifying candidate is passed without stopping *)
  Lemma main_loop_prefix pre : forall rest s out,
    (forall x, In x pre -> In x IANA_SUPPORTED) ->
    (forall x, In x pre -> ~ qualifies x) ->
    main_loop FO R c s (pre ++ rest) = Ok out ->
    exists s', main_loop FO R c s' rest = Ok out
               /\ (forall sf, In sf (soft_failed FO s') -> In sf (soft_failed FO s) \/ In sf pre).
  Proof.
    induction pre as [|x pre IH]; intros rest s out HS HQ H; cbn [app main_loop] in H.
    - exists s. split; [exact H|]. intros sf Hsf. left; exact Hsf.
    - bind_inv H. destruct a as [s1|r].
      + destruct (IH rest s1 out) as (s' & Hm & Hsf); [intros y Hy; apply HS; right; exact Hy|intros y Hy; apply HQ; right; exact Hy|exact H|].
        exists s'. split; [exact Hm|]. intros sf Hin. destruct (Hsf sf Hin) as [Hin1|Hin1]; [|right; right; exact Hin1].
        destruct (loop_body_soft s x s1 E) as [Heq|Heq]; rewrite Heq in Hin1; [left; exact Hin1|].
        apply in_app_or in Hin1 as [Hin1|[<-|[]]]; [left; exact Hin1|right; left; reflexivity].
      + exfalso. apply (HQ x (or_introl eq_refl)). apply (loop_body_return s x r (HS x (or_introl eq_refl)) E).
  Qed.

  (* the step at a qualifying candidate that is not similarity-skipped *)
  Lemma loop_body_at_qualifying s h out :
    In h IANA_SUPPORTED -> qualifies h -> gate_similar (soft_failed FO s) h = false ->
    loop_body FO R c s h = Ok out ->
    exists found, out = Return FO [found] /\ In h (suitable_encodings FO found).
  Proof.
    intros HE [[G1 G2] (m & Hp)] G3 H. unfold loop_body in H. rewrite G1, G2 in H.
    unfold probe in Hp. destruct (probe_pre FO R c h) as [[[si dec]|]| |]; cbn [bind] in *; try discriminate.
    rewrite G3 in H. rewrite Hp in H. cbn [bind apply_verdict] in H.
    destruct (get_by_encoding FO _ h) as [found|] eqn:Hg; [|discriminate]. injection H as <-.
    exists found. split; [reflexivity|].
    unfold get_by_encoding in Hg. rewrite (iana_name_supported h HE) in Hg.
    apply find_some in Hg as [_ Hg]. apply mem_In in Hg. exact Hg.
  Qed.
End Hints.

Section HintsTop.
  Variable FO : FloatOps.
  Variable R : oracles FO.

  (* the hint list of a call: declared (pre-emptive only), BOM-indicated, ascii, utf-8 *)
  Lemma make_ctx_prio b cfg inc exc h :
    In h (c_prio FO (make_ctx FO R b cfg inc exc)) ->
    (exists rest, c_prio FO (make_ctx FO R b cfg inc exc) = h :: rest) \/ In h HINT_NAMES.
  Proof.
    cbn [make_ctx c_prio]. destruct (if preemptive_behaviour FO cfg then declared FO R b else None) as [d|];
      destruct (identify_sig b) as [[se sm]|] eqn:Hs; cbn [app]; intro H.
    - destruct H as [<-|[<-|[<-|[<-|[]]]]]; [left; eauto| | |].
      + right. unfold HINT_NAMES. right. right. apply identify_sig_some in Hs as [Hs _]. apply (in_map fst) in Hs. exact Hs.
      + right. left; reflexivity.
      + right. right. left; reflexivity.
    - destruct H as [<-|[<-|[<-|[]]]]; [left; eauto|right; left; reflexivity|right; right; left; reflexivity].
    - destruct H as [<-|[<-|[<-|[]]]]; [left; eauto|right; left; reflexivity|right; right; left; reflexivity].
    - destruct H as [<-|[<-|[]]]; [left; eauto|right; right; left; reflexivity].
  Qed.

  Lemma empty_unsupported : ~ In ""%string IANA_SUPPORTED.
  Proof. intro H. apply mem_In in H. vm_compute in H. discriminate. Qed.

  (* only hints can fire the exit test *)
  Lemma exit_only_hints b cfg inc exc e m :
    In e IANA_SUPPORTED ->
    probe FO R (make_ctx FO R b cfg inc exc) e = Ok (Accept FO m true) ->
    In e (c_prio FO (make_ctx FO R b cfg inc exc)).
  Proof.
    set (c := make_ctx FO R b cfg inc exc). intros HE H. unfold probe in H.
    destruct (probe_pre FO R c e) as [[[si dec]|]| |]; cbn [bind] in H; try discriminate.
    unfold probe_rest in H. bind_inv H. bind_inv H. bind_inv H. bind_inv H.
    destruct (negb a2); [discriminate|].
    match type of H with (if ?x then _ else _) = _ => destruct x end; [discriminate|].
    injection H as _ Hx. apply orb_true_iff in Hx as [Hx|Hx].
    - apply andb_true_iff in Hx as [_ Hx]. apply mem_In; exact Hx.
    - apply String.eqb_eq in Hx. unfold sig_enc, c in Hx |- *. cbn [make_ctx c_sig c_prio] in *.
      destruct (identify_sig b) as [[se sm]|]; cbn [option_map unwrap_or fst] in Hx.
      + subst e. apply in_or_app. right. left. reflexivity.
      + subst e. exfalso. exact (empty_unsupported HE).
  Qed.

  (* C06, first part: the first candidate of the probing order that qualifies is what detection
     returns, as the single result.  Everything before it in the order is a hint (the order puts
     the hints first), so "no earlier hint qualifies" is the hypothesis on `pre`. *)
  Theorem first_qualifying_hint_wins b cfg r inc exc pre h post :
    b <> [] ->
    canon_list "included " " is not a valid encoding name" (include_encodings FO cfg) = Ok inc ->
    canon_list "excluded encoding " " is not a valid encoding name" (exclude_encodings FO cfg) = Ok exc ->
    let c := make_ctx FO R b cfg inc exc in
    prioritize (c_prio FO c) IANA_SUPPORTED = pre ++ h :: post ->
    In h (c_prio FO c) -> qualifies FO R c h -> (forall x, In x pre -> ~ qualifies FO R c x) ->
    from_bytes FO R b cfg = Ok r ->
    (forall x, In x pre -> In x (c_prio FO c))
    /\ exists found, r = [found] /\ In h (suitable_encodings FO found).
  Proof.
    intros Hb. destruct b as [|x0 b']; [contradiction|]. clear Hb. set (b := x0 :: b').
    intros Hi He c Ho Hh Hq Hpre H. split.
    { intros x Hx. eapply prioritize_before_hint; [apply supported_nodup|exact Ho|exact Hh|exact Hx]. }
    unfold from_bytes in H. rewrite Hi, He in H. cbn [bind] in H. unfold b in H at 1. fold c in H. rewrite Ho in H.
    bind_inv H.
    assert (HS : forall x, In x (pre ++ h :: post) -> In x IANA_SUPPORTED).
    { intros x Hx. rewrite <- Ho in Hx. apply order_supported in Hx. exact Hx. }
    destruct (main_loop_prefix FO R c pre (h :: post) (init_state FO) a) as (s' & Hm & Hsf).
    { intros x Hx. apply HS, in_or_app. left; exact Hx. } { exact Hpre. } { exact E. }
    cbn [main_loop] in Hm. bind_inv Hm.
    assert (HhS : In h IANA_SUPPORTED) by (apply HS, in_or_app; right; left; reflexivity).
    assert (G3 : gate_similar (soft_failed FO s') h = false).
    { destruct (make_ctx_prio b cfg inc exc h Hh) as [[rest Hr]|Hhint].
      - (* h is the head of the hint list, hence of the order: nothing was probed before it *)
        fold c in Hr. destruct (prioritize_head h rest IANA_SUPPORTED HhS) as [tl Htl].
        rewrite <- Hr in Htl. rewrite Ho in Htl.
        assert (Hpn : pre = []).
        { destruct pre as [|y pre']; [reflexivity|]. cbn [app] in Htl. injection Htl as -> _.
          pose proof (order_nodup (c_prio FO c)) as Hnd. rewrite Ho in Hnd. cbn [app] in Hnd. inversion Hnd; subst.
          exfalso. apply H2, in_or_app. right. left. reflexivity. }
        subst pre. unfold gate_similar. destruct (soft_failed FO s') as [|sf l] eqn:Hsl; [reflexivity|].
        exfalso. destruct (Hsf sf) as [Hx|Hx]; [try rewrite Hsl; left; reflexivity|destruct Hx|destruct Hx].
      - unfold gate_similar. clear -Hhint. induction (soft_failed FO s') as [|sf l IH]; [reflexivity|].
        cbn [existsb]. rewrite (hint_not_similar h sf Hhint). exact IH. }
    destruct (loop_body_at_qualifying FO R c s' h a0 HhS Hq G3 E0) as (found & -> & Hf).
    injection Hm as <-. injection H as <-. eauto.
  Qed.

  (* C06, second part: if no hint qualifies, detection does not stop early *)
  Theorem no_qualifying_hint_no_early_exit b cfg r inc exc :
    b <> [] ->
    canon_list "included " " is not a valid encoding name" (include_encodings FO cfg) = Ok inc ->
    canon_list "excluded encoding " " is not a valid encoding name" (exclude_encodings FO cfg) = Ok exc ->
    let c := make_ctx FO R b cfg inc exc in
    (forall h, In h (c_prio FO c) -> ~ qualifies FO R c h) ->
    from_bytes FO R b cfg = Ok r ->
    exists s, main_loop FO R c (init_state FO) (prioritize (c_prio FO c) IANA_SUPPORTED) = Ok (Next FO s).
  Proof.
    intros Hb. destruct b as [|x0 b']; [contradiction|]. clear Hb. set (b := x0 :: b').
    intros Hi He c Hn H. unfold from_bytes in H. rewrite Hi, He in H. cbn [bind] in H. unfold b in H at 1. fold c in H. bind_inv H.
    destruct a as [s|r0]; [eauto|]. exfalso.
    set (order := prioritize (c_prio FO c) IANA_SUPPORTED) in *.
    destruct (main_loop_prefix FO R c order [] (init_state FO) (Return FO r0)) as (s' & Hm & _).
    - intros x Hx. apply order_supported in Hx. exact Hx.
    - intros x Hx [Hg (m & Hp)]. apply (Hn x); [|split; [exact Hg|eauto]].
      apply order_supported in Hx. eapply exit_only_hints; eauto.
    - rewrite app_nil_r. exact E.
    - cbn [main_loop] in Hm. discriminate.
  Qed.
End HintsTop.

Section EarlyExit.
  Variable FO : FloatOps.
  Variable R : oracles FO.
  Variable c : ctx FO.

  (* an early exit is always caused by a qualifying candidate, which is in the single result *)
  Lemma main_loop_return encs : forall s r,
    (forall e, In e encs -> In e IANA_SUPPORTED) ->
    main_loop FO R c s encs = Ok (Return FO r) ->
    exists h, In h encs /\ qualifies FO R c h /\ exists found, r = [found] /\ In h (suitable_encodings FO found).
  Proof.
    induction encs as [|e encs IH]; intros s r HS H; cbn [main_loop] in H; [discriminate|].
    bind_inv H. destruct a as [s'|r0].
    - destruct (IH s' r) as (h & Hh & Hq); [intros x Hx; apply HS; right; exact Hx|exact H|].
      exists h. split; [right; exact Hh|exact Hq].
    - injection H as <-. destruct (loop_body_return FO R c s e r0 (HS e (or_introl eq_refl)) E) as [Hq Hf].
      exists e. split; [left; reflexivity|]. split; assumption.
  Qed.
End EarlyExit.
