(* C04, last clause: with the fall-back enabled and no encoding filters, an input that is valid UTF-8
   yields at least one match -- whatever the heuristics (mess, coherence, declaration oracles) answer.
   Reason, in the model: "utf-8" is always among the prioritised hints, is not a key of the similarity
   table, is probed on the decoded characters (never a hard failure once the strict pre-check passed),
   and so ends as an accepted match or fills a fall-back slot; nothing ever empties the result list or
   a fall-back slot, and an early exit returns a non-empty list. *)
From Coq Require Import List NArith String Bool Lia Permutation.
From Gen Require Import Tables.
From Model Require Import Base Names Flt Matches Detect.
From Proofs Require Import SortFacts NamesFacts OrderFacts DetectFacts DetectTotal DetectSound.
Import ListNotations.
Open Scope N_scope.
Open Scope list_scope.

Opaque iana_name identify_sig is_multi_byte is_cp_similar.

Lemma slice_whole {A} s (l : list A) : slice s l 0 (len l) = Ok l.
Proof.
  unfold slice.
  assert (H : (0 <=? len l) && (len l <=? len l) = true) by (apply andb_true_iff; split; apply N.leb_le; lia).
  rewrite H, N.sub_0_r. cbn [N.to_nat skipn]. unfold len. rewrite Nat2N.id, firstn_all. reflexivity.
Qed.

Section U8.
  Variable FO : FloatOps.
  Variable R : oracles FO.
  Notation cmatch := (cmatch FO).

  Definition HasOut (s : loop_state FO) : Prop :=
    results FO s <> [] \/ fb_specified FO s <> None \/ fb_u8 FO s <> None.

  Lemma append_ne items (m : cmatch) : append FO items m <> [].
  Proof.
    unfold append.
    assert (Hp : resort FO (items ++ [m]) <> []).
    { unfold resort. intro E. pose proof (isort_length (is_less FO) (items ++ [m])) as HL.
      rewrite E, app_length in HL. cbn in HL. lia. }
    destruct (len (m_payload FO m) <=? TOO_BIG_SEQUENCE); [|exact Hp].
    destruct (merge_into FO items m) as [l|] eqn:Hm; [|exact Hp].
    destruct (merge_into_spec FO _ _ _ Hm) as (l1 & x & l2 & _ & -> & _).
    destruct l1; discriminate.
  Qed.

  Lemma set_fallback_out c s e entry : HasOut s \/ e = "utf-8"%string -> HasOut (set_fallback FO c s e entry).
  Proof.
    unfold set_fallback, HasOut. intros H.
    destruct (String.eqb e (c_specified FO c)) eqn:E1; cbn.
    - right. left. discriminate.
    - destruct (String.eqb e "ascii") eqn:E2; cbn.
      + destruct H as [H| ->]; [exact H | discriminate E2].
      + right. right. discriminate.
  Qed.

  Lemma apply_verdict_out c s e v out :
    HasOut s -> apply_verdict FO c s e v = Ok out ->
    match out with Next _ s' => HasOut s' | Return _ r => r <> [] end.
  Proof.
    intros Hs H. destruct v as [| |fb|m x]; cbn [apply_verdict] in H.
    - inversion H; subst. exact Hs.
    - inversion H; subst. exact Hs.
    - inversion H; subst. destruct fb as [entry|].
      + apply set_fallback_out. left. exact Hs.
      + exact Hs.
    - destruct x.
      + destruct (get_by_encoding FO _ e); [|discriminate]. inversion H; subst. discriminate.
      + inversion H; subst. left. cbn. apply append_ne.
  Qed.

  Lemma loop_body_out c s e out :
    HasOut s -> loop_body FO R c s e = Ok out ->
    match out with Next _ s' => HasOut s' | Return _ r => r <> [] end.
  Proof.
    intros Hs H. unfold loop_body in H.
    destruct (gate_filtered FO c e); [inversion H; subst; exact Hs|].
    destruct (gate_utf16 FO c e); [inversion H; subst; exact Hs|].
    bind_inv H. destruct a as [[si dec]|]; [|inversion H; subst; exact Hs].
    destruct (gate_similar (soft_failed FO s) e); [inversion H; subst; exact Hs|].
    bind_inv H. eapply apply_verdict_out; eauto.
  Qed.

  Lemma main_loop_out c encs : forall s out,
    HasOut s -> main_loop FO R c s encs = Ok out ->
    match out with Next _ s' => HasOut s' | Return _ r => r <> [] end.
  Proof.
    induction encs as [|e r IH]; intros s out Hs H; cbn [main_loop] in H.
    - inversion H; subst. exact Hs.
    - bind_inv H. pose proof (loop_body_out _ _ _ _ Hs E) as Ho.
      destruct a as [s'|x]; [eapply IH; eauto | inversion H; subst; exact Ho].
  Qed.

  (* in chars mode a chunk of a non-'ascii' candidate is never invalid *)
  Lemma chunk_loop_chars_no_hard cfg b e t sl mg offs : forall st st',
    String.eqb e "ascii" = false -> lazy_hard_failure FO st = false ->
    chunk_loop FO R cfg b e (Some t) sl mg st offs = Ok st' -> lazy_hard_failure FO st' = false.
  Proof.
    induction offs as [|o offs IH]; intros st st' He Hst H; cbn [chunk_loop] in H.
    - inversion H; subst. exact Hst.
    - bind_inv H. unfold chunk_step in E. cbn [bind] in E. unfold is_invalid_chunk in E. rewrite He in E.
      cbn [andb] in E.
      match type of E with (if ?c then _ else _) = _ => destruct c end; inversion E; subst; clear E.
      + inversion H; subst. reflexivity.
      + eapply IH; [exact He | | exact H]. reflexivity.
  Qed.

  (* the step that probes utf-8 *)
  Lemma loop_body_utf8 c s out :
    include_encodings FO (c_cfg FO c) = [] -> exclude_encodings FO (c_cfg FO c) = [] ->
    enable_fallback FO (c_cfg FO c) = true -> In "utf-8"%string (c_prio FO c) ->
    (exists si t, probe_pre FO R c "utf-8" = Ok (Some (si, Some t))) ->
    loop_body FO R c s "utf-8" = Ok out ->
    match out with Next _ s' => HasOut s' | Return _ r => r <> [] end.
  Proof.
    intros Hi He Hf Hp (si & t & Hpre) H. unfold loop_body in H.
    unfold gate_filtered in H. rewrite Hi, He in H. cbn [len List.length N.of_nat N.eqb negb andb mem existsb orb] in H.
    unfold gate_utf16 in H.
    replace (mem "utf-8"%string ["utf-16le"; "utf-16be"]%string) with false in H by reflexivity.
    rewrite andb_false_r in H. rewrite Hpre in H. cbn [bind] in H.
    assert (Hs : gate_similar (soft_failed FO s) "utf-8" = false).
    { unfold gate_similar. apply not_true_is_false. intro Hx. apply existsb_exists in Hx as (sf & _ & Hx).
      rewrite (hint_not_similar "utf-8" sf) in Hx; [discriminate|]. unfold HINT_NAMES. right. left. reflexivity. }
    rewrite Hs in H. bind_inv H.
    (* the verdict of utf-8 *)
    assert (Hv : match a with
                 | Accept _ _ _ => True
                 | SoftFail _ (Some _) => True
                 | _ => False
                 end).
    { clear H. unfold probe_rest in E. bind_inv E. bind_inv E. bind_inv E.
      eapply (chunk_loop_chars_no_hard _ _ "utf-8"%string) in E2 as Hlh; [|reflexivity|reflexivity].
      rewrite Hlh in E. cbn [negb andb] in E.
      unfold lazy_sb in E.
      replace (is_multi_byte "utf-8") with true in E by (symmetry; vm_compute; reflexivity).
      cbn [negb] in E. rewrite andb_false_r in E. cbn [bind negb] in E.
      match type of E with (if ?c then _ else _) = _ => destruct c end; inversion E; subst; [|exact I].
      rewrite Hf. cbn [andb]. rewrite (proj2 (mem_In _ _) Hp). exact I. }
    destruct a as [| |[fb|]|m x]; try contradiction.
    - cbn [apply_verdict] in H. inversion H; subst. apply set_fallback_out. right. reflexivity.
    - destruct x; cbn [apply_verdict] in H.
      + destruct (get_by_encoding FO _ _); [|discriminate]. inversion H; subst. discriminate.
      + inversion H; subst. left. cbn. apply append_ne.
  Qed.

  Lemma main_loop_utf8 c encs : forall s out,
    include_encodings FO (c_cfg FO c) = [] -> exclude_encodings FO (c_cfg FO c) = [] ->
    enable_fallback FO (c_cfg FO c) = true -> In "utf-8"%string (c_prio FO c) ->
    (exists si t, probe_pre FO R c "utf-8" = Ok (Some (si, Some t))) ->
    In "utf-8"%string encs ->
    main_loop FO R c s encs = Ok out ->
    match out with Next _ s' => HasOut s' | Return _ r => r <> [] end.
  Proof.
    induction encs as [|e r IH]; intros s out Hi He Hf Hp Hpre Hin H; [destruct Hin|].
    cbn [main_loop] in H. bind_inv H.
    destruct (String.eqb e "utf-8") eqn:Ee.
    - apply String.eqb_eq in Ee. subst e.
      pose proof (loop_body_utf8 _ _ _ Hi He Hf Hp Hpre E) as Ho.
      destruct a as [s'|x]; [|inversion H; subst; exact Ho].
      eapply main_loop_out; eauto.
    - destruct Hin as [->|Hin]; [rewrite String.eqb_refl in Ee; discriminate|].
      destruct a as [s'|x].
      + eapply IH; eauto.
      + inversion H; subst. clear IH.
        (* an early exit returns a singleton *)
        unfold loop_body in E.
        destruct (gate_filtered FO c e); [discriminate|]. destruct (gate_utf16 FO c e); [discriminate|].
        bind_inv E. destruct a as [[si dec]|]; [|discriminate].
        destruct (gate_similar (soft_failed FO s) e); [discriminate|]. bind_inv E.
        destruct a as [| |fb|m x']; cbn [apply_verdict] in E; try discriminate.
        destruct x'; [|discriminate]. destruct (get_by_encoding FO _ _); [|discriminate].
        inversion E; subst. discriminate.
  Qed.

  (* the input, minus the UTF-8 mark when it starts with it, decodes strictly as UTF-8 *)
  Definition valid_utf8 (b : bytes) : Prop :=
    exists t, sdecode FO R "utf-8"
                (match identify_sig b with
                 | Some (e, mark) => if String.eqb e "utf-8" then skipn (List.length mark) b else b
                 | None => b
                 end) = Some t.

  Theorem valid_utf8_yields_match b cfg r :
    include_encodings FO cfg = [] -> exclude_encodings FO cfg = [] -> enable_fallback FO cfg = true ->
    valid_utf8 b -> from_bytes FO R b cfg = Ok r -> r <> [].
  Proof.
    intros Hi He Hf (t & Hv) H. unfold from_bytes in H. rewrite Hi, He in H. cbn [canon_list bind] in H.
    destruct b as [|b0 b']; [inversion H; subst; discriminate|].
    set (b := b0 :: b') in *. set (c := make_ctx FO R b cfg [] []) in *.
    assert (Hp : In "utf-8"%string (c_prio FO c)).
    { subst c. cbn [make_ctx c_prio]. apply in_or_app. right. apply in_or_app. right. right. left. reflexivity. }
    assert (Hpre : exists si t, probe_pre FO R c "utf-8" = Ok (Some (si, Some t))).
    { unfold probe_pre, lazy_sb.
      replace (is_multi_byte "utf-8") with true by (symmetry; vm_compute; reflexivity).
      cbn [negb]. rewrite andb_false_r.
      unfold is_bom, sig_enc. subst c. cbn [make_ctx c_sig c_bytes c_len].
      destruct (identify_sig b) as [[e mark]|] eqn:Hs; cbn [option_map fst opt_eqb].
      - destruct (String.eqb e "utf-8") eqn:Ee.
        + cbn [bind]. apply identify_sig_some in Hs as [_ Hs].
          pose proof (starts_with_len _ _ Hs) as Hlen. unfold slice.
          assert (Hl : (len mark <=? len b) && (len b <=? len b) = true).
          { apply andb_true_iff. split; apply N.leb_le; lia. }
          rewrite Hl. cbn [bind].
          assert (Hx : firstn (N.to_nat (len b - len mark)) (skipn (N.to_nat (len mark)) b) = skipn (List.length mark) b).
          { unfold len at 3. rewrite Nat2N.id. apply firstn_all2. rewrite skipn_length. unfold len. lia. }
          rewrite Hx, Hv. eauto.
        + cbn [bind]. rewrite slice_whole. cbn [bind]. rewrite Hv. eauto.
      - cbn [bind]. rewrite slice_whole. cbn [bind]. rewrite Hv. eauto. }
    bind_inv H.
    assert (Hin : In "utf-8"%string (prioritize (c_prio FO c) IANA_SUPPORTED)).
    { apply prioritize_In. vm_compute. tauto. }
    pose proof (main_loop_utf8 c _ _ _ eq_refl eq_refl Hf Hp Hpre Hin E) as Ho.
    destruct a as [s|x]; [|inversion H; subst; exact Ho].
    destruct (results FO s) as [|m ms] eqn:Hr.
    - destruct Ho as [Ho|[Ho|Ho]]; [congruence| |].
      + unfold choose_fallback in H. destruct (fb_specified FO s); [|congruence].
        inversion H; subst. apply append_ne.
      + unfold choose_fallback in H. destruct (fb_specified FO s); [inversion H; subst; apply append_ne|].
        destruct (fb_u8 FO s); [|congruence].
        destruct (fb_ascii FO s); [destruct (negb _)|]; inversion H; subst; apply append_ne.
    - inversion H; subst. discriminate.
  Qed.
End U8.
