(* The composed pipeline (Model/Pipeline.v) satisfies every contract the generic theorems assume of the
   heuristics: its mess ratios are never NaN / negative, its coherence scores lie in [0,1].  What is left
   as a hypothesis about the primitives outside the models: a strict decode emits at most one character
   per byte (DecodeLen). *)
From Coq Require Import List NArith ZArith String Bool Lia.
From Gen Require Import Tables.
From Model Require Import Base Names Flt F32 Matches Detect Cd Md Md32 Jaro Jaro32 Pipeline.
From Proofs Require Import FloatLaws F32Facts F32Laws DetectInv DetectChaos MdFacts JaroFacts CdScoreFacts CoherenceRefined CoherenceCapstone.
From Proofs Require Import DetectSound DetectWindow CodecFacts UtfFacts.
From Model Require Import Utf Codecs.
Import ListNotations.
Open Scope N_scope.
Open Scope list_scope.

Section PF.
  Variable B : base_oracles.

  Lemma pipeline_MessOK : MessOK F32ops (pipeline B).
  Proof.
    intros t thr. cbn [mess pipeline].
    destruct (len t <? USIZE_LIMIT) eqn:E.
    - apply mess_ratio_good. apply N.ltb_lt in E. unfold USIZE_LIMIT, BIG in *. lia.
    - split; reflexivity.
  Qed.

  Lemma pipeline_pop_small L t : len t < 2 ^ 64 -> popularity F32ops (pipeline_cd B) L t = popularity32 L t.
  Proof.
    intro H. cbn [popularity pipeline_cd].
    assert (E : (len t <? USIZE_LIMIT) = true) by (apply N.ltb_lt; exact H). rewrite E. reflexivity.
  Qed.

  Lemma pipeline_pop_big L t s : 2 ^ 64 <= len t -> popularity F32ops (pipeline_cd B) L t = Some s -> unit32 s.
  Proof.
    intros H Hs. cbn [popularity pipeline_cd] in Hs.
    assert (E : (len t <? USIZE_LIMIT) = false) by (apply N.ltb_ge; exact H). rewrite E in Hs. discriminate.
  Qed.

  Theorem pipeline_chaos b cfg r :
    (forall e l t, b_sdecode B e l = Some t -> len t <= len l) ->
    b <> [] -> len b < 2 ^ 64 -> fisnan F32ops (threshold F32ops cfg) = false ->
    from_bytes F32ops (pipeline B) b cfg = Ok r ->
    exists inc exc, shape (chaos_ok F32ops (make_ctx F32ops (pipeline B) b cfg inc exc))
                          (chaos_fb F32ops (make_ctx F32ops (pipeline B) b cfg inc exc)) r.
  Proof.
    intros HD. apply (chaos_shape F32ops (pipeline B) F32_FloatLaws pipeline_MessOK). exact HD.
  Qed.

  Theorem pipeline_coherence b cfg r :
    b <> [] -> 1 <= steps F32ops cfg -> steps F32ops cfg < 2 ^ 22 -> from_bytes F32ops (pipeline B) b cfg = Ok r ->
    forall m, In m r -> good F32ops (coherence F32ops m) /\ fle F32ops (coherence F32ops m) (fone F32ops) = true.
  Proof.
    apply (coherence_in_unit_interval_modelled (pipeline B) (pipeline_cd B)).
    - intros; reflexivity.
    - intros; reflexivity.
    - exact pipeline_pop_small.
    - exact pipeline_pop_big.
  Qed.
End PF.

(* The same for the pipeline that also decodes with the models (pipeline_dec): what is left as a hypothesis is
   DecodeLen of the CJK oracle only; LazyContract is discharged outright. *)
Section PD.
  Variable B : base_oracles.

  Lemma pipeline_dec_MessOK : MessOK F32ops (pipeline_dec B).
  Proof. intros t thr. exact (pipeline_MessOK B t thr). Qed.

  Theorem pipeline_dec_chaos b cfg r :
    (forall e l t, b_sdecode B e l = Some t -> len t <= len l) ->
    b <> [] -> len b < 2 ^ 64 -> fisnan F32ops (threshold F32ops cfg) = false ->
    from_bytes F32ops (pipeline_dec B) b cfg = Ok r ->
    exists inc exc, shape (chaos_ok F32ops (make_ctx F32ops (pipeline_dec B) b cfg inc exc))
                          (chaos_fb F32ops (make_ctx F32ops (pipeline_dec B) b cfg inc exc)) r.
  Proof.
    intros HD. apply (chaos_shape F32ops (pipeline_dec B) F32_FloatLaws pipeline_dec_MessOK).
    exact (pipeline_dec_decode_len B HD).
  Qed.

  Theorem pipeline_dec_coherence b cfg r :
    b <> [] -> 1 <= steps F32ops cfg -> steps F32ops cfg < 2 ^ 22 -> from_bytes F32ops (pipeline_dec B) b cfg = Ok r ->
    forall m, In m r -> good F32ops (coherence F32ops m) /\ fle F32ops (coherence F32ops m) (fone F32ops) = true.
  Proof.
    apply (coherence_in_unit_interval_modelled (pipeline_dec B) (pipeline_cd B)).
    - intros; reflexivity.
    - intros; reflexivity.
    - exact (pipeline_pop_small B).
    - exact (pipeline_pop_big B).
  Qed.

  (* every reported candidate decodes the input: no hypothesis left *)
  Theorem pipeline_dec_decodes b cfg r :
    b <> [] -> from_bytes F32ops (pipeline_dec B) b cfg = Ok r ->
    forall m e, In m r -> In e (suitable_encodings F32ops m) ->
      m_payload F32ops m = b /\ exists t, m_text F32ops m = Some t /\ sdecode F32ops (pipeline_dec B) e (strip b e) = Some t.
  Proof. exact (from_bytes_decodes F32ops (pipeline_dec B) b cfg r (pipeline_dec_lazy_contract B)). Qed.

  (* the chaos of an accepted candidate on a covered input is a function of its text and the threshold *)
  Theorem pipeline_dec_chaos_function b cfg inc exc e m x :
    (forall e l t, b_sdecode B e l = Some t -> len t <= len l) ->
    len b <= chunk_size F32ops cfg * steps F32ops cfg -> len b <= TOO_BIG_SEQUENCE ->
    probe F32ops (pipeline_dec B) (make_ctx F32ops (pipeline_dec B) b cfg inc exc) e = Ok (Accept F32ops m x) ->
    exists t, m_text F32ops m = Some t /\ m_chaos F32ops m = chaos_fn F32ops (pipeline_dec B) t (threshold F32ops cfg)
              /\ fge F32ops (chaos_fn F32ops (pipeline_dec B) t (threshold F32ops cfg)) (threshold F32ops cfg) = false.
  Proof.
    intros HD. exact (covered_probe_chaos F32ops (pipeline_dec B) F32_FloatLaws (pipeline_dec_decode_len B HD) b cfg inc exc e m x).
  Qed.
End PD.
