(* C17: the decode helper in chunk mode trims a window cut out of valid UTF-8 to exactly the
   complete characters it contains; test-only mode succeeds exactly when the real decode does. *)
From Coq Require Import List NArith ZArith String Bool Lia.
From Gen Require Import Tables.
From Model Require Import Base Names Decode.
Import ListNotations.
Open Scope N_scope.
Open Scope list_scope.

(* ---------- finite facts about the generated automaton ---------- *)
Definition ALLB : list N := map N.of_nat (seq 0 256).
Definition LIVE : list N := [12; 24; 36; 48; 60; 72; 84].
Definition cont (b : N) : bool := (128 <=? b) && (b <? 192).
Definition live (st : N) : bool := existsb (N.eqb st) LIVE.

Lemma allb_spec b : b < 256 -> In b ALLB.
Proof.
  intro H. unfold ALLB. apply in_map_iff. exists (N.to_nat b). split; [apply N2Nat.id|]. apply in_seq. lia.
Qed.

Lemma constants : UTF8_INITIAL_STATE = 0 /\ UTF8_ACCEPT_STATE = 0 /\ UTF8_REJECT_STATE = 98 /\ UTF8_REJECT_STATE_WITH_BACKUP = 86.
Proof. repeat split; reflexivity. Qed.

(* from the initial state a continuation byte is a hard reject *)
Lemma D1_all : forallb (fun b => negb (cont b) || (u8_next 0 b =? 98)) ALLB = true.
Proof. vm_compute. reflexivity. Qed.
(* an ASCII byte keeps the initial (accept) state *)
Lemma D3_all : forallb (fun b => negb (b <? 128) || (u8_next 0 b =? 0)) ALLB = true.
Proof. vm_compute. reflexivity. Qed.
(* inside a character only continuation bytes avoid rejection *)
Lemma D2_all : forallb (fun st => forallb (fun b => u8_is_reject (u8_next st b) || cont b) ALLB) LIVE = true.
Proof. vm_compute. reflexivity. Qed.
(* every state reached is the accept state, a live state or a reject state *)
Lemma D4_all : forallb (fun st => forallb (fun b => let s := u8_next st b in (s =? 0) || live s || u8_is_reject s) ALLB) (0 :: LIVE) = true.
Proof. vm_compute. reflexivity. Qed.

Lemma D1 b : b < 256 -> cont b = true -> u8_next 0 b = 98.
Proof.
  intros Hb Hc. pose proof D1_all as H. rewrite forallb_forall in H. specialize (H b (allb_spec b Hb)).
  rewrite Hc in H. cbn [negb orb] in H. apply N.eqb_eq; exact H.
Qed.
Lemma D3 b : b < 128 -> u8_next 0 b = 0.
Proof.
  intro Hb. pose proof D3_all as H. rewrite forallb_forall in H. specialize (H b (allb_spec b ltac:(lia))).
  assert (E : (b <? 128) = true) by (apply N.ltb_lt; exact Hb). rewrite E in H. cbn [negb orb] in H. apply N.eqb_eq; exact H.
Qed.
Lemma D2 st b : live st = true -> b < 256 -> u8_is_reject (u8_next st b) = false -> cont b = true.
Proof.
  intros Hl Hb Hr. pose proof D2_all as H. rewrite forallb_forall in H.
  unfold live in Hl. apply existsb_exists in Hl as (s & Hs & Es). apply N.eqb_eq in Es. subst s.
  specialize (H st Hs). rewrite forallb_forall in H. specialize (H b (allb_spec b Hb)). rewrite Hr in H. exact H.
Qed.
Lemma live_not_accept st : live st = true -> (st =? 0) = false /\ u8_is_reject st = false.
Proof.
  unfold live. intro H. apply existsb_exists in H as (s & Hs & Es). apply N.eqb_eq in Es. subst s.
  cbn in Hs. intuition; subst; split; reflexivity.
Qed.

(* ---------- runs and characters ---------- *)
Fixpoint run (st : N) (l : list N) : N := match l with [] => st | b :: r => run (u8_next st b) r end.

Definition bytes_ok (l : list N) : Prop := Forall (fun b => b < 256) l.

(* l is walked from st through live states only, and (if `closed`) ends in the accept state *)
Fixpoint walk (st : N) (l : list N) (closed : bool) : Prop :=
  match l with
  | [] => if closed then False else True
  | [b] => if closed then u8_next st b = 0 else live (u8_next st b) = true
  | b :: r => live (u8_next st b) = true /\ walk (u8_next st b) r closed
  end.

(* a character: a byte string taking the automaton from the initial state back to it for the first time *)
Definition is_char (c : list N) : Prop := bytes_ok c /\ walk 0 c true.
(* a non-empty proper prefix of a character *)
Definition is_open_prefix (p : list N) : Prop := bytes_ok p /\ p <> [] /\ walk 0 p false.

Lemma walk_cons st b r closed : r <> [] -> walk st (b :: r) closed = (live (u8_next st b) = true /\ walk (u8_next st b) r closed).
Proof. destruct r; [contradiction|reflexivity]. Qed.

Lemma scan_step_live st b i pr r :
  live (u8_next st b) = true -> u8_scan st i pr (b :: r) = u8_scan (u8_next st b) (i + 1) pr r.
Proof.
  intro H. destruct (live_not_accept _ H) as [E1 E2]. cbn [u8_scan]. change UTF8_ACCEPT_STATE with 0. rewrite E1, E2. reflexivity.
Qed.

Lemma scan_step_accept st b i pr r :
  u8_next st b = 0 -> u8_scan st i pr (b :: r) = u8_scan 0 (i + 1) (i + 1) r.
Proof. intro H. cbn [u8_scan]. rewrite H. change UTF8_ACCEPT_STATE with 0. cbn [N.eqb]. reflexivity. Qed.

(* the scan of raw_feed over a closed walk returns to the accept state having processed it *)
Lemma scan_closed l : forall st i pr r,
  walk st l true -> u8_scan st i pr (l ++ r) = u8_scan 0 (i + len l) (i + len l) r.
Proof.
  induction l as [|b l IH]; intros st i pr r H; [destruct H|].
  destruct l as [|b' l'].
  - cbn [walk] in H. change ([b] ++ r) with (b :: r). rewrite (scan_step_accept _ _ _ _ _ H).
    replace (len [b]) with 1 by reflexivity. reflexivity.
  - rewrite walk_cons in H by discriminate. destruct H as [Hl Hw].
    change ((b :: b' :: l') ++ r) with (b :: (b' :: l') ++ r). rewrite (scan_step_live _ _ _ _ _ Hl).
    rewrite (IH _ (i + 1) pr r Hw).
    replace (i + 1 + len (b' :: l')) with (i + len (b :: b' :: l')) by (unfold len; cbn [List.length]; lia). reflexivity.
Qed.

Lemma scan_open l : forall st i pr,
  l <> [] -> walk st l false -> u8_scan st i pr l = (run st l, pr, None) /\ live (run st l) = true.
Proof.
  induction l as [|b l IH]; intros st i pr Hne H; [contradiction|].
  destruct l as [|b' l'].
  - cbn [walk] in H. rewrite (scan_step_live _ _ _ _ _ H). cbn [u8_scan run]. auto.
  - rewrite walk_cons in H by discriminate. destruct H as [Hl Hw].
    rewrite (scan_step_live _ _ _ _ _ Hl). cbn [run]. apply IH; [discriminate|exact Hw].
Qed.

Fixpoint scan_chars (cs : list (list N)) : forall i r,
  Forall is_char cs -> u8_scan 0 i i (List.concat cs ++ r) = u8_scan 0 (i + len (List.concat cs)) (i + len (List.concat cs)) r.
Proof.
  destruct cs as [|c cs]; intros i r H.
  - cbn [List.concat app]. replace (i + len []) with i by (unfold len; cbn; lia). reflexivity.
  - inversion H as [|? ? [_ Hc] Hcs]; subst. cbn [List.concat]. rewrite <- app_assoc.
    rewrite (scan_closed c 0 i i _ Hc). rewrite (scan_chars cs _ r Hcs).
    replace (i + len c + len (List.concat cs)) with (i + len (c ++ List.concat cs)) by (unfold len; rewrite app_length; lia). reflexivity.
Qed.

(* the initial ASCII fast path of raw_feed is equivalent to scanning those bytes *)
Lemma scan_skip l : forall i, u8_scan 0 (i + first_msb l) (i + first_msb l) (skipn (N.to_nat (first_msb l)) l) = u8_scan 0 i i l.
Proof.
  induction l as [|c l IH]; intro i; cbn [first_msb].
  - rewrite N.add_0_r. reflexivity.
  - destruct (128 <=? c) eqn:E.
    + rewrite N.add_0_r. reflexivity.
    + apply N.leb_gt in E. rewrite N2Nat.inj_add. change (N.to_nat 1) with 1%nat. cbn [Nat.add skipn].
      rewrite (scan_step_accept 0 c i i l (D3 c E)).
      rewrite <- (IH (i + 1)). rewrite !N.add_assoc. reflexivity.
Qed.

(* ---------- one strict attempt on a fresh decoder ---------- *)
Notation attempt := (decode_to utf8_decoder [239; 191; 189]).

Lemma feed_fresh w :
  u8_feed {| u8_queue := []; u8_st := UTF8_INITIAL_STATE |} w =
    let '(st', processed, rej) := u8_scan 0 0 0 w in
    match rej with
    | Some up => ({| u8_queue := []; u8_st := UTF8_INITIAL_STATE |}, processed, firstn (N.to_nat processed) w,
                  Some {| upto := Z.of_N up; err_cause := Invalid |})
    | None => ({| u8_queue := skipn (N.to_nat processed) w; u8_st := st' |}, processed, firstn (N.to_nat processed) w, None)
    end.
Proof.
  unfold u8_feed. cbn [u8_st u8_queue]. change (UTF8_INITIAL_STATE =? UTF8_INITIAL_STATE) with true. cbv beta iota zeta.
  pose proof (scan_skip w 0) as H. rewrite !N.add_0_l in H. change UTF8_INITIAL_STATE with 0 at 1. rewrite H.
  destruct (u8_scan 0 0 0 w) as [[st' processed] rej].
  assert (E : forall x y : list N, (if (0 <? processed) && negb (len (@nil N) =? 0) then x else y) = y).
  { intros x y. change (len (@nil N) =? 0) with true. cbn [negb]. rewrite andb_false_r. reflexivity. }
  rewrite !E. cbn [app]. destruct rej; reflexivity.
Qed.

(* one iteration of the decode_to loop on the UTF-8 decoder in strict mode, from a fresh decoder *)
Lemma attempt_unfold w :
  attempt w Strict =
    let '(st1, offset, o1, err) := u8_feed {| u8_queue := []; u8_st := UTF8_INITIAL_STATE |} w in
    match err with
    | Some e => DtErr e ([] ++ o1)
    | None => let '(st2, o2, err2) := u8_finish st1 in
              match err2 with Some e => DtErr e (([] ++ o1) ++ o2) | None => DtOk (([] ++ o1) ++ o2) end
    end.
Proof.
  unfold decode_to. change (decode_to_loop utf8_decoder [239; 191; 189] (S (S (List.length w))) (dinit N utf8_decoder) w 0 [] Strict)
    with (let '(st1, offset, o1, err) := u8_feed {| u8_queue := []; u8_st := UTF8_INITIAL_STATE |} (skipn (N.to_nat 0) w) in
          match err with
          | Some e => DtErr e ([] ++ o1)
          | None => let '(st2, o2, err2) := u8_finish st1 in
                    match err2 with Some e => DtErr e (([] ++ o1) ++ o2) | None => DtOk (([] ++ o1) ++ o2) end
          end).
  reflexivity.
Qed.

(* A: a window starting with a continuation byte is an invalid sequence *)
Lemma attempt_invalid b rest : b < 256 -> cont b = true -> exists e out, attempt (b :: rest) Strict = DtErr e out /\ err_cause e = Invalid.
Proof.
  intros Hb Hc. rewrite attempt_unfold, feed_fresh.
  assert (Hs : u8_scan 0 0 0 (b :: rest) = (98, 0, Some 1)).
  { cbn [u8_scan]. rewrite (D1 b Hb Hc). reflexivity. }
  rewrite Hs. cbv beta iota zeta. eauto.
Qed.

(* C: complete characters only: the attempt succeeds and returns exactly those bytes *)
Lemma attempt_ok cs : Forall is_char cs -> attempt (List.concat cs) Strict = DtOk (List.concat cs).
Proof.
  intro H. rewrite attempt_unfold, feed_fresh.
  pose proof (scan_chars cs 0 [] H) as Hs. rewrite app_nil_r, !N.add_0_l in Hs. rewrite Hs.
  cbn [u8_scan]. cbv beta iota zeta. unfold u8_finish. cbn [u8_st]. change (0 =? UTF8_ACCEPT_STATE) with true. cbv beta iota zeta.
  unfold len. rewrite Nat2N.id, firstn_all. cbn [app]. rewrite ?app_nil_r. reflexivity.
Qed.

(* B: complete characters followed by a non-empty proper prefix: an incomplete sequence *)
Lemma attempt_incomplete cs p : Forall is_char cs -> is_open_prefix p ->
  exists e out, attempt (List.concat cs ++ p) Strict = DtErr e out /\ err_cause e = Incomplete.
Proof.
  intros H (Hb & Hne & Hw). rewrite attempt_unfold, feed_fresh.
  pose proof (scan_chars cs 0 p H) as Hs. rewrite !N.add_0_l in Hs. rewrite Hs.
  destruct (scan_open p 0 (len (List.concat cs)) (len (List.concat cs)) Hne Hw) as [Hsc Hl]. rewrite Hsc.
  cbv beta iota zeta. unfold u8_finish. cbn [u8_st]. destruct (live_not_accept _ Hl) as [E1 _]. change UTF8_ACCEPT_STATE with 0. rewrite E1.
  cbv beta iota zeta. eauto.
Qed.

(* ---------- the retry loop ---------- *)
Lemma slice_mid (a m c : list N) :
  firstn (N.to_nat (len (a ++ m ++ c) - len c - len a)) (skipn (N.to_nat (len a)) (a ++ m ++ c)) = m.
Proof.
  unfold len. rewrite Nat2N.id. rewrite skipn_app, skipn_all, Nat.sub_diag. cbn [skipn app].
  rewrite !app_length. replace (N.to_nat (N.of_nat (List.length a + (List.length m + List.length c)) - N.of_nat (List.length c) - N.of_nat (List.length a))) with (List.length m) by lia.
  rewrite firstn_app, firstn_all, Nat.sub_diag. cbn [firstn]. apply app_nil_r.
Qed.

(* every byte of a proper suffix of a character is a continuation byte *)
Definition all_cont (s : list N) : Prop := Forall (fun b => b < 256 /\ cont b = true) s.

Lemma chunk_loop_trims (M : list N) (cs : list (list N)) :
  M = List.concat cs -> cs <> [] -> Forall is_char cs ->
  forall s2 s1 p1 p2 fuel,
    all_cont s2 -> (p1 = [] \/ is_open_prefix p1) ->
    len (s1 ++ s2) <= 3 -> len (p1 ++ p2) <= 3 ->
    (List.length s2 + List.length p1 < fuel)%nat ->
    chunk_loop utf8_decoder [239; 191; 189] fuel (s1 ++ s2 ++ M ++ p1 ++ p2) (len s1) (len (s1 ++ s2 ++ M ++ p1 ++ p2) - len p2) = HOk M.
Proof.
  intros HM Hne Hcs.
  assert (HMne : 1 <= len M).
  { subst M. destruct cs as [|c cs']; [contradiction|]. inversion Hcs as [|? ? [_ Hc] _]; subst.
    destruct c; [destruct Hc|]. unfold len. cbn [List.concat app List.length]. lia. }
  induction s2 as [|b s2 IHs].
  - (* nothing left to drop in front: drop the open prefix byte by byte from the back *)
    intros s1 p1. induction p1 as [|b p1 IHp] using rev_ind; intros p2 fuel _ Hp Hl1 Hl2 Hf.
    + destruct fuel; [cbn in Hf; lia|]. cbn [chunk_loop app].
      pose proof (slice_mid s1 M p2) as Hsl. cbn [app] in Hsl. rewrite Hsl. subst M. rewrite (attempt_ok cs Hcs). reflexivity.
    + destruct fuel; [cbn in Hf; lia|]. cbn [chunk_loop app].
      assert (Hin : s1 ++ M ++ (p1 ++ [b]) ++ p2 = s1 ++ (M ++ p1 ++ [b]) ++ p2) by (rewrite <- !app_assoc; reflexivity).
      rewrite Hin. rewrite (slice_mid s1 (M ++ p1 ++ [b]) p2).
      destruct Hp as [Hp|Hp]; [destruct p1; discriminate|].
      subst M. destruct (attempt_incomplete cs (p1 ++ [b]) Hcs Hp) as (e & out & -> & Hc). rewrite Hc.
      match goal with |- context [chunk_loop _ _ _ ?inp _ _] => set (input := inp) end.
      assert (Hlen : len input = len s1 + len (List.concat cs) + len p1 + 1 + len p2)
        by (unfold input, len; rewrite !app_length; cbn [List.length]; lia).
      assert (Hl2' : len p1 + 1 + len p2 <= 3) by (unfold len in *; rewrite !app_length in Hl2; cbn [List.length] in Hl2; lia).
      assert (Hl1' : len s1 <= 3) by (unfold len in *; rewrite app_nil_r in Hl1; exact Hl1).
      assert (G : ((len input - len p2 - 1 - len s1 <? 1) || (3 <? len s1) || (3 <? len input - (len input - len p2 - 1))) = false).
      { apply orb_false_iff. split; [apply orb_false_iff; split|]; apply N.ltb_ge; lia. }
      rewrite G.
      (* re-associate: the last byte of the prefix now belongs to the dropped tail *)
      assert (Hin2 : input = s1 ++ [] ++ List.concat cs ++ p1 ++ (b :: p2)) by (unfold input; rewrite <- !app_assoc; reflexivity).
      assert (Hend : len input - len p2 - 1 = len (s1 ++ [] ++ List.concat cs ++ p1 ++ b :: p2) - len (b :: p2)).
      { rewrite <- Hin2. unfold len at 4. cbn [List.length]. unfold len. lia. }
      rewrite Hend, Hin2. apply IHp.
      * constructor.
      * destruct p1 as [|x p1']; [left; reflexivity|right].
        destruct Hp as (Hb & _ & Hw). split; [apply Forall_app in Hb; tauto|]. split; [discriminate|].
        clear -Hw. revert Hw. generalize 0. induction (x :: p1') as [|y l IH]; intros st Hw; [exact I|].
        destruct l as [|z l'].
        -- cbn [app walk] in Hw. cbn [walk]. tauto.
        -- change ((y :: z :: l') ++ [b]) with (y :: (z :: l') ++ [b]) in Hw. rewrite walk_cons in Hw by (destruct l'; discriminate).
           rewrite walk_cons by discriminate. destruct Hw as [H1 H2]. split; [exact H1|apply IH; exact H2].
      * rewrite app_nil_r. exact Hl1'.
      * unfold len in *. rewrite !app_length in *. cbn [List.length] in *. lia.
      * rewrite app_length in Hf. cbn [List.length] in *. lia.
  - intros s1 p1 p2 fuel Hs Hp Hl1 Hl2 Hf. apply Forall_cons_iff in Hs as [[Hb Hc] Hs'].
    destruct fuel; [cbn in Hf; lia|]. cbn [chunk_loop].
    assert (Hin : s1 ++ (b :: s2) ++ M ++ p1 ++ p2 = s1 ++ ((b :: s2) ++ M ++ p1) ++ p2) by (rewrite <- !app_assoc; reflexivity).
    rewrite Hin, (slice_mid s1 ((b :: s2) ++ M ++ p1) p2). cbn [app].
    destruct (attempt_invalid b (s2 ++ M ++ p1) Hb Hc) as (e & out & -> & Hcause). rewrite Hcause.
    match goal with |- context [chunk_loop _ _ _ ?inp _ _] => set (input := inp) end.
    assert (Hlen : len input = len s1 + 1 + len s2 + len M + len p1 + len p2)
      by (unfold input, len; rewrite !app_length; cbn [List.length]; rewrite !app_length; lia).
    assert (Hl1' : len s1 + 1 + len s2 <= 3) by (unfold len in *; rewrite app_length in Hl1; cbn [List.length] in Hl1; lia).
    assert (Hl2' : len p1 + len p2 <= 3) by (unfold len in *; rewrite app_length in Hl2; lia).
    assert (G : ((len input - len p2 - (len s1 + 1) <? 1) || (3 <? len s1 + 1) || (3 <? len input - (len input - len p2))) = false).
    { apply orb_false_iff. split; [apply orb_false_iff; split|]; apply N.ltb_ge; lia. }
    rewrite G.
    assert (Hin2 : input = (s1 ++ [b]) ++ s2 ++ M ++ p1 ++ p2) by (unfold input; rewrite <- !app_assoc; reflexivity).
    assert (Hb' : len s1 + 1 = len (s1 ++ [b])) by (unfold len; rewrite app_length; cbn [List.length]; lia).
    rewrite Hb', Hin2. apply IHs; auto.
    + rewrite <- app_assoc. exact Hl1.
    + cbn [List.length] in Hf. lia.
Qed.

(* ---------- the window theorem ---------- *)
(* a window of valid UTF-8 that contains at least one complete character: the tail s of a character
   cut by the window start (continuation bytes only, possibly none), the complete characters cs, and
   the head p of a character cut by the window end (possibly none) *)
Theorem utf8_window_decodes s cs p :
  all_cont s -> len s <= 3 -> cs <> [] -> Forall is_char cs -> (p = [] \/ is_open_prefix p) -> len p <= 3 ->
  utf8_chunk_decode (s ++ List.concat cs ++ p) = Some (List.concat cs).
Proof.
  intros Hs Hls Hne Hcs Hp Hlp. unfold utf8_chunk_decode, helper. cbn [andb].
  pose proof (chunk_loop_trims (List.concat cs) cs eq_refl Hne Hcs s [] p [] (S (List.length (s ++ List.concat cs ++ p)))) as H.
  cbn [app] in H. rewrite app_nil_r in H. change (len []) with 0 in H. rewrite N.sub_0_r in H.
  rewrite H; [reflexivity|exact Hs|exact Hp|exact Hls|rewrite ?app_nil_r; exact Hlp|].
  rewrite !app_length. lia.
Qed.

(* the suffix of a character cut after at least one byte consists of continuation bytes only *)
Lemma walk_suffix_cont pre : forall st s closed,
  bytes_ok (pre ++ s) -> live st = true \/ pre <> [] -> walk st (pre ++ s) closed ->
  (pre = [] -> live st = true) -> all_cont s.
Proof.
  induction pre as [|b pre IH]; intros st s closed Hb Hor Hw Hst.
  - cbn [app] in *. specialize (Hst eq_refl). clear Hor. revert st Hw Hst. induction s as [|c s IHs]; intros st Hw Hst; [constructor|].
    inversion Hb as [|? ? Hc Hb']; subst. 
    assert (Hnr : u8_is_reject (u8_next st c) = false).
    { destruct s as [|c' s'].
      - cbn [walk] in Hw. destruct closed; [rewrite Hw; reflexivity|apply live_not_accept in Hw; tauto].
      - rewrite walk_cons in Hw by discriminate. destruct Hw as [Hl _]. apply live_not_accept in Hl. tauto. }
    constructor; [split; [exact Hc|eapply D2; eauto]|].
    destruct s as [|c' s']; [constructor|]. rewrite walk_cons in Hw by discriminate. destruct Hw as [Hl Hw]. apply (IHs Hb' _ Hw Hl).
  - cbn [app] in Hb, Hw. inversion Hb as [|? ? Hc Hb']; subst.
    destruct (pre ++ s) as [|x l] eqn:E.
    + destruct pre; [|discriminate]. cbn [app] in E. subst s. constructor.
    + rewrite walk_cons in Hw by discriminate. destruct Hw as [Hl Hw]. rewrite <- E in *.
      eapply (IH (u8_next st b) s closed Hb'); [left; exact Hl|exact Hw|intros _; exact Hl].
Qed.

Corollary char_suffix_cont pre s : pre <> [] -> is_char (pre ++ s) -> all_cont s.
Proof.
  intros Hne [Hb Hw]. eapply (walk_suffix_cont pre 0 s true Hb); [right; exact Hne|exact Hw|intro; contradiction].
Qed.

(* test-only mode: same success / failure, no text *)
Theorem test_only_agrees {Out} (D : raw_decoder Out) repl input t chunk mb :
  match helper D repl input t true chunk mb, helper D repl input t false chunk mb with
  | HOk o1, HOk _ => o1 = []
  | HErr e1, HErr e2 => e1 = e2
  | HFuel, HFuel => True
  | _, _ => False
  end.
Proof.
  unfold helper. destruct t.
  - destruct (chunk && mb).
    + destruct (Decode.chunk_loop D repl _ input 0 (len input)); auto.
    + destruct (decode_to D repl input Strict); auto.
  - destruct (decode_to D repl input Ignore); auto.
  - destruct (decode_to D repl input (Replace repl0)); auto.
Qed.
