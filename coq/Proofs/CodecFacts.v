(* The modelled codecs (Model/Codecs.v) and the pipeline that decodes with them (Model/Pipeline.v pipeline_dec):
   - every supported name outside the multi-byte list has a single-byte table, none of the generated tables
     holds U+FEFF (finite facts of the tables generated on this run);
   - LazyContract (the hypothesis of C01_decodes / C07_text_after_mark above 1 MB) holds of pipeline_dec outright;
   - DecodeLen (at most one character per byte; hypothesis of the chaos theorems) holds of every modelled codec,
     so for pipeline_dec it is a hypothesis about the CJK oracle only;
   - a text in its UTF-8, UTF-16LE or UTF-16BE form decodes, by name, to that text. *)
From Coq Require Import List NArith ZArith String Bool Lia.
From Gen Require Import Tables.
From Model Require Import Base Names Flt F32 Matches Detect Decode Utf SbLangs Codecs Pipeline.
From Proofs Require Import DecodeFacts SbFacts UtfFacts DetectSound.
Import ListNotations.
Open Scope N_scope.
Open Scope list_scope.

(* ---------- finite facts of the generated tables ---------- *)
Lemma supported_single_byte_names_have_tables :
  forallb (fun e => is_multi_byte e || match sb_table e with Some _ => true | None => false end) IANA_SUPPORTED = true.
Proof. vm_compute. reflexivity. Qed.

Lemma no_table_holds_feff : forallb (fun kv => forallb (fun c => negb (c =? 65279)) (snd kv)) SB_TABLES = true.
Proof. vm_compute. reflexivity. Qed.

Lemma sb_table_no_feff e t : sb_table e = Some t -> Forall (fun c => c <> 65279) t.
Proof.
  unfold sb_table. destruct (codec_of e) as [v|]; [|discriminate]. intro H.
  assert (Hin : In (v, t) SB_TABLES).
  { clear -H. induction SB_TABLES as [|[k x] r IH]; cbn [assoc_first] in H; [discriminate|].
    destruct (String.eqb k v) eqn:E; [apply String.eqb_eq in E; inversion H; subst; left; reflexivity | right; apply IH; exact H]. }
  pose proof no_table_holds_feff as F. rewrite forallb_forall in F. specialize (F _ Hin). cbn [snd] in F.
  rewrite forallb_forall in F. apply Forall_forall. intros c Hc Ec. specialize (F c Hc). subst c. discriminate.
Qed.

(* ---------- the closed form is the helper ---------- *)
Lemma sb_closed_strict t l : sb_closed t l = sb_strict t l.
Proof. unfold sb_closed. rewrite sb_strict_spec. reflexivity. Qed.
Lemma sb_closed_chunk t l : sb_closed t l = sb_chunk t l.
Proof. unfold sb_closed. rewrite sb_chunk_spec. reflexivity. Qed.
Lemma sb_all_test t l : sb_all t l = sb_test t l.
Proof. rewrite sb_test_spec. reflexivity. Qed.

Lemma modelled_not_multibyte e : is_multi_byte e = false ->
  modelled_codec e = match sb_table e with Some t => Some (CSb t) | None => Some CNone end.
Proof.
  intro H. unfold modelled_codec.
  destruct (String.eqb e "utf-8") eqn:E1; [apply String.eqb_eq in E1; subst; discriminate|].
  destruct (String.eqb e "utf-16le") eqn:E2; [apply String.eqb_eq in E2; subst; discriminate|].
  destruct (String.eqb e "utf-16be") eqn:E3; [apply String.eqb_eq in E3; subst; discriminate|].
  rewrite H. reflexivity.
Qed.

(* ---------- LazyContract holds of the pipeline that decodes with the models ---------- *)
Theorem pipeline_dec_lazy_contract B : LazyContract F32ops (pipeline_dec B).
Proof.
  intros e l1 l2 t2 Hmb Ht Hs. cbn [sdecode stest cdecode pipeline_dec] in *.
  rewrite (modelled_not_multibyte e Hmb) in *.
  destruct (sb_table e) as [t|] eqn:Et; cbn [codec_strict codec_test codec_chunk] in *; [|discriminate].
  rewrite sb_all_test in Ht. rewrite sb_closed_strict in Hs.
  destruct (sb_lazy t (sb_table_no_feff e t Et) l1 l2 t2 Ht Hs) as (t0 & H1 & H2 & H3).
  exists t0. rewrite <- sb_closed_strict in H1. auto.
Qed.

(* ---------- DecodeLen ---------- *)
Lemma sb_chars_len t l : len (sb_chars t l) <= len l.
Proof.
  unfold len. induction l as [|b r IH]; cbn [sb_chars flat_map List.length]; [lia|].
  rewrite app_length. fold (sb_chars t r). destruct (sb_lookup t b); cbn [List.length]; lia.
Qed.

Lemma utf8_chars_len_aux n : forall l, (List.length l <= n)%nat -> (List.length (utf8_chars l) <= List.length l)%nat.
Proof.
  induction n as [|n IH]; intros l Hl.
  - destruct l; [cbn; lia | cbn in Hl; lia].
  - destruct l as [|b0 r]; [cbn; lia|]. cbn [utf8_chars]. cbn [List.length] in Hl.
    destruct (b0 <? 128). { cbn [List.length]. specialize (IH r ltac:(lia)). lia. }
    destruct (b0 <? 224).
    { destruct r as [|b1 r1]; [cbn; lia|]. cbn [List.length] in *. specialize (IH r1 ltac:(lia)). lia. }
    destruct (b0 <? 240).
    { destruct r as [|b1 [|b2 r2]]; [cbn; lia|cbn; lia|]. cbn [List.length] in *. specialize (IH r2 ltac:(lia)). lia. }
    destruct r as [|b1 [|b2 [|b3 r3]]]; [cbn; lia|cbn; lia|cbn; lia|]. cbn [List.length] in *. specialize (IH r3 ltac:(lia)). lia.
Qed.
Lemma utf8_chars_len l : len (utf8_chars l) <= len l.
Proof. unfold len. pose proof (utf8_chars_len_aux (List.length l) l (le_n _)). lia. Qed.

Lemma utf8_attempt_len w out : decode_to utf8_decoder [239; 191; 189] w Strict = DtOk out -> len out <= len w.
Proof.
  rewrite attempt_unfold, feed_fresh. destruct (u8_scan 0 0 0 w) as [[st' processed] rej].
  destruct rej; cbv beta iota zeta; [discriminate|]. unfold u8_finish. cbn [u8_st].
  destruct (st' =? UTF8_ACCEPT_STATE); [|discriminate]. intros [= <-]. cbn [app]. rewrite app_nil_r.
  unfold len. rewrite firstn_length. lia.
Qed.

Lemma utf8_strict_len b t : utf8_strict_text b = Some t -> len t <= len b.
Proof.
  unfold utf8_strict_text, utf8_strict_decode, helper. cbn [andb].
  destruct (decode_to utf8_decoder [239; 191; 189] b Strict) as [out|e out|] eqn:E; try discriminate.
  cbn [option_map]. intros [= <-]. pose proof (utf8_attempt_len _ _ E). pose proof (utf8_chars_len out). lia.
Qed.

Lemma u16_main_len big n : forall l i racc s p out e, (List.length l <= n)%nat ->
  u16_main big i l racc = (s, p, out, e) -> (2 * List.length out <= 2 * List.length racc + List.length l)%nat.
Proof.
  induction n as [|n IH]; intros l i racc s p out e Hl H.
  - destruct l; [|cbn in Hl; lia]. cbn [u16_main] in H. inversion H; subst. rewrite rev_length. cbn; lia.
  - destruct l as [|b0 [|b1 r]]; cbn [u16_main] in H.
    + inversion H; subst. rewrite rev_length. cbn; lia.
    + inversion H; subst. rewrite rev_length. cbn; lia.
    + cbn [List.length] in Hl |- *. destruct (is_hi (concat2 big b0 b1)).
      * destruct r as [|b2 [|b3 r']].
        -- inversion H; subst. rewrite rev_length. cbn; lia.
        -- inversion H; subst. rewrite rev_length. cbn; lia.
        -- destruct (is_lo (concat2 big b2 b3)).
           ++ cbn [List.length] in Hl |- *. apply IH in H; [|lia]. cbn [List.length] in H. lia.
           ++ inversion H; subst. rewrite rev_length. cbn [List.length]. lia.
      * destruct (is_lo (concat2 big b0 b1)).
        -- inversion H; subst. rewrite rev_length. lia.
        -- apply IH in H; [|lia]. cbn [List.length] in H. lia.
Qed.

Lemma utf16_attempt_len big w out : decode_to (utf16_decoder big) [65533] w Strict = DtOk out -> len out <= len w.
Proof.
  unfold decode_to. cbn [decode_to_loop]. cbn [dfeed dinit dfinish utf16_decoder N.to_nat skipn].
  destruct w as [|b r].
  - cbn. intros [= <-]. cbn. lia.
  - unfold u16_feed. cbn [lead_byte u16_init lead_surr].
    replace (len (b :: r) <=? 0) with false by (symmetry; apply N.leb_gt; unfold len; cbn [List.length]; lia).
    cbn [N.to_nat skipn]. change (rev (@nil N)) with (@nil N).
    destruct (u16_main big 0 (b :: r) []) as [[[s p] o] e] eqn:M.
    pose proof (u16_main_len big _ _ _ _ _ _ _ _ (le_n _) M) as L. cbn [List.length] in L.
    destruct e as [e|]; cbn [do_trap]; [discriminate|].
    unfold u16_finish. destruct (lead_byte s), (lead_surr s); cbn [do_trap]; try discriminate.
    intros [= <-]. cbn [app]. rewrite app_nil_r. unfold len. cbn [List.length]. lia.
Qed.

Lemma utf16_strict_len big b t : utf16_strict_text big b = Some t -> len t <= len b.
Proof.
  unfold utf16_strict_text, utf16_helper, helper. cbn [andb].
  destruct (decode_to (utf16_decoder big) [65533] b Strict) as [out|e out|] eqn:E; try discriminate.
  intros [= <-]. exact (utf16_attempt_len _ _ _ E).
Qed.

Theorem codec_strict_len k b t : codec_strict k b = Some t -> len t <= len b.
Proof.
  destruct k as [|big|tbl|]; cbn [codec_strict].
  - apply utf8_strict_len.
  - apply utf16_strict_len.
  - unfold sb_closed. destruct (sb_all tbl b); [|discriminate]. intros [= <-]. apply sb_chars_len.
  - discriminate.
Qed.

(* for the pipeline, DecodeLen is a hypothesis about the CJK oracle only *)
Theorem pipeline_dec_decode_len B :
  (forall e l t, b_sdecode B e l = Some t -> len t <= len l) ->
  forall e l t, sdecode F32ops (pipeline_dec B) e l = Some t -> len t <= len l.
Proof.
  intros HB e l t. cbn [sdecode pipeline_dec]. destruct (modelled_codec e) as [k|]; [apply codec_strict_len | apply HB].
Qed.

(* ---------- a text in any of its three Unicode forms decodes, by name, to itself ---------- *)
Theorem unicode_forms_decode B t : Forall scalar t ->
  sdecode F32ops (pipeline_dec B) "utf-8" (utf8_encode t) = Some t
  /\ sdecode F32ops (pipeline_dec B) "utf-16le" (utf16_encode false t) = Some t
  /\ sdecode F32ops (pipeline_dec B) "utf-16be" (utf16_encode true t) = Some t
  /\ cdecode F32ops (pipeline_dec B) "utf-8" (utf8_encode t) = Some t
  /\ cdecode F32ops (pipeline_dec B) "utf-16le" (utf16_encode false t) = Some t
  /\ cdecode F32ops (pipeline_dec B) "utf-16be" (utf16_encode true t) = Some t.
Proof.
  intro Ht. cbn [sdecode cdecode pipeline_dec].
  change (modelled_codec "utf-8") with (Some CUtf8).
  change (modelled_codec "utf-16le") with (Some (CUtf16 false)).
  change (modelled_codec "utf-16be") with (Some (CUtf16 true)).
  cbn [codec_strict codec_chunk].
  rewrite utf8_strict_text_encode, utf8_chunk_text_encode, !utf16_strict_text_encode, !utf16_chunk_text_encode by exact Ht.
  repeat split.
Qed.
