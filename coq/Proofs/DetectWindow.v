(* C13: inputs that fit the analysis window are analysed in full. *)
From Coq Require Import List NArith String Bool Lia.
From Gen Require Import Tables.
From Model Require Import Base Names Flt Matches Detect.
From Proofs Require Import SortFacts NamesFacts DetectFacts FloatLaws.
Import ListNotations.
Open Scope N_scope.
Open Scope list_scope.

Opaque iana_name identify_sig is_multi_byte is_cp_similar.

Section Window.
  Variable FO : FloatOps.
  Variable R : oracles FO.
  Notation cmatch := (cmatch FO).

  Definition with_window (cfg : settings FO) (st ch : N) : settings FO :=
    {| steps := st; chunk_size := ch; threshold := threshold FO cfg;
       include_encodings := include_encodings FO cfg; exclude_encodings := exclude_encodings FO cfg;
       preemptive_behaviour := preemptive_behaviour FO cfg;
       language_threshold := language_threshold FO cfg; enable_fallback := enable_fallback FO cfg |}.

  Lemma make_ctx_collapse b cfg inc exc :
    len b <= chunk_size FO cfg * steps FO cfg ->
    make_ctx FO R b cfg inc exc = make_ctx FO R b (with_window cfg 1 (len b)) inc exc.
  Proof.
    intro H. unfold make_ctx. cbn [with_window steps chunk_size threshold preemptive_behaviour language_threshold enable_fallback].
    apply N.leb_le in H. rewrite H. rewrite N.mul_1_r, N.leb_refl. reflexivity.
  Qed.

  (* the whole result is the same under any window that covers the input *)
  Theorem covered_window_irrelevant b cfg :
    len b <= chunk_size FO cfg * steps FO cfg ->
    from_bytes FO R b cfg = from_bytes FO R b (with_window cfg 1 (len b)).
  Proof.
    intro H. unfold from_bytes. cbn [with_window include_encodings exclude_encodings].
    destruct (canon_list _ _ (include_encodings FO cfg)) as [inc| |]; cbn [bind]; try reflexivity.
    destruct (canon_list _ _ (exclude_encodings FO cfg)) as [exc| |]; cbn [bind]; try reflexivity.
    destruct b as [|x b']; [reflexivity|].
    rewrite (make_ctx_collapse (x :: b') cfg inc exc H). reflexivity.
  Qed.

  Corollary covering_windows_agree b cfg st ch :
    len b <= chunk_size FO cfg * steps FO cfg -> len b <= ch * st ->
    from_bytes FO R b cfg = from_bytes FO R b (with_window cfg st ch).
  Proof.
    intros H1 H2. rewrite (covered_window_irrelevant b cfg H1).
    rewrite (covered_window_irrelevant b (with_window cfg st ch)) by (cbn; exact H2).
    reflexivity.
  Qed.

  (* ---------- chaos is a function of the decoded text and the threshold ---------- *)
  Hypothesis FL : FloatLaws FO.

  Definition chaos_fn (t : text) (thr : F FO) : F FO :=
    match t with [] => fzero FO | _ => mess FO R t thr end.

  Lemma offsets_single n : 1 <= n -> offsets 0 n (N.max (n / 1) 1) = [0].
  Proof.
    intro H. rewrite N.div_1_r. replace (N.max n 1) with n by lia. unfold offsets.
    rewrite N.sub_0_r, N.div_same by lia. change (N.to_nat (1 + 1)) with 2%nat.
    cbn [offsets_from]. assert (H0 : (0 <? n) = true) by (apply N.ltb_lt; lia). rewrite H0.
    rewrite N.add_0_l, N.ltb_irrefl. reflexivity.
  Qed.

  Lemma offsets_empty s : offsets 0 0 s = [].
  Proof. unfold offsets. generalize (N.to_nat ((0 - 0) / s + 1)). intro f. destruct f; reflexivity. Qed.

  Lemma firstn_covers (t : text) n : len t <= n -> firstn (N.to_nat n) t = t.
  Proof. intro H. apply firstn_all2. unfold len in H. lia. Qed.

  (* a covered, non-lazy context *)
  Definition covered (c : ctx FO) : Prop :=
    steps FO (c_cfg FO c) = 1 /\ chunk_size FO (c_cfg FO c) = c_len FO c.

  Theorem covered_verdict c e si t v :
    covered c -> lazy_sb FO c e = false -> len t <= c_len FO c ->
    probe_rest FO R c e si (Some t) = Ok v ->
    let thr := threshold FO (c_cfg FO c) in
    match v with
    | Accept _ m _ => m_chaos FO m = chaos_fn t thr /\ m_text FO m = Some t
                      /\ fge FO (chaos_fn t thr) thr = false
                      /\ is_invalid_chunk (Some t) e = false
    | SoftFail _ _ => (t <> [] /\ is_invalid_chunk (Some t) e = true) \/ fge FO (chaos_fn t thr) thr = true
    | _ => False
    end.
  Proof.
    intros [Hs Hc] Hlz Hlen H. cbv zeta. unfold probe_rest in H. rewrite Hs, Hlz in H.
    cbn [udiv N.eqb bind] in H. change (1 / 4) with 0 in H. change (N.max 2 0) with 2 in H.
    assert (Hso : (match is_bom FO c e, Some t with true, None => si | _, _ => 0 end) = 0)
      by (destruct (is_bom FO c e); reflexivity).
    rewrite Hso in H.
    destruct t as [|x t'] eqn:Et.
    - (* empty text: no chunk at all *)
      change (len (@nil N)) with 0 in H. rewrite offsets_empty in H. cbn [chunk_loop bind lazy_hard_failure negb andb md_ratios early_stop] in H.
      change (2 <=? 0) with false in H. rewrite orb_false_r in H. cbn [chaos_fn].
      destruct (fge FO (fzero FO) (threshold FO (c_cfg FO c))) eqn:Hge.
      + injection H as <-. right. reflexivity.
      + injection H as <-. cbn [new_match m_chaos m_text]. repeat split. unfold is_invalid_chunk, is_ascii_text. cbn [forallb negb]. apply andb_false_r.
    - rewrite <- Et in *. assert (Hn : 1 <= len t) by (subst t; unfold len; cbn [List.length]; lia).
      rewrite (offsets_single _ Hn) in H. cbn [chunk_loop] in H. unfold chunk_step in H.
      cbn [bind skipn N.to_nat] in H. rewrite Hc, (firstn_covers t _ Hlen) in H.
      assert (Hcf : chaos_fn t (threshold FO (c_cfg FO c)) = mess FO R t (threshold FO (c_cfg FO c)))
        by (subst t; reflexivity).
      destruct (is_invalid_chunk (Some t) e) eqn:Hinv.
      + cbn [bind lazy_hard_failure negb andb early_stop] in H. rewrite N.leb_refl, orb_true_r in H.
        injection H as <-. left. split; [subst t; discriminate|reflexivity].
      + set (ratio := mess FO R t (threshold FO (c_cfg FO c))) in *.
        destruct (fge FO ratio (threshold FO (c_cfg FO c))) eqn:Hge.
        * match type of H with context [if ?c then Ok (Break _ _) else _] => replace c with false in H by reflexivity end.
          cbn [bind lazy_hard_failure negb andb md_ratios early_stop app] in H.
          rewrite (law_mean_single FO FL) in H. rewrite Hge in H. cbn [orb] in H.
          injection H as <-. right. rewrite Hcf. exact Hge.
        * match type of H with context [if ?c then Ok (Break _ _) else _] => replace c with false in H by reflexivity end.
          cbn [bind lazy_hard_failure negb andb md_ratios early_stop app] in H.
          rewrite (law_mean_single FO FL) in H. rewrite Hge in H. cbn [orb] in H.
          match type of H with (if ?c then _ else _) = _ => replace c with false in H by reflexivity end. injection H as <-.
          cbn [new_match m_chaos m_text]. rewrite Hcf. auto.
  Qed.

  (* consequence: the same text gets the same chaos and the same accept / reject decision from any
     two encodings (apart from the 'ascii' rule), with or without BOM *)
  Corollary same_text_same_chaos c e1 e2 si1 si2 t m1 x1 v2 :
    covered c -> lazy_sb FO c e1 = false -> lazy_sb FO c e2 = false -> len t <= c_len FO c ->
    probe_rest FO R c e1 si1 (Some t) = Ok (Accept FO m1 x1) ->
    probe_rest FO R c e2 si2 (Some t) = Ok v2 ->
    is_invalid_chunk (Some t) e2 = false ->
    exists m2 x2, v2 = Accept FO m2 x2 /\ m_chaos FO m2 = m_chaos FO m1 /\ m_text FO m2 = m_text FO m1.
  Proof.
    intros Hc Hz1 Hz2 Hl H1 H2 Hi.
    pose proof (covered_verdict c e1 si1 t _ Hc Hz1 Hl H1) as (C1 & T1 & G1 & _).
    pose proof (covered_verdict c e2 si2 t _ Hc Hz2 Hl H2) as V2.
    destruct v2 as [| |fb|m2 x2]; try contradiction.
    - destruct V2 as [[_ V2]|V2]; congruence.
    - destruct V2 as (C2 & T2 & _). exists m2, x2. split; [reflexivity|]. split; congruence.
  Qed.
End Window.

Section WindowTop.
  Variable FO : FloatOps.
  Variable R : oracles FO.
  Hypothesis FL : FloatLaws FO.
  Hypothesis HD : forall e l t, sdecode FO R e l = Some t -> len t <= len l.

  Lemma make_ctx_covered b cfg inc exc :
    len b <= chunk_size FO cfg * steps FO cfg -> covered FO (make_ctx FO R b cfg inc exc).
  Proof.
    intro H. unfold covered, make_ctx. cbn [c_cfg c_len steps chunk_size].
    apply N.leb_le in H. rewrite H. split; reflexivity.
  Qed.

  (* the stand-alone verdict of any encoding on a covered, non-lazy input: chaos = chaos_fn(text) *)
  Theorem covered_probe_chaos b cfg inc exc e m x :
    len b <= chunk_size FO cfg * steps FO cfg -> len b <= TOO_BIG_SEQUENCE ->
    let c := make_ctx FO R b cfg inc exc in
    probe FO R c e = Ok (Accept FO m x) ->
    exists t, m_text FO m = Some t /\ m_chaos FO m = chaos_fn FO R t (threshold FO cfg)
              /\ fge FO (chaos_fn FO R t (threshold FO cfg)) (threshold FO cfg) = false.
  Proof.
    intros Hcov Hsmall c H. unfold probe in H. bind_inv H. destruct a as [[si dec]|]; [|discriminate].
    assert (Hlz : lazy_sb FO c e = false).
    { unfold lazy_sb, c. cbn [make_ctx c_lazy]. apply N.leb_le in Hsmall. rewrite N.ltb_antisym, Hsmall. reflexivity. }
    unfold probe_pre in E. bind_inv E. bind_inv E. rewrite Hlz in E.
    destruct (sdecode FO R e a0) as [t|] eqn:Hd; [|discriminate]. injection E as <- <-.
    assert (Hlen : len t <= c_len FO c).
    { apply HD in Hd. apply slice_ok in E1 as (H1 & H2 & ->). etransitivity; [exact Hd|].
      unfold c in *. cbn [make_ctx c_len c_bytes] in *. unfold len in *. rewrite firstn_length, skipn_length. lia. }
    pose proof (covered_verdict FO R FL c e a t _ (make_ctx_covered b cfg inc exc Hcov) Hlz Hlen H) as (C1 & T1 & G1 & _).
    exists t. auto.
  Qed.
End WindowTop.
