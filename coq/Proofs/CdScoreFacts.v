(* Scores in [0,1] through the coherence pipeline on binary32:
   - the mean of fewer than 2^24 scores in [0,1] is in [0,1] (integers up to 2^24 are exact in binary32);
   - hence cd::merge_coherence_ratios (Model/Cd.v) maps per-chunk lists with scores in [0,1] and pairwise
     distinct languages to a list with scores in [0,1]  (MergeOKon of CoherenceRefined.v). *)
From Coq Require Import List NArith ZArith String Bool Lia Reals Psatz Permutation.
From Flocq Require Import Core IEEE754.BinarySingleNaN.
From Model Require Import Base Flt F32 Matches Cd.
From Proofs Require Import FloatLaws F32Facts F32Laws JaroFacts DetectChaos.
Import ListNotations.
Open Scope N_scope.
Open Scope list_scope.

Local Notation Fin32 := (Fin 24 128).
Local Notation BR := (@B2R 24 128).
Local Notation rnd32 := (round radix2 (SpecFloat.fexp 24 128) ZnearestE).
Local Instance Vexp32'' : Valid_exp (SpecFloat.fexp 24 128) := fexp_correct 24 128 Hprec32.

Lemma P1_32 : (1 < 24)%Z. Proof. lia. Qed.
Lemma P2_32 : (70 < 128)%Z. Proof. lia. Qed.

(* integers up to 2^24 are binary32 numbers *)
Lemma int_exact32 (k : Z) : (0 <= k <= 2 ^ 24)%Z -> rnd32 (IZR k) = IZR k.
Proof.
  intros Hk. apply round_generic; [auto with typeclass_instances|].
  destruct (Z.eq_dec k (2 ^ 24)) as [->|Hne].
  - change (IZR (2 ^ 24)) with (bpow radix2 24). apply generic_format_bpow. cbn. lia.
  - replace (IZR k) with (F2R (Float radix2 k 0)) by (unfold F2R; cbn; lra).
    apply generic_format_F2R. intros Hnz. unfold cexp.
    assert (Hm : (mag radix2 (F2R (Float radix2 k 0)) <= 24)%Z).
    { apply mag_le_bpow; [apply F2R_neq_0; exact Hnz|].
      replace (F2R (Float radix2 k 0)) with (IZR k) by (unfold F2R; cbn; lra).
      rewrite Rabs_pos_eq by (apply IZR_le; lia). change (bpow radix2 24) with (IZR (2 ^ 24)). apply IZR_lt. lia. }
    unfold SpecFloat.fexp, SpecFloat.emin. cbn [Fexp]. lia.
Qed.

Definition unit32 (x : f32) : Prop := Fin32 x 1.

Lemma score_ok_unit32 (p : string * f32) : score_ok F32ops p -> unit32 (snd p).
Proof.
  destruct p as [l x]. intros ((Hn & Hg) & Hl). cbn [snd fisnan fle fzero fone F32ops] in *. unfold isnan32, le32 in *.
  destruct fone_is_one as (E1 & F1).
  assert (F : is_finite x = true).
  { destruct x as [s|s| |s m e H]; try reflexivity; try discriminate.
    exfalso. destruct s; [cbn in Hg; discriminate Hg|].
    change (of_bits32 1065353216) with (fone F32ops) in Hl.
    destruct (fone F32ops) as [s1|s1| |s1 m1 e1 H1]; cbn in Hl, F1; try discriminate; try (destruct s1; discriminate). }
  split; [exact F|].
  rewrite Bleb_correct in Hg by (reflexivity || exact F).
  change (of_bits32 1065353216) with (fone F32ops) in Hl. rewrite Bleb_correct in Hl by assumption.
  revert Hg; case Rle_bool_spec; [intros Hg _ | discriminate].
  revert Hl; case Rle_bool_spec; [intros Hl _ | discriminate]. cbn in Hg. rewrite E1 in Hl. lra.
Qed.

Lemma unit32_score_ok l (x : f32) : unit32 x -> score_ok F32ops (l, x).
Proof.
  intros (F & H0 & H1). destruct fone_is_one as (E1 & F1). unfold score_ok, good. cbn [snd fisnan fle fzero fone F32ops].
  unfold isnan32, le32. repeat split.
  - destruct x; try discriminate; reflexivity.
  - rewrite Bleb_correct by (reflexivity || exact F). apply Rle_bool_true. cbn. exact H0.
  - change (of_bits32 1065353216) with (fone F32ops). rewrite Bleb_correct by assumption. apply Rle_bool_true. rewrite E1. exact H1.
Qed.

Lemma sum_bound l : forall (acc : f32) (k : Z),
  (0 <= k)%Z -> Fin32 acc (IZR k) -> Forall unit32 l -> (k + Z.of_nat (List.length l) <= 2 ^ 24)%Z ->
  Fin32 (fold_left add32 l acc) (IZR (k + Z.of_nat (List.length l))).
Proof.
  induction l as [|x l IH]; intros acc k Hk Ha Hl Hb; cbn [fold_left List.length].
  - rewrite Z.add_0_r. exact Ha.
  - inversion Hl as [|? ? Hx Hl']; subst. cbn [List.length] in Hb.
    replace (k + Z.of_nat (S (List.length l)))%Z with ((k + 1) + Z.of_nat (List.length l))%Z by lia.
    apply IH; [lia | | exact Hl' | lia].
    pose proof (gadd_le 24 128 Hprec32 Hemax32 P1_32 P2_32 acc x (IZR k) 1 Ha Hx) as H.
    change (gadd 24 128 Hprec32 Hemax32 acc x) with (add32 acc x) in H.
    replace (IZR k + 1)%R with (IZR (k + 1)) in H by (rewrite plus_IZR; reflexivity).
    rewrite int_exact32 in H by lia. apply H.
    replace (IZR k + 1)%R with (IZR (k + 1)) by (rewrite plus_IZR; reflexivity).
    change (bpow radix2 64) with (IZR (2 ^ 64)). apply IZR_le. lia.
Qed.

Theorem mean_unit32 (l : list f32) :
  l <> [] -> (Z.of_nat (List.length l) <= 2 ^ 24)%Z -> Forall unit32 l -> unit32 (fmean F32ops l).
Proof.
  intros Hne Hlen Hl. unfold fmean, fsum. cbn [fdiv fadd f_of_N fnegzero F32ops].
  assert (H0 : Fin32 (B754_zero true) (IZR 0)) by (split; [reflexivity | cbn; lra]).
  pose proof (sum_bound l (B754_zero true) 0 (Z.le_refl 0) H0 Hl) as Hs. rewrite Z.add_0_l in Hs. specialize (Hs Hlen).
  destruct Hs as (Fs & Hs0 & Hs1).
  set (n := N.of_nat (List.length l)).
  assert (Hn1 : 1 <= n) by (destruct l; [congruence | subst n; cbn [List.length]; lia]).
  assert (Hn2 : n < 2 ^ 64) by (subst n; change (2 ^ 64) with 18446744073709551616; lia).
  change (of_N32 n) with (ofN 24 128 Hprec32 Hemax32 n).
  destruct (ofN_spec 24 128 Hprec32 Hemax32 P1_32 P2_32 n Hn2) as (Fn & En).
  assert (En' : BR (ofN 24 128 Hprec32 Hemax32 n) = IZR (Z.of_nat (List.length l))).
  { rewrite En. subst n. rewrite nat_N_Z. apply int_exact32. lia. }
  change (div32 ?a ?b) with (gdiv 24 128 Hprec32 Hemax32 a b).
  apply gdiv_le_one; [exact P1_32 | exact P2_32 | exact Fs | exact Fn | |].
  - change (of_N32 (N.of_nat (List.length l))) with (ofN 24 128 Hprec32 Hemax32 n). rewrite En'. split; assumption.
  - change (of_N32 (N.of_nat (List.length l))) with (ofN 24 128 Hprec32 Hemax32 n). rewrite En'. apply IZR_lt. destruct l; [congruence | cbn [List.length]; lia].
Qed.

(* ---------------------------------------------------------------- merge_coherence_ratios *)
Section MergeModel.
  Notation FO := F32ops.
  Notation cohlist := (list (string * f32)).

  Definition count_key (L : string) (l : cohlist) : N := len (filter (fun e => String.eqb (fst e) L) l).

  Lemma count_key_app L l1 l2 : count_key L (l1 ++ l2) = count_key L l1 + count_key L l2.
  Proof. unfold count_key, len. rewrite filter_app, app_length. lia. Qed.

  Lemma filter_key_absent L (r : cohlist) : ~ In L (map fst r) -> filter (fun e : string * f32 => String.eqb (fst e) L) r = [].
  Proof.
    induction r as [|[k s] r IH]; intro Hn; [reflexivity|]. cbn [filter fst].
    destruct (String.eqb k L) eqn:E.
    - exfalso. apply String.eqb_eq in E. subst k. apply Hn. left. reflexivity.
    - apply IH. intro Hin. apply Hn. right. exact Hin.
  Qed.

  Lemma count_key_nodup L (l : cohlist) : NoDup (map fst l) -> count_key L l <= 1.
  Proof.
    induction l as [|[k s] r IH]; intro Hn; [unfold count_key, len; cbn; lia|].
    inversion Hn as [|? ? Hnot Hr]; subst. specialize (IH Hr).
    unfold count_key in *. cbn [filter fst]. destruct (String.eqb k L) eqn:E; [|exact IH].
    apply String.eqb_eq in E. subst k. rewrite (filter_key_absent L r Hnot). unfold len. cbn. lia.
  Qed.

  Lemma count_key_concat L (ls : list cohlist) :
    Forall (fun l => NoDup (map fst l)) ls -> count_key L (List.concat ls) <= len ls.
  Proof.
    induction ls as [|l r IH]; intro H; cbn [List.concat]; [unfold count_key, len; cbn; lia|].
    inversion H as [|? ? Hl Hr]; subst. rewrite count_key_app. specialize (IH Hr). pose proof (count_key_nodup L l Hl).
    unfold len in *. cbn [List.length]. lia.
  Qed.

  Definition idx_inv (P : f32 -> Prop) (idx : list (string * list f32)) (seen : cohlist) : Prop :=
    forall L ss, In (L, ss) idx -> ss <> [] /\ Forall P ss /\ len ss <= count_key L seen.

  Lemma mi_add_inv P x idx seen : idx_inv P idx seen -> P (snd x) -> idx_inv P (mi_add FO x idx) (seen ++ [x]).
  Proof.
    intros HI Hx. revert HI. induction idx as [|[l ss] r IH]; intros HI L ss' Hin; cbn [mi_add] in Hin.
    - cbn [In] in Hin. destruct Hin as [Heq|[]]. inversion Heq; subst. split; [discriminate|]. split; [constructor; [exact Hx|constructor]|].
      rewrite count_key_app. unfold count_key at 2. cbn [filter]. rewrite String.eqb_refl. unfold len. cbn. lia.
    - change (F F32ops) with f32 in *. destruct (String.eqb l (fst x)) eqn:E; cbn [In] in Hin.
      + destruct Hin as [Heq|Hin].
        * inversion Heq; subst. destruct (HI L ss (or_introl eq_refl)) as (H1 & H2 & H3).
          split; [destruct ss; discriminate|]. split; [apply Forall_app; split; [exact H2 | constructor; [exact Hx | constructor]]|].
          rewrite count_key_app. unfold count_key at 2. cbn [filter]. apply String.eqb_eq in E. rewrite <- E, String.eqb_refl.
          unfold len in *. rewrite app_length. cbn. lia.
        * destruct (HI L ss' (or_intror Hin)) as (H1 & H2 & H3). split; [exact H1|]. split; [exact H2|].
          rewrite count_key_app. lia.
      + destruct Hin as [Heq|Hin].
        * inversion Heq; subst. destruct (HI L ss' (or_introl eq_refl)) as (H1 & H2 & H3). split; [exact H1|]. split; [exact H2|].
          rewrite count_key_app. lia.
        * apply IH; [|exact Hin]. intros L0 ss0 H0. apply HI. right. exact H0.
  Qed.

  Lemma merge_index_inv P (entries : cohlist) : forall idx seen,
    idx_inv P idx seen -> Forall (fun e => P (snd e)) entries ->
    idx_inv P (fold_left (fun idx x => mi_add FO x idx) entries idx) (seen ++ entries).
  Proof.
    induction entries as [|x r IH]; intros idx seen HI Hall; cbn [fold_left]; [rewrite app_nil_r; exact HI|].
    inversion Hall as [|? ? Hx Hr]; subst.
    replace (seen ++ x :: r) with ((seen ++ [x]) ++ r) by (rewrite <- app_assoc; reflexivity).
    apply IH; [apply mi_add_inv; assumption | exact Hr].
  Qed.

  Lemma Forall_isort {A} (P : A -> Prop) lt (l : list A) : Forall P l -> Forall P (isort lt l).
  Proof. intro H. apply Forall_forall. intros x Hx. apply SortFacts.isort_In in Hx. rewrite Forall_forall in H. auto. Qed.

  (* MergeOKon of CoherenceRefined.v holds of the merge model *)
  Theorem merge_model_scores (ls : list cohlist) :
    Forall (fun l => Forall (score_ok FO) l /\ NoDup (map fst l)) ls -> len ls < 2 ^ 24 ->
    Forall (score_ok FO) (merge_coherence_ratios FO ls).
  Proof.
    intros Hls Hlen. unfold merge_coherence_ratios, sort_desc. apply Forall_isort.
    assert (Hent : Forall (fun e => unit32 (snd e)) (List.concat ls)).
    { apply Forall_forall. intros e He. apply in_concat in He as (l & Hl & He). rewrite Forall_forall in Hls.
      destruct (Hls _ Hl) as (Hs & _). rewrite Forall_forall in Hs. apply score_ok_unit32. auto. }
    assert (HI : idx_inv unit32 (merge_index FO ls) (List.concat ls)).
    { unfold merge_index. apply (merge_index_inv unit32 (List.concat ls) [] []); [intros L ss []|exact Hent]. }
    assert (Hnd : Forall (fun l : cohlist => NoDup (map fst l)) ls).
    { apply Forall_forall. intros l Hl. rewrite Forall_forall in Hls. apply (Hls _ Hl). }
    apply Forall_forall. intros [L m] Hin. apply in_map_iff in Hin as ([L' ss] & Heq & Hin). inversion Heq; subst.
    destruct (HI _ _ Hin) as (H1 & H2 & H3). apply unit32_score_ok. apply mean_unit32; [exact H1 | | exact H2].
    pose proof (count_key_concat L ls Hnd) as Hc. unfold len in *.
    assert (2 ^ 24 = 16777216) by reflexivity. lia.
  Qed.
End MergeModel.

(* ---------------------------------------------------------------- coherence_ratio *)
Section CoherenceModel.
  Notation FO := F32ops.
  Variable C : cd_oracles FO.
  (* every popularity score is a unit score (proved of the Jaro model in JaroFacts.v) *)
  Hypothesis PopOK : forall L chars s, popularity FO C L chars = Some s -> unit32 s.

  Notation P := (fun e : string * f32 => unit32 (snd e)).

  Lemma lang_loop_unit thr popular : forall langs st st',
    Forall P (fst st) -> lang_loop FO C thr popular langs st = Some st' -> Forall P (fst st').
  Proof.
    induction langs as [|l r IH]; intros st st' Hst H; cbn [lang_loop] in H; [inversion H; subst; exact Hst|].
    destruct (popularity FO C l popular) as [ratio|] eqn:Ep; [|discriminate].
    assert (Hres : Forall P (if fge FO ratio thr then fst st ++ [(l, ratio)] else fst st)).
    { destruct (fge FO ratio thr); [|exact Hst]. apply Forall_app. split; [exact Hst|].
      constructor; [cbn [snd]; eapply PopOK; exact Ep | constructor]. }
    match type of H with (if ?c then _ else _) = _ => destruct c end.
    - inversion H; subst. exact Hres.
    - eapply IH; [|exact H]. exact Hres.
  Qed.

  Lemma layer_loop_unit thr include inl : forall ls st st',
    Forall P (fst st) -> layer_loop FO C thr include inl ls st = Some st' -> Forall P (fst st').
  Proof.
    induction ls as [|layer r IH]; intros st st' Hst H; cbn [layer_loop] in H; [inversion H; subst; exact Hst|].
    match type of H with (if ?c then _ else _) = _ => destruct c end; [eapply IH; eauto|].
    match type of H with match ?x with _ => _ end = _ => destruct x as [st1|] eqn:El end; [|discriminate].
    eapply IH; [|exact H]. eapply lang_loop_unit; [exact Hst | exact El].
  Qed.

  Lemma zero_unit32 : unit32 (fzero FO).
  Proof. split; [reflexivity | cbn; lra]. Qed.

  Lemma omax_unit a b : unit32 a -> unit32 b -> unit32 (omax FO a b).
  Proof. intros Ha Hb. unfold omax. destruct (ocmp FO a b); assumption. Qed.

  Lemma fa_add_unit x idx : P x -> Forall P idx -> Forall P (fa_add FO x idx).
  Proof.
    intros Hx. induction idx as [|[l s] r IH]; intro Hi; cbn [fa_add].
    - constructor; [cbn [snd]; apply omax_unit; [exact Hx | exact zero_unit32] | constructor].
    - inversion Hi as [|? ? Hs Hr]; subst. match goal with |- context [if ?c then _ else _] => destruct c end.
      + constructor; [cbn [snd] in *; apply omax_unit; assumption | exact Hr].
      + constructor; [exact Hs | apply IH; exact Hr].
  Qed.

  Lemma fold_fa_unit l : forall idx, Forall P idx -> Forall P l -> Forall P (fold_left (fun idx x => fa_add FO x idx) l idx).
  Proof.
    induction l as [|x l IH]; intros idx Hi Hl; cbn [fold_left]; [exact Hi|].
    inversion Hl; subst. apply IH; [apply fa_add_unit; assumption | assumption].
  Qed.

  Lemma filter_alt_unit l : Forall P l -> Forall P (filter_alt FO l).
  Proof. intro H. unfold filter_alt. apply fold_fa_unit; [constructor | exact H]. Qed.

  Theorem coherence_model_scores t thr include l :
    coherence_ratio FO C t thr include = Some l -> Forall (score_ok FO) l.
  Proof.
    unfold coherence_ratio. intro H.
    match type of H with match ?x with _ => _ end = _ => destruct x as [[res n]|] eqn:El end; [|discriminate].
    inversion H; subst. unfold sort_desc.
    assert (Hu : Forall P (isort (score_before FO) (filter_alt FO res))).
    { apply Forall_isort. apply filter_alt_unit.
      pose proof (layer_loop_unit _ _ _ _ ([], 0) _ (Forall_nil _) El) as Hx. exact Hx. }
    apply Forall_forall. intros [L s] Hin. rewrite Forall_forall in Hu. apply unit32_score_ok. exact (Hu _ Hin).
  Qed.
End CoherenceModel.
