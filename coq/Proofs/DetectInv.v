(* A generic invariant of the encoding loop: if every match carried by an accepting verdict
   satisfies PA and every fall-back entry carried by a soft failure satisfies PF (both predicates
   on the fields other than the submatch list), then the result of from_bytes is either a list
   of matches that satisfy PA together with all their submatches, or a single fall-back entry
   satisfying PF -- and the latter only when no encoding was accepted.
   C04, C05, C07 and parts of C10 are instances. *)
From Coq Require Import List NArith String Bool Lia Permutation.
From Gen Require Import Tables.
From Model Require Import Base Names Flt Matches Detect.
From Proofs Require Import SortFacts NamesFacts OrderFacts DetectFacts.
Import ListNotations.
Open Scope N_scope.
Open Scope list_scope.

Section Generic.
  Variable FO : FloatOps.
  Variable R : oracles FO.
  Notation cmatch := (cmatch FO).
  Variable c : ctx FO.
  Variables PA PF : cmatch -> Prop.
  Hypothesis PA_add : forall m item, PA m -> PA (add_submatch FO m item).

  Definition PM (m : cmatch) : Prop := PA m /\ Forall PA (m_sub FO m).
  Definition PFM (m : cmatch) : Prop := PF m /\ m_sub FO m = [].

  (* the verdicts of encodings that pass the gates carry good matches *)
  Definition VerdictOK : Prop :=
    forall e si dec v,
      In e IANA_SUPPORTED ->
      gate_filtered FO c e = false -> gate_utf16 FO c e = false ->
      probe_pre FO R c e = Ok (Some (si, dec)) -> probe_rest FO R c e si dec = Ok v ->
      match v with
      | Accept _ m _ => PM m
      | SoftFail _ (Some fb) => PFM fb
      | _ => True
      end.
  Hypothesis HV : VerdictOK.

  Definition OptF (o : option cmatch) : Prop := match o with Some m => PFM m | None => True end.
  Record InvG (s : loop_state FO) : Prop := {
    g_results : Forall PM (results FO s);
    g_a : OptF (fb_ascii FO s);
    g_u : OptF (fb_u8 FO s);
    g_s : OptF (fb_specified FO s);
  }.

  Lemma add_submatch_PM m item : PM m -> PM item -> PM (add_submatch FO m item).
  Proof.
    intros [Hm Hs] [Hi _]. destruct (add_submatch_fields FO m item) as (_ & _ & _ & _ & _ & _ & F7).
    split; [apply PA_add; exact Hm|]. rewrite F7. apply Forall_app. split; [exact Hs|]. constructor; [exact Hi|constructor].
  Qed.

  Lemma append_PM items item : Forall PM items -> PM item -> Forall PM (append FO items item).
  Proof.
    intros Hi Hn. apply Forall_forall. intros x Hx. rewrite Forall_forall in Hi.
    apply append_In in Hx as [Hx|[->|(m & Hm & -> & _)]]; auto. apply add_submatch_PM; auto.
  Qed.

  Lemma apply_verdict_G s e v out :
    InvG s ->
    match v with Accept _ m _ => PM m | SoftFail _ (Some fb) => PFM fb | _ => True end ->
    apply_verdict FO c s e v = Ok out ->
    match out with Next _ s' => InvG s' | Return _ r => Forall PM r /\ r <> [] end.
  Proof.
    intros [I1 I2 I3 I4] Hv H. destruct v as [| |fb|m ex]; cbn [apply_verdict] in H.
    - inversion H; subst. constructor; assumption.
    - inversion H; subst. constructor; assumption.
    - inversion H; subst. destruct fb as [entry|].
      + unfold set_fallback, set_soft.
        destruct (String.eqb e (c_specified FO c)); [|destruct (String.eqb e "ascii")];
          constructor; cbn; assumption.
      + unfold set_soft. constructor; cbn; assumption.
    - pose proof (append_PM _ _ I1 Hv) as Ha. destruct ex.
      + destruct (get_by_encoding FO (append FO (results FO s) m) e) as [found|] eqn:Hg; [|discriminate].
        inversion H; subst. unfold from_single. split; [|discriminate]. constructor; [|constructor].
        apply get_by_encoding_In in Hg. rewrite Forall_forall in Ha. apply Ha; exact Hg.
      + inversion H; subst. unfold set_results. constructor; cbn; assumption.
  Qed.

  Lemma loop_body_G s e out :
    In e IANA_SUPPORTED ->
    InvG s -> loop_body FO R c s e = Ok out ->
    match out with Next _ s' => InvG s' | Return _ r => Forall PM r /\ r <> [] end.
  Proof.
    intros HE HI H. unfold loop_body in H.
    destruct (gate_filtered FO c e) eqn:G1; [inversion H; subst; exact HI|].
    destruct (gate_utf16 FO c e) eqn:G2; [inversion H; subst; exact HI|].
    bind_inv H. destruct a as [[si dec]|]; [|inversion H; subst; exact HI].
    destruct (gate_similar (soft_failed FO s) e); [inversion H; subst; exact HI|].
    bind_inv H. eapply apply_verdict_G; [exact HI| |exact H].
    exact (HV e si dec a HE G1 G2 E E0).
  Qed.

  Lemma main_loop_G encs : forall s out,
    (forall e, In e encs -> In e IANA_SUPPORTED) ->
    InvG s -> main_loop FO R c s encs = Ok out ->
    match out with Next _ s' => InvG s' | Return _ r => Forall PM r /\ r <> [] end.
  Proof.
    induction encs as [|e encs IH]; intros s out HE HI H; cbn [main_loop] in H.
    - inversion H; subst. exact HI.
    - bind_inv H. pose proof (loop_body_G _ _ _ (HE e (or_introl eq_refl)) HI E) as Hb. destruct a as [s'|r].
      + eapply IH; eauto. intros e' He'. apply HE. right; exact He'.
      + inversion H; subst. exact Hb.
  Qed.

  Lemma choose_fallback_G s m : InvG s -> choose_fallback FO s = Some m -> PFM m.
  Proof.
    intros [_ I2 I3 I4]. unfold choose_fallback.
    destruct (fb_specified FO s) as [sp|]; [intro H; inversion H; subst; exact I4|].
    destruct (fb_u8 FO s) as [u|], (fb_ascii FO s) as [a|]; intro H.
    - destruct (negb _); inversion H; subst; assumption.
    - inversion H; subst; assumption.
    - inversion H; subst; assumption.
    - discriminate.
  Qed.
End Generic.

Lemma append_nil FO (m : cmatch FO) : append FO [] m = [m].
Proof. unfold append. cbn. destruct (_ <=? _); reflexivity. Qed.

(* the shape of every result of from_bytes on a non-empty input *)
Inductive shape {FO} (PA PF : cmatch FO -> Prop) (r : list (cmatch FO)) : Prop :=
| shape_regular : r <> [] -> Forall (PM FO PA) r -> shape PA PF r
| shape_fallback fb : r = [fb] -> PFM FO PF fb -> shape PA PF r
| shape_empty : r = [] -> shape PA PF r.

Theorem from_bytes_shape FO (R : oracles FO) (PA PF : ctx FO -> cmatch FO -> Prop) :
  (forall c m item, PA c m -> PA c (add_submatch FO m item)) ->
  (forall c, VerdictOK FO R c (PA c) (PF c)) ->
  forall b cfg r, b <> [] -> from_bytes FO R b cfg = Ok r ->
  exists inc exc,
    canon_list "included " " is not a valid encoding name" (include_encodings FO cfg) = Ok inc
    /\ canon_list "excluded encoding " " is not a valid encoding name" (exclude_encodings FO cfg) = Ok exc
    /\ shape (PA (make_ctx FO R b cfg inc exc)) (PF (make_ctx FO R b cfg inc exc)) r.
Proof.
  intros Hadd HV b cfg r Hb H. unfold from_bytes in H. bind_inv H. bind_inv H.
  exists a, a0. split; [reflexivity|]. split; [reflexivity|].
  destruct b as [|x b'] eqn:Eb; [contradiction|]. rewrite <- Eb in *.
  set (c := make_ctx FO R b cfg a a0) in *. bind_inv H.
  assert (HI : InvG FO (PA c) (PF c) (init_state FO)) by (constructor; cbn; auto).
  pose proof (main_loop_G FO R c (PA c) (PF c) (Hadd c) (HV c) _ _ _ (order_supported _) HI E1) as Hm.
  destruct a1 as [s|r0].
  - destruct (results FO s) as [|m0 rs] eqn:Hr.
    + destruct (choose_fallback FO s) as [fb|] eqn:Hf; inversion H; subst.
      * eapply shape_fallback; [apply append_nil|]. eapply (choose_fallback_G FO); [exact Hm | exact Hf].
      * apply shape_empty; reflexivity.
    + inversion H; subst. apply shape_regular; [discriminate|]. rewrite <- Hr. apply (g_results _ _ _ _ Hm).
  - inversion H; subst. destruct Hm. apply shape_regular; assumption.
Qed.
