(* C02 (modelled part): from_bytes never panics for steps >= 1 and returns an error only for an
   unknown name in the include / exclude lists.  The Res monad makes every slice, division,
   `expect` and `?` of the real code a checked operation of the model, so this is a real
   obligation: slice bounds, divisors and the three internal `ok_or_else` / `?` sites. *)
From Coq Require Import List NArith String Bool Lia.
From Gen Require Import Tables.
From Model Require Import Base Names Flt Matches Detect.
From Proofs Require Import SortFacts NamesFacts OrderFacts DetectFacts DetectSound.
Import ListNotations.
Open Scope N_scope.
Open Scope list_scope.

Opaque iana_name identify_sig is_multi_byte is_cp_similar.

(* a result that is neither a panic nor an error *)
Definition fine {A} (r : res A) : Prop := exists a, r = Ok a.

Lemma slice_fine {A} s (l : list A) a b : a <= b -> b <= len l -> fine (slice s l a b).
Proof.
  intros H1 H2. unfold slice. apply N.leb_le in H1, H2. rewrite H1, H2. eexists; reflexivity.
Qed.

Lemma starts_with_len l p : starts_with l p = true -> len p <= len l.
Proof.
  revert l; induction p as [|x p IH]; intros l H; unfold len in *; cbn [List.length]; [lia|].
  destruct l as [|y l]; cbn [starts_with] in H; [discriminate|].
  apply andb_true_iff in H as [_ H]. specialize (IH _ H). cbn [List.length]. lia.
Qed.

Lemma offsets_from_bounds fuel a b s o : In o (offsets_from fuel a b s) -> a <= o /\ o < b.
Proof.
  revert a; induction fuel as [|f IH]; intros a H; cbn [offsets_from] in H; [destruct H|].
  destruct (a <? b) eqn:E; [|destruct H]. apply N.ltb_lt in E.
  destruct H as [<-|H]; [lia|]. apply IH in H. lia.
Qed.

Lemma offsets_bounds a b s o : In o (offsets a b s) -> a <= o /\ o < b.
Proof. apply offsets_from_bounds. Qed.

Section Total.
  Variable FO : FloatOps.
  Variable R : oracles FO.
  Notation cmatch := (cmatch FO).

  Variable b : bytes.
  Variable c : ctx FO.
  Hypothesis HC : CtxOf FO b c.
  Hypothesis Hsteps : 1 <= steps FO (c_cfg FO c).

  Lemma lazy_len : lazy b = true -> MAX_PROCESSED_BYTES <= len b.
  Proof.
    unfold lazy. intro H. apply N.ltb_lt in H. pose proof sizes_ordered as S. apply N.leb_le in S. lia.
  Qed.

  Lemma probe_pre_fine e : fine (probe_pre FO R c e).
  Proof.
    unfold probe_pre. rewrite (co_bytes FO b c HC), (co_len FO b c HC).
    destruct (is_bom FO c e) eqn:Hb.
    - destruct (is_bom_true FO b c HC e Hb) as [m Hm]. rewrite (co_sig FO b c HC), Hm. cbn [bind].
      assert (Hl : lazy_sb FO c e = false).
      { destruct (lazy_sb FO c e) eqn:Hl; [|reflexivity].
        rewrite (lazy_sb_not_bom FO b c HC e Hl) in Hb. discriminate. }
      rewrite Hl. apply identify_sig_some in Hm as [_ Hs]. apply starts_with_len in Hs.
      destruct (slice_fine "pre-check slice" b (len m) (len b) Hs (N.le_refl _)) as [x ->]. cbn [bind].
      eexists; reflexivity.
    - cbn [bind]. destruct (lazy_sb FO c e) eqn:Hl.
      + assert (Hz : lazy b = true).
        { unfold lazy_sb in Hl. rewrite (co_lazy FO b c HC) in Hl. apply andb_true_iff in Hl. tauto. }
        destruct (slice_fine "pre-check slice" b 0 MAX_PROCESSED_BYTES (N.le_0_l _) (lazy_len Hz)) as [x ->].
        cbn [bind]. eexists; reflexivity.
      + destruct (slice_fine "pre-check slice" b 0 (len b) (N.le_0_l _) (N.le_refl _)) as [x ->].
        cbn [bind]. eexists; reflexivity.
  Qed.

  Lemma chunk_loop_fine e dec mg offs : forall st,
    (dec = None -> Forall (fun o => o < len b) offs) ->
    fine (chunk_loop FO R (c_cfg FO c) b e dec (match dec with Some t => len t | None => len b end) mg st offs).
  Proof.
    induction offs as [|o offs IH]; intros st Hb; cbn [chunk_loop]; [eexists; reflexivity|].
    assert (Hstep : fine (chunk_step FO R (c_cfg FO c) b e dec (match dec with Some t => len t | None => len b end) mg st o)).
    { unfold chunk_step. destruct dec as [t|].
      - cbn [bind]. destruct (is_invalid_chunk _ e); [eexists; reflexivity|].
        destruct (mg <=? _); eexists; reflexivity.
      - assert (Ho : o < len b) by (specialize (Hb eq_refl); inversion Hb; assumption).
        destruct (slice_fine "chunk slice" b o (N.min (o + chunk_size FO (c_cfg FO c)) (len b)) ltac:(lia) ltac:(lia)) as [x ->].
        cbn [bind]. destruct (is_invalid_chunk (sdecode FO R e x) e) eqn:Hi; [eexists; reflexivity|].
        destruct (sdecode FO R e x) as [chunk|]; [|discriminate].
        destruct (mg <=? _); eexists; reflexivity. }
    destruct Hstep as [f ->]. cbn [bind]. destruct f as [st'|st']; [|eexists; reflexivity].
    apply IH. intro Hd. specialize (Hb Hd). inversion Hb; assumption.
  Qed.

  Lemma probe_rest_fine e si dec :
    probe_pre FO R c e = Ok (Some (si, dec)) -> fine (probe_rest FO R c e si dec).
  Proof.
    intro Hp. unfold probe_rest. cbn [udiv N.eqb bind].
    unfold udiv. destruct (steps FO (c_cfg FO c) =? 0) eqn:Hz; [apply N.eqb_eq in Hz; lia|]. cbn [bind].
    rewrite (co_bytes FO b c HC), (co_len FO b c HC).
    match goal with |- context [chunk_loop FO R ?cfg b e dec ?sl ?mg ?st ?offs] =>
      destruct (chunk_loop_fine e dec mg offs st) as [st' Hst] end.
    { intros ->. apply Forall_forall. intros o Ho. apply offsets_bounds in Ho. lia. }
    rewrite Hst. cbn [bind].
    assert (Hrem : fine (if negb (lazy_hard_failure FO st') && lazy_sb FO c e
                         then tail <- slice "remainder slice" b MAX_PROCESSED_BYTES (len b) ;;
                              Ok (negb (is_invalid_chunk (sdecode FO R e tail) e))
                         else Ok true)).
    { destruct (negb (lazy_hard_failure FO st') && lazy_sb FO c e) eqn:Hc; [|eexists; reflexivity].
      apply andb_true_iff in Hc as [_ Hl]. unfold lazy_sb in Hl. rewrite (co_lazy FO b c HC) in Hl.
      apply andb_true_iff in Hl as [Hl _].
      destruct (slice_fine "remainder slice" b MAX_PROCESSED_BYTES (len b) (lazy_len Hl) (N.le_refl _)) as [x ->].
      cbn [bind]. eexists; reflexivity. }
    destruct Hrem as [ok ->]. cbn [bind]. destruct (negb ok); [eexists; reflexivity|].
    match goal with |- fine (if ?x then _ else _) => destruct x end; eexists; reflexivity.
  Qed.

  (* the early-exit lookup always finds the entry just appended *)
  Lemma merge_into_suitable items item l :
    merge_into FO items item = Some l -> exists x, In x l /\ In (m_enc FO item) (suitable_encodings FO x).
  Proof.
    intro H. apply merge_into_spec in H as (l1 & m & l2 & -> & -> & _).
    exists (add_submatch FO m item). split; [apply in_or_app; right; left; reflexivity|].
    destruct (add_submatch_fields FO m item) as (_ & _ & _ & _ & _ & _ & F7).
    unfold suitable_encodings. rewrite F7, map_app. right. apply in_or_app. right. left. reflexivity.
  Qed.

  Lemma append_suitable items item :
    exists x, In x (append FO items item) /\ In (m_enc FO item) (suitable_encodings FO x).
  Proof.
    unfold append.
    assert (Hp : exists x, In x (resort FO (items ++ [item])) /\ In (m_enc FO item) (suitable_encodings FO x)).
    { exists item. split; [apply isort_In, in_or_app; right; left; reflexivity | left; reflexivity]. }
    destruct (len (m_payload FO item) <=? TOO_BIG_SEQUENCE); [|exact Hp].
    destruct (merge_into FO items item) as [l|] eqn:Hm; [|exact Hp].
    eapply merge_into_suitable; eauto.
  Qed.

  Lemma get_by_encoding_finds items e :
    iana_name e = Some e -> (exists x, In x items /\ In e (suitable_encodings FO x)) ->
    exists found, get_by_encoding FO items e = Some found.
  Proof.
    intros Hn (x & Hx & He). unfold get_by_encoding. rewrite Hn.
    destruct (find (fun i => mem e (suitable_encodings FO i)) items) as [f|] eqn:Hf; [eauto|].
    exfalso. eapply find_none in Hf; [|exact Hx]. cbn beta in Hf. apply mem_In in He. congruence.
  Qed.

  Lemma loop_body_fine s e : In e IANA_SUPPORTED -> fine (loop_body FO R c s e).
  Proof.
    intro HE. unfold loop_body.
    destruct (gate_filtered FO c e); [eexists; reflexivity|].
    destruct (gate_utf16 FO c e); [eexists; reflexivity|].
    destruct (probe_pre_fine e) as [p Hp]. rewrite Hp. cbn [bind].
    destruct p as [[si dec]|]; [|eexists; reflexivity].
    destruct (gate_similar (soft_failed FO s) e); [eexists; reflexivity|].
    destruct (probe_rest_fine e si dec Hp) as [v Hv]. rewrite Hv. cbn [bind].
    destruct v as [| |fb|m ex]; cbn [apply_verdict]; try (eexists; reflexivity).
    destruct ex; [|eexists; reflexivity].
    assert (He : m_enc FO m = e).
    { apply probe_rest_accept in Hv as [(mean & merged & ->) _]. reflexivity. }
    destruct (get_by_encoding_finds (append FO (results FO s) m) e (iana_name_supported e HE)) as [found ->].
    - rewrite <- He. apply append_suitable.
    - eexists; reflexivity.
  Qed.

  Lemma main_loop_fine encs : forall s, (forall e, In e encs -> In e IANA_SUPPORTED) -> fine (main_loop FO R c s encs).
  Proof.
    induction encs as [|e encs IH]; intros s HE; cbn [main_loop]; [eexists; reflexivity|].
    destruct (loop_body_fine s e (HE e (or_introl eq_refl))) as [o ->]. cbn [bind].
    destruct o as [s'|r]; [|eexists; reflexivity]. apply IH. intros e' He'. apply HE. right; exact He'.
  Qed.
End Total.

Section TotalTop.
  Variable FO : FloatOps.
  Variable R : oracles FO.

  Lemma make_ctx_steps b cfg inc exc : 1 <= steps FO cfg -> 1 <= steps FO (c_cfg FO (make_ctx FO R b cfg inc exc)).
  Proof. intro H. cbn [make_ctx c_cfg steps]. destruct (len b <=? _); lia. Qed.

  Lemma canon_list_not_panic pre post l s : canon_list pre post l <> Panic s.
  Proof.
    induction l as [|x l IH]; cbn [canon_list]; [discriminate|].
    destruct (iana_name x); [|discriminate]. destruct (canon_list pre post l); cbn [bind]; try discriminate. congruence.
  Qed.

  (* detection never panics for steps >= 1, on any input and any oracle behaviour *)
  Theorem from_bytes_no_panic b cfg : 1 <= steps FO cfg -> forall s, from_bytes FO R b cfg <> Panic s.
  Proof.
    intros Hs s. unfold from_bytes.
    destruct (canon_list _ _ (include_encodings FO cfg)) as [inc|m|p] eqn:Hi; cbn [bind]; try discriminate.
    2: { exfalso. eapply canon_list_not_panic; eauto. }
    destruct (canon_list _ _ (exclude_encodings FO cfg)) as [exc|m|p] eqn:He; cbn [bind]; try discriminate.
    2: { exfalso. eapply canon_list_not_panic; eauto. }
    destruct b as [|x b'] eqn:Eb; [discriminate|]. rewrite <- Eb.
    destruct (main_loop_fine FO R b (make_ctx FO R b cfg inc exc) (make_ctx_of FO R b cfg inc exc)
                (make_ctx_steps b cfg inc exc Hs) (prioritize (c_prio FO (make_ctx FO R b cfg inc exc)) IANA_SUPPORTED)
                (init_state FO) (order_supported _)) as [o ->].
    cbn [bind]. destruct o as [st|r]; [|discriminate].
    destruct (results FO st); [destruct (choose_fallback FO st)|]; discriminate.
  Qed.

  (* the only error is an unknown name in the include / exclude lists *)
  Theorem from_bytes_errors b cfg msg :
    1 <= steps FO cfg -> from_bytes FO R b cfg = Err msg ->
    (exists y, In y (include_encodings FO cfg) /\ iana_name y = None
               /\ msg = ("included " ++ y ++ " is not a valid encoding name")%string)
    \/ (exists y, In y (exclude_encodings FO cfg) /\ iana_name y = None
                  /\ msg = ("excluded encoding " ++ y ++ " is not a valid encoding name")%string).
  Proof.
    intros Hs H. unfold from_bytes in H.
    assert (Hcl : forall pre post l m, canon_list pre post l = Err m ->
                  exists y, In y l /\ iana_name y = None /\ m = (pre ++ y ++ post)%string).
    { intros pre post l. induction l as [|x l IH]; intros m Hm; cbn [canon_list] in Hm; [discriminate|].
      destruct (iana_name x) eqn:Hx.
      - destruct (canon_list pre post l) eqn:Hl; cbn [bind] in Hm; try discriminate.
        injection Hm as <-. destruct (IH _ eq_refl) as (y & Hy & Hn & ->). exists y. split; [right; exact Hy|auto].
      - injection Hm as <-. exists x. split; [left; reflexivity|auto]. }
    destruct (canon_list _ _ (include_encodings FO cfg)) as [inc|m|p] eqn:Hi; cbn [bind] in H; try discriminate.
    2: { injection H as <-. left. apply Hcl in Hi. exact Hi. }
    destruct (canon_list _ _ (exclude_encodings FO cfg)) as [exc|m|p] eqn:He; cbn [bind] in H; try discriminate.
    2: { injection H as <-. right. apply Hcl in He. exact He. }
    exfalso. destruct b as [|x b'] eqn:Eb; [discriminate|]. rewrite <- Eb in H.
    destruct (main_loop_fine FO R b (make_ctx FO R b cfg inc exc) (make_ctx_of FO R b cfg inc exc)
                (make_ctx_steps b cfg inc exc Hs) (prioritize (c_prio FO (make_ctx FO R b cfg inc exc)) IANA_SUPPORTED)
                (init_state FO) (order_supported _)) as [o Ho].
    rewrite Ho in H. cbn [bind] in H. destruct o as [st|r]; [|discriminate].
    destruct (results FO st); [destruct (choose_fallback FO st)|]; discriminate.
  Qed.
End TotalTop.
