(* The UTF-16 helper model (Model/Utf.v over the loops of Model/Decode.v) is total: the explicit fuel of the
   decode_to loop and of the chunk retry loop never runs out, in strict, ignore and replace mode, with or without
   test-only / chunk mode.  Every error of the decoder consumes at least two bytes and resets its state. *)
From Coq Require Import List NArith ZArith String Bool Lia.
From Model Require Import Base Names Decode Utf.
From Proofs Require Import FuelFacts.
Import ListNotations.
Open Scope N_scope.
Open Scope list_scope.

(* an error of the main loop: the state is reset, the cause is Invalid, and upto points 2 bytes past a code-unit
   boundary inside the slice *)
Lemma u16_main_err big n : forall l i racc s p out e, (List.length l <= n)%nat ->
  u16_main big i l racc = (s, p, out, Some e) ->
  s = u16_init /\ err_cause e = Invalid /\ (Z.of_N i + 2 <= upto e)%Z /\ (upto e <= Z.of_N i + Z.of_nat (List.length l))%Z.
Proof.
  induction n as [|n IH]; intros l i racc s p out e Hl H.
  - destruct l; [|cbn in Hl; lia]. cbn [u16_main] in H. discriminate.
  - destruct l as [|b0 [|b1 r]]; cbn [u16_main] in H; try discriminate.
    cbn [List.length] in Hl |- *. destruct (is_hi (concat2 big b0 b1)).
    + destruct r as [|b2 [|b3 r']]; try discriminate.
      destruct (is_lo (concat2 big b2 b3)).
      * cbn [List.length] in Hl |- *. apply IH in H; [|lia]. destruct H as (H1 & H2 & H3 & H4). repeat split; try assumption; lia.
      * unfold inv in H. inversion H; subst. cbn [upto err_cause List.length]. repeat split; lia.
    + destruct (is_lo (concat2 big b0 b1)).
      * unfold inv in H. inversion H; subst. cbn [upto err_cause]. repeat split; lia.
      * apply IH in H; [|lia]. destruct H as (H1 & H2 & H3 & H4). repeat split; try assumption; lia.
Qed.

(* one feed from the initial state *)
Lemma u16_feed_init big sl :
  u16_feed big u16_init sl = match sl with [] => (u16_init, 0, [], None) | _ => u16_main big 0 sl [] end.
Proof.
  destruct sl as [|b r]; [reflexivity|]. unfold u16_feed. cbn [lead_byte lead_surr u16_init].
  replace (len (b :: r) <=? 0) with false by (symmetry; apply N.leb_gt; unfold len; cbn [List.length]; lia).
  reflexivity.
Qed.

Lemma u16_finish_cause s st o e : u16_finish s = (st, o, Some e) -> upto e = 0%Z /\ err_cause e = Incomplete.
Proof.
  unfold u16_finish. destruct (lead_byte s), (lead_surr s); intro H; inversion H; subst; split; reflexivity.
Qed.

Lemma u16_loop_no_fuel big repl t : forall fuel input remaining out,
  remaining <= len input -> (Z.of_N (len input) - Z.of_N remaining < Z.of_nat fuel)%Z ->
  decode_to_loop (utf16_decoder big) repl fuel u16_init input remaining out t <> DtFuel.
Proof.
  induction fuel as [|f IH]; intros input remaining out Hle Hlt; [exfalso; lia|].
  cbn [decode_to_loop dfeed dfinish utf16_decoder]. rewrite u16_feed_init.
  set (sl := skipn (N.to_nat remaining) input).
  assert (Hsl : len sl = len input - remaining) by (apply len_skipn; exact Hle).
  destruct sl as [|b r] eqn:Esl.
  - (* nothing left: finish from the initial state reports nothing *)
    cbn [u16_finish lead_byte lead_surr u16_init]. discriminate.
  - destruct (u16_main big 0 (b :: r) []) as [[[s p] o] err] eqn:M. destruct err as [e|].
    + destruct (u16_main_err big _ _ _ _ _ _ _ _ (le_n _) M) as (-> & _ & H3 & H4).
      destruct (do_trap repl t) as [goon o2]. destruct goon; [|discriminate].
      apply IH; unfold add_signed, len in *; lia.
    + destruct (u16_finish s) as [[st2 o2] err2] eqn:F. destruct err2 as [e|]; [|discriminate].
      destruct (u16_finish_cause _ _ _ _ F) as [Hu _]. rewrite Hu.
      destruct (do_trap repl t) as [goon o3]. destruct goon; [|discriminate].
      assert (Hr : add_signed (len input) 0 = len input) by (unfold add_signed; lia).
      rewrite Hr, N.leb_refl. discriminate.
Qed.

Lemma utf16_two_causes big repl : TwoCauses (utf16_decoder big) repl.
Proof.
  intros input e o H. unfold decode_to in H. cbn [decode_to_loop dfeed dfinish dinit utf16_decoder N.to_nat skipn] in H.
  rewrite u16_feed_init in H. destruct input as [|b r].
  - cbn [u16_finish lead_byte lead_surr u16_init] in H. discriminate.
  - destruct (u16_main big 0 (b :: r) []) as [[[s p] o1] err] eqn:M. destruct err as [e1|]; cbn [do_trap] in H.
    + inversion H; subst. destruct (u16_main_err big _ _ _ _ _ _ _ _ (le_n _) M) as (_ & Hc & _). left. exact Hc.
    + destruct (u16_finish s) as [[st2 o2] err2] eqn:F. destruct err2 as [e2|]; cbn [do_trap] in H; [|discriminate].
      inversion H; subst. right. exact (proj2 (u16_finish_cause _ _ _ _ F)).
Qed.

Theorem utf16_helper_total big input t ot ch : utf16_helper big input t ot ch <> HFuel.
Proof.
  unfold utf16_helper. destruct t as [| |r].
  - apply helper_strict_no_fuel. apply utf16_two_causes.
  - unfold helper, decode_to. change (dinit N (utf16_decoder big)) with u16_init.
    pose proof (u16_loop_no_fuel big [65533] Ignore (S (S (List.length input))) input 0 []) as H.
    destruct (decode_to_loop (utf16_decoder big) [65533] (S (S (List.length input))) u16_init input 0 [] Ignore) eqn:E; try discriminate.
    exfalso. apply H; [lia | unfold len; lia | reflexivity].
  - unfold helper, decode_to. change (dinit N (utf16_decoder big)) with u16_init.
    pose proof (u16_loop_no_fuel big [65533] (Replace r) (S (S (List.length input))) input 0 []) as H.
    destruct (decode_to_loop (utf16_decoder big) [65533] (S (S (List.length input))) u16_init input 0 [] (Replace r)) eqn:E; try discriminate.
    exfalso. apply H; [lia | unfold len; lia | reflexivity].
Qed.
