(* C01 (and the text part of C07): every match, every listed alternative and every fall-back
   entry the model of from_bytes can return really decodes the input.  Loop invariant over the
   encoding loop; holds for EVERY behaviour of mess / coherence / merge / declared oracles. *)
From Coq Require Import List NArith String Bool Lia Permutation.
From Gen Require Import Tables.
From Model Require Import Base Names Flt Matches Detect.
From Proofs Require Import SortFacts NamesFacts DetectFacts.
Import ListNotations.
Open Scope N_scope.
Open Scope list_scope.

Section Sound.
  Variable FO : FloatOps.
  Variable R : oracles FO.
  Notation cmatch := (cmatch FO).

  Variable b : bytes.

  (* the input without e's own mark, when it starts with it *)
  Definition strip (e : string) : bytes :=
    match identify_sig b with
    | Some (e', m) => if String.eqb e' e then skipn (List.length m) b else b
    | None => b
    end.

  Definition lazy : bool := TOO_BIG_SEQUENCE <? len b.
  Definition lazy_sb_b (e : string) : bool := lazy && negb (is_multi_byte e).

  (* what the code has established about candidate e whose exposed text is ot *)
  Definition Dec (e : string) (ot : option text) : Prop :=
    if lazy_sb_b e then
      stest FO R e (firstn (N.to_nat MAX_PROCESSED_BYTES) b) = true
      /\ (exists t2, sdecode FO R e (skipn (N.to_nat MAX_PROCESSED_BYTES) b) = Some t2)
      /\ ot = option_map strip_feff (cdecode FO R e b)
    else exists t, ot = Some t /\ sdecode FO R e (strip e) = Some t.

  Definition Sound1 (m : cmatch) : Prop :=
    m_payload FO m = b /\ Dec (m_enc FO m) (m_text FO m).
  Definition SoundM (m : cmatch) : Prop :=
    Sound1 m /\ Forall (fun s => Sound1 s /\ m_text FO s = m_text FO m) (m_sub FO m).

  Record CtxOf (c : ctx FO) : Prop := {
    co_bytes : c_bytes FO c = b;
    co_len : c_len FO c = len b;
    co_lazy : c_lazy FO c = lazy;
    co_sig : c_sig FO c = identify_sig b;
  }.

  Lemma make_ctx_of cfg inc exc : CtxOf (make_ctx FO R b cfg inc exc).
  Proof. constructor; reflexivity. Qed.

  Lemma identify_sig_some e m :
    identify_sig b = Some (e, m) -> In (e, m) MARKS /\ starts_with b m = true.
  Proof. unfold identify_sig. intro H. apply find_some in H. exact H. Qed.

  Lemma mark_is_multibyte e m : In (e, m) MARKS -> is_multi_byte e = true.
  Proof.
    intro H. pose proof marks_multibyte as HA. rewrite forallb_forall in HA. specialize (HA _ H).
    cbn [fst] in HA. apply andb_true_iff in HA. tauto.
  Qed.

  Lemma opt_str_eqb_true (a : option string) e : opt_eqb String.eqb a (Some e) = true <-> a = Some e.
  Proof.
    destruct a as [x|]; cbn; [|split; discriminate].
    rewrite String.eqb_eq. split; [intros ->; reflexivity | intro H; inversion H; reflexivity].
  Qed.

  Section WithCtx.
    Variable c : ctx FO.
    Hypothesis HC : CtxOf c.

    Lemma is_bom_true e : is_bom FO c e = true -> exists m, identify_sig b = Some (e, m).
    Proof.
      unfold is_bom, sig_enc. rewrite (co_sig c HC). intro H. apply opt_str_eqb_true in H.
      destruct (identify_sig b) as [[e' m]|]; [|discriminate]. cbn in H. inversion H; subst. eauto.
    Qed.

    Lemma is_bom_false_strip e : is_bom FO c e = false -> strip e = b.
    Proof.
      unfold is_bom, sig_enc, strip. rewrite (co_sig c HC).
      destruct (identify_sig b) as [[e' m]|]; [|reflexivity]. cbn. intros ->. reflexivity.
    Qed.

    Lemma lazy_sb_eq e : lazy_sb FO c e = lazy_sb_b e.
    Proof. unfold lazy_sb, lazy_sb_b. rewrite (co_lazy c HC). reflexivity. Qed.

    Lemma lazy_sb_not_bom e : lazy_sb FO c e = true -> is_bom FO c e = false.
    Proof.
      intro Hl. destruct (is_bom FO c e) eqn:Hb; [|reflexivity].
      apply is_bom_true in Hb as [m Hm]. apply identify_sig_some in Hm as [Hm _].
      apply mark_is_multibyte in Hm. unfold lazy_sb in Hl. rewrite Hm in Hl.
      rewrite andb_false_r in Hl. discriminate.
    Qed.

    (* the pre-check: what survives it *)
    Lemma probe_pre_some e si dec :
      probe_pre FO R c e = Ok (Some (si, dec)) ->
      if lazy_sb_b e then
        dec = None /\ si = 0 /\ MAX_PROCESSED_BYTES <= len b
        /\ stest FO R e (firstn (N.to_nat MAX_PROCESSED_BYTES) b) = true
      else exists t, dec = Some t /\ sdecode FO R e (strip e) = Some t
                     /\ (is_bom FO c e = false -> si = 0).
    Proof.
      unfold probe_pre. intro H. bind_inv H. bind_inv H.
      rewrite (co_bytes c HC), (co_len c HC) in *. rewrite <- lazy_sb_eq.
      destruct (lazy_sb FO c e) eqn:Hl.
      - rewrite (lazy_sb_not_bom e Hl) in E. inversion E; subst a.
        pose proof (slice_ok _ _ _ _ _ E0) as (_ & Hle & _).
        apply slice_prefix in E0. subst a0.
        destruct (stest FO R e _) eqn:Ht; inversion H; subst. auto.
      - apply slice_full_tail in E0. subst a0.
        destruct (sdecode FO R e (skipn (N.to_nat a) b)) as [t|] eqn:Hd; inversion H; subst.
        exists t. split; [reflexivity|].
        destruct (is_bom FO c e) eqn:Hb.
        + destruct (is_bom_true e Hb) as [m Hm]. rewrite (co_sig c HC), Hm in E.
          inversion E; subst si. unfold strip. rewrite Hm, String.eqb_refl.
          unfold len in Hd. rewrite Nnat.Nat2N.id in Hd. split; [exact Hd | discriminate].
        + inversion E; subst si. rewrite (is_bom_false_strip e Hb). cbn [N.to_nat skipn] in Hd.
          split; [exact Hd | reflexivity].
    Qed.

    (* a match built by new_match after a successful pre-check and (in lazy mode) remainder check *)
    Lemma new_match_sound e si dec ch bom coh :
      probe_pre FO R c e = Ok (Some (si, dec)) ->
      (lazy_sb FO c e = true ->
        exists tl, slice "remainder slice" (c_bytes FO c) MAX_PROCESSED_BYTES (c_len FO c) = Ok tl
                   /\ is_invalid_chunk (sdecode FO R e tl) e = false) ->
      SoundM (new_match FO R (c_bytes FO c) e ch bom coh dec).
    Proof.
      intros Hp Hr. rewrite (co_bytes c HC).
      destruct (new_match_fields FO R b e ch bom coh dec) as (F1 & F2 & _ & _ & _ & F6 & F7).
      split; [|rewrite F6; constructor].
      split; [exact F1|]. rewrite F2, F7.
      apply probe_pre_some in Hp. unfold Dec. rewrite lazy_sb_eq in Hr.
      destruct (lazy_sb_b e).
      - destruct Hp as (-> & _ & _ & Ht). destruct (Hr eq_refl) as (tl & Hs & Hi).
        rewrite (co_bytes c HC), (co_len c HC) in Hs. apply slice_full_tail in Hs. subst tl.
        split; [exact Ht|]. split; [|reflexivity].
        unfold is_invalid_chunk in Hi. destruct (sdecode FO R e _) as [t2|]; [eauto|discriminate].
      - destruct Hp as (t & -> & Hd & _). exists t. auto.
    Qed.
  End WithCtx.

  (* ---------- the loop invariant ---------- *)
  Definition OptSound (o : option cmatch) : Prop :=
    match o with Some m => SoundM m | None => True end.

  Record Inv (s : loop_state FO) : Prop := {
    inv_results : Forall SoundM (results FO s);
    inv_a : OptSound (fb_ascii FO s);
    inv_u : OptSound (fb_u8 FO s);
    inv_s : OptSound (fb_specified FO s);
  }.

  Lemma add_submatch_sound m item :
    SoundM m -> SoundM item -> same_result FO m item = true -> SoundM (add_submatch FO m item).
  Proof.
    intros [Hm Hs] [Hi _] Hsame.
    destruct (add_submatch_fields FO m item) as (F1 & F2 & _ & _ & _ & F6 & F7).
    split.
    - unfold Sound1 in *. rewrite F1, F2, F6. exact Hm.
    - rewrite F7, F6. apply Forall_app. split; [exact Hs|].
      constructor; [|constructor]. split; [exact Hi|]. symmetry. apply same_result_text; exact Hsame.
  Qed.

  Lemma append_sound items item :
    Forall SoundM items -> SoundM item -> Forall SoundM (append FO items item).
  Proof.
    intros Hi Hn. apply Forall_forall. intros x Hx. rewrite Forall_forall in Hi.
    apply append_In in Hx as [Hx|[->|(m & Hm & -> & Hs)]]; auto.
    apply add_submatch_sound; auto.
  Qed.

  Lemma apply_verdict_inv c s e v out :
    Inv s ->
    match v with
    | Accept _ m _ => SoundM m
    | SoftFail _ (Some fb) => SoundM fb
    | _ => True
    end ->
    apply_verdict FO c s e v = Ok out ->
    match out with Next _ s' => Inv s' | Return _ r => Forall SoundM r end.
  Proof.
    intros [I1 I2 I3 I4] Hv H. destruct v as [| |fb|m ex]; cbn [apply_verdict] in H.
    - inversion H; subst. constructor; assumption.
    - inversion H; subst. constructor; assumption.
    - inversion H; subst. destruct fb as [entry|].
      + unfold set_fallback, set_soft.
        destruct (String.eqb e (c_specified FO c)); [|destruct (String.eqb e "ascii")];
          constructor; cbn; assumption.
      + unfold set_soft. constructor; cbn; assumption.
    - pose proof (append_sound _ _ I1 Hv) as Ha.
      destruct ex.
      + destruct (get_by_encoding FO (append FO (results FO s) m) e) as [found|] eqn:Hg; [|discriminate].
        inversion H; subst. unfold from_single. constructor; [|constructor].
        apply get_by_encoding_In in Hg. rewrite Forall_forall in Ha. apply Ha; exact Hg.
      + inversion H; subst. unfold set_results. constructor; cbn; assumption.
  Qed.

  Lemma loop_body_inv c s e out :
    CtxOf c -> Inv s -> loop_body FO R c s e = Ok out ->
    match out with Next _ s' => Inv s' | Return _ r => Forall SoundM r end.
  Proof.
    intros HC HI H. unfold loop_body in H.
    destruct (gate_filtered FO c e); [inversion H; subst; exact HI|].
    destruct (gate_utf16 FO c e); [inversion H; subst; exact HI|].
    bind_inv H. destruct a as [[si dec]|]; [|inversion H; subst; exact HI].
    destruct (gate_similar (soft_failed FO s) e); [inversion H; subst; exact HI|].
    bind_inv H. eapply apply_verdict_inv; [exact HI| |exact H].
    destruct a as [| |[fb|]|m ex]; auto.
    - apply probe_rest_soft in E0 as [-> Hr]. eapply new_match_sound; eauto.
    - apply probe_rest_accept in E0 as [(mean & merged & ->) Hr]. eapply new_match_sound; eauto.
  Qed.

  Lemma main_loop_inv c encs : forall s out,
    CtxOf c -> Inv s -> main_loop FO R c s encs = Ok out ->
    match out with Next _ s' => Inv s' | Return _ r => Forall SoundM r end.
  Proof.
    induction encs as [|e encs IH]; intros s out HC HI H; cbn [main_loop] in H.
    - inversion H; subst. exact HI.
    - bind_inv H. pose proof (loop_body_inv _ _ _ _ HC HI E) as Hb.
      destruct a as [s'|r].
      + eapply IH; eauto.
      + inversion H; subst. exact Hb.
  Qed.

  Lemma choose_fallback_sound s m : Inv s -> choose_fallback FO s = Some m -> SoundM m.
  Proof.
    intros [_ I2 I3 I4]. unfold choose_fallback.
    destruct (fb_specified FO s) as [sp|]; [intro H; inversion H; subst; exact I4|].
    destruct (fb_u8 FO s) as [u|], (fb_ascii FO s) as [a|]; intro H.
    - destruct (negb _); inversion H; subst; assumption.
    - inversion H; subst; assumption.
    - inversion H; subst; assumption.
    - discriminate.
  Qed.

  Theorem from_bytes_sound cfg r :
    b <> [] -> from_bytes FO R b cfg = Ok r -> Forall SoundM r.
  Proof.
    intros Hb H. unfold from_bytes in H. bind_inv H. bind_inv H.
    destruct b as [|x b'] eqn:Eb; [contradiction|]. rewrite <- Eb in *.
    bind_inv H.
    assert (HI : Inv (init_state FO)) by (constructor; cbn; auto).
    pose proof (main_loop_inv _ _ _ _ (make_ctx_of cfg a a0) HI E1) as Hm.
    destruct a1 as [s|r0]; [|inversion H; subst; exact Hm].
    destruct (results FO s) as [|m0 rs] eqn:Hr.
    - destruct (choose_fallback FO s) as [fb|] eqn:Hf; inversion H; subst; [|constructor].
      apply append_sound; [constructor|]. eapply choose_fallback_sound; eauto.
    - inversion H; subst. rewrite <- Hr. apply (inv_results _ Hm).
  Qed.
End Sound.

(* ---------- from the established facts to "strictly decoding the stripped input yields the text" ---------- *)
Section Decodes.
  Variable FO : FloatOps.
  Variable R : oracles FO.
  Notation cmatch := (cmatch FO).

  (* the only codec fact needed, and only for inputs above TOO_BIG_SEQUENCE: single-byte decoders
     work byte by byte, so "prefix decodes and remainder decodes" gives "whole decodes", the
     chunk flag is irrelevant for them, and no single-byte table contains U+FEFF.
     Proved of the single-byte decoder model in Proofs/DecodeFacts.v (sb_lazy_contract); validated
     against the codec crate's 30 tables on every run of the decode correspondence. *)
  Definition LazyContract : Prop :=
    forall e l1 l2 t2, is_multi_byte e = false ->
      stest FO R e l1 = true -> sdecode FO R e l2 = Some t2 ->
      exists t, sdecode FO R e (l1 ++ l2) = Some t /\ cdecode FO R e (l1 ++ l2) = Some t /\ strip_feff t = t.

  Lemma strip_not_multibyte b e : is_multi_byte e = false -> strip b e = b.
  Proof.
    intro H. unfold strip. destruct (identify_sig b) as [[e' m]|] eqn:Hs; [|reflexivity].
    destruct (String.eqb e' e) eqn:He; [|reflexivity]. apply String.eqb_eq in He. subst e'.
    apply identify_sig_some in Hs as [Hs _]. apply mark_is_multibyte in Hs. congruence.
  Qed.

  Lemma Dec_decodes b e ot :
    LazyContract -> Dec FO R b e ot -> exists t, ot = Some t /\ sdecode FO R e (strip b e) = Some t.
  Proof.
    intros HL. unfold Dec, lazy_sb_b. destruct (lazy b && negb (is_multi_byte e)) eqn:Hl.
    - intros (Ht & (t2 & H2) & ->). apply andb_true_iff in Hl as [_ Hmb]. apply negb_true_iff in Hmb.
      destruct (HL _ _ _ _ Hmb Ht H2) as (t & Hs & Hc & Hf).
      rewrite firstn_skipn in Hs, Hc. rewrite strip_not_multibyte by exact Hmb.
      exists t. rewrite Hc. cbn. rewrite Hf. auto.
    - auto.
  Qed.

  Theorem from_bytes_decodes b cfg r :
    LazyContract -> b <> [] -> from_bytes FO R b cfg = Ok r ->
    forall m e, In m r -> In e (suitable_encodings FO m) ->
      m_payload FO m = b /\ exists t, m_text FO m = Some t /\ sdecode FO R e (strip b e) = Some t.
  Proof.
    intros HL Hb H m e Hm He. pose proof (from_bytes_sound FO R b cfg r Hb H) as HS.
    rewrite Forall_forall in HS. destruct (HS _ Hm) as [[Hp Hd] Hsub].
    split; [exact Hp|]. unfold suitable_encodings in He. destruct He as [<-|He].
    - apply Dec_decodes; assumption.
    - apply in_map_iff in He as (s & <- & Hs). rewrite Forall_forall in Hsub.
      destruct (Hsub _ Hs) as [[_ Hds] Ht]. rewrite <- Ht. apply Dec_decodes; assumption.
  Qed.
End Decodes.
