(* Soundness of the codec crate's UTF-8 automaton (generated tables), the converse of
   UtfFacts.utf8_encode_char_is_char:
   - every byte string the automaton takes from the initial state back to it for the first time (is_char) is the
     encoding of a Unicode scalar value -- no overlong form, no surrogate, nothing above U+10FFFF;
   - a byte string the helper accepts strictly is a concatenation of such characters;
   hence: utf8_strict_text b = Some t  ->  t consists of scalar values and b = utf8_encode t
   (strict UTF-8 decoding is the exact inverse of encoding). *)
From Coq Require Import List NArith ZArith String Bool Lia.
From Gen Require Import Tables.
From Model Require Import Base Names Decode Utf.
From Proofs Require Import DecodeFacts UtfFacts.
Import ListNotations.
Open Scope N_scope.
Open Scope list_scope.

Ltac Zify.zify_post_hook ::= Z.to_euclidean_division_equations.

Local Arguments N.add : simpl never.
Local Arguments N.mul : simpl never.
Local Arguments N.div : simpl never.
Local Arguments N.modulo : simpl never.
Local Arguments N.ltb : simpl never.
Local Arguments N.leb : simpl never.
Local Arguments N.sub : simpl never.

(* ---------- inverse transition facts, decided over the generated tables ---------- *)
Definition inr_ (lo hi b : N) : bool := (lo <=? b) && (b <=? hi).

Definition first_ok (b : N) : bool :=
  let s := u8_next 0 b in
  if s =? 0 then b <? 128
  else if s =? 12 then inr_ 194 223 b
  else if s =? 24 then inr_ 225 236 b || inr_ 238 239 b
  else if s =? 36 then b =? 224
  else if s =? 48 then b =? 237
  else if s =? 60 then b =? 240
  else if s =? 72 then inr_ 241 243 b
  else if s =? 84 then b =? 244
  else true.
Lemma first_ok_all : forallb first_ok ALLB = true.
Proof. vm_compute. reflexivity. Qed.

Definition next_ok (s b : N) : bool :=
  let s' := u8_next s b in
  if s' =? 0 then (s =? 12) && cont b
  else if s' =? 12 then ((s =? 24) && cont b) || ((s =? 36) && inr_ 160 191 b) || ((s =? 48) && inr_ 128 159 b)
  else if s' =? 24 then ((s =? 60) && inr_ 144 191 b) || ((s =? 72) && cont b) || ((s =? 84) && inr_ 128 143 b)
  else negb (live s').
Lemma next_ok_all : forallb (fun s => forallb (next_ok s) ALLB) LIVE = true.
Proof. vm_compute. reflexivity. Qed.

Lemma inr_spec lo hi b : inr_ lo hi b = true <-> lo <= b /\ b <= hi.
Proof. unfold inr_. rewrite andb_true_iff, !N.leb_le. tauto. Qed.
Lemma cont_spec b : cont b = true <-> 128 <= b /\ b <= 191.
Proof. unfold cont. rewrite andb_true_iff, N.leb_le, N.ltb_lt. lia. Qed.

Lemma first_cases b : b < 256 ->
  (u8_next 0 b = 0 -> b < 128) /\ (u8_next 0 b = 12 -> 194 <= b /\ b <= 223)
  /\ (u8_next 0 b = 24 -> (225 <= b /\ b <= 236) \/ (238 <= b /\ b <= 239))
  /\ (u8_next 0 b = 36 -> b = 224) /\ (u8_next 0 b = 48 -> b = 237) /\ (u8_next 0 b = 60 -> b = 240)
  /\ (u8_next 0 b = 72 -> 241 <= b /\ b <= 243) /\ (u8_next 0 b = 84 -> b = 244).
Proof.
  intro Hb. pose proof first_ok_all as H. rewrite forallb_forall in H. specialize (H b (allb_spec b Hb)).
  unfold first_ok in H. cbv zeta in H.
  split; [|split; [|split; [|split; [|split; [|split; [|split]]]]]]; intro E; rewrite E in H; cbn [N.eqb Pos.eqb] in H.
  - apply N.ltb_lt in H. exact H.
  - apply inr_spec in H. exact H.
  - apply orb_true_iff in H. rewrite !inr_spec in H. exact H.
  - apply N.eqb_eq in H. exact H.
  - apply N.eqb_eq in H. exact H.
  - apply N.eqb_eq in H. exact H.
  - apply inr_spec in H. exact H.
  - apply N.eqb_eq in H. exact H.
Qed.

Lemma live_cases s : live s = true -> s = 12 \/ s = 24 \/ s = 36 \/ s = 48 \/ s = 60 \/ s = 72 \/ s = 84.
Proof.
  unfold live, LIVE. cbn [existsb]. intro H.
  repeat (apply orb_true_iff in H; destruct H as [H|H]; [apply N.eqb_eq in H; auto 10|]). discriminate.
Qed.

Lemma next_cases s b : live s = true -> b < 256 ->
  (u8_next s b = 0 -> s = 12 /\ cont b = true)
  /\ (u8_next s b = 12 -> (s = 24 /\ cont b = true) \/ (s = 36 /\ 160 <= b /\ b <= 191) \/ (s = 48 /\ 128 <= b /\ b <= 159))
  /\ (u8_next s b = 24 -> (s = 60 /\ 144 <= b /\ b <= 191) \/ (s = 72 /\ cont b = true) \/ (s = 84 /\ 128 <= b /\ b <= 143))
  /\ (live (u8_next s b) = true -> u8_next s b = 12 \/ u8_next s b = 24).
Proof.
  intros Hs Hb. pose proof next_ok_all as H. rewrite forallb_forall in H.
  assert (Hin : In s LIVE).
  { unfold live in Hs. apply existsb_exists in Hs as (x & Hx & Ex). apply N.eqb_eq in Ex. subst x. exact Hx. }
  specialize (H s Hin). rewrite forallb_forall in H. specialize (H b (allb_spec b Hb)).
  unfold next_ok in H. cbv zeta in H.
  split; [|split; [|split]].
  - intro E. rewrite E in H. cbn [N.eqb Pos.eqb] in H. apply andb_true_iff in H as [H1 H2]. apply N.eqb_eq in H1. auto.
  - intro E. rewrite E in H. cbn [N.eqb Pos.eqb] in H. rewrite !orb_true_iff, !andb_true_iff, !N.eqb_eq, !inr_spec in H. tauto.
  - intro E. rewrite E in H. cbn [N.eqb Pos.eqb] in H. rewrite !orb_true_iff, !andb_true_iff, !N.eqb_eq, !inr_spec in H. tauto.
  - intro L. destruct (u8_next s b =? 0) eqn:E0.
    + apply N.eqb_eq in E0. rewrite E0 in L. discriminate.
    + destruct (u8_next s b =? 12) eqn:E1; [apply N.eqb_eq in E1; auto|].
      destruct (u8_next s b =? 24) eqn:E2; [apply N.eqb_eq in E2; auto|].
      rewrite L in H. discriminate.
Qed.

(* ---------- the shape of a closing walk from each live state ---------- *)
Lemma bytes_ok_cons b l : bytes_ok (b :: l) -> b < 256 /\ bytes_ok l.
Proof. intro H. inversion H; subst. auto. Qed.

Lemma shape1 l : bytes_ok l -> walk 12 l true -> exists b, l = [b] /\ cont b = true.
Proof.
  intros Hok H. destruct l as [|b [|b' r]]; [destruct H| |].
  - cbn [walk] in H. apply bytes_ok_cons in Hok as [Hb _].
    destruct (next_cases 12 b eq_refl Hb) as (N0 & _). destruct (N0 H) as [_ Hc]. eauto.
  - rewrite walk_cons in H by discriminate. destruct H as [Hl _]. apply bytes_ok_cons in Hok as [Hb _].
    destruct (next_cases 12 b eq_refl Hb) as (_ & N12 & N24 & NL).
    destruct (NL Hl) as [E|E]; [destruct (N12 E) as [[? _]|[[? _]|[? _]]] | destruct (N24 E) as [[? _]|[[? _]|[? _]]]]; discriminate.
Qed.

Lemma shape2 s l : s = 24 \/ s = 36 \/ s = 48 -> bytes_ok l -> walk s l true ->
  exists b c, l = [b; c] /\ cont c = true
    /\ ((s = 24 /\ cont b = true) \/ (s = 36 /\ 160 <= b /\ b <= 191) \/ (s = 48 /\ 128 <= b /\ b <= 159)).
Proof.
  intros Hs Hok H.
  assert (Hlive : live s = true) by (destruct Hs as [->|[->| ->]]; reflexivity).
  destruct l as [|b [|b' r]]; [destruct H| |].
  - cbn [walk] in H. apply bytes_ok_cons in Hok as [Hb _].
    destruct (next_cases s b Hlive Hb) as (N0 & _). destruct (N0 H) as [E _]. subst s. destruct Hs as [?|[?|?]]; discriminate.
  - rewrite walk_cons in H by discriminate. destruct H as [Hl Hw]. apply bytes_ok_cons in Hok as [Hb Hok'].
    destruct (next_cases s b Hlive Hb) as (_ & N12 & N24 & NL).
    destruct (NL Hl) as [E|E].
    + rewrite E in Hw. destruct (shape1 _ Hok' Hw) as (c & -> & Hc). exists b, c. split; [reflexivity|]. split; [exact Hc|].
      exact (N12 E).
    + exfalso. destruct (N24 E) as [[? _]|[[? _]|[? _]]]; subst s; destruct Hs as [?|[?|?]]; discriminate.
Qed.

Lemma shape3 s l : s = 60 \/ s = 72 \/ s = 84 -> bytes_ok l -> walk s l true ->
  exists b c d, l = [b; c; d] /\ cont c = true /\ cont d = true
    /\ ((s = 60 /\ 144 <= b /\ b <= 191) \/ (s = 72 /\ cont b = true) \/ (s = 84 /\ 128 <= b /\ b <= 143)).
Proof.
  intros Hs Hok H.
  assert (Hlive : live s = true) by (destruct Hs as [->|[->| ->]]; reflexivity).
  destruct l as [|b [|b' r]]; [destruct H| |].
  - cbn [walk] in H. apply bytes_ok_cons in Hok as [Hb _].
    destruct (next_cases s b Hlive Hb) as (N0 & _). destruct (N0 H) as [E _]. subst s. destruct Hs as [?|[?|?]]; discriminate.
  - rewrite walk_cons in H by discriminate. destruct H as [Hl Hw]. apply bytes_ok_cons in Hok as [Hb Hok'].
    destruct (next_cases s b Hlive Hb) as (_ & N12 & N24 & NL).
    destruct (NL Hl) as [E|E].
    + exfalso. destruct (N12 E) as [[? _]|[[? _]|[? _]]]; subst s; destruct Hs as [?|[?|?]]; discriminate.
    + rewrite E in Hw. destruct (shape2 24 _ (or_introl eq_refl) Hok' Hw) as (c & d & -> & Hd & Hc).
      exists b, c, d. split; [reflexivity|].
      assert (Hcc : cont c = true) by (destruct Hc as [[_ ?]|[[? _]|[? _]]]; [assumption|discriminate|discriminate]).
      repeat split; try assumption. exact (N24 E).
Qed.

(* ---------- every character of the automaton is the encoding of a scalar value ---------- *)
Ltac enc_eq := unfold utf8_encode_char; repeat ltb_false; try ltb_true.

Theorem is_char_is_encoded_scalar c : is_char c -> exists s, scalar s /\ c = utf8_encode_char s.
Proof.
  intros [Hok Hw]. destruct c as [|b0 [|b1 r]]; [destruct Hw| |].
  - cbn [walk] in Hw. apply bytes_ok_cons in Hok as [Hb _]. destruct (first_cases b0 Hb) as (F0 & _).
    specialize (F0 Hw). exists b0. split; [apply scalar_spec; lia|].
    unfold utf8_encode_char. ltb_true. reflexivity.
  - rewrite walk_cons in Hw by discriminate. destruct Hw as [Hl Hw]. apply bytes_ok_cons in Hok as [Hb Hok'].
    destruct (first_cases b0 Hb) as (_ & F12 & F24 & F36 & F48 & F60 & F72 & F84).
    destruct (live_cases _ Hl) as [E|[E|[E|[E|[E|[E|E]]]]]]; rewrite E in Hw.
    + (* two bytes *)
      destruct (shape1 _ Hok' Hw) as (c1 & Hc & Hc1). inversion Hc; subst. apply cont_spec in Hc1. specialize (F12 E).
      exists ((b0 - 192) * 64 + (c1 - 128)). split; [apply scalar_spec; lia|].
      unfold utf8_encode_char. ltb_false. ltb_true. f_equal; [lia|]. f_equal. lia.
    + (* three bytes, E1..EC / EE..EF *)
      destruct (shape2 24 _ (or_introl eq_refl) Hok' Hw) as (c1 & c2 & Hc & Hc2 & Hr). inversion Hc; subst.
      destruct Hr as [[_ Hc1]|[[? _]|[? _]]]; try discriminate. apply cont_spec in Hc1, Hc2. specialize (F24 E).
      exists ((b0 - 224) * 4096 + (c1 - 128) * 64 + (c2 - 128)). split; [apply scalar_spec; lia|].
      unfold utf8_encode_char. ltb_false. ltb_false. ltb_true. f_equal; [lia|]. f_equal; [lia|]. f_equal. lia.
    + (* E0 A0..BF *)
      destruct (shape2 36 _ (or_intror (or_introl eq_refl)) Hok' Hw) as (c1 & c2 & Hc & Hc2 & Hr). inversion Hc; subst.
      destruct Hr as [[? _]|[[_ Hc1]|[? _]]]; try discriminate. apply cont_spec in Hc2. specialize (F36 E).
      exists ((b0 - 224) * 4096 + (c1 - 128) * 64 + (c2 - 128)). split; [apply scalar_spec; lia|].
      unfold utf8_encode_char. ltb_false. ltb_false. ltb_true. f_equal; [lia|]. f_equal; [lia|]. f_equal. lia.
    + (* ED 80..9F *)
      destruct (shape2 48 _ (or_intror (or_intror eq_refl)) Hok' Hw) as (c1 & c2 & Hc & Hc2 & Hr). inversion Hc; subst.
      destruct Hr as [[? _]|[[? _]|[_ Hc1]]]; try discriminate. apply cont_spec in Hc2. specialize (F48 E).
      exists ((b0 - 224) * 4096 + (c1 - 128) * 64 + (c2 - 128)). split; [apply scalar_spec; lia|].
      unfold utf8_encode_char. ltb_false. ltb_false. ltb_true. f_equal; [lia|]. f_equal; [lia|]. f_equal. lia.
    + (* F0 90..BF *)
      destruct (shape3 60 _ (or_introl eq_refl) Hok' Hw) as (c1 & c2 & c3 & Hc & Hc2 & Hc3 & Hr). inversion Hc; subst.
      destruct Hr as [[_ Hc1]|[[? _]|[? _]]]; try discriminate. apply cont_spec in Hc2, Hc3. specialize (F60 E).
      exists ((b0 - 240) * 262144 + (c1 - 128) * 4096 + (c2 - 128) * 64 + (c3 - 128)). split; [apply scalar_spec; lia|].
      unfold utf8_encode_char. ltb_false. ltb_false. ltb_false. f_equal; [lia|]. f_equal; [lia|]. f_equal; [lia|]. f_equal. lia.
    + (* F1..F3 *)
      destruct (shape3 72 _ (or_intror (or_introl eq_refl)) Hok' Hw) as (c1 & c2 & c3 & Hc & Hc2 & Hc3 & Hr). inversion Hc; subst.
      destruct Hr as [[? _]|[[_ Hc1]|[? _]]]; try discriminate. apply cont_spec in Hc1, Hc2, Hc3. specialize (F72 E).
      exists ((b0 - 240) * 262144 + (c1 - 128) * 4096 + (c2 - 128) * 64 + (c3 - 128)). split; [apply scalar_spec; lia|].
      unfold utf8_encode_char. ltb_false. ltb_false. ltb_false. f_equal; [lia|]. f_equal; [lia|]. f_equal; [lia|]. f_equal. lia.
    + (* F4 80..8F *)
      destruct (shape3 84 _ (or_intror (or_intror eq_refl)) Hok' Hw) as (c1 & c2 & c3 & Hc & Hc2 & Hc3 & Hr). inversion Hc; subst.
      destruct Hr as [[? _]|[[? _]|[_ Hc1]]]; try discriminate. apply cont_spec in Hc2, Hc3. specialize (F84 E).
      exists ((b0 - 240) * 262144 + (c1 - 128) * 4096 + (c2 - 128) * 64 + (c3 - 128)). split; [apply scalar_spec; lia|].
      unfold utf8_encode_char. ltb_false. ltb_false. ltb_false. f_equal; [lia|]. f_equal; [lia|]. f_equal; [lia|]. f_equal. lia.
Qed.

(* ---------- what the scan accepts is a concatenation of characters ---------- *)
Lemma D4 st b : st = 0 \/ live st = true -> b < 256 ->
  u8_next st b = 0 \/ live (u8_next st b) = true \/ u8_is_reject (u8_next st b) = true.
Proof.
  intros Hs Hb. pose proof D4_all as H. rewrite forallb_forall in H.
  assert (Hin : In st (0 :: LIVE)).
  { destruct Hs as [->|Hs]; [left; reflexivity|]. right. unfold live in Hs. apply existsb_exists in Hs as (x & Hx & Ex).
    apply N.eqb_eq in Ex. subst x. exact Hx. }
  specialize (H st Hin). rewrite forallb_forall in H. specialize (H b (allb_spec b Hb)). cbv zeta in H.
  rewrite !orb_true_iff, N.eqb_eq in H. tauto.
Qed.

Lemma walk_nonempty st l : walk st l true -> l <> [].
Proof. destruct l; [intros []|discriminate]. Qed.

Lemma scan_decomp l : forall st i pr p, bytes_ok l -> st = 0 \/ live st = true ->
  u8_scan st i pr l = (0, p, None) ->
  exists tl cs, l = tl ++ List.concat cs /\ Forall is_char cs
    /\ (st = 0 -> tl = []) /\ (live st = true -> walk st tl true) /\ (l <> [] -> p = i + len l).
Proof.
  induction l as [|b r IH]; intros st i pr p Hok Hst H.
  - cbn [u8_scan] in H. inversion H; subst. exists [], []. repeat split; auto.
    + intro L. discriminate.
    + intro C. contradiction.
  - apply bytes_ok_cons in Hok as [Hb Hok']. cbn [u8_scan] in H. change UTF8_ACCEPT_STATE with 0 in H. change UTF8_REJECT_STATE with 98 in H.
    destruct (u8_next st b =? 0) eqn:E0.
    + apply N.eqb_eq in E0. rewrite E0 in H. destruct (IH 0 (i + 1) (i + 1) p Hok' (or_introl eq_refl) H) as (tl & cs & Hr & Hcs & Ht0 & _ & Hp).
      rewrite (Ht0 eq_refl) in Hr. cbn [app] in Hr.
      assert (Hpp : p = i + len (b :: r)).
      { destruct r as [|b' r'].
        - cbn [u8_scan] in H. inversion H; subst. unfold len. cbn [List.length]. lia.
        - rewrite (Hp ltac:(discriminate)). unfold len. cbn [List.length]. lia. }
      destruct Hst as [->|Hlive].
      * exists [], ([b] :: cs). repeat split.
        -- cbn [List.concat app]. rewrite Hr. reflexivity.
        -- constructor; [|exact Hcs]. split; [repeat constructor; exact Hb|]. cbn [walk]. exact E0.
        -- intro L. discriminate.
        -- intros _. exact Hpp.
      * exists [b], cs. repeat split.
        -- cbn [app]. rewrite Hr. reflexivity.
        -- exact Hcs.
        -- intro E. subst st. discriminate.
        -- intros _. cbn [walk]. exact E0.
        -- intros _. exact Hpp.
    + destruct (u8_is_reject (u8_next st b)) eqn:Er; [discriminate|].
      destruct (D4 st b Hst Hb) as [D|[D|D]]; [apply N.eqb_neq in E0; contradiction | | congruence].
      destruct (IH (u8_next st b) (i + 1) pr p Hok' (or_intror D) H) as (tl & cs & Hr & Hcs & _ & Hw & Hp).
      specialize (Hw D). pose proof (walk_nonempty _ _ Hw) as Hne.
      assert (Hrne : r <> []) by (intro; subst r; destruct tl; [contradiction|discriminate]).
      assert (Hpp : p = i + len (b :: r)) by (rewrite (Hp Hrne); unfold len; cbn [List.length]; lia).
      assert (Hokt : bytes_ok tl).
      { unfold bytes_ok in *. rewrite Hr in Hok'. apply Forall_app in Hok' as [H1 _]. exact H1. }
      destruct Hst as [->|Hlive].
      * exists [], ((b :: tl) :: cs). repeat split.
        -- cbn [List.concat app]. rewrite Hr. reflexivity.
        -- constructor; [|exact Hcs]. split; [constructor; assumption|]. rewrite walk_cons by exact Hne. split; assumption.
        -- intro L. discriminate.
        -- intros _. exact Hpp.
      * exists (b :: tl), cs. repeat split.
        -- cbn [app]. rewrite Hr. reflexivity.
        -- exact Hcs.
        -- intro E. subst st. discriminate.
        -- intros _. rewrite walk_cons by exact Hne. split; assumption.
        -- intros _. exact Hpp.
Qed.

Theorem attempt_ok_inv w out : bytes_ok w ->
  decode_to utf8_decoder [239; 191; 189] w Strict = DtOk out -> out = w /\ exists cs, Forall is_char cs /\ w = List.concat cs.
Proof.
  intros Hok. rewrite attempt_unfold, feed_fresh. destruct (u8_scan 0 0 0 w) as [[st' processed] rej] eqn:Es.
  destruct rej; cbv beta iota zeta; [discriminate|]. unfold u8_finish. cbn [u8_st].
  destruct (st' =? UTF8_ACCEPT_STATE) eqn:Ea; [|discriminate]. apply N.eqb_eq in Ea. change UTF8_ACCEPT_STATE with 0 in Ea. subst st'.
  intros [= <-]. cbn [app]. rewrite app_nil_r.
  destruct (scan_decomp w 0 0 0 processed Hok (or_introl eq_refl) Es) as (tl & cs & Hw & Hcs & Ht & _ & Hp).
  rewrite (Ht eq_refl) in Hw. cbn [app] in Hw. split; [|eauto].
  destruct w as [|b r]; [apply firstn_nil|].
  rewrite (Hp ltac:(discriminate)), N.add_0_l. unfold len. rewrite Nat2N.id. apply firstn_all.
Qed.

(* ---------- strict UTF-8 decoding is the exact inverse of encoding ---------- *)
Lemma chars_are_encodings cs : Forall is_char cs -> exists t, Forall scalar t /\ cs = map utf8_encode_char t.
Proof.
  induction 1 as [|c cs Hc _ (t & Ht & ->)]; [exists []; split; [constructor|reflexivity]|].
  destruct (is_char_is_encoded_scalar c Hc) as (s & Hs & ->). exists (s :: t). split; [constructor; assumption|reflexivity].
Qed.

Theorem utf8_strict_text_inv b t : bytes_ok b -> utf8_strict_text b = Some t -> Forall scalar t /\ b = utf8_encode t.
Proof.
  intros Hok. unfold utf8_strict_text, utf8_strict_decode, helper. cbn [andb].
  destruct (decode_to utf8_decoder [239; 191; 189] b Strict) as [out|e out|] eqn:E; try discriminate.
  cbn [option_map]. intros [= <-]. destruct (attempt_ok_inv b out Hok E) as (-> & cs & Hcs & Hb).
  destruct (chars_are_encodings cs Hcs) as (t & Ht & ->). rewrite <- utf8_encode_concat in Hb. subst b.
  rewrite utf8_chars_encode by exact Ht. split; [exact Ht|reflexivity].
Qed.
