(* The float laws of Proofs/FloatLaws.v PROVED of the Flocq binary32 instance F32ops (the instance
   that is extracted and run against the implementation).  With these the theorems that take
   FloatLaws / CmpLaws as hypotheses hold unconditionally for binary32.
   These proofs go through Flocq's real-number specification of the operations and therefore
   depend on the four standard-library axioms named in DESIGN.md section 3. *)
From Coq Require Import ZArith NArith List Bool Lia Reals Psatz.
From Flocq Require Import Core IEEE754.BinarySingleNaN.
From Model Require Import Flt F32.
From Proofs Require Import FloatLaws F32Facts.
Import ListNotations.

Local Notation f32 := (binary_float 24 128).
Local Notation fexp32 := (SpecFloat.fexp 24 128).
Local Notation rnd := (round radix2 fexp32 ZnearestE).
Local Notation R2 := (B2R (prec := 24) (emax := 128)).

Local Instance Hprec32i : FLX.Prec_gt_0 24 := Hprec32.
Local Instance Hemax32i : Prec_lt_emax 24 128 := Hemax32.
Local Instance Vexp32 : Valid_exp fexp32 := fexp_correct 24 128 Hprec32.
Local Instance Mexp32 : Monotone_exp fexp32 := fexp_monotone 24 128.

Definition good32 (x : f32) : Prop := is_nan x = false /\ Bleb (B754_zero false) x = true.

Lemma good32_is x : good32 x <-> good F32ops x.
Proof. reflexivity. Qed.

Lemma good32_cases (x : f32) :
  good32 x <->
  (x = B754_zero false \/ x = B754_zero true \/ x = B754_infinity false
   \/ exists m e H, x = B754_finite false m e H).
Proof.
  unfold good32. split.
  - intros [Hn Hl]. destruct x as [s|s| |s m e H].
    + destruct s; auto.
    + destruct s; [discriminate Hl | auto].
    + discriminate Hn.
    + destruct s; [discriminate Hl | right; right; right; eauto].
  - intros [->|[->|[->|(m & e & H & ->)]]]; split; reflexivity.
Qed.

Lemma good32_nonneg (x : f32) : good32 x -> (0 <= R2 x)%R.
Proof.
  intros Hg. apply good32_cases in Hg.
  destruct Hg as [->|[->|[->|(m & e & H & ->)]]]; try (cbn; lra).
  apply F2R_ge_0. cbn. lia.
Qed.

Lemma good32_sign_true (x : f32) : good32 x -> Bsign x = true -> x = B754_zero true.
Proof.
  intros Hg Hs. apply good32_cases in Hg.
  destruct Hg as [->|[->|[->|(m & e & H & ->)]]]; cbn in Hs; try discriminate; reflexivity.
Qed.

Lemma finite_nonneg_good (x : f32) : is_finite x = true -> (0 <= R2 x)%R -> good32 x.
Proof.
  intros Hf Hr. apply good32_cases. destruct x as [s|s| |s m e H]; try discriminate.
  - destruct s; auto.
  - destruct s.
    + exfalso. assert (R2 (B754_finite true m e H) < 0)%R by (apply F2R_lt_0; cbn; lia). lra.
    + right; right; right; eauto.
Qed.

Lemma overflow_inf (r : f32) s : B2SF r = binary_overflow 24 128 mode_NE s -> r = B754_infinity s.
Proof.
  unfold binary_overflow. cbn [overflow_to_inf]. destruct r; cbn; intros H; inversion H; reflexivity.
Qed.

Lemma rnd_nonneg x : (0 <= x)%R -> (0 <= rnd x)%R.
Proof.
  intros H. rewrite <- (round_0 radix2 fexp32 ZnearestE).
  apply round_le; auto with typeclass_instances.
Qed.

(* ---------------------------------------------------------------- addition *)
Lemma add32_good (x y : f32) : good32 x -> good32 y -> good32 (add32 x y).
Proof.
  intros Hx Hy.
  destruct (is_finite x) eqn:Fx; [destruct (is_finite y) eqn:Fy|].
  - pose proof (Bplus_correct 24 128 Hprec32 Hemax32 mode_NE x y Fx Fy) as HC.
    fold (add32 x y) in HC. cbn [round_mode] in HC.
    destruct (Rlt_bool _ _) eqn:HB in HC.
    + destruct HC as (HR & HF & _). apply finite_nonneg_good; [exact HF|].
      rewrite HR. apply rnd_nonneg.
      pose proof (good32_nonneg x Hx). pose proof (good32_nonneg y Hy). lra.
    + destruct HC as (HS & Hsg). apply overflow_inf in HS.
      destruct (Bsign x) eqn:Sx.
      * exfalso. pose proof (good32_sign_true x Hx Sx) as ->.
        pose proof (good32_sign_true y Hy (eq_sym Hsg)) as ->.
        change (R2 (B754_zero true)) with 0%R in HB. rewrite Rplus_0_l, round_0, Rabs_R0 in HB; auto with typeclass_instances.
        rewrite Rlt_bool_true in HB; [discriminate|]. apply bpow_gt_0.
      * rewrite HS. apply good32_cases. auto.
  - (* y not finite: y = +inf *)
    apply good32_cases in Hy. destruct Hy as [->|[->|[->|(m & e & H & ->)]]]; try discriminate.
    apply good32_cases in Hx. destruct Hx as [->|[->|[->|(m & e & H & ->)]]]; apply good32_cases; cbn; auto.
  - apply good32_cases in Hx. destruct Hx as [->|[->|[->|(m & e & H & ->)]]]; try discriminate.
    apply good32_cases in Hy. destruct Hy as [->|[->|[->|(m & e & H & ->)]]]; apply good32_cases; cbn; auto.
Qed.

Lemma fsum_good (l : list f32) : Forall good32 l -> good32 (fsum F32ops l).
Proof.
  unfold fsum. cbn [fadd fnegzero F32ops].
  assert (G0 : good32 (B754_zero true)) by (apply good32_cases; auto).
  revert G0. generalize (B754_zero true : f32) as acc.
  induction l as [|x l IH]; intros acc Ga Hl; cbn [fold_left]; [exact Ga|].
  inversion Hl as [|? ? Hx Hl']; subst. apply IH; [apply add32_good; assumption | exact Hl'].
Qed.

(* ---------------------------------------------------------------- n as f32 *)
Lemma of_N32_pos (n : N) : (1 <= n < 2 ^ 100)%N ->
  is_finite (of_N32 n) = true /\ (1 <= R2 (of_N32 n))%R.
Proof.
  intros Hn. unfold of_N32, of_Z32.
  pose proof (binary_normalize_correct 24 128 Hprec32 Hemax32 mode_NE (Z.of_N n) 0 false) as HC.
  cbn zeta in HC. cbn [round_mode] in HC.
  assert (Hx : F2R (Float radix2 (Z.of_N n) 0) = IZR (Z.of_N n)).
  { unfold F2R. cbn. lra. }
  rewrite Hx in HC.
  assert (H1 : (1 <= IZR (Z.of_N n))%R) by (apply IZR_le; lia).
  assert (H2 : (IZR (Z.of_N n) <= bpow radix2 100)%R).
  { rewrite <- IZR_Zpower by lia. apply IZR_le.
    change (radix2 ^ 100)%Z with (2 ^ 100)%Z.
    assert (Z.of_N n < Z.of_N (2 ^ 100))%Z by lia. rewrite N2Z.inj_pow in H. cbn in H |- *. lia. }
  assert (G1 : generic_format radix2 fexp32 1).
  { change 1%R with (bpow radix2 0). apply generic_format_bpow. cbn. lia. }
  assert (G100 : generic_format radix2 fexp32 (bpow radix2 100)).
  { apply generic_format_bpow. cbn. lia. }
  assert (L1 : (1 <= rnd (IZR (Z.of_N n)))%R).
  { rewrite <- (round_generic radix2 fexp32 ZnearestE 1 G1). apply round_le; auto with typeclass_instances. }
  assert (L2 : (rnd (IZR (Z.of_N n)) <= bpow radix2 100)%R).
  { rewrite <- (round_generic radix2 fexp32 ZnearestE _ G100). apply round_le; auto with typeclass_instances. }
  rewrite Rlt_bool_true in HC.
  - destruct HC as (HR & HF & _). split; [exact HF|]. rewrite HR. exact L1.
  - rewrite Rabs_pos_eq by lra. apply Rle_lt_trans with (1 := L2). apply bpow_lt. lia.
Qed.

Lemma pos_finite_shape (y : f32) : is_finite y = true -> (0 < R2 y)%R ->
  exists m e H, y = B754_finite false m e H.
Proof.
  intros Fy Hy. destruct y as [s|s| |s m e H]; try discriminate.
  - cbn in Hy. lra.
  - destruct s; [|eauto]. exfalso.
    assert (R2 (B754_finite true m e H) < 0)%R by (apply F2R_lt_0; cbn; lia). lra.
Qed.

(* ---------------------------------------------------------------- division *)
Lemma div32_good (x y : f32) : good32 x -> is_finite y = true -> (0 < R2 y)%R -> good32 (div32 x y).
Proof.
  intros Hx Fy Hy. destruct (pos_finite_shape y Fy Hy) as (my & ey & Hb & Ey).
  destruct (is_finite x) eqn:Fx.
  - assert (Hy0 : R2 y <> 0%R) by lra.
    pose proof (Bdiv_correct 24 128 Hprec32 Hemax32 mode_NE x y Hy0) as HC.
    fold (div32 x y) in HC. cbn [round_mode] in HC.
    destruct (Rlt_bool _ _) eqn:HB in HC.
    + destruct HC as (HR & HF & _). rewrite Fx in HF. apply finite_nonneg_good; [exact HF|].
      rewrite HR. apply rnd_nonneg. pose proof (good32_nonneg x Hx).
      apply Rmult_le_pos; [assumption|]. left. apply Rinv_0_lt_compat. exact Hy.
    + apply overflow_inf in HC. destruct (Bsign x) eqn:Sx.
      * exfalso. pose proof (good32_sign_true x Hx Sx) as ->. change (R2 (B754_zero true)) with 0%R in HB.
        unfold Rdiv in HB. rewrite Rmult_0_l, round_0, Rabs_R0 in HB; auto with typeclass_instances.
        rewrite Rlt_bool_true in HB; [discriminate|]. apply bpow_gt_0.
      * rewrite HC. subst y. cbn. apply good32_cases. auto.
  - apply good32_cases in Hx. destruct Hx as [->|[->|[->|(m & e & H & ->)]]]; try discriminate.
    subst y. cbn. apply good32_cases. auto.
Qed.

Lemma f32_mean_good (l : list f32) :
  l <> [] -> (N.of_nat (List.length l) < 2 ^ 100)%N -> Forall good32 l -> good32 (fmean F32ops l).
Proof.
  intros Hne Hlen Hl. unfold fmean. cbn [fdiv f_of_N F32ops]. change (F F32ops) with f32 in *.
  assert (1 <= N.of_nat (List.length l))%N by (destruct l; [congruence | cbn [List.length]; lia]).
  destruct (of_N32_pos (N.of_nat (List.length l))) as (Ff & Fp); [lia|].
  apply div32_good; [apply fsum_good; exact Hl | exact Ff | lra].
Qed.

(* ---------------------------------------------------------------- (-0 + x) / 1 = x *)
Lemma f32_mean_single (x : f32) : fmean F32ops [x] = x.
Proof.
  unfold fmean, fsum. cbn [fold_left List.length fdiv fadd f_of_N fnegzero F32ops N.of_nat].
  change (N.pos (Pos.of_succ_nat 0)) with 1%N.
  destruct (of_N32_pos 1) as (F1 & P1); [lia|].
  assert (E1 : R2 (of_N32 1) = 1%R).
  { unfold of_N32, of_Z32.
    pose proof (binary_normalize_correct 24 128 Hprec32 Hemax32 mode_NE 1 0 false) as HC.
    cbn zeta in HC. cbn [round_mode] in HC.
    assert (Hx : F2R (Float radix2 1 0) = 1%R) by (unfold F2R; cbn; lra).
    rewrite Hx in HC.
    assert (G1 : generic_format radix2 fexp32 1).
    { change 1%R with (bpow radix2 0). apply generic_format_bpow. cbn. lia. }
    rewrite (round_generic radix2 fexp32 ZnearestE 1 G1) in HC.
    rewrite Rlt_bool_true in HC.
    - destruct HC as (HR & _). exact HR.
    - rewrite Rabs_R1. change 1%R with (bpow radix2 0). apply bpow_lt. lia. }
  destruct (pos_finite_shape (of_N32 1) F1) as (m1 & e1 & H1 & Eone); [lra|].
  destruct x as [s|s| |s m e H].
  - (* zero *) rewrite Eone. destruct s; reflexivity.
  - (* infinity *) rewrite Eone. cbn. destruct s; reflexivity.
  - reflexivity.
  - (* finite *)
    change (add32 (B754_zero true) (B754_finite s m e H)) with (B754_finite s m e H : f32).
    set (x := B754_finite s m e H : f32).
    assert (Hy0 : R2 (of_N32 1) <> 0%R) by lra.
    pose proof (Bdiv_correct 24 128 Hprec32 Hemax32 mode_NE x (of_N32 1) Hy0) as HC.
    fold (div32 x (of_N32 1)) in HC. cbn [round_mode] in HC.
    rewrite E1 in HC. unfold Rdiv in HC. rewrite Rinv_1, Rmult_1_r in HC.
    rewrite (round_generic radix2 fexp32 ZnearestE (R2 x) (generic_format_B2R 24 128 x)) in HC.
    rewrite Rlt_bool_true in HC by (apply abs_B2R_lt_emax).
    destruct HC as (HR & HF & HS).
    apply B2R_Bsign_inj; [exact HF | reflexivity | exact HR |].
    rewrite HS.
    + rewrite Eone. cbn. apply xorb_false_r.
    + destruct (div32 x (of_N32 1)); cbn in HF |- *; try reflexivity; discriminate.
Qed.

(* ---------------------------------------------------------------- |x - x| < eps *)
Lemma finite_zero_shape (r : f32) : is_finite r = true -> R2 r = 0%R -> exists s, r = B754_zero s.
Proof.
  intros Fr Hr. destruct r as [s|s| |s m e H]; try discriminate; [eauto|].
  exfalso. apply eq_0_F2R in Hr. destruct s; cbn in Hr; lia.
Qed.

Lemma eps_pos : lt32 (B754_zero false) (c_eps F32ops) = true.
Proof. vm_compute. reflexivity. Qed.

Lemma f32_self_close (x t : f32) :
  good32 x -> lt32 x t = true -> lt32 (abs32 (sub32 x x)) (c_eps F32ops) = true.
Proof.
  intros Hx Hlt.
  assert (Fx : is_finite x = true).
  { apply good32_cases in Hx. destruct Hx as [->|[->|[->|(m & e & H & ->)]]]; try reflexivity.
    exfalso. unfold lt32, Bltb in Hlt. destruct t as [[]|[]| |[] ? ? ?]; cbn in Hlt; discriminate. }
  pose proof (Bminus_correct 24 128 Hprec32 Hemax32 mode_NE x x Fx Fx) as HC.
  fold (sub32 x x) in HC. cbn [round_mode] in HC.
  replace (R2 x - R2 x)%R with 0%R in HC by lra.
  rewrite round_0 in HC by auto with typeclass_instances.
  rewrite Rabs_R0, Rlt_bool_true in HC by (apply bpow_gt_0).
  destruct HC as (HR & HF & _).
  destruct (finite_zero_shape _ HF HR) as (s & ->).
  cbn [abs32 Babs]. exact eps_pos.
Qed.

Lemma f32_zero_le_one : le32 (B754_zero false) (fone F32ops) = true.
Proof. vm_compute. reflexivity. Qed.

Theorem F32_FloatLaws : FloatLaws F32ops.
Proof.
  constructor.
  - exact f32_not_ge_lt.
  - exact f32_mean_single.
  - intros l Hne Hlen Hl. apply f32_mean_good; assumption.
  - split; reflexivity.
  - exact f32_zero_le_one.
  - exact f32_self_close.
Qed.

(* ---------------------------------------------------------------- |x - y| = |y - x| *)
Lemma f32_abs_sub_sym (x y : f32) : abs32 (sub32 x y) = abs32 (sub32 y x).
Proof.
  destruct (is_finite x) eqn:Fx; destruct (is_finite y) eqn:Fy.
  - pose proof (Bminus_correct 24 128 Hprec32 Hemax32 mode_NE x y Fx Fy) as H1.
    pose proof (Bminus_correct 24 128 Hprec32 Hemax32 mode_NE y x Fy Fx) as H2.
    fold (sub32 x y) in H1. fold (sub32 y x) in H2. cbn [round_mode] in H1, H2.
    assert (Hr : rnd (R2 y - R2 x) = (- rnd (R2 x - R2 y))%R).
    { replace (R2 y - R2 x)%R with (- (R2 x - R2 y))%R by lra. apply round_NE_opp. }
    rewrite Hr, Rabs_Ropp in H2.
    destruct (Rlt_bool (Rabs (rnd (R2 x - R2 y))) (bpow radix2 128)).
    + destruct H1 as (E1 & F1 & _). destruct H2 as (E2 & F2 & _).
      unfold abs32. apply B2R_Bsign_inj.
      * rewrite is_finite_Babs. exact F1.
      * rewrite is_finite_Babs. exact F2.
      * rewrite !B2R_Babs, E1, E2, Rabs_Ropp. reflexivity.
      * rewrite !Bsign_Babs. reflexivity.
    + destruct H1 as (S1 & _). destruct H2 as (S2 & _).
      apply overflow_inf in S1. apply overflow_inf in S2. rewrite S1, S2. reflexivity.
  - destruct x as [sx|sx| |sx mx ex Hx]; try discriminate;
      destruct y as [sy|sy| |sy my ey Hy]; try discriminate; try reflexivity;
      destruct sx, sy; reflexivity.
  - destruct y as [sy|sy| |sy my ey Hy]; try discriminate;
      destruct x as [sx|sx| |sx mx ex Hx]; try discriminate; try reflexivity;
      destruct sx, sy; reflexivity.
  - destruct x as [sx|sx| |sx mx ex Hx]; try discriminate;
      destruct y as [sy|sy| |sy my ey Hy]; try discriminate; try reflexivity;
      destruct sx, sy; reflexivity.
Qed.

Theorem F32_CmpLaws : CmpLaws F32ops.
Proof.
  constructor.
  - exact f32_abs_sub_sym.
  - exact f32_oge_total.
Qed.
