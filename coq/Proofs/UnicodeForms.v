(* C13, the clause "the reported chaos ... is identical for the same text presented in any encoding able to
   represent it (with or without BOM)", with the Unicode codecs inside the model:
   - for ANY oracle bundle: an accepted stand-alone verdict exposes the strict decode of the input minus the
     candidate's own mark, and on covered inputs two accepted verdicts (possibly on DIFFERENT inputs, under
     different window parameters) whose candidates decode to the same text have the same chaos;
   - for the pipeline that decodes with the models: a text presented as UTF-8, UTF-8 with signature,
     UTF-16LE with BOM or UTF-16BE with BOM decodes to that text, hence the corollary about the four forms. *)
From Coq Require Import List NArith ZArith String Bool Lia.
From Gen Require Import Tables.
From Model Require Import Base Names Flt F32 Matches Detect Decode Utf SbLangs Codecs Pipeline.
From Proofs Require Import FloatLaws F32Laws DetectFacts DetectSound DetectWindow DetectUtf8 UtfFacts CodecFacts.
Import ListNotations.
Open Scope N_scope.
Open Scope list_scope.

Ltac Zify.zify_post_hook ::= Z.to_euclidean_division_equations.

Section Any.
  Variable FO : FloatOps.
  Variable R : oracles FO.
  Hypothesis FL : FloatLaws FO.
  Hypothesis HD : forall e l t, sdecode FO R e l = Some t -> len t <= len l.

  (* an accepted stand-alone verdict exposes the strict decode of the input minus e's own mark *)
  Lemma probe_accept_text b cfg inc exc e m x :
    len b <= TOO_BIG_SEQUENCE ->
    probe FO R (make_ctx FO R b cfg inc exc) e = Ok (Accept FO m x) ->
    m_enc FO m = e /\ exists t, m_text FO m = Some t /\ sdecode FO R e (strip b e) = Some t.
  Proof.
    intros Hsmall H. unfold probe in H. bind_inv H. destruct a as [[si dec]|]; [|discriminate].
    pose proof (make_ctx_of FO R b cfg inc exc) as HC.
    apply probe_rest_accept in H as [(mean & merged & ->) Hr].
    pose proof (new_match_sound FO R b _ HC e si dec mean (is_bom FO (make_ctx FO R b cfg inc exc) e) merged E Hr) as [[_ HDec] _].
    destruct (new_match_fields FO R (c_bytes FO (make_ctx FO R b cfg inc exc)) e mean (is_bom FO (make_ctx FO R b cfg inc exc) e) merged dec)
      as (_ & F2 & _).
    split; [exact F2|]. rewrite F2 in HDec. unfold Dec, lazy_sb_b, lazy in HDec.
    assert (Hl : (TOO_BIG_SEQUENCE <? len b) = false) by (apply N.ltb_ge; exact Hsmall).
    rewrite Hl in HDec. cbn [andb] in HDec. exact HDec.
  Qed.

  (* two accepted candidates that decode to the same text -- on any two covered inputs, under any two window
     settings, with the same threshold -- expose that text and carry the same chaos *)
  Theorem same_text_same_chaos_across_inputs b1 b2 cfg1 cfg2 inc1 exc1 inc2 exc2 e1 e2 m1 m2 x1 x2 t :
    len b1 <= chunk_size FO cfg1 * steps FO cfg1 -> len b1 <= TOO_BIG_SEQUENCE ->
    len b2 <= chunk_size FO cfg2 * steps FO cfg2 -> len b2 <= TOO_BIG_SEQUENCE ->
    threshold FO cfg1 = threshold FO cfg2 ->
    sdecode FO R e1 (strip b1 e1) = Some t -> sdecode FO R e2 (strip b2 e2) = Some t ->
    probe FO R (make_ctx FO R b1 cfg1 inc1 exc1) e1 = Ok (Accept FO m1 x1) ->
    probe FO R (make_ctx FO R b2 cfg2 inc2 exc2) e2 = Ok (Accept FO m2 x2) ->
    m_text FO m1 = Some t /\ m_text FO m2 = Some t /\ m_chaos FO m1 = m_chaos FO m2.
  Proof.
    intros C1 S1 C2 S2 Hthr D1 D2 P1 P2.
    destruct (covered_probe_chaos FO R FL HD b1 cfg1 inc1 exc1 e1 m1 x1 C1 S1 P1) as (t1 & T1 & K1 & _).
    destruct (covered_probe_chaos FO R FL HD b2 cfg2 inc2 exc2 e2 m2 x2 C2 S2 P2) as (t2 & T2 & K2 & _).
    destruct (probe_accept_text b1 cfg1 inc1 exc1 e1 m1 x1 S1 P1) as (_ & t1' & T1' & D1').
    destruct (probe_accept_text b2 cfg2 inc2 exc2 e2 m2 x2 S2 P2) as (_ & t2' & T2' & D2').
    assert (t1 = t) by congruence. assert (t2 = t) by congruence. subst t1 t2.
    repeat split; [exact T1 | exact T2 |]. rewrite K1, K2, Hthr. reflexivity.
  Qed.
End Any.

(* ---------- the four Unicode presentations of a text ---------- *)
Lemma starts_with_nil (l : list N) : starts_with l [] = true.
Proof. destruct l; reflexivity. Qed.

Lemma sig_utf8 x : identify_sig (239 :: 187 :: 191 :: x) = Some ("utf-8"%string, [239; 187; 191]).
Proof. unfold identify_sig, MARKS. cbn [find snd starts_with N.eqb Pos.eqb andb]. rewrite starts_with_nil. reflexivity. Qed.
Lemma sig_utf16le x : identify_sig (255 :: 254 :: x) = Some ("utf-16le"%string, [255; 254]).
Proof. unfold identify_sig, MARKS. cbn [find snd starts_with N.eqb Pos.eqb andb]. rewrite starts_with_nil. reflexivity. Qed.
Lemma sig_utf16be x : identify_sig (254 :: 255 :: x) = Some ("utf-16be"%string, [254; 255]).
Proof. unfold identify_sig, MARKS. cbn [find snd starts_with N.eqb Pos.eqb andb]. rewrite starts_with_nil. reflexivity. Qed.

(* a UTF-8 text starts with EF BB BF only if its first character is U+FEFF *)
Lemma utf8_no_sig c t : c < 2097152 -> c <> 65279 -> starts_with (utf8_encode (c :: t)) [239; 187; 191] = false.
Proof.
  intros Hc Hne. unfold utf8_encode. cbn [flat_map]. unfold utf8_encode_char.
  destruct (c <? 128) eqn:E1; [|destruct (c <? 2048) eqn:E2; [|destruct (c <? 65536) eqn:E3]];
    rewrite ?N.ltb_lt, ?N.ltb_ge in *; cbn [app starts_with].
  - replace (239 =? c) with false by (symmetry; apply N.eqb_neq; lia). reflexivity.
  - replace (239 =? 192 + c / 64) with false by (symmetry; apply N.eqb_neq; lia). reflexivity.
  - destruct (239 =? 224 + c / 4096) eqn:A; [|reflexivity].
    destruct (187 =? 128 + (c / 64) mod 64) eqn:A2; [|reflexivity].
    destruct (191 =? 128 + c mod 64) eqn:A3; [|reflexivity].
    apply N.eqb_eq in A, A2, A3. exfalso. apply Hne. lia.
  - replace (239 =? 240 + c / 262144) with false by (symmetry; apply N.eqb_neq; lia). reflexivity.
Qed.

(* the first byte of a UTF-8 text is ASCII or a lead byte C2..F4: never 84 (gb18030 mark), FF or FE *)
Lemma utf8_first_byte c t : scalar c ->
  exists b0 rest, utf8_encode (c :: t) = b0 :: rest /\ (b0 < 128 \/ (194 <= b0 /\ b0 <= 244)).
Proof.
  intro Hc. apply scalar_spec in Hc. unfold utf8_encode. cbn [flat_map]. unfold utf8_encode_char.
  destruct (c <? 128) eqn:E1; [|destruct (c <? 2048) eqn:E2; [|destruct (c <? 65536) eqn:E3]];
    rewrite ?N.ltb_lt, ?N.ltb_ge in *; cbn [app]; eexists; eexists; (split; [reflexivity|]); lia.
Qed.

(* a UTF-8 text that does not begin with U+FEFF begins with no mark at all *)
Theorem utf8_text_no_sig t : Forall scalar t -> match t with c :: _ => c <> 65279 | [] => True end ->
  identify_sig (utf8_encode t) = None.
Proof.
  intros Ht Hh. destruct t as [|c t']; [reflexivity|]. inversion Ht as [|? ? Hc _]; subst.
  pose proof (utf8_no_sig c t' ltac:(apply scalar_spec in Hc; lia) Hh) as H8.
  destruct (utf8_first_byte c t' Hc) as (b0 & rest & E & Hb). rewrite E in *.
  unfold identify_sig, MARKS. cbn [find snd]. rewrite H8. cbn [starts_with].
  replace (132 =? b0) with false by (symmetry; apply N.eqb_neq; lia).
  replace (255 =? b0) with false by (symmetry; apply N.eqb_neq; lia).
  replace (254 =? b0) with false by (symmetry; apply N.eqb_neq; lia). reflexivity.
Qed.

Inductive unicode_form (t : text) : bytes -> string -> Prop :=
| form_utf8 : match t with c :: _ => c <> 65279 | [] => True end -> unicode_form t (utf8_encode t) "utf-8"
| form_utf8_sig : unicode_form t ([239; 187; 191] ++ utf8_encode t) "utf-8"
| form_utf16le : unicode_form t ([255; 254] ++ utf16_encode false t) "utf-16le"
| form_utf16be : unicode_form t ([254; 255] ++ utf16_encode true t) "utf-16be".

Lemma unicode_form_decodes B t b e : Forall scalar t -> unicode_form t b e ->
  sdecode F32ops (pipeline_dec B) e (strip b e) = Some t.
Proof.
  intros Ht F. destruct (unicode_forms_decode B t Ht) as (U8 & ULE & UBE & _).
  destruct F as [Hh| | |]; unfold strip.
  - rewrite (utf8_text_no_sig t Ht Hh). exact U8.
  - cbn [app]. rewrite sig_utf8. rewrite String.eqb_refl. cbn [List.length skipn]. exact U8.
  - cbn [app]. rewrite sig_utf16le. rewrite String.eqb_refl. cbn [List.length skipn]. exact ULE.
  - cbn [app]. rewrite sig_utf16be. rewrite String.eqb_refl. cbn [List.length skipn]. exact UBE.
Qed.

(* the corollary: with the Unicode codecs modelled, the same text in any two of its four Unicode presentations,
   each accepted for its own encoding on a covered input, is exposed identically and gets the same chaos *)
Theorem unicode_forms_same_chaos B :
  (forall e l t, b_sdecode B e l = Some t -> len t <= len l) ->
  forall t b1 e1 b2 e2 cfg1 cfg2 inc1 exc1 inc2 exc2 m1 m2 x1 x2,
    Forall scalar t -> unicode_form t b1 e1 -> unicode_form t b2 e2 ->
    len b1 <= chunk_size F32ops cfg1 * steps F32ops cfg1 -> len b1 <= TOO_BIG_SEQUENCE ->
    len b2 <= chunk_size F32ops cfg2 * steps F32ops cfg2 -> len b2 <= TOO_BIG_SEQUENCE ->
    threshold F32ops cfg1 = threshold F32ops cfg2 ->
    probe F32ops (pipeline_dec B) (make_ctx F32ops (pipeline_dec B) b1 cfg1 inc1 exc1) e1 = Ok (Accept F32ops m1 x1) ->
    probe F32ops (pipeline_dec B) (make_ctx F32ops (pipeline_dec B) b2 cfg2 inc2 exc2) e2 = Ok (Accept F32ops m2 x2) ->
    m_text F32ops m1 = Some t /\ m_text F32ops m2 = Some t /\ m_chaos F32ops m1 = m_chaos F32ops m2.
Proof.
  intros HB t b1 e1 b2 e2 cfg1 cfg2 inc1 exc1 inc2 exc2 m1 m2 x1 x2 Ht F1 F2 C1 S1 C2 S2 Hthr P1 P2.
  apply (same_text_same_chaos_across_inputs F32ops (pipeline_dec B) F32_FloatLaws (pipeline_dec_decode_len B HB)
           b1 b2 cfg1 cfg2 inc1 exc1 inc2 exc2 e1 e2 m1 m2 x1 x2 t); try assumption.
  - exact (unicode_form_decodes B t b1 e1 Ht F1).
  - exact (unicode_form_decodes B t b2 e2 Ht F2).
Qed.

(* non-vacuity of the signature-free form: "Aé" *)
Example form_utf8_exists : unicode_form [65; 233] (utf8_encode [65; 233]) "utf-8".
Proof. apply form_utf8. discriminate. Qed.

(* every Rust String -- the UTF-8 form of any sequence of scalar values -- is "valid UTF-8" in the sense of the
   last clause of C04 (DetectUtf8.valid_utf8), for the pipeline that decodes with the models *)
Theorem every_string_is_valid_utf8 B t : Forall scalar t -> valid_utf8 F32ops (pipeline_dec B) (utf8_encode t).
Proof.
  intro Ht. unfold valid_utf8. destruct t as [|c t'].
  - exists []. exact (proj1 (unicode_forms_decode B [] Ht)).
  - inversion Ht as [|? ? Hc Ht']; subst. destruct (N.eq_dec c 65279) as [->|Hne].
    + exists t'. change (utf8_encode (65279 :: t')) with ([239; 187; 191] ++ utf8_encode t'). cbn [app].
      rewrite sig_utf8. cbn [String.eqb Ascii.eqb Bool.eqb List.length skipn]. exact (proj1 (unicode_forms_decode B t' Ht')).
    + exists (c :: t'). rewrite (utf8_text_no_sig (c :: t') Ht Hne). exact (proj1 (unicode_forms_decode B (c :: t') Ht)).
Qed.

(* ---------- single-byte presentations: "any encoding able to represent it" ---------- *)
(* the byte a single-byte table encodes a character with: the first byte that decodes to it *)
Definition sb_encode_char (T : list N) (c : N) : option N :=
  find (fun b => match sb_lookup T b with Some c' => c' =? c | None => false end) (map N.of_nat (seq 0 256)).
Fixpoint sb_encode (T : list N) (t : text) : option bytes :=
  match t with
  | [] => Some []
  | c :: r => match sb_encode_char T c, sb_encode T r with Some b, Some br => Some (b :: br) | _, _ => None end
  end.

Lemma sb_encode_char_decodes T c b : sb_encode_char T c = Some b -> sb_lookup T b = Some c.
Proof.
  unfold sb_encode_char. intro H. apply find_some in H as [_ H].
  destruct (sb_lookup T b) as [c'|]; [|discriminate]. apply N.eqb_eq in H. subst. reflexivity.
Qed.

Lemma sb_round_trip T t : forall b, sb_encode T t = Some b -> sb_closed T b = Some t.
Proof.
  induction t as [|c r IH]; intros b H; cbn [sb_encode] in H.
  - inversion H; subst. reflexivity.
  - destruct (sb_encode_char T c) as [b0|] eqn:E0; [|discriminate]. destruct (sb_encode T r) as [br|] eqn:Er; [|discriminate].
    inversion H; subst. specialize (IH br eq_refl). unfold sb_closed in *. cbn [sb_all forallb sb_chars flat_map].
    rewrite (sb_encode_char_decodes T c b0 E0). fold (sb_all T br). fold (sb_chars T br).
    destruct (sb_all T br); [|discriminate]. inversion IH; subst. reflexivity.
Qed.

(* every presentation of a text that a modelled codec can read back: the four Unicode forms and the text encoded
   by any single-byte table that has all its characters *)
Inductive text_form (t : text) : bytes -> string -> Prop :=
| form_unicode b e : unicode_form t b e -> text_form t b e
| form_single_byte e T b : is_multi_byte e = false -> sb_table e = Some T -> sb_encode T t = Some b -> text_form t b e.

Lemma text_form_decodes B t b e : Forall scalar t -> text_form t b e ->
  sdecode F32ops (pipeline_dec B) e (strip b e) = Some t.
Proof.
  intros Ht F. destruct F as [b e F|e T b Hmb HT Hb].
  - exact (unicode_form_decodes B t b e Ht F).
  - rewrite (strip_not_multibyte b e Hmb). cbn [sdecode pipeline_dec]. rewrite (modelled_not_multibyte e Hmb), HT.
    cbn [codec_strict]. exact (sb_round_trip T t b Hb).
Qed.

Theorem all_forms_same_chaos B :
  (forall e l t, b_sdecode B e l = Some t -> len t <= len l) ->
  forall t b1 e1 b2 e2 cfg1 cfg2 inc1 exc1 inc2 exc2 m1 m2 x1 x2,
    Forall scalar t -> text_form t b1 e1 -> text_form t b2 e2 ->
    len b1 <= chunk_size F32ops cfg1 * steps F32ops cfg1 -> len b1 <= TOO_BIG_SEQUENCE ->
    len b2 <= chunk_size F32ops cfg2 * steps F32ops cfg2 -> len b2 <= TOO_BIG_SEQUENCE ->
    threshold F32ops cfg1 = threshold F32ops cfg2 ->
    probe F32ops (pipeline_dec B) (make_ctx F32ops (pipeline_dec B) b1 cfg1 inc1 exc1) e1 = Ok (Accept F32ops m1 x1) ->
    probe F32ops (pipeline_dec B) (make_ctx F32ops (pipeline_dec B) b2 cfg2 inc2 exc2) e2 = Ok (Accept F32ops m2 x2) ->
    m_text F32ops m1 = Some t /\ m_text F32ops m2 = Some t /\ m_chaos F32ops m1 = m_chaos F32ops m2.
Proof.
  intros HB t b1 e1 b2 e2 cfg1 cfg2 inc1 exc1 inc2 exc2 m1 m2 x1 x2 Ht F1 F2 C1 S1 C2 S2 Hthr P1 P2.
  apply (same_text_same_chaos_across_inputs F32ops (pipeline_dec B) F32_FloatLaws (pipeline_dec_decode_len B HB)
           b1 b2 cfg1 cfg2 inc1 exc1 inc2 exc2 e1 e2 m1 m2 x1 x2 t); try assumption.
  - exact (text_form_decodes B t b1 e1 Ht F1).
  - exact (text_form_decodes B t b2 e2 Ht F2).
Qed.

(* non-vacuity: "Привет" in windows-1251 and in koi8-r are two single-byte presentations of one text *)
Example cyrillic_forms :
  exists T1 T2 b1 b2, sb_table "windows-1251" = Some T1 /\ sb_table "koi8-r" = Some T2
    /\ sb_encode T1 [1055; 1088; 1080; 1074; 1077; 1090] = Some b1 /\ sb_encode T2 [1055; 1088; 1080; 1074; 1077; 1090] = Some b2 /\ b1 <> b2.
Proof.
  destruct (sb_table "windows-1251") as [T1|] eqn:E1; [|vm_compute in E1; discriminate].
  destruct (sb_table "koi8-r") as [T2|] eqn:E2; [|vm_compute in E2; discriminate].
  vm_compute in E1. vm_compute in E2. inversion E1; inversion E2; subst.
  eexists; eexists; eexists; eexists. split; [reflexivity|]. split; [reflexivity|].
  split; [vm_compute; reflexivity|]. split; [vm_compute; reflexivity|]. discriminate.
Qed.
