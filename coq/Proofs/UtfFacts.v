(* Facts about Model/Utf.v:
   - utf8_chars (str::chars) inverts utf8_encode (String contents) on scalar values;
   - the codec crate's UTF-8 automaton (generated tables) accepts the encoding of every scalar value, so the
     helper decodes `utf8_encode t` strictly to exactly those bytes;
   - the UTF-16 decoder inverts the UTF-16 encoder, for both byte orders;
   - DecodeLen (at most one character per byte) for the three modelled Unicode decoders. *)
From Coq Require Import List NArith ZArith String Bool Lia.
From Gen Require Import Tables.
From Model Require Import Base Names Decode Utf.
From Proofs Require Import DecodeFacts.
Import ListNotations.
Open Scope N_scope.
Open Scope list_scope.

Ltac Zify.zify_post_hook ::= Z.to_euclidean_division_equations.

Local Arguments N.add : simpl never.
Local Arguments N.mul : simpl never.
Local Arguments N.div : simpl never.
Local Arguments N.modulo : simpl never.
Local Arguments N.ltb : simpl never.
Local Arguments N.leb : simpl never.
Local Arguments N.sub : simpl never.

Definition scalar (c : N) : Prop := is_scalar c = true.

Lemma scalar_spec c : scalar c <-> (c < 55296 \/ (57344 <= c /\ c < 1114112)).
Proof.
  unfold scalar, is_scalar. rewrite orb_true_iff, andb_true_iff, !N.ltb_lt, N.leb_le. tauto.
Qed.

Ltac ltb_false := match goal with |- context [?a <? ?b] => replace (a <? b) with false by (symmetry; apply N.ltb_ge; lia) end.
Ltac ltb_true := match goal with |- context [?a <? ?b] => replace (a <? b) with true by (symmetry; apply N.ltb_lt; lia) end.

(* ---------- UTF-8 round trip at the character level ---------- *)
Lemma utf8_chars_encode_char c r : c < 2097152 -> utf8_chars (utf8_encode_char c ++ r) = c :: utf8_chars r.
Proof.
  intro Hc. unfold utf8_encode_char.
  destruct (c <? 128) eqn:E1; [|destruct (c <? 2048) eqn:E2; [|destruct (c <? 65536) eqn:E3]];
    rewrite ?N.ltb_lt, ?N.ltb_ge in *; cbn [app utf8_chars].
  - rewrite (proj2 (N.ltb_lt _ _) E1). reflexivity.
  - ltb_false. ltb_true. f_equal. lia.
  - ltb_false. ltb_false. ltb_true. f_equal. lia.
  - ltb_false. ltb_false. ltb_false. f_equal. lia.
Qed.

Theorem utf8_chars_encode t : Forall scalar t -> utf8_chars (utf8_encode t) = t.
Proof.
  induction 1 as [|c t Hc _ IH]; [reflexivity|]. unfold utf8_encode in *. cbn [flat_map].
  rewrite utf8_chars_encode_char, IH; [reflexivity|]. apply scalar_spec in Hc. lia.
Qed.

(* ---------- the crate's automaton accepts every encoded scalar value ---------- *)
Definition trans_ok (st lo hi st' : N) : bool :=
  forallb (fun b => negb ((lo <=? b) && (b <=? hi)) || (u8_next st b =? st')) ALLB.

Lemma trans_ok_spec st lo hi st' b : trans_ok st lo hi st' = true -> lo <= b -> b <= hi -> b < 256 -> u8_next st b = st'.
Proof.
  intros H Hl Hh Hb. unfold trans_ok in H. rewrite forallb_forall in H. specialize (H b (allb_spec b Hb)).
  assert (E : (lo <=? b) && (b <=? hi) = true) by (apply andb_true_iff; split; apply N.leb_le; assumption).
  rewrite E in H. cbn [negb orb] in H. apply N.eqb_eq. exact H.
Qed.

(* the transition facts, decided over the tables generated on this run *)
Lemma T_ascii : trans_ok 0 0 127 0 = true. Proof. vm_compute. reflexivity. Qed.
Lemma T_c2 : trans_ok 0 194 223 12 = true. Proof. vm_compute. reflexivity. Qed.
Lemma T_e0 : trans_ok 0 224 224 36 = true. Proof. vm_compute. reflexivity. Qed.
Lemma T_e1 : trans_ok 0 225 236 24 = true. Proof. vm_compute. reflexivity. Qed.
Lemma T_ed : trans_ok 0 237 237 48 = true. Proof. vm_compute. reflexivity. Qed.
Lemma T_ee : trans_ok 0 238 239 24 = true. Proof. vm_compute. reflexivity. Qed.
Lemma T_f0 : trans_ok 0 240 240 60 = true. Proof. vm_compute. reflexivity. Qed.
Lemma T_f1 : trans_ok 0 241 243 72 = true. Proof. vm_compute. reflexivity. Qed.
Lemma T_f4 : trans_ok 0 244 244 84 = true. Proof. vm_compute. reflexivity. Qed.
Lemma T_12 : trans_ok 12 128 191 0 = true. Proof. vm_compute. reflexivity. Qed.
Lemma T_24 : trans_ok 24 128 191 12 = true. Proof. vm_compute. reflexivity. Qed.
Lemma T_36 : trans_ok 36 160 191 12 = true. Proof. vm_compute. reflexivity. Qed.
Lemma T_48 : trans_ok 48 128 159 12 = true. Proof. vm_compute. reflexivity. Qed.
Lemma T_60 : trans_ok 60 144 191 24 = true. Proof. vm_compute. reflexivity. Qed.
Lemma T_72 : trans_ok 72 128 191 24 = true. Proof. vm_compute. reflexivity. Qed.
Lemma T_84 : trans_ok 84 128 143 24 = true. Proof. vm_compute. reflexivity. Qed.

Lemma live12 : live 12 = true. Proof. reflexivity. Qed.
Lemma live24 : live 24 = true. Proof. reflexivity. Qed.
Lemma live36 : live 36 = true. Proof. reflexivity. Qed.
Lemma live48 : live 48 = true. Proof. reflexivity. Qed.
Lemma live60 : live 60 = true. Proof. reflexivity. Qed.
Lemma live72 : live 72 = true. Proof. reflexivity. Qed.
Lemma live84 : live 84 = true. Proof. reflexivity. Qed.

Lemma is_char1 b0 : b0 < 256 -> u8_next 0 b0 = 0 -> is_char [b0].
Proof. intros H0 E. split; [repeat constructor; assumption|]. cbn [walk]. exact E. Qed.
Lemma is_char2 b0 b1 s1 : b0 < 256 -> b1 < 256 -> u8_next 0 b0 = s1 -> live s1 = true -> u8_next s1 b1 = 0 -> is_char [b0; b1].
Proof. intros H0 H1 E1 L1 E2. split; [repeat constructor; assumption|]. cbn [walk]. rewrite E1. split; assumption. Qed.
Lemma is_char3 b0 b1 b2 s1 s2 : b0 < 256 -> b1 < 256 -> b2 < 256 ->
  u8_next 0 b0 = s1 -> live s1 = true -> u8_next s1 b1 = s2 -> live s2 = true -> u8_next s2 b2 = 0 -> is_char [b0; b1; b2].
Proof.
  intros H0 H1 H2 E1 L1 E2 L2 E3. split; [repeat constructor; assumption|]. cbn [walk]. rewrite E1, E2. repeat split; assumption.
Qed.
Lemma is_char4 b0 b1 b2 b3 s1 s2 s3 : b0 < 256 -> b1 < 256 -> b2 < 256 -> b3 < 256 ->
  u8_next 0 b0 = s1 -> live s1 = true -> u8_next s1 b1 = s2 -> live s2 = true -> u8_next s2 b2 = s3 -> live s3 = true ->
  u8_next s3 b3 = 0 -> is_char [b0; b1; b2; b3].
Proof.
  intros H0 H1 H2 H3 E1 L1 E2 L2 E3 L3 E4. split; [repeat constructor; assumption|]. cbn [walk]. rewrite E1, E2, E3.
  repeat split; assumption.
Qed.

Theorem utf8_encode_char_is_char c : scalar c -> is_char (utf8_encode_char c).
Proof.
  intro Hc. apply scalar_spec in Hc. unfold utf8_encode_char.
  destruct (c <? 128) eqn:E1; [|destruct (c <? 2048) eqn:E2; [|destruct (c <? 65536) eqn:E3]];
    rewrite ?N.ltb_lt, ?N.ltb_ge in *.
  - apply is_char1; [lia|]. apply (trans_ok_spec _ _ _ _ _ T_ascii); lia.
  - apply (is_char2 _ _ 12); [lia|lia| |exact live12|].
    + apply (trans_ok_spec _ _ _ _ _ T_c2); lia.
    + apply (trans_ok_spec _ _ _ _ _ T_12); lia.
  - assert (Hrow : c < 4096 \/ (4096 <= c /\ c < 53248) \/ (53248 <= c /\ c < 55296) \/ 57344 <= c) by lia.
    destruct Hrow as [Hr|[Hr|[Hr|Hr]]].
    + apply (is_char3 _ _ _ 36 12); [lia|lia|lia| |exact live36| |exact live12|].
      * apply (trans_ok_spec _ _ _ _ _ T_e0); lia.
      * apply (trans_ok_spec _ _ _ _ _ T_36); lia.
      * apply (trans_ok_spec _ _ _ _ _ T_12); lia.
    + apply (is_char3 _ _ _ 24 12); [lia|lia|lia| |exact live24| |exact live12|].
      * apply (trans_ok_spec _ _ _ _ _ T_e1); lia.
      * apply (trans_ok_spec _ _ _ _ _ T_24); lia.
      * apply (trans_ok_spec _ _ _ _ _ T_12); lia.
    + apply (is_char3 _ _ _ 48 12); [lia|lia|lia| |exact live48| |exact live12|].
      * apply (trans_ok_spec _ _ _ _ _ T_ed); lia.
      * apply (trans_ok_spec _ _ _ _ _ T_48); lia.
      * apply (trans_ok_spec _ _ _ _ _ T_12); lia.
    + apply (is_char3 _ _ _ 24 12); [lia|lia|lia| |exact live24| |exact live12|].
      * apply (trans_ok_spec _ _ _ _ _ T_ee); lia.
      * apply (trans_ok_spec _ _ _ _ _ T_24); lia.
      * apply (trans_ok_spec _ _ _ _ _ T_12); lia.
  - assert (Hrow : c < 262144 \/ (262144 <= c /\ c < 1048576) \/ 1048576 <= c) by lia.
    destruct Hrow as [Hr|[Hr|Hr]].
    + apply (is_char4 _ _ _ _ 60 24 12); [lia|lia|lia|lia| |exact live60| |exact live24| |exact live12|].
      * apply (trans_ok_spec _ _ _ _ _ T_f0); lia.
      * apply (trans_ok_spec _ _ _ _ _ T_60); lia.
      * apply (trans_ok_spec _ _ _ _ _ T_24); lia.
      * apply (trans_ok_spec _ _ _ _ _ T_12); lia.
    + apply (is_char4 _ _ _ _ 72 24 12); [lia|lia|lia|lia| |exact live72| |exact live24| |exact live12|].
      * apply (trans_ok_spec _ _ _ _ _ T_f1); lia.
      * apply (trans_ok_spec _ _ _ _ _ T_72); lia.
      * apply (trans_ok_spec _ _ _ _ _ T_24); lia.
      * apply (trans_ok_spec _ _ _ _ _ T_12); lia.
    + apply (is_char4 _ _ _ _ 84 24 12); [lia|lia|lia|lia| |exact live84| |exact live24| |exact live12|].
      * apply (trans_ok_spec _ _ _ _ _ T_f4); lia.
      * apply (trans_ok_spec _ _ _ _ _ T_84); lia.
      * apply (trans_ok_spec _ _ _ _ _ T_24); lia.
      * apply (trans_ok_spec _ _ _ _ _ T_12); lia.
Qed.

Lemma utf8_encode_concat t : utf8_encode t = List.concat (map utf8_encode_char t).
Proof. unfold utf8_encode. apply flat_map_concat_map. Qed.

Lemma encoded_chars t : Forall scalar t -> Forall is_char (map utf8_encode_char t).
Proof. induction 1 as [|c t Hc _ IH]; cbn [map]; constructor; [apply utf8_encode_char_is_char; exact Hc | exact IH]. Qed.

(* the helper, strict, decodes the UTF-8 form of any text to exactly that text *)
Theorem utf8_strict_text_encode t : Forall scalar t -> utf8_strict_text (utf8_encode t) = Some t.
Proof.
  intro Ht. unfold utf8_strict_text, utf8_strict_decode, helper. cbn [andb].
  rewrite utf8_encode_concat. rewrite (attempt_ok _ (encoded_chars t Ht)). cbn [option_map].
  rewrite <- utf8_encode_concat, utf8_chars_encode by exact Ht. reflexivity.
Qed.

(* so does chunk mode (nothing to trim) *)
Theorem utf8_chunk_text_encode t : Forall scalar t -> utf8_chunk_text (utf8_encode t) = Some t.
Proof.
  intro Ht. unfold utf8_chunk_text. destruct t as [|c t'].
  - vm_compute. reflexivity.
  - rewrite utf8_encode_concat.
    pose proof (utf8_window_decodes [] (map utf8_encode_char (c :: t')) []) as W. cbn [app] in W. rewrite app_nil_r in W.
    rewrite W.
    + cbn [option_map]. rewrite <- utf8_encode_concat, utf8_chars_encode by exact Ht. reflexivity.
    + constructor.
    + cbn. lia.
    + cbn [map]. discriminate.
    + apply encoded_chars. exact Ht.
    + left. reflexivity.
    + cbn. lia.
Qed.

(* ---------- UTF-16 round trip ---------- *)
Lemma concat2_two_bytes big msb lsb : msb < 256 -> lsb < 256 ->
  exists b0 b1, two_bytes big msb lsb = [b0; b1] /\ concat2 big b0 b1 = msb * 256 + lsb.
Proof.
  intros Hm Hl. destruct big; cbn [two_bytes concat2]; eexists; eexists; (split; [reflexivity|]); lia.
Qed.

Lemma u16_main_encode big t : Forall scalar t -> forall i racc r,
  u16_main big i (utf16_encode big t ++ r) racc
  = u16_main big (i + len (utf16_encode big t)) r (rev t ++ racc).
Proof.
  induction 1 as [|c t Hc _ IH]; intros i racc r.
  - cbn [utf16_encode flat_map app rev]. unfold len. cbn [List.length]. rewrite N.add_0_r. reflexivity.
  - apply scalar_spec in Hc. unfold utf16_encode in *. cbn [flat_map]. rewrite <- app_assoc.
    unfold utf16_encode_char at 1 3. destruct (c <? 65536) eqn:E; rewrite ?N.ltb_lt, ?N.ltb_ge in E.
    + destruct (concat2_two_bytes big (c / 256) (c mod 256)) as (b0 & b1 & -> & Hcc); [lia|lia|].
      cbn [app u16_main]. rewrite Hcc.
      replace (c / 256 * 256 + c mod 256) with c by lia.
      assert (Hh : is_hi c = false) by (unfold is_hi; apply andb_false_iff; rewrite N.leb_gt, N.leb_gt; lia).
      assert (Hl : is_lo c = false) by (unfold is_lo; apply andb_false_iff; rewrite N.leb_gt, N.leb_gt; lia).
      rewrite Hh, Hl. rewrite IH. f_equal.
      * unfold len. cbn [app List.length]. lia.
      * cbn [rev]. rewrite <- app_assoc. reflexivity.
    + set (c' := c - 65536).
      destruct (concat2_two_bytes big (216 + c' / 262144) ((c' / 1024) mod 256)) as (b0 & b1 & -> & Hc1); [lia|lia|].
      destruct (concat2_two_bytes big (220 + (c' / 256) mod 4) (c' mod 256)) as (b2 & b3 & -> & Hc2); [lia|lia|].
      cbn [app u16_main]. rewrite Hc1, Hc2.
      assert (Hh : is_hi ((216 + c' / 262144) * 256 + (c' / 1024) mod 256) = true)
        by (unfold is_hi; apply andb_true_iff; rewrite !N.leb_le; lia).
      assert (Hl : is_lo ((220 + (c' / 256) mod 4) * 256 + c' mod 256) = true)
        by (unfold is_lo; apply andb_true_iff; rewrite !N.leb_le; lia).
      rewrite Hh, Hl. rewrite IH. f_equal.
      * unfold len. cbn [app List.length]. lia.
      * cbn [rev]. rewrite <- app_assoc. f_equal. cbn [app]. f_equal. unfold pair_char. lia.
Qed.

Lemma utf16_encode_nonempty big c t : exists b r, utf16_encode big (c :: t) = b :: r.
Proof.
  unfold utf16_encode. cbn [flat_map]. unfold utf16_encode_char.
  destruct (c <? 65536); destruct big; cbn [two_bytes app]; eexists; eexists; reflexivity.
Qed.

Theorem utf16_decode_encode big t : Forall scalar t ->
  decode_to (utf16_decoder big) [65533] (utf16_encode big t) Strict = DtOk t.
Proof.
  intro Ht. unfold decode_to. cbn [decode_to_loop]. cbn [dfeed dinit dfinish utf16_decoder N.to_nat skipn].
  destruct t as [|c t'].
  - reflexivity.
  - destruct (utf16_encode_nonempty big c t') as (b & r & E).
    pose proof (u16_main_encode big (c :: t') Ht 0 [] []) as M. rewrite !app_nil_r in M.
    unfold u16_feed. rewrite E. cbn [lead_byte u16_init lead_surr].
    replace (len (b :: r) <=? 0) with false by (symmetry; apply N.leb_gt; unfold len; cbn [List.length]; lia).
    cbn [N.to_nat skipn]. rewrite <- E. change (rev (@nil N)) with (@nil N). rewrite M. cbn [u16_main u16_finish lead_byte lead_surr u16_init]. rewrite rev_involutive. cbn [app]. rewrite app_nil_r. reflexivity.
Qed.

Theorem utf16_strict_text_encode big t : Forall scalar t -> utf16_strict_text big (utf16_encode big t) = Some t.
Proof.
  intro Ht. unfold utf16_strict_text, utf16_helper, helper. cbn [andb]. rewrite utf16_decode_encode by exact Ht. reflexivity.
Qed.

(* chunk mode: the first attempt already succeeds *)
Theorem utf16_chunk_text_encode big t : Forall scalar t -> utf16_chunk_text big (utf16_encode big t) = Some t.
Proof.
  intro Ht. unfold utf16_chunk_text, utf16_helper, helper. cbn [andb chunk_loop].
  rewrite N.sub_0_r. cbn [N.to_nat skipn]. unfold len. rewrite Nat2N.id, firstn_all.
  rewrite utf16_decode_encode by exact Ht. reflexivity.
Qed.

(* the byte-order marks are the encodings of U+FEFF: a marked UTF-16 input decodes to U+FEFF followed by the text *)
Lemma utf16_mark big : utf16_encode big [65279] = if big then [254; 255] else [255; 254].
Proof. destruct big; vm_compute; reflexivity. Qed.
Lemma utf8_mark : utf8_encode [65279] = [239; 187; 191].
Proof. vm_compute. reflexivity. Qed.
