(* The probing order: `prioritize` (the VecDeque remove / push_front loop) permutes the supported
   list, keeps it duplicate free, and puts the hints first in first-occurrence order. *)
From Coq Require Import List NArith String Bool Lia Permutation.
From Gen Require Import Tables.
From Model Require Import Base Names Flt Matches Detect.
From Proofs Require Import NamesFacts.
Import ListNotations.
Open Scope list_scope.

Lemma remove_first_perm s l : mem s l = true -> Permutation (s :: remove_first s l) l.
Proof.
  induction l as [|x l IH]; cbn [mem remove_first]; [discriminate|].
  destruct (String.eqb x s) eqn:E.
  - apply String.eqb_eq in E. subst. intros _. apply Permutation_refl.
  - cbn [orb]. intro H. eapply Permutation_trans; [apply perm_swap|]. apply perm_skip, IH, H.
Qed.

Lemma move_front_perm l pe : Permutation (move_front l pe) l.
Proof.
  unfold move_front. destruct (mem pe l) eqn:E; [apply remove_first_perm; exact E | apply Permutation_refl].
Qed.

Lemma prioritize_perm prio l : Permutation (prioritize prio l) l.
Proof.
  unfold prioritize. generalize (rev prio). intro p. revert l.
  induction p as [|pe p IH]; intro l; cbn [fold_left]; [apply Permutation_refl|].
  eapply Permutation_trans; [apply IH | apply move_front_perm].
Qed.

Lemma prioritize_In prio l e : In e (prioritize prio l) <-> In e l.
Proof.
  split; apply Permutation_in; [apply prioritize_perm | apply Permutation_sym, prioritize_perm].
Qed.

Lemma prioritize_NoDup prio l : NoDup l -> NoDup (prioritize prio l).
Proof. intro H. eapply Permutation_NoDup; [apply Permutation_sym, prioritize_perm | exact H]. Qed.

Lemma order_supported prio e : In e (prioritize prio IANA_SUPPORTED) -> In e IANA_SUPPORTED.
Proof. apply prioritize_In. Qed.

Lemma order_nodup prio : NoDup (prioritize prio IANA_SUPPORTED).
Proof. apply prioritize_NoDup, supported_nodup. Qed.
