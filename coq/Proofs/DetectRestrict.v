(* C09: restricting detection to one encoding does not change that encoding's verdict.
   `probe c e` -- the stand-alone verdict -- is a function of the payload, the mark, the hint
   list and the settings other than the filters; the loop only threads the soft-failure list,
   the result container and the fall-back slots. *)
From Coq Require Import List NArith String Bool Lia Permutation.
From Gen Require Import Tables.
From Model Require Import Base Names Flt Matches Detect.
From Proofs Require Import SortFacts NamesFacts OrderFacts DetectFacts DetectInv DetectSound DetectFilters DetectTotal.
Import ListNotations.
Open Scope N_scope.
Open Scope list_scope.

Opaque iana_name identify_sig is_multi_byte is_cp_similar.

Section Restrict.
  Variable FO : FloatOps.
  Variable R : oracles FO.
  Notation cmatch := (cmatch FO).

  (* two contexts that differ at most in the include / exclude lists *)
  Record same_core (c c' : ctx FO) : Prop := {
    sc_bytes : c_bytes FO c = c_bytes FO c';
    sc_len : c_len FO c = c_len FO c';
    sc_lazy : c_lazy FO c = c_lazy FO c';
    sc_spec : c_specified FO c = c_specified FO c';
    sc_sig : c_sig FO c = c_sig FO c';
    sc_prio : c_prio FO c = c_prio FO c';
    sc_steps : steps FO (c_cfg FO c) = steps FO (c_cfg FO c');
    sc_chunk : chunk_size FO (c_cfg FO c) = chunk_size FO (c_cfg FO c');
    sc_thr : threshold FO (c_cfg FO c) = threshold FO (c_cfg FO c');
    sc_lthr : language_threshold FO (c_cfg FO c) = language_threshold FO (c_cfg FO c');
    sc_fb : enable_fallback FO (c_cfg FO c) = enable_fallback FO (c_cfg FO c');
  }.

  Lemma chunk_loop_cfg cfg cfg' b e dec sl mg offs : forall st,
    chunk_size FO cfg = chunk_size FO cfg' -> threshold FO cfg = threshold FO cfg' ->
    chunk_loop FO R cfg b e dec sl mg st offs = chunk_loop FO R cfg' b e dec sl mg st offs.
  Proof.
    induction offs as [|o offs IH]; intros st H1 H2; cbn [chunk_loop]; [reflexivity|].
    assert (Hs : chunk_step FO R cfg b e dec sl mg st o = chunk_step FO R cfg' b e dec sl mg st o).
    { unfold chunk_step. rewrite H1, H2. reflexivity. }
    rewrite Hs. destruct (chunk_step FO R cfg' b e dec sl mg st o) as [[st'|st']| |]; cbn [bind]; try reflexivity.
    apply IH; assumption.
  Qed.

  Lemma probe_pre_core c c' e : same_core c c' -> probe_pre FO R c e = probe_pre FO R c' e.
  Proof.
    intros [H1 H2 H3 _ H5 _ _ _ _ _ _]. unfold probe_pre, is_bom, lazy_sb, sig_enc. cbv zeta.
    rewrite H1, H2, H3, H5. reflexivity.
  Qed.

  Lemma probe_rest_core c c' e si dec : same_core c c' -> probe_rest FO R c e si dec = probe_rest FO R c' e si dec.
  Proof.
    intros [H1 H2 H3 _ H5 H6 H7 H8 H9 H10 H11]. unfold probe_rest, is_bom, lazy_sb, sig_enc. cbv zeta.
    rewrite H1, H2, H3, H5, H6, H7, H9, H10, H11.
    destruct (udiv "steps / 4" (steps FO (c_cfg FO c')) 4) as [q| |]; cbn [bind]; try reflexivity.
    match goal with |- bind (udiv ?s ?a ?b) _ = _ => destruct (udiv s a b) as [d| |] end; cbn [bind]; try reflexivity.
    rewrite (chunk_loop_cfg (c_cfg FO c) (c_cfg FO c') (c_bytes FO c') e dec _ _ _ _ H8 H9).
    reflexivity.
  Qed.

  Lemma probe_core c c' e : same_core c c' -> probe FO R c e = probe FO R c' e.
  Proof.
    intro H. unfold probe. rewrite (probe_pre_core c c' e H).
    destruct (probe_pre FO R c' e) as [[[si dec]|]| |]; cbn [bind]; try reflexivity.
    apply probe_rest_core; exact H.
  Qed.

  Lemma gate_utf16_core c c' e : same_core c c' -> gate_utf16 FO c e = gate_utf16 FO c' e.
  Proof. intros [_ _ _ _ H5 _ _ _ _ _ _]. unfold gate_utf16, is_bom, sig_enc. rewrite H5. reflexivity. Qed.

  Lemma make_ctx_same_core b cfg inc exc inc' exc' :
    same_core (make_ctx FO R b cfg inc exc) (make_ctx FO R b (with_filters FO cfg inc' exc') inc' exc').
  Proof. constructor; reflexivity. Qed.

  (* ---------- the restricted run ---------- *)
  Lemma main_loop_all_filtered c l : forall s,
    (forall e, In e l -> gate_filtered FO c e = true) -> main_loop FO R c s l = Ok (Next FO s).
  Proof.
    induction l as [|e l IH]; intros s H; cbn [main_loop]; [reflexivity|].
    unfold loop_body. rewrite (H e (or_introl eq_refl)). cbn [bind]. apply IH. intros e' He'. apply H. right; exact He'.
  Qed.

  (* the verdict of e as the result of the call restricted to e *)
  Definition verdict_result (v : res (verdict FO)) : res (list cmatch) :=
    match v with
    | Ok (Accept _ m _) => Ok [m]
    | Ok (SoftFail _ (Some fb)) => Ok [fb]
    | Ok _ => Ok []
    | Err m => Err m
    | Panic s => Panic s
    end.

  Lemma choose_fallback_one c s e entry :
    fb_ascii FO s = None -> fb_u8 FO s = None -> fb_specified FO s = None ->
    choose_fallback FO (set_fallback FO c s e entry) = Some entry.
  Proof.
    intros H1 H2 H3. unfold set_fallback, choose_fallback.
    destruct (String.eqb e (c_specified FO c)); [cbn; reflexivity|].
    destruct (String.eqb e "ascii"); cbn; rewrite ?H1, ?H2, ?H3; reflexivity.
  Qed.

  Lemma single_candidate_run c l1 e l2 :
    In e IANA_SUPPORTED ->
    (forall e', In e' (l1 ++ l2) -> gate_filtered FO c e' = true) ->
    gate_filtered FO c e = false -> gate_utf16 FO c e = false ->
    (forall m x, probe FO R c e = Ok (Accept FO m x) -> m_enc FO m = e) ->
    match main_loop FO R c (init_state FO) (l1 ++ e :: l2) with
    | Ok (Return _ r) => Ok r
    | Ok (Next _ s) => match results FO s with
                       | [] => match choose_fallback FO s with Some fb => Ok (append FO [] fb) | None => Ok [] end
                       | rs => Ok rs
                       end
    | Err m => Err m
    | Panic p => Panic p
    end = verdict_result (probe FO R c e).
  Proof.
    intros HE Hf G1 G2 Henc.
    assert (Hl1 : main_loop FO R c (init_state FO) l1 = Ok (Next FO (init_state FO)))
      by (apply main_loop_all_filtered; intros e' He'; apply Hf, in_or_app; left; exact He').
    assert (Hsplit : forall l l' s, main_loop FO R c s l = Ok (Next FO (init_state FO)) ->
                     main_loop FO R c s (l ++ l') = main_loop FO R c (init_state FO) l').
    { induction l as [|a l IH]; intros l' s H; cbn [main_loop app] in *.
      - injection H as ->. reflexivity.
      - destruct (loop_body FO R c s a) as [[s'|r]| |]; cbn [bind] in *; try discriminate. apply IH; exact H. }
    rewrite (Hsplit l1 (e :: l2) (init_state FO) Hl1). cbn [main_loop].
    unfold loop_body. rewrite G1, G2. unfold probe.
    destruct (probe_pre FO R c e) as [[[si dec]|]| |] eqn:Hp; cbn [bind]; try reflexivity.
    2: { rewrite main_loop_all_filtered by (intros e' He'; apply Hf, in_or_app; right; exact He'). reflexivity. }
    cbn [gate_similar soft_failed init_state existsb].
    destruct (probe_rest FO R c e si dec) as [v| |] eqn:Hr; cbn [bind]; try reflexivity.
    assert (Hl2 : forall s, main_loop FO R c s l2 = Ok (Next FO s))
      by (intro s; apply main_loop_all_filtered; intros e' He'; apply Hf, in_or_app; right; exact He').
    destruct v as [| |fb|m x]; cbn [apply_verdict bind verdict_result].
    - rewrite Hl2. reflexivity.
    - rewrite Hl2. reflexivity.
    - rewrite Hl2. destruct fb as [entry|].
      + cbn [results set_soft init_state].
        assert (Hres : results FO (set_fallback FO c (set_soft FO (init_state FO) e) e entry) = []).
        { unfold set_fallback. destruct (String.eqb _ _); [|destruct (String.eqb _ _)]; reflexivity. }
        rewrite Hres. rewrite choose_fallback_one by reflexivity. rewrite append_nil. reflexivity.
      + reflexivity.
    - rewrite append_nil. destruct x.
      + assert (Hm : m_enc FO m = e).
        { apply (Henc m true). unfold probe. rewrite Hp. cbn [bind]. exact Hr. }
        assert (Hmem : mem e (suitable_encodings FO m) = true) by (apply mem_In; left; exact Hm).
        unfold get_by_encoding. rewrite (iana_name_supported e HE). cbn [find].
        rewrite Hmem. cbn [bind]. reflexivity.
      + cbn [bind]. rewrite Hl2. reflexivity.
  Qed.

  Definition restrict (cfg : settings FO) (e : string) : settings FO := with_filters FO cfg [e] [].

  Lemma accept_enc c e m x : probe FO R c e = Ok (Accept FO m x) -> m_enc FO m = e.
  Proof.
    unfold probe. destruct (probe_pre FO R c e) as [[[si dec]|]| |]; cbn [bind]; try discriminate.
    intro H. apply probe_rest_accept in H as [(mean & merged & ->) _]. reflexivity.
  Qed.

  Theorem restricted_run b cfg e :
    b <> [] -> In e IANA_SUPPORTED ->
    let c := make_ctx FO R b (restrict cfg e) [e] [] in
    from_bytes FO R b (restrict cfg e) =
      if gate_utf16 FO c e then Ok [] else verdict_result (probe FO R c e).
  Proof.
    intros Hb HE. cbv zeta. unfold from_bytes. cbn [restrict with_filters include_encodings exclude_encodings canon_list].
    rewrite (iana_name_supported e HE). cbn [bind canon_list].
    destruct b as [|x b'] eqn:Eb; [contradiction|]. rewrite <- Eb in *. fold (restrict cfg e).
    set (c := make_ctx FO R b (restrict cfg e) [e] []).
    set (order := prioritize (c_prio FO c) IANA_SUPPORTED).
    assert (Hin : In e order) by (apply prioritize_In; exact HE).
    apply in_split in Hin as (l1 & l2 & Ho).
    assert (Hnd : NoDup (l1 ++ e :: l2)) by (rewrite <- Ho; apply order_nodup).
    assert (Hf : forall e', In e' (l1 ++ l2) -> gate_filtered FO c e' = true).
    { intros e' He'. unfold gate_filtered. cbn [c make_ctx c_cfg include_encodings exclude_encodings mem len List.length].
      assert (Hne : e' <> e).
      { intro; subst e'. apply NoDup_remove_2 in Hnd. contradiction. }
      destruct (String.eqb e e') eqn:E; [apply String.eqb_eq in E; congruence|]. reflexivity. }
    assert (G1 : gate_filtered FO c e = false).
    { unfold gate_filtered. cbn [c make_ctx c_cfg include_encodings exclude_encodings mem len List.length].
      rewrite String.eqb_refl. reflexivity. }
    rewrite Ho. destruct (gate_utf16 FO c e) eqn:G2.
    - (* e is BOM-less UTF-16: skipped as well *)
      assert (Hall : forall e', In e' (l1 ++ e :: l2) -> gate_filtered FO c e' = true \/ e' = e).
      { intros e' He'. apply in_app_or in He' as [He'|[<-|He']]; [left; apply Hf, in_or_app; auto | right; reflexivity | left; apply Hf, in_or_app; auto]. }
      assert (Hml : forall l s, (forall e', In e' l -> gate_filtered FO c e' = true \/ e' = e) ->
                    main_loop FO R c s l = Ok (Next FO s)).
      { induction l as [|a l IH]; intros s H; cbn [main_loop]; [reflexivity|].
        unfold loop_body. destruct (H a (or_introl eq_refl)) as [Ha| ->].
        - rewrite Ha. cbn [bind]. apply IH. intros e' He'. apply H. right; exact He'.
        - rewrite G1, G2. cbn [bind]. apply IH. intros e' He'. apply H. right; exact He'. }
      rewrite (Hml _ _ Hall). cbn [bind results init_state choose_fallback fb_specified fb_u8 fb_ascii]. reflexivity.
    - pose proof (single_candidate_run c l1 e l2 HE Hf G1 G2 (accept_enc c e)) as Hs.
      destruct (main_loop FO R c (init_state FO) (l1 ++ e :: l2)) as [[s|r]| |]; cbn [bind]; exact Hs.
  Qed.
End Restrict.

(* ---------- every entry of an unrestricted result is its encoding's own stand-alone verdict ---------- *)
Section Forward.
  Variable FO : FloatOps.
  Variable R : oracles FO.
  Notation cmatch := (cmatch FO).

  (* equality of everything but the list of alternatives *)
  Definition flat_eq (m m0 : cmatch) : Prop :=
    m_payload FO m = m_payload FO m0 /\ m_enc FO m = m_enc FO m0 /\ m_chaos FO m = m_chaos FO m0
    /\ m_coh FO m = m_coh FO m0 /\ m_bom FO m = m_bom FO m0 /\ m_text FO m = m_text FO m0.

  Lemma flat_eq_refl m : flat_eq m m.
  Proof. repeat split. Qed.

  Lemma flat_eq_add m item m0 : flat_eq m m0 -> flat_eq (add_submatch FO m item) m0.
  Proof. unfold flat_eq. destruct m; cbn. auto. Qed.

  Definition from_accept (c : ctx FO) (m : cmatch) : Prop :=
    In (m_enc FO m) IANA_SUPPORTED /\ gate_utf16 FO c (m_enc FO m) = false
    /\ exists m0 x, probe FO R c (m_enc FO m) = Ok (Accept FO m0 x) /\ flat_eq m m0.
  Definition from_soft (c : ctx FO) (m : cmatch) : Prop :=
    In (m_enc FO m) IANA_SUPPORTED /\ gate_utf16 FO c (m_enc FO m) = false
    /\ exists fb0, probe FO R c (m_enc FO m) = Ok (SoftFail FO (Some fb0)) /\ flat_eq m fb0.

  Lemma from_accept_add c m item : from_accept c m -> from_accept c (add_submatch FO m item).
  Proof.
    intros (H1 & H2 & m0 & x & H3 & H4).
    assert (He : m_enc FO (add_submatch FO m item) = m_enc FO m) by (destruct m; reflexivity).
    unfold from_accept. rewrite He. split; [exact H1|]. split; [exact H2|].
    exists m0, x. split; [exact H3|apply flat_eq_add; exact H4].
  Qed.

  Lemma from_verdict c : VerdictOK FO R c (from_accept c) (from_soft c).
  Proof.
    intros e si dec v HE _ G2 Hpre Hr.
    assert (Hp : probe FO R c e = Ok v) by (unfold probe; rewrite Hpre; cbn [bind]; exact Hr).
    pose proof (verdict_fields FO R c e si dec v Hr) as Hf.
    destruct v as [| |[fb|]|m x]; auto.
    - destruct Hf as (He & _ & Hs & _). split; [|exact Hs]. unfold from_soft. rewrite He.
      split; [exact HE|]. split; [exact G2|]. exists fb. split; [exact Hp|apply flat_eq_refl].
    - destruct Hf as (He & _ & Hs & _). split; [|rewrite Hs; constructor]. unfold from_accept. rewrite He.
      split; [exact HE|]. split; [exact G2|]. exists m, x. split; [exact Hp|apply flat_eq_refl].
  Qed.

  (* C09, forward direction *)
  Theorem restricted_verdict_agrees b cfg r :
    b <> [] -> from_bytes FO R b cfg = Ok r ->
    forall m s, In m r -> (s = m \/ In s (m_sub FO m)) ->
      exists me, from_bytes FO R b (restrict FO cfg (m_enc FO s)) = Ok [me] /\ flat_eq s me.
  Proof.
    intros Hb H m s Hm Hs.
    destruct (from_bytes_shape FO R from_accept from_soft from_accept_add from_verdict b cfg r Hb H)
      as (inc & exc & _ & _ & Hsh).
    set (c := make_ctx FO R b cfg inc exc) in *.
    set (e := m_enc FO s).
    set (c' := make_ctx FO R b (restrict FO cfg e) [e] []).
    assert (Hcore : same_core FO c c') by apply make_ctx_same_core.
    assert (Hrun : forall (HE : In e IANA_SUPPORTED), gate_utf16 FO c e = false ->
                   from_bytes FO R b (restrict FO cfg e) = verdict_result FO (probe FO R c e)).
    { intros HE G. rewrite (restricted_run FO R b cfg e Hb HE). fold c'.
      rewrite <- (gate_utf16_core FO c c' e Hcore), G. rewrite <- (probe_core FO R c c' e Hcore). reflexivity. }
    assert (Hentry : from_accept c s \/ from_soft c s).
    { destruct Hsh as [_ Hf|fb Hr [Hp Hsub]|Hr].
      - rewrite Forall_forall in Hf. destruct (Hf _ Hm) as [Hma Hsubs].
        destruct Hs as [->|Hs]; [left; exact Hma|]. rewrite Forall_forall in Hsubs. left. apply Hsubs; exact Hs.
      - subst r. destruct Hm as [<-|[]]. rewrite Hsub in Hs. destruct Hs as [->|[]]. right; exact Hp.
      - subst r. destruct Hm. }
    destruct Hentry as [(HE & G & m0 & x & Hp & Hfe)|(HE & G & fb0 & Hp & Hfe)].
    - exists m0. split; [|exact Hfe]. rewrite (Hrun HE G). fold e in Hp. rewrite Hp. reflexivity.
    - exists fb0. split; [|exact Hfe]. rewrite (Hrun HE G). fold e in Hp. rewrite Hp. reflexivity.
  Qed.
End Forward.

(* ---------- C09, converse: why an encoding accepted alone can be missing ---------- *)
Section Converse.
  Variable FO : FloatOps.
  Variable R : oracles FO.
  Notation cmatch := (cmatch FO).

  Definition all_encs (r : list cmatch) : list string := flat_map (suitable_encodings FO) r.

  (* a appears strictly before b in l *)
  Definition before_in (l : list string) (a b : string) : Prop :=
    exists l1 l2 l3, l = l1 ++ a :: l2 ++ b :: l3.

  Lemma before_in_app l l' a b : before_in l a b -> before_in (l ++ l') a b.
  Proof.
    intros (l1 & l2 & l3 & ->). exists l1, l2, (l3 ++ l'). rewrite <- !app_assoc. cbn [app]. rewrite <- !app_assoc. reflexivity.
  Qed.

  Lemma before_in_last l a b : In a l -> before_in (l ++ [b]) a b.
  Proof.
    intro H. apply in_split in H as (l1 & l2 & ->). exists l1, l2, []. rewrite <- app_assoc. reflexivity.
  Qed.

  Lemma all_encs_perm l l' : Permutation l l' -> forall x, In x (all_encs l) -> In x (all_encs l').
  Proof.
    intros P x H. unfold all_encs in *. apply in_flat_map in H as (m & Hm & Hx). apply in_flat_map.
    exists m. split; [eapply Permutation_in; eauto|exact Hx].
  Qed.

  Lemma all_encs_append_mono items item x : In x (all_encs items) -> In x (all_encs (append FO items item)).
  Proof.
    intro H. unfold append.
    assert (Hp : In x (all_encs (resort FO (items ++ [item])))).
    { eapply all_encs_perm; [apply Permutation_sym, isort_perm|]. unfold all_encs. rewrite flat_map_app. apply in_or_app. left; exact H. }
    destruct (_ <=? _); [|exact Hp]. destruct (merge_into FO items item) as [l|] eqn:Hm; [|exact Hp].
    apply merge_into_spec in Hm as (l1 & m & l2 & -> & -> & _).
    unfold all_encs in *. rewrite flat_map_app in *. cbn [flat_map] in *.
    apply in_app_or in H as [H|H]; [apply in_or_app; left; exact H|]. apply in_or_app. right.
    apply in_app_or in H as [H|H]; apply in_or_app; [left|right; exact H].
    destruct (add_submatch_fields FO m item) as (_ & F2 & _ & _ & _ & _ & F7).
    unfold suitable_encodings in *. rewrite F2, F7, map_app. destruct H as [H|H]; [left; exact H|right; apply in_or_app; left; exact H].
  Qed.

  Lemma all_encs_append_new items item : In (m_enc FO item) (all_encs (append FO items item)).
  Proof.
    destruct (append_suitable FO items item) as (x & Hx & He). unfold all_encs. apply in_flat_map. eauto.
  Qed.

  Variable c : ctx FO.

  Definition passes_gates (e : string) : Prop := gate_filtered FO c e = false /\ gate_utf16 FO c e = false.
  Definition accepted_alone (e : string) : Prop := exists m x, probe FO R c e = Ok (Accept FO m x).
  Definition soft_alone (e : string) : Prop := exists fb, probe FO R c e = Ok (SoftFail FO fb).

  Record J (done : list string) (s : loop_state FO) : Prop := {
    j_soft : forall sf, In sf (soft_failed FO s) -> In sf done /\ soft_alone sf;
    j_acc : forall e, In e done -> passes_gates e -> accepted_alone e ->
              In e (all_encs (results FO s))
              \/ exists sf, In sf (soft_failed FO s) /\ is_cp_similar e sf = true /\ before_in done sf e;
  }.

  (* the loop stopped early on an accepted candidate whose exit test fired (the rule of C06) *)
  Definition early_exit : Prop := exists h m, probe FO R c h = Ok (Accept FO m true).

  Lemma loop_body_J done s e out :
    J done s -> loop_body FO R c s e = Ok out ->
    match out with Next _ s' => J (done ++ [e]) s' | Return _ _ => early_exit end.
  Proof.
    intros [J1 J2] H.
    assert (Hold : forall s', soft_failed FO s' = soft_failed FO s -> (forall x, In x (all_encs (results FO s)) -> In x (all_encs (results FO s'))) ->
                   (passes_gates e -> accepted_alone e -> In e (all_encs (results FO s')) \/
                      exists sf, In sf (soft_failed FO s') /\ is_cp_similar e sf = true /\ before_in (done ++ [e]) sf e) ->
                   J (done ++ [e]) s').
    { intros s' Hsf Hres He. constructor.
      - intros sf Hin. rewrite Hsf in Hin. destruct (J1 _ Hin). split; [apply in_or_app; left|]; assumption.
      - intros e' Hin Hg Ha. apply in_app_or in Hin as [Hin|[<-|[]]]; [|apply He; assumption].
        destruct (J2 _ Hin Hg Ha) as [Hr|(sf & S1 & S2 & S3)]; [left; apply Hres; exact Hr|].
        right. exists sf. rewrite Hsf. split; [exact S1|]. split; [exact S2|apply before_in_app; exact S3]. }
    unfold loop_body in H.
    destruct (gate_filtered FO c e) eqn:G1.
    { injection H as <-. apply Hold; auto. intros [Hg _]. congruence. }
    destruct (gate_utf16 FO c e) eqn:G2.
    { injection H as <-. apply Hold; auto. intros [_ Hg]. congruence. }
    bind_inv H. destruct a as [[si dec]|].
    2: { injection H as <-. apply Hold; auto. intros _ (m & x & Ha). unfold probe in Ha. rewrite E in Ha. discriminate. }
    destruct (gate_similar (soft_failed FO s) e) eqn:G3.
    { injection H as <-. apply Hold; auto. intros _ _. right.
      unfold gate_similar in G3. apply existsb_exists in G3 as (sf & S1 & S2). exists sf. split; [exact S1|]. split; [exact S2|].
      apply before_in_last. apply J1; exact S1. }
    bind_inv H. assert (Hp : probe FO R c e = Ok a) by (unfold probe; rewrite E; cbn [bind]; exact E0).
    destruct a as [| |fb|m x]; cbn [apply_verdict] in H.
    - injection H as <-. apply Hold; auto. intros _ (m & x & Ha). congruence.
    - injection H as <-. apply Hold; auto. intros _ (m & x & Ha). congruence.
    - injection H as <-.
      assert (Hsf : forall s1, soft_failed FO (match fb with None => s1 | Some entry => set_fallback FO c s1 e entry end) = soft_failed FO s1).
      { intro s1. destruct fb; [|reflexivity]. unfold set_fallback. destruct (String.eqb _ _); [|destruct (String.eqb _ _)]; reflexivity. }
      assert (Hrs : forall s1, results FO (match fb with None => s1 | Some entry => set_fallback FO c s1 e entry end) = results FO s1).
      { intro s1. destruct fb; [|reflexivity]. unfold set_fallback. destruct (String.eqb _ _); [|destruct (String.eqb _ _)]; reflexivity. }
      constructor.
      + intros sf Hin. rewrite Hsf in Hin. cbn [set_soft soft_failed] in Hin. apply in_app_or in Hin as [Hin|[<-|[]]].
        * destruct (J1 _ Hin). split; [apply in_or_app; left|]; assumption.
        * split; [apply in_or_app; right; left; reflexivity|]. exists fb. exact Hp.
      + intros e' Hin Hg Ha. rewrite Hrs, Hsf. cbn [set_soft soft_failed results].
        apply in_app_or in Hin as [Hin|[<-|[]]].
        * destruct (J2 _ Hin Hg Ha) as [Hr|(sf & S1 & S2 & S3)]; [left; exact Hr|].
          right. exists sf. split; [apply in_or_app; left; exact S1|]. split; [exact S2|apply before_in_app; exact S3].
        * destruct Ha as (m & x & Ha). congruence.
    - destruct x.
      + destruct (get_by_encoding FO _ e); [|discriminate]. injection H as <-. exists e, m. exact Hp.
      + injection H as <-. constructor.
        * intros sf Hin. cbn [set_results soft_failed] in Hin. destruct (J1 _ Hin). split; [apply in_or_app; left|]; assumption.
        * intros e' Hin Hg Ha. cbn [set_results soft_failed results].
          apply in_app_or in Hin as [Hin|[<-|[]]].
          -- destruct (J2 _ Hin Hg Ha) as [Hr|(sf & S1 & S2 & S3)]; [left; apply all_encs_append_mono; exact Hr|].
             right. exists sf. split; [exact S1|]. split; [exact S2|apply before_in_app; exact S3].
          -- left. rewrite <- (accept_enc FO R c e m false Hp). apply all_encs_append_new.
  Qed.

  Lemma main_loop_J encs : forall done s out,
    J done s -> main_loop FO R c s encs = Ok out ->
    match out with Next _ s' => J (done ++ encs) s' | Return _ _ => early_exit end.
  Proof.
    induction encs as [|e encs IH]; intros done s out HJ H; cbn [main_loop] in H.
    - injection H as <-. rewrite app_nil_r. exact HJ.
    - bind_inv H. pose proof (loop_body_J done s e a HJ E) as Hb. destruct a as [s'|r].
      + specialize (IH (done ++ [e]) s' out Hb H). rewrite <- app_assoc in IH. exact IH.
      + injection H as <-. exact Hb.
  Qed.
End Converse.

Section ConverseTop.
  Variable FO : FloatOps.
  Variable R : oracles FO.

  (* C09, converse: on a run that did not stop early, an encoding that passes the filters and is
     accepted when probed alone is in the result, unless a code page similar to it soft-failed
     earlier in the probing order *)
  Theorem missing_is_explained b cfg r :
    b <> [] -> from_bytes FO R b cfg = Ok r ->
    exists inc exc,
      let c := make_ctx FO R b cfg inc exc in
      let order := prioritize (c_prio FO c) IANA_SUPPORTED in
      early_exit FO R c
      \/ forall e, In e IANA_SUPPORTED -> passes_gates FO c e -> accepted_alone FO R c e ->
           In e (all_encs FO r)
           \/ exists sf, is_cp_similar e sf = true /\ soft_alone FO R c sf /\ before_in order sf e.
  Proof.
    intros Hb H. unfold from_bytes in H. bind_inv H. bind_inv H. exists a, a0. cbv zeta.
    destruct b as [|x b'] eqn:Eb; [contradiction|]. rewrite <- Eb in *.
    set (c := make_ctx FO R b cfg a a0) in *. bind_inv H.
    assert (J0 : J FO R c [] (init_state FO)).
    { constructor; [intros sf []|intros e []]. }
    pose proof (main_loop_J FO R c _ _ _ _ J0 E1) as Hm. cbn [app] in Hm.
    destruct a1 as [s|r0]; [|left; exact Hm]. right. intros e HE Hg Ha.
    destruct (j_acc FO R c _ _ Hm e (proj2 (prioritize_In _ _ e) HE) Hg Ha) as [Hr|(sf & S1 & S2 & S3)].
    - left. destruct (results FO s) eqn:Hres; [destruct Hr|]. injection H as <-. exact Hr.
    - right. exists sf. split; [exact S2|]. split; [apply (j_soft FO R c _ _ Hm sf S1)|exact S3].
  Qed.
End ConverseTop.
