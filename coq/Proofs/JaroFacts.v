(* The Jaro score used by cd::characters_popularity_compare (Model/Jaro.v, Model/Jaro32.v) is, on binary32,
   never NaN and lies in [0, 1] -- the score contract (CohOK) that the coherence theorems of C04 / C19
   assumed of the popularity oracle.  Integer part: 0 < matches <= |a|, matches <= |b|, transpositions <= matches.
   Float part: monotonicity of rounding through three divisions, two additions, the division by 3.0 (binary64)
   and the conversion to binary32. *)
From Coq Require Import List NArith ZArith String Bool Lia Reals Psatz.
From Flocq Require Import Core IEEE754.BinarySingleNaN.
From Model Require Import Base Flt F32 Jaro Jaro32.
Import ListNotations.
Open Scope N_scope.
Open Scope list_scope.

(* ---------------------------------------------------------------- integer part *)
Fixpoint count_true (l : list bool) : N := match l with [] => 0 | b :: r => (if b then 1 else 0) + count_true r end.

Lemma count_true_le l : count_true l <= len l.
Proof. induction l as [|b r IH]; unfold len in *; cbn [count_true List.length]; [lia|]. destruct b; lia. Qed.

Lemma count_true_repeat n : count_true (repeat false n) = 0.
Proof. induction n; cbn [repeat count_true]; lia. Qed.

Lemma find_match_some x mn mx : forall bs flags j fs',
  find_match x mn mx j bs flags = Some fs' ->
  List.length fs' = List.length flags /\ count_true fs' = count_true flags + 1.
Proof.
  induction bs as [|b bs IH]; intros flags j fs' H; cbn [find_match] in H; [discriminate|].
  destruct flags as [|f fs]; [discriminate|].
  destruct (mx <=? j); [discriminate|].
  destruct ((mn <=? j) && (x =? b) && negb f) eqn:E.
  - inversion H; subst. apply andb_true_iff in E as [_ E]. apply negb_true_iff in E. subst f.
    cbn [List.length count_true]. split; [reflexivity | lia].
  - destruct (find_match x mn mx (j + 1) bs fs) as [fs''|] eqn:Hr; [|discriminate]. inversion H; subst.
    destruct (IH _ _ _ Hr) as (H1 & H2). cbn [List.length count_true]. split; [lia | lia].
Qed.

Lemma match_loop_spec sr bl b : forall as_ i bf af bf' m,
  match_loop sr bl i as_ b bf = (af, bf', m) ->
  List.length af = List.length as_ /\ List.length bf' = List.length bf
  /\ count_true af = m /\ count_true bf' = count_true bf + m /\ m <= len as_.
Proof.
  induction as_ as [|x as' IH]; intros i bf af bf' m H; cbn [match_loop] in H.
  - inversion H; subst. unfold len. cbn. repeat split; lia.
  - destruct (find_match x _ _ 0 b bf) as [bf1|] eqn:Hf.
    + destruct (match_loop sr bl (i + 1) as' b bf1) as [[af1 bf2] m1] eqn:Hr. inversion H; subst.
      destruct (IH _ _ _ _ _ Hr) as (H1 & H2 & H3 & H4 & H5). destruct (find_match_some _ _ _ _ _ _ _ Hf) as (H6 & H7).
      unfold len in *. cbn [List.length count_true]. repeat split; lia.
    + destruct (match_loop sr bl (i + 1) as' b bf) as [[af1 bf2] m1] eqn:Hr. inversion H; subst.
      destruct (IH _ _ _ _ _ Hr) as (H1 & H2 & H3 & H4 & H5).
      unfold len in *. cbn [List.length count_true]. repeat split; lia.
Qed.

Lemma flagged_length l : forall flags, List.length flags = List.length l -> len (flagged l flags) = count_true flags.
Proof.
  induction l as [|x l IH]; intros [|f fs] H; cbn in H; try discriminate; unfold len in *; cbn [flagged count_true List.length]; [reflexivity|].
  destruct f; cbn [List.length]; rewrite <- (IH fs) by lia; lia.
Qed.

Lemma mismatches_le u : forall v, mismatches u v <= len u.
Proof.
  induction u as [|x u IH]; intros [|y v]; unfold len in *; cbn [mismatches List.length]; try lia.
  specialize (IH v). destruct (x =? y); lia.
Qed.

Theorem jaro_count_bounds a b :
  let c := jaro_count a b in
  j_alen c = len a /\ j_blen c = len b /\ j_matches c <= len a /\ j_matches c <= len b /\ j_transpositions c <= j_matches c.
Proof.
  unfold jaro_count.
  destruct (match_loop (N.max (len a) (len b) / 2 - 1) (len b) 0 a b (repeat false (N.to_nat (len b)))) as [[af bf] m] eqn:Hm.
  cbn [j_alen j_blen j_matches j_transpositions].
  destruct (match_loop_spec _ _ _ _ _ _ _ _ _ Hm) as (H1 & H2 & H3 & H4 & H5).
  rewrite count_true_repeat in H4. rewrite repeat_length in H2.
  assert (Hb : m <= len b).
  { pose proof (count_true_le bf) as Hc. unfold len in *. lia. }
  assert (Ht : mismatches (flagged a af) (flagged b bf) <= m).
  { pose proof (mismatches_le (flagged a af) (flagged b bf)) as Hx. rewrite flagged_length in Hx by exact H1. lia. }
  repeat split; try lia.
  apply N.le_trans with (mismatches (flagged a af) (flagged b bf)); [apply N.div_le_upper_bound; lia | exact Ht].
Qed.

(* ---------------------------------------------------------------- float part, generic in the format *)
Section GenFloat.
  Variables prec emax : Z.
  Context (Hp : FLX.Prec_gt_0 prec) (He : Prec_lt_emax prec emax).
  Hypothesis Hprec1 : (1 < prec)%Z.
  Hypothesis Hemax70 : (70 < emax)%Z.

  Notation bfl := (binary_float prec emax).
  Notation fexp := (SpecFloat.fexp prec emax).
  Notation rnd := (round radix2 fexp ZnearestE).
  Notation BR := (@B2R prec emax).
  Local Instance Vexp : Valid_exp fexp := fexp_correct prec emax Hp.

  Definition ofN (n : N) : bfl := binary_normalize prec emax Hp He mode_NE (Z.of_N n) 0 false.
  Definition gdiv : bfl -> bfl -> bfl := @Bdiv prec emax Hp He mode_NE.
  Definition gadd : bfl -> bfl -> bfl := @Bplus prec emax Hp He mode_NE.

  Lemma emin_le0 : (3 - emax - prec <= 0)%Z.
  Proof. unfold FLX.Prec_gt_0 in Hp. lia. Qed.

  Lemma gen_bpow (k : Z) : (0 <= k < emax)%Z -> generic_format radix2 fexp (bpow radix2 k).
  Proof.
    intro Hk. apply generic_format_bpow. unfold SpecFloat.fexp, SpecFloat.emin. pose proof emin_le0. lia.
  Qed.

  Lemma rnd_bpow (k : Z) : (0 <= k < emax)%Z -> rnd (bpow radix2 k) = bpow radix2 k.
  Proof. intro Hk. apply round_generic; [auto with typeclass_instances | apply gen_bpow; exact Hk]. Qed.

  Lemma rnd_le x y : (x <= y)%R -> (rnd x <= rnd y)%R.
  Proof. apply round_le; auto with typeclass_instances. Qed.

  Lemma rnd_0 : rnd 0 = 0%R. Proof. apply round_0. auto with typeclass_instances. Qed.

  Lemma big_lt_emax : (bpow radix2 64 < bpow radix2 emax)%R.
  Proof. apply bpow_lt. lia. Qed.

  Lemma ofN_spec (n : N) : n < 2 ^ 64 ->
    is_finite (ofN n) = true /\ BR (ofN n) = rnd (IZR (Z.of_N n)).
  Proof.
    intro Hn. unfold ofN.
    pose proof (binary_normalize_correct prec emax Hp He mode_NE (Z.of_N n) 0 false) as HC. cbn zeta in HC. cbn [round_mode] in HC.
    assert (Hx : F2R (Float radix2 (Z.of_N n) 0) = IZR (Z.of_N n)) by (unfold F2R; cbn; lra).
    rewrite Hx in HC.
    assert (H0 : (0 <= IZR (Z.of_N n))%R) by (apply IZR_le; lia).
    assert (H2 : (IZR (Z.of_N n) <= bpow radix2 64)%R).
    { rewrite <- IZR_Zpower by lia. apply IZR_le. change (radix2 ^ 64)%Z with (2 ^ 64)%Z.
      assert (Z.of_N n < Z.of_N (2 ^ 64))%Z by lia. rewrite N2Z.inj_pow in H. cbn in H |- *. lia. }
    assert (L0 : (0 <= rnd (IZR (Z.of_N n)))%R) by (rewrite <- rnd_0; apply rnd_le; exact H0).
    assert (L2 : (rnd (IZR (Z.of_N n)) <= bpow radix2 64)%R) by (rewrite <- (rnd_bpow 64) by lia; apply rnd_le; exact H2).
    rewrite Rlt_bool_true in HC.
    - destruct HC as (HR & HF & _). split; [exact HF | exact HR].
    - rewrite Rabs_pos_eq by exact L0. apply Rle_lt_trans with (1 := L2). exact big_lt_emax.
  Qed.

  Lemma ofN_nonneg n : n < 2 ^ 64 -> (0 <= BR (ofN n))%R.
  Proof. intro H. destruct (ofN_spec n H) as (_ & ->). rewrite <- rnd_0. apply rnd_le. apply IZR_le. lia. Qed.

  Lemma ofN_mono n m : n <= m -> m < 2 ^ 64 -> (BR (ofN n) <= BR (ofN m))%R.
  Proof.
    intros Hnm Hm. destruct (ofN_spec n) as (_ & ->); [lia|]. destruct (ofN_spec m Hm) as (_ & ->).
    apply rnd_le. apply IZR_le. lia.
  Qed.

  Lemma ofN_ge1 n : 1 <= n -> n < 2 ^ 64 -> (1 <= BR (ofN n))%R.
  Proof.
    intros H1 Hn. destruct (ofN_spec n Hn) as (_ & ->).
    change 1%R with (bpow radix2 0). rewrite <- (rnd_bpow 0) by lia. apply rnd_le. change (bpow radix2 0) with 1%R. apply IZR_le. lia.
  Qed.

  Definition Fin (x : bfl) (hi : R) : Prop := is_finite x = true /\ (0 <= BR x <= hi)%R.

  (* a quotient of a smaller by a larger positive value lies in [0,1] *)
  Lemma gdiv_le_one x y :
    is_finite x = true -> is_finite y = true -> (0 <= BR x <= BR y)%R -> (0 < BR y)%R -> Fin (gdiv x y) 1.
  Proof.
    intros Fx Fy Hxy Hy. assert (Hy0 : BR y <> 0%R) by lra.
    pose proof (Bdiv_correct prec emax Hp He mode_NE x y Hy0) as HC. fold (gdiv x y) in HC. cbn [round_mode] in HC.
    assert (Hq : (0 <= BR x / BR y <= 1)%R).
    { split; [apply Rmult_le_pos; [lra | left; apply Rinv_0_lt_compat; lra]|].
      apply Rmult_le_reg_r with (BR y); [lra|]. unfold Rdiv. rewrite Rmult_assoc, Rinv_l by lra. lra. }
    assert (L0 : (0 <= rnd (BR x / BR y))%R) by (rewrite <- rnd_0; apply rnd_le; lra).
    assert (L1 : (rnd (BR x / BR y) <= 1)%R).
    { change 1%R with (bpow radix2 0). rewrite <- (rnd_bpow 0) by lia. apply rnd_le. change (bpow radix2 0) with 1%R. lra. }
    rewrite Rlt_bool_true in HC.
    - destruct HC as (HR & HF & _). rewrite Fx in HF. split; [exact HF | rewrite HR; lra].
    - rewrite Rabs_pos_eq by exact L0. apply Rle_lt_trans with (1 := L1). change 1%R with (bpow radix2 0). apply bpow_lt. lia.
  Qed.

  (* a sum of bounded non-negative values is bounded by the rounded sum of the bounds *)
  Lemma gadd_le x y u v :
    Fin x u -> Fin y v -> (u + v <= bpow radix2 64)%R -> Fin (gadd x y) (rnd (u + v)).
  Proof.
    intros (Fx & Hx) (Fy & Hy) Hb.
    pose proof (Bplus_correct prec emax Hp He mode_NE x y Fx Fy) as HC. fold (gadd x y) in HC. cbn [round_mode] in HC.
    assert (L0 : (0 <= rnd (BR x + BR y))%R) by (rewrite <- rnd_0; apply rnd_le; lra).
    assert (L1 : (rnd (BR x + BR y) <= rnd (u + v))%R) by (apply rnd_le; lra).
    assert (L2 : (rnd (u + v) <= bpow radix2 64)%R) by (rewrite <- (rnd_bpow 64) by lia; apply rnd_le; exact Hb).
    rewrite Rlt_bool_true in HC.
    - destruct HC as (HR & HF & _). split; [exact HF | rewrite HR; lra].
    - rewrite Rabs_pos_eq by exact L0. apply Rle_lt_trans with (bpow radix2 64); [lra | exact big_lt_emax].
  Qed.

  Lemma Fin_weaken x u v : Fin x u -> (u <= v)%R -> Fin x v.
  Proof. intros (F & H) Huv. split; [exact F | lra]. Qed.

  Lemma rnd_two : rnd (1 + 1) = 2%R.
  Proof. replace (1 + 1)%R with (bpow radix2 1) by (cbn; lra). rewrite rnd_bpow by lia. cbn. lra. Qed.

  (* (q1 + q2 + q3) / 3 with every q in [0,1] lies in [0,1] *)
  Lemma mean3_le_one q1 q2 q3 : Fin q1 1 -> Fin q2 1 -> Fin q3 1 -> Fin (gdiv (gadd (gadd q1 q2) q3) (ofN 3)) 1.
  Proof.
    intros H1 H2 H3.
    assert (Hs12 : Fin (gadd q1 q2) 2).
    { pose proof (gadd_le q1 q2 1 1 H1 H2) as H. rewrite rnd_two in H. apply H.
      replace (1 + 1)%R with (bpow radix2 1) by (cbn; lra). apply bpow_le. lia. }
    assert (Hs : Fin (gadd (gadd q1 q2) q3) (rnd (2 + 1))).
    { apply gadd_le; [exact Hs12 | exact H3 |]. apply Rle_trans with (bpow radix2 2); [cbn; lra | apply bpow_le; lia]. }
    destruct (ofN_spec 3) as (F3 & E3); [reflexivity|].
    change (IZR (Z.of_N 3)) with 3%R in E3. replace (2 + 1)%R with 3%R in Hs by lra.
    destruct Hs as (Fs & Hs0 & Hs1).
    apply gdiv_le_one; [exact Fs | exact F3 | rewrite E3; lra |].
    apply Rlt_le_trans with 1%R; [lra|]. apply (ofN_ge1 3); [lia | reflexivity].
  Qed.
End GenFloat.

(* ---------------------------------------------------------------- the score *)
Local Notation Fin64 := (Fin 53 1024).
Local Notation Fin32 := (Fin 24 128).

Lemma jaro64_unit c :
  1 <= j_matches c -> j_matches c <= j_alen c -> j_matches c <= j_blen c -> j_transpositions c <= j_matches c ->
  j_alen c < 2 ^ 64 -> j_blen c < 2 ^ 64 -> Fin64 (jaro64 c) 1.
Proof.
  intros Hm Ha Hb Ht La Lb. unfold jaro64.
  change of_N64 with (ofN 53 1024 Hprec64 Hemax64). change div64 with (gdiv 53 1024 Hprec64 Hemax64).
  change add64 with (gadd 53 1024 Hprec64 Hemax64).
  assert (P1 : (1 < 53)%Z) by lia. assert (P2 : (70 < 1024)%Z) by lia.
  assert (Q : forall x y, x <= y -> 1 <= y -> y < 2 ^ 64 ->
              Fin64 (gdiv 53 1024 Hprec64 Hemax64 (ofN 53 1024 Hprec64 Hemax64 x) (ofN 53 1024 Hprec64 Hemax64 y)) 1).
  { intros x y Hxy Hy1 Hy.
    destruct (ofN_spec 53 1024 Hprec64 Hemax64 P1 P2 x) as (Fx & _); [lia|].
    destruct (ofN_spec 53 1024 Hprec64 Hemax64 P1 P2 y Hy) as (Fy & _).
    apply gdiv_le_one; try assumption.
    - split; [apply ofN_nonneg; try assumption; lia | apply ofN_mono; assumption].
    - apply Rlt_le_trans with 1%R; [lra | apply ofN_ge1; assumption]. }
  apply mean3_le_one; try assumption; apply Q; lia.
Qed.

Lemma f32_of_f64_unit (x : f64) : Fin64 x 1 -> Fin32 (f32_of_f64 x) 1.
Proof.
  intros (Fx & Hx). destruct x as [s|s| |s m e H]; try discriminate.
  - split; [reflexivity | cbn; lra].
  - unfold f32_of_f64.
    pose proof (binary_normalize_correct 24 128 Hprec32 Hemax32 mode_NE (cond_Zopp s (Z.pos m)) e s) as HC.
    cbn zeta in HC. cbn [round_mode] in HC.
    change (F2R (Float radix2 (cond_Zopp s (Z.pos m)) e)) with (@B2R 53 1024 (B754_finite s m e H)) in HC.
    set (v := @B2R 53 1024 (B754_finite s m e H)) in *.
    assert (P1 : (1 < 24)%Z) by lia. assert (P2 : (70 < 128)%Z) by lia.
    assert (L0 : (0 <= round radix2 (SpecFloat.fexp 24 128) ZnearestE v)%R).
    { rewrite <- (rnd_0 24 128). apply rnd_le; [exact Hprec32 | lra]. }
    assert (L1 : (round radix2 (SpecFloat.fexp 24 128) ZnearestE v <= 1)%R).
    { change 1%R with (bpow radix2 0). rewrite <- (rnd_bpow 24 128 P1 P2 0) by lia. apply rnd_le; [exact Hprec32|].
      change (bpow radix2 0) with 1%R. lra. }
    rewrite Rlt_bool_true in HC.
    + destruct HC as (HR & HF & _). split; [exact HF | rewrite HR; lra].
    + rewrite Rabs_pos_eq by exact L0. apply Rle_lt_trans with (1 := L1). change 1%R with (bpow radix2 0). apply bpow_lt. lia.
Qed.

Theorem jaro32_unit a b : len a < 2 ^ 64 -> len b < 2 ^ 64 -> Fin32 (jaro32 a b) 1.
Proof.
  intros La Lb. unfold jaro32. destruct (jaro_count_bounds a b) as (E1 & E2 & H1 & H2 & H3).
  set (c := jaro_count a b) in *.
  assert (P1 : (1 < 24)%Z) by lia. assert (P2 : (70 < 128)%Z) by lia.
  destruct ((j_alen c =? 0) && (j_blen c =? 0)).
  - change (of_N32 1) with (ofN 24 128 Hprec32 Hemax32 1).
    destruct (ofN_spec 24 128 Hprec32 Hemax32 P1 P2 1) as (F1 & E); [reflexivity|]. split; [exact F1|].
    rewrite E. change (IZR (Z.of_N 1)) with (bpow radix2 0). rewrite (rnd_bpow 24 128 P1 P2 0) by lia. cbn. lra.
  - destruct ((j_alen c =? 0) || (j_blen c =? 0)); [split; [reflexivity | cbn; lra]|].
    destruct (j_matches c =? 0) eqn:Em; [split; [reflexivity | cbn; lra]|].
    apply N.eqb_neq in Em. apply f32_of_f64_unit. apply jaro64_unit; lia.
Qed.

(* in the vocabulary of the float interface: not NaN, >= +0, <= 1.0 *)
Lemma fone_is_one : @B2R 24 128 (fone F32ops) = 1%R /\ is_finite (fone F32ops) = true.
Proof.
  assert (F : is_finite (fone F32ops) = true) by (vm_compute; reflexivity).
  split; [|exact F].
  assert (P1 : (1 < 24)%Z) by lia. assert (P2 : (70 < 128)%Z) by lia.
  destruct (ofN_spec 24 128 Hprec32 Hemax32 P1 P2 1) as (F1 & E); [reflexivity|].
  assert (C : Bcompare (fone F32ops) (ofN 24 128 Hprec32 Hemax32 1) = Some Eq) by (vm_compute; reflexivity).
  assert (HC : Rcompare (@B2R 24 128 (fone F32ops)) (@B2R 24 128 (ofN 24 128 Hprec32 Hemax32 1)) = Eq).
  { pose proof (Bcompare_correct 24 128 _ _ F F1) as HB. rewrite C in HB. symmetry. exact (f_equal (fun o => match o with Some c => c | None => Eq end) HB). }
  apply Rcompare_Eq_inv in HC. rewrite HC, E.
  change (IZR (Z.of_N 1)) with (bpow radix2 0). rewrite (rnd_bpow 24 128 P1 P2 0) by lia. reflexivity.
Qed.

Theorem jaro32_score_ok a b : len a < 2 ^ 64 -> len b < 2 ^ 64 ->
  fisnan F32ops (jaro32 a b) = false /\ fle F32ops (fzero F32ops) (jaro32 a b) = true /\ fle F32ops (jaro32 a b) (fone F32ops) = true.
Proof.
  intros La Lb. destruct (jaro32_unit a b La Lb) as (F & H0 & H1). destruct fone_is_one as (E1 & F1).
  cbn [fisnan fle fzero F32ops]. unfold isnan32, le32.
  split; [destruct (jaro32 a b); try discriminate; reflexivity|].
  split.
  - rewrite Bleb_correct by (reflexivity || exact F). apply Rle_bool_true. cbn. exact H0.
  - rewrite Bleb_correct by assumption. apply Rle_bool_true. rewrite E1. exact H1.
Qed.
