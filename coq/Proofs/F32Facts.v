(* binary32 facts (Flocq BinarySingleNaN 24 128) behind Proofs/FloatLaws.v. *)
From Coq Require Import ZArith NArith List Bool Lia Reals Psatz.
From Flocq Require Import Core IEEE754.BinarySingleNaN.
From Model Require Import Flt F32.
From Proofs Require Import FloatLaws.
Import ListNotations.

Local Notation f32 := (binary_float 24 128).

(* comparison on non-NaN values is total *)
Lemma Bcompare_not_nan (x y : f32) :
  is_nan x = false -> is_nan y = false -> exists c, Bcompare x y = Some c.
Proof.
  destruct x as [sx|sx| |sx mx ex Hx], y as [sy|sy| |sy my ey Hy]; cbn; intros; try discriminate; eauto;
    try (destruct sx; eauto); try (destruct sy; eauto).
Qed.

Lemma f32_not_ge_lt (x t : f32) :
  isnan32 x = false -> isnan32 t = false -> le32 t x = false -> lt32 x t = true.
Proof.
  unfold isnan32, le32, lt32, Bleb, Bltb, SpecFloat.SFleb, SpecFloat.SFltb. intros Hx Ht H.
  change (SpecFloat.SFcompare (B2SF t) (B2SF x)) with (Bcompare t x) in H.
  change (SpecFloat.SFcompare (B2SF x) (B2SF t)) with (Bcompare x t).
  destruct (Bcompare_not_nan t x Ht Hx) as [c Hc]. rewrite Hc in H.
  rewrite Bcompare_swap, Hc. destruct c; cbn in *; try discriminate; reflexivity.
Qed.

Lemma f32_oge_total (a b : f32) : oge F32ops a b = true \/ oge F32ops b a = true.
Proof.
  unfold oge, fge. cbn [fisnan fle F32ops]. unfold isnan32, le32.
  destruct (is_nan a) eqn:Ha; [left; reflexivity|].
  destruct (is_nan b) eqn:Hb; [right; reflexivity|]. cbn [orb].
  unfold Bleb, SpecFloat.SFleb.
  change (SpecFloat.SFcompare (B2SF b) (B2SF a)) with (Bcompare b a).
  change (SpecFloat.SFcompare (B2SF a) (B2SF b)) with (Bcompare a b).
  destruct (Bcompare_not_nan b a Hb Ha) as [c Hc]. rewrite (Bcompare_swap _ _ b a), Hc.
  destruct c; cbn; auto.
Qed.
