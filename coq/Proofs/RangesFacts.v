(* C10 (ranges and language parts): unicode_ranges() is sorted, duplicate free and equal to the
   union of what each character yields on its own; most_probably_language by cases. *)
From Coq Require Import List NArith String Ascii Bool Lia Sorted Relations.
From Gen Require Import Tables.
From Model Require Import Base Names Flt Matches.
Import ListNotations.
Open Scope list_scope.

Section Str.
  Variable FO : FloatOps.

  Notation ltb := str_ltb.
  Definition slt (a b : string) : Prop := ltb a b = true.

  Lemma N_of_ascii_inj a b : N_of_ascii a = N_of_ascii b -> a = b.
  Proof. intro H. rewrite <- (ascii_N_embedding a), <- (ascii_N_embedding b), H. reflexivity. Qed.

  Lemma ltb_irrefl a : ltb a a = false.
  Proof. induction a as [|x a IH]; cbn [str_ltb]; [reflexivity|]. rewrite N.ltb_irrefl. exact IH. Qed.

  Lemma ltb_trans a : forall b c, ltb a b = true -> ltb b c = true -> ltb a c = true.
  Proof.
    induction a as [|x a IH]; intros [|y b] [|z c]; cbn [str_ltb]; try discriminate; auto.
    destruct (N_of_ascii x <? N_of_ascii y)%N eqn:E1.
    - intros _. destruct (N_of_ascii y <? N_of_ascii z)%N eqn:E2.
      + intros _. apply N.ltb_lt in E1, E2. assert (E3 : (N_of_ascii x <? N_of_ascii z)%N = true) by (apply N.ltb_lt; lia). rewrite E3. reflexivity.
      + destruct (N_of_ascii z <? N_of_ascii y)%N eqn:E3; [discriminate|]. intros _.
        apply N.ltb_lt in E1. apply N.ltb_ge in E2, E3. assert (E4 : (N_of_ascii x <? N_of_ascii z)%N = true) by (apply N.ltb_lt; lia). rewrite E4. reflexivity.
    - destruct (N_of_ascii y <? N_of_ascii x)%N eqn:E1'; [discriminate|]. intro H1.
      apply N.ltb_ge in E1, E1'. assert (Hxy : N_of_ascii x = N_of_ascii y) by lia. rewrite Hxy.
      destruct (N_of_ascii y <? N_of_ascii z)%N; [reflexivity|]. destruct (N_of_ascii z <? N_of_ascii y)%N; [discriminate|].
      apply IH; exact H1.
  Qed.

  Lemma ltb_total a : forall b, ltb a b = false -> a <> b -> ltb b a = true.
  Proof.
    induction a as [|x a IH]; intros [|y b]; cbn [str_ltb]; intros H Hne; try discriminate; try reflexivity; [congruence|].
    destruct (N_of_ascii x <? N_of_ascii y)%N eqn:E1; [discriminate|].
    destruct (N_of_ascii y <? N_of_ascii x)%N eqn:E2; [reflexivity|].
    apply N.ltb_ge in E1, E2. assert (Hxy : x = y) by (apply N_of_ascii_inj; lia). subst y.
    apply IH; [exact H|congruence].
  Qed.

  (* ---------- sorted insertion ---------- *)
  Lemma insert_In s l y : In y (insert_sorted_str s l) <-> y = s \/ In y l.
  Proof.
    induction l as [|x l IH]; cbn [insert_sorted_str]; [cbn; intuition|].
    destruct (String.eqb s x) eqn:E.
    - apply String.eqb_eq in E. subst. cbn. intuition.
    - destruct (ltb s x); cbn [In]; [intuition|]. rewrite IH. intuition.
  Qed.

  Lemma insert_sorted s l : Sorted slt l -> Sorted slt (insert_sorted_str s l).
  Proof.
    induction 1 as [|x l Hs IH Hh]; cbn [insert_sorted_str]; [repeat constructor|].
    destruct (String.eqb s x) eqn:E; [constructor; assumption|].
    destruct (ltb s x) eqn:L; [constructor; [constructor; assumption|constructor; exact L]|].
    assert (Hxs : slt x s).
    { apply ltb_total; [exact L|]. intro; subst. rewrite String.eqb_refl in E. discriminate. }
    constructor; [exact IH|].
    destruct l as [|y l]; cbn [insert_sorted_str]; [constructor; exact Hxs|].
    inversion Hh; subst. destruct (String.eqb s y); [constructor; assumption|].
    destruct (ltb s y); constructor; assumption.
  Qed.

  Definition add_range (acc : list string) (c : N) : list string :=
    match unicode_range c with Some r => insert_sorted_str r acc | None => acc end.

  Lemma fold_ranges_sorted t : forall acc, Sorted slt acc -> Sorted slt (fold_left add_range t acc).
  Proof.
    induction t as [|c t IH]; intros acc H; cbn [fold_left]; [exact H|]. apply IH. unfold add_range.
    destruct (unicode_range c); [apply insert_sorted; exact H|exact H].
  Qed.

  Lemma fold_ranges_In t : forall acc r,
    In r (fold_left add_range t acc) <-> In r acc \/ exists c, In c t /\ unicode_range c = Some r.
  Proof.
    induction t as [|c t IH]; intros acc r; cbn [fold_left].
    - split; [auto|]. intros [H|(c & [] & _)]. exact H.
    - rewrite IH. unfold add_range. destruct (unicode_range c) as [rc|] eqn:E.
      + rewrite insert_In. split.
        * intros [[->|H]|(c' & Hc' & Hr)]; [right; exists c; split; [left; reflexivity|exact E]|left; exact H|right; exists c'; split; [right; exact Hc'|exact Hr]].
        * intros [H|(c' & [<-|Hc'] & Hr)]; [left; right; exact H|left; left; congruence|right; eauto].
      + split.
        * intros [H|(c' & Hc' & Hr)]; [left; exact H|right; exists c'; split; [right; exact Hc'|exact Hr]].
        * intros [H|(c' & [<-|Hc'] & Hr)]; [left; exact H|congruence|right; eauto].
  Qed.

  Theorem ranges_sorted t : StronglySorted slt (unicode_ranges_of t).
  Proof.
    apply Sorted_StronglySorted; [intros a b c; apply ltb_trans|].
    unfold unicode_ranges_of. apply (fold_ranges_sorted t []). constructor.
  Qed.

  Theorem ranges_nodup t : NoDup (unicode_ranges_of t).
  Proof.
    pose proof (ranges_sorted t) as H. induction H as [|x l Hs IH Hf]; constructor; [|exact IH].
    intro Hin. rewrite Forall_forall in Hf. specialize (Hf x Hin). unfold slt in Hf. rewrite ltb_irrefl in Hf. discriminate.
  Qed.

  Theorem ranges_union t r :
    In r (unicode_ranges_of t) <-> exists c, In c t /\ unicode_range c = Some r.
  Proof.
    unfold unicode_ranges_of. change (fun acc c => match unicode_range c with Some r0 => insert_sorted_str r0 acc | None => acc end) with add_range.
    rewrite fold_ranges_In. split; [intros [[]|H]; exact H|auto].
  Qed.

  (* most_probably_language by cases, as the property states it *)
  Theorem mpl_cases (sb_langs : string -> list string) (m : cmatch FO) :
    (forall l s rest, m_coh FO m = (l, s) :: rest -> most_probably_language FO sb_langs m = l)
    /\ (m_coh FO m = [] -> In "ascii"%string (suitable_encodings FO m) -> most_probably_language FO sb_langs m = "English"%string)
    /\ (m_coh FO m = [] -> ~ In "ascii"%string (suitable_encodings FO m) -> is_multi_byte (m_enc FO m) = true ->
        forall L, mb_languages (m_enc FO m) = [L] -> most_probably_language FO sb_langs m = L)
    /\ (m_coh FO m = [] -> ~ In "ascii"%string (suitable_encodings FO m) ->
        most_probably_language FO sb_langs m =
          match (if is_multi_byte (m_enc FO m) then mb_languages (m_enc FO m) else sb_langs (m_enc FO m)) with
          | l :: _ => l | [] => "Unknown"%string end).
  Proof.
    unfold most_probably_language. repeat split.
    - intros l s rest ->. reflexivity.
    - intros -> Hin. apply mem_In in Hin. rewrite Hin. reflexivity.
    - intros -> Hn Hmb L HL. destruct (mem "ascii" (suitable_encodings FO m)) eqn:E; [apply mem_In in E; contradiction|].
      rewrite Hmb, HL. reflexivity.
    - intros -> Hn. destruct (mem "ascii" (suitable_encodings FO m)) eqn:E; [apply mem_In in E; contradiction|]. reflexivity.
  Qed.
End Str.
