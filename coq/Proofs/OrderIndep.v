(* C03: the places where the implementation reads a hash map / hash set back in iteration order
   produce results that do not depend on that order. *)
From Coq Require Import List NArith String Bool Lia Permutation Sorted.
From Gen Require Import Tables.
From Model Require Import Base Names Flt Matches Cd.
From Proofs Require Import NamesFacts RangesFacts.
Import ListNotations.
Open Scope list_scope.

(* a strictly sorted list is determined by its set of elements: sorting a duplicate-free collection
   under a strict total order gives the same list whatever order the collection is enumerated in
   (range_scan + sort_unstable, encoding_unicode_range, Counter::most_common_ordered) *)
Section SortedUnique.
  Context {A : Type} (lt : A -> A -> Prop).
  Hypothesis lt_irrefl : forall x, ~ lt x x.
  Hypothesis lt_trans : forall x y z, lt x y -> lt y z -> lt x z.

  Theorem sorted_unique l1 : forall l2,
    StronglySorted lt l1 -> StronglySorted lt l2 -> (forall x, In x l1 <-> In x l2) -> l1 = l2.
  Proof.
    induction l1 as [|h1 t1 IH]; intros [|h2 t2] S1 S2 H.
    - reflexivity.
    - exfalso. apply (proj2 (H h2)). left; reflexivity.
    - exfalso. apply (proj1 (H h1)). left; reflexivity.
    - inversion S1 as [|? ? S1' F1]; subst. inversion S2 as [|? ? S2' F2]; subst.
      rewrite Forall_forall in F1, F2.
      assert (Hh : h1 = h2).
      { destruct (proj1 (H h1) (or_introl eq_refl)) as [E|I1]; [symmetry; exact E|].
        destruct (proj2 (H h2) (or_introl eq_refl)) as [E|I2]; [exact E|].
        exfalso. apply (lt_irrefl h1). eapply lt_trans; [apply F1; exact I2|apply F2; exact I1]. }
      subst h2. f_equal. apply IH; [assumption|assumption|].
      intro x. split; intro Hx.
      + destruct (proj1 (H x) (or_intror Hx)) as [E|I]; [|exact I]. subst x. exfalso. apply (lt_irrefl h1), F1, Hx.
      + destruct (proj2 (H x) (or_intror Hx)) as [E|I]; [|exact I]. subst x. exfalso. apply (lt_irrefl h1), F2, Hx.
  Qed.
End SortedUnique.

(* unicode_ranges(): whatever order the hash set of range names is enumerated in, any strictly
   sorted list with the same elements IS the model's result *)
Theorem ranges_order_independent t l :
  StronglySorted slt l -> (forall r, In r l <-> exists c, In c t /\ unicode_range c = Some r) ->
  l = unicode_ranges_of t.
Proof.
  intros Hs Hin. apply (sorted_unique slt).
  - intros x Hx. unfold slt in Hx. rewrite ltb_irrefl in Hx. discriminate.
  - intros x y z. apply ltb_trans.
  - exact Hs.
  - apply ranges_sorted.
  - intro r. rewrite Hin, ranges_union. tauto.
Qed.

(* `find` over a collection in which at most one element satisfies the predicate does not depend on
   the enumeration order (ENCODING_MARKS.iter().find(starts_with): the marks are pairwise non-prefix) *)
Lemma find_unique_perm {A} (p : A -> bool) l l' :
  (forall x y, In x l -> In y l -> p x = true -> p y = true -> x = y) ->
  Permutation l l' -> find p l = find p l'.
Proof.
  intros Hu P.
  assert (Hchar : forall m o, (forall x y, In x m -> In y m -> p x = true -> p y = true -> x = y) ->
           (find p m = o <-> match o with Some x => In x m /\ p x = true | None => forall x, In x m -> p x = false end)).
  { intros m o Hum. split.
    - intros <-. destruct (find p m) as [x|] eqn:E; [apply find_some in E; exact E|]. intros x Hx. eapply find_none; eauto.
    - destruct o as [x|].
      + intros [Hx Hp]. destruct (find p m) as [y|] eqn:E.
        * apply find_some in E as [Hy Hpy]. f_equal. apply Hum; assumption.
        * eapply find_none in E; eauto. congruence.
      + intro Hn. destruct (find p m) as [y|] eqn:E; [|reflexivity]. apply find_some in E as [Hy Hpy]. rewrite (Hn y Hy) in Hpy. discriminate. }
  assert (Hu' : forall x y, In x l' -> In y l' -> p x = true -> p y = true -> x = y).
  { intros x y Hx Hy. apply Hu; eapply Permutation_in; try apply Permutation_sym; eauto. }
  symmetry. apply (Hchar l' (find p l) Hu'). destruct (find p l) as [x|] eqn:E.
  - apply find_some in E as [Hx Hp]. split; [eapply Permutation_in; eauto|exact Hp].
  - intros x Hx. eapply find_none; [exact E|]. eapply Permutation_in; [apply Permutation_sym; exact P|exact Hx].
Qed.

Lemma starts_with_trans_prefix b m1 m2 :
  starts_with b m1 = true -> starts_with b m2 = true -> starts_with m1 m2 = true \/ starts_with m2 m1 = true.
Proof.
  revert m1 m2; induction b as [|c b IH]; intros [|x m1] [|y m2]; cbn [starts_with]; auto; try discriminate.
  intros H1 H2. apply andb_true_iff in H1 as [E1 H1], H2 as [E2 H2].
  apply N.eqb_eq in E1, E2. subst. destruct (IH _ _ H1 H2) as [H|H]; [left|right]; rewrite N.eqb_refl; exact H.
Qed.

Theorem marks_order_independent b M :
  Permutation MARKS M -> find (fun em => starts_with b (snd em)) M = identify_sig b.
Proof.
  intro P. unfold identify_sig. symmetry. apply find_unique_perm; [|exact P].
  intros [e1 m1] [e2 m2] H1 H2 S1 S2. cbn [snd] in S1, S2.
  pose proof marks_prefix_free as HP. unfold marks_prefix_free_b in HP. rewrite forallb_forall in HP.
  pose proof (HP _ H1) as HP1. rewrite forallb_forall in HP1. specialize (HP1 _ H2). cbn [fst snd] in HP1.
  pose proof (HP _ H2) as HP2. rewrite forallb_forall in HP2. specialize (HP2 _ H1). cbn [fst snd] in HP2.
  assert (He : e1 = e2).
  { destruct (String.eqb e1 e2) eqn:E; [apply String.eqb_eq; exact E|]. exfalso.
    assert (E' : String.eqb e2 e1 = false) by (destruct (String.eqb e2 e1) eqn:E2; [apply String.eqb_eq in E2; subst; rewrite String.eqb_refl in E; discriminate|reflexivity]).
    try rewrite E in HP1. try rewrite E' in HP2. cbn [orb] in HP1, HP2. apply negb_true_iff in HP1, HP2.
    destruct (starts_with_trans_prefix b m1 m2 S1 S2); congruence. }
  subst e2. f_equal.
  pose proof marks_names_nodup as Hnd.
  clear -H1 H2 Hnd. induction MARKS as [|[e m] l IH]; [destruct H1|]. cbn [map fst] in Hnd. inversion Hnd; subst.
  destruct H1 as [E1|H1], H2 as [E2|H2].
  - congruence.
  - injection E1 as -> ->. exfalso. apply H3. apply (in_map fst) in H2. exact H2.
  - injection E2 as -> ->. exfalso. apply H3. apply (in_map fst) in H1. exact H1.
  - apply IH; assumption.
Qed.
