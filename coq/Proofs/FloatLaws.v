(* The few laws of binary32 arithmetic the control-logic theorems rely on, stated over the
   abstract FloatOps interface; Proofs/F32Facts.v proves them of the Flocq instance. *)
From Coq Require Import List NArith Bool.
From Model Require Import Flt.
Import ListNotations.
Open Scope N_scope.

Section Laws.
  Variable FO : FloatOps.
  Notation F := (F FO).

  (* not NaN and >= +0 (so: +0, -0, positive finite, +infinity) *)
  Definition good (x : F) : Prop := fisnan FO x = false /\ fle FO (fzero FO) x = true.

  Record FloatLaws : Prop := {
    (* for non-NaN operands, not (x >= t) is x < t *)
    law_not_ge_lt : forall x t, fisnan FO x = false -> fisnan FO t = false -> fge FO x t = false -> flt FO x t = true;
    (* sum()/len of a single value is that value: (-0 + x) / 1 = x *)
    law_mean_single : forall x, fmean FO [x] = x;
    (* the mean of fewer than 2^100 good values is good *)
    law_mean_good : forall l, l <> [] -> N.of_nat (List.length l) < 2 ^ 100 -> Forall good l -> good (fmean FO l);
    law_zero_good : good (fzero FO);
    law_zero_le_one : fle FO (fzero FO) (fone FO) = true;
    (* a good value that is < t (t not NaN) differs from itself by less than epsilon: |x - x| < eps *)
    law_self_close : forall x t, good x -> flt FO x t = true -> flt FO (fabs FO (fsub FO x x)) (c_eps FO) = true;
  }.
End Laws.

Section CmpLaws.
  Variable FO : FloatOps.
  Notation F := (F FO).

  Record CmpLaws : Prop := {
    (* |x - y| = |y - x| (round-to-nearest is symmetric) *)
    law_abs_sub_sym : forall x y, fabs FO (fsub FO x y) = fabs FO (fsub FO y x);
    (* the OrderedFloat order is total: NaN is the greatest element *)
    law_oge_total : forall a b, oge FO a b = true \/ oge FO b a = true;
  }.

  Hypothesis CL : CmpLaws.

  Lemma ocmp_antisym a b : ocmp FO a b = CompOpp (ocmp FO b a).
  Proof.
    unfold ocmp, olt, ogt. destruct (law_oge_total CL a b) as [H|H]; rewrite H; cbn [negb];
      destruct (oge FO b a) eqn:E1; destruct (oge FO a b) eqn:E2; cbn [negb CompOpp]; try reflexivity; discriminate.
  Qed.
End CmpLaws.
