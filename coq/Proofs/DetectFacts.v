(* Inversion lemmas for the model of from_bytes (Model/Detect.v): what a verdict tells about
   the match it carries, invariants of the chunk loop, and the container operations. *)
From Coq Require Import List NArith String Bool Lia Permutation.
From Gen Require Import Tables.
From Model Require Import Base Names Flt Matches Detect.
From Proofs Require Import SortFacts.
Import ListNotations.
Open Scope N_scope.
Open Scope list_scope.

Ltac bind_inv H :=
  match type of H with
  | bind ?r _ = _ => let E := fresh "E" in destruct r eqn:E; cbn [bind] in H; try discriminate
  end.

Lemma slice_ok {A} s (l : list A) a b x :
  slice s l a b = Ok x ->
  a <= b /\ b <= len l /\ x = firstn (N.to_nat (b - a)) (skipn (N.to_nat a) l).
Proof.
  unfold slice. destruct ((a <=? b) && (b <=? len l)) eqn:E; [|discriminate].
  apply andb_true_iff in E as [E1 E2]. apply N.leb_le in E1, E2.
  intro H; inversion H; subst. auto.
Qed.

Lemma slice_not_err {A} s (l : list A) a b m : slice s l a b <> Err m.
Proof. unfold slice. destruct ((a <=? b) && (b <=? len l)); discriminate. Qed.

Lemma slice_full_tail {A} s (l : list A) a x :
  slice s l a (len l) = Ok x -> x = skipn (N.to_nat a) l.
Proof.
  intro H. apply slice_ok in H as (H1 & _ & ->).
  apply firstn_all2. rewrite skipn_length. unfold len in *. lia.
Qed.

Lemma slice_prefix {A} s (l : list A) b x :
  slice s l 0 b = Ok x -> x = firstn (N.to_nat b) l.
Proof.
  intro H. apply slice_ok in H as (_ & _ & ->). rewrite N.sub_0_r. reflexivity.
Qed.

Section DF.
  Variable FO : FloatOps.
  Variable R : oracles FO.
  Notation cmatch := (cmatch FO).

  (* ---------- new_match ---------- *)
  Definition text_of (b : bytes) (e : string) (decoded : option text) : option text :=
    match decoded with
    | Some t => Some t
    | None => option_map strip_feff (cdecode FO R e b)
    end.

  Lemma new_match_fields b e ch bom coh dec :
    let m := new_match FO R b e ch bom coh dec in
    m_payload FO m = b /\ m_enc FO m = e /\ m_chaos FO m = ch /\ m_coh FO m = coh
    /\ m_bom FO m = bom /\ m_sub FO m = [] /\ m_text FO m = text_of b e dec.
  Proof. cbn. unfold text_of. destruct dec; repeat split; reflexivity. Qed.

  (* ---------- chunk loop ---------- *)
  (* the loop reports a lazy hard failure only together with a saturated early-stop counter *)
  Definition cs_ok (mg : N) (st : chunk_state FO) : Prop :=
    lazy_hard_failure FO st = true -> early_stop FO st = mg.

  Lemma chunk_step_inv cfg b e dec sl mg st o f :
    lazy_hard_failure FO st = false ->
    chunk_step FO R cfg b e dec sl mg st o = Ok f ->
    match f with
    | Continue _ st' => lazy_hard_failure FO st' = false
    | Break _ st' => cs_ok mg st'
    end.
  Proof.
    intros Hst H. unfold chunk_step in H. bind_inv H.
    destruct (is_invalid_chunk a e).
    - inversion H; subst. unfold cs_ok. cbn. auto.
    - destruct a as [chunk|]; [|discriminate].
      destruct (mg <=? _); inversion H; subst; unfold cs_ok; cbn; auto; discriminate.
  Qed.

  Lemma chunk_loop_inv cfg b e dec sl mg offs : forall st st',
    lazy_hard_failure FO st = false ->
    chunk_loop FO R cfg b e dec sl mg st offs = Ok st' -> cs_ok mg st'.
  Proof.
    induction offs as [|o offs IH]; intros st st' Hst H; cbn [chunk_loop] in H.
    - inversion H; subst. unfold cs_ok. rewrite Hst. discriminate.
    - bind_inv H. pose proof (chunk_step_inv _ _ _ _ _ _ _ _ _ Hst E) as Hf.
      destruct a as [st1|st1].
      + eapply IH; eauto.
      + inversion H; subst. exact Hf.
  Qed.

  (* ---------- probe_rest ---------- *)
  (* what an accepted / soft-failed verdict tells about the match it carries *)
  Lemma probe_rest_accept c e si dec m x :
    probe_rest FO R c e si dec = Ok (Accept FO m x) ->
    (exists mean merged, m = new_match FO R (c_bytes FO c) e mean (is_bom FO c e) merged dec)
    /\ (lazy_sb FO c e = true ->
        exists tl, slice "remainder slice" (c_bytes FO c) MAX_PROCESSED_BYTES (c_len FO c) = Ok tl
                   /\ is_invalid_chunk (sdecode FO R e tl) e = false).
  Proof.
    unfold probe_rest. intro H. bind_inv H. bind_inv H. bind_inv H.
    pose proof E1 as Hcs. eapply chunk_loop_inv in Hcs; [|reflexivity].
    bind_inv H. destruct (negb a2) eqn:Ha2; [discriminate|].
    apply negb_false_iff in Ha2. subst a2.
    match type of H with (if ?c then _ else _) = _ => destruct c eqn:Hsoft end; [discriminate|].
    inversion H; subst. split; [eauto|].
    intro Hl. rewrite Hl in E2.
    apply orb_false_iff in Hsoft as [_ Hes].
    destruct (lazy_hard_failure FO a1) eqn:Hlh.
    - exfalso. specialize (Hcs Hlh). rewrite Hcs in Hes. rewrite N.leb_refl in Hes. discriminate.
    - cbn [negb andb] in E2. bind_inv E2. inversion E2 as [Hinv]. apply negb_true_iff in Hinv. eauto.
  Qed.

  Lemma probe_rest_soft c e si dec fb :
    probe_rest FO R c e si dec = Ok (SoftFail FO (Some fb)) ->
    fb = new_match FO R (c_bytes FO c) e (threshold FO (c_cfg FO c)) false [] dec
    /\ (lazy_sb FO c e = true ->
        exists tl, slice "remainder slice" (c_bytes FO c) MAX_PROCESSED_BYTES (c_len FO c) = Ok tl
                   /\ is_invalid_chunk (sdecode FO R e tl) e = false).
  Proof.
    unfold probe_rest. intro H. bind_inv H. bind_inv H. bind_inv H. bind_inv H.
    destruct (negb a2) eqn:Ha2; [discriminate|].
    apply negb_false_iff in Ha2. subst a2.
    match type of H with (if ?c then _ else _) = _ => destruct c eqn:Hsoft end; [|discriminate].
    match type of H with Ok (SoftFail _ (if ?c then _ else _)) = _ => destruct c eqn:Hfb end; [|discriminate].
    inversion H; subst. split; [reflexivity|].
    intro Hl. rewrite Hl in E2.
    apply andb_true_iff in Hfb as [Hfb _]. apply andb_true_iff in Hfb as [_ Hlh].
    rewrite Hlh in E2. cbn [andb] in E2. bind_inv E2. inversion E2 as [Hinv].
    apply negb_true_iff in Hinv. eauto.
  Qed.

  Lemma probe_rest_not_skip c e si dec : probe_rest FO R c e si dec <> Ok (Skip FO).
  Proof.
    unfold probe_rest. intro H. bind_inv H. bind_inv H. bind_inv H. bind_inv H.
    destruct (negb a2); [discriminate|].
    match type of H with (if ?c then _ else _) = _ => destruct c end; discriminate.
  Qed.

  (* ---------- container ---------- *)
  Lemma merge_into_spec items item l :
    merge_into FO items item = Some l ->
    exists l1 m l2, items = l1 ++ m :: l2 /\ l = l1 ++ add_submatch FO m item :: l2
                    /\ same_result FO m item = true.
  Proof.
    revert l; induction items as [|m r IH]; intros l H; cbn [merge_into] in H; [discriminate|].
    destruct (same_result FO m item) eqn:Hs.
    - inversion H; subst. exists [], m, r. auto.
    - destruct (merge_into FO r item) as [r'|] eqn:Hr; [|discriminate]. inversion H; subst.
      destruct (IH _ eq_refl) as (l1 & m' & l2 & -> & -> & Hs'). exists (m :: l1), m', l2. auto.
  Qed.

  (* every element of the container after `append` is an old element, the new item, or an old
     element that received the new item as an additional submatch *)
  Lemma append_In items item x :
    In x (append FO items item) ->
    In x items \/ x = item
    \/ (exists m, In m items /\ x = add_submatch FO m item /\ same_result FO m item = true).
  Proof.
    unfold append. intro H.
    assert (Hp : In x (resort FO (items ++ [item])) -> In x items \/ x = item).
    { intro Hi. apply isort_In in Hi. apply in_app_or in Hi as [Hi|[Hi|[]]]; auto. }
    destruct (len (m_payload FO item) <=? TOO_BIG_SEQUENCE).
    - destruct (merge_into FO items item) as [l|] eqn:Hm.
      + destruct (merge_into_spec _ _ _ Hm) as (l1 & m & l2 & -> & -> & Hs).
        apply in_app_or in H as [H|[H|H]].
        * left. apply in_or_app. auto.
        * right. right. exists m. split; [apply in_or_app; right; left; reflexivity|auto].
        * left. apply in_or_app. right. right. exact H.
      + destruct (Hp H); auto.
    - destruct (Hp H); auto.
  Qed.

  Lemma add_submatch_fields m item :
    let m' := add_submatch FO m item in
    m_payload FO m' = m_payload FO m /\ m_enc FO m' = m_enc FO m /\ m_chaos FO m' = m_chaos FO m
    /\ m_coh FO m' = m_coh FO m /\ m_bom FO m' = m_bom FO m /\ m_text FO m' = m_text FO m
    /\ m_sub FO m' = m_sub FO m ++ [item].
  Proof. destruct m. cbn. repeat split; reflexivity. Qed.

  Lemma same_result_text m item : same_result FO m item = true -> m_text FO m = m_text FO item.
  Proof.
    unfold same_result. intro H. apply andb_true_iff in H as [H _].
    destruct (m_text FO m), (m_text FO item); cbn in H; try discriminate; auto.
    apply text_eqb_eq in H. subst; reflexivity.
  Qed.

  Lemma get_by_encoding_In items n m : get_by_encoding FO items n = Some m -> In m items.
  Proof.
    unfold get_by_encoding. destruct (iana_name n); [|discriminate].
    intro H. apply find_some in H. tauto.
  Qed.
End DF.

(* ---------- accepted candidates were examined window by window ---------- *)
Section Windows.
  Variable FO : FloatOps.
  Variable R : oracles FO.

  (* the chunk of the decoded text the loop analyses at offset o (chars mode) *)
  Definition window (cfg : settings FO) (t : text) (o : N) : text :=
    firstn (N.to_nat (chunk_size FO cfg)) (skipn (N.to_nat o) t).

  Lemma chunk_loop_valid cfg b e t sl mg offs : forall st st',
    chunk_loop FO R cfg b e (Some t) sl mg st offs = Ok st' ->
    lazy_hard_failure FO st' = false -> (early_stop FO st' <? mg) = true ->
    Forall (fun o => is_invalid_chunk (Some (window cfg t o)) e = false) offs.
  Proof.
    induction offs as [|o offs IH]; intros st st' H Hl He; [constructor|].
    cbn [chunk_loop] in H. bind_inv H. unfold chunk_step in E. cbn [bind] in E.
    fold (window cfg t o) in E.
    match type of E with (if ?c then _ else _) = _ => destruct c eqn:Hi end.
    - injection E as <-. injection H as <-. cbn in Hl. discriminate.
    - match type of E with (if ?c then _ else _) = _ => destruct c eqn:Hmg end; injection E as <-.
      + injection H as <-. cbn in He. apply N.leb_le in Hmg. apply N.ltb_lt in He. lia.
      + constructor; [exact Hi|]. eapply IH; eauto.
  Qed.

  (* the mean of a non-empty ratio list or +0 *)
  Definition mean_of (l : list (F FO)) : F FO := match l with [] => fzero FO | _ => fmean FO l end.

  Lemma probe_rest_accept_windows c e si t m x :
    probe_rest FO R c e si (Some t) = Ok (Accept FO m x) ->
    exists d, udiv "seq_len / steps" (len t) (steps FO (c_cfg FO c)) = Ok d
      /\ Forall (fun o => is_invalid_chunk (Some (window (c_cfg FO c) t o)) e = false)
                (offsets 0 (len t) (N.max d 1)).
  Proof.
    unfold probe_rest. intro H. bind_inv H. bind_inv H.
    assert (Hso : (match is_bom FO c e, Some t with true, None => si | _, _ => 0 end) = 0)
      by (destruct (is_bom FO c e); reflexivity).
    rewrite Hso in H. bind_inv H.
    pose proof E1 as Hcs. eapply chunk_loop_inv in Hcs; [|reflexivity].
    bind_inv H. destruct (negb a2); [discriminate|].
    match type of H with (if ?c then _ else _) = _ => destruct c eqn:Hsoft end; [discriminate|].
    apply orb_false_iff in Hsoft as [_ Hes]. apply N.leb_gt in Hes.
    exists a0. split; [reflexivity|].
    eapply chunk_loop_valid; [exact E1| |apply N.ltb_lt; exact Hes].
    destruct (lazy_hard_failure FO a1) eqn:Hlh; [|reflexivity].
    specialize (Hcs Hlh). lia.
  Qed.
End Windows.
