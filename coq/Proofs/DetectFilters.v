(* C05 (filters) and C07 (BOM flag, UTF-16 gate) as instances of the generic loop invariant. *)
From Coq Require Import List NArith String Bool Lia.
From Gen Require Import Tables.
From Model Require Import Base Names Flt Matches Detect.
From Proofs Require Import SortFacts NamesFacts DetectFacts DetectInv DetectSound.
Import ListNotations.
Open Scope N_scope.
Open Scope list_scope.

Opaque iana_name identify_sig is_multi_byte is_cp_similar.

Section Inst.
  Variable FO : FloatOps.
  Variable R : oracles FO.
  Notation cmatch := (cmatch FO).

  (* fields of the matches carried by verdicts *)
  Lemma verdict_fields c e si dec v :
    probe_rest FO R c e si dec = Ok v ->
    match v with
    | Accept _ m _ => m_enc FO m = e /\ m_bom FO m = is_bom FO c e /\ m_sub FO m = [] /\ m_payload FO m = c_bytes FO c
    | SoftFail _ (Some fb) => m_enc FO fb = e /\ m_bom FO fb = false /\ m_sub FO fb = []
                              /\ m_payload FO fb = c_bytes FO c /\ m_chaos FO fb = threshold FO (c_cfg FO c)
                              /\ enable_fallback FO (c_cfg FO c) = true /\ mem e (c_prio FO c) = true
    | _ => True
    end.
  Proof.
    intro H. destruct v as [| |[fb|]|m x]; auto.
    - pose proof H as H'. apply probe_rest_soft in H' as [-> _].
      destruct (new_match_fields FO R (c_bytes FO c) e (threshold FO (c_cfg FO c)) false [] dec)
        as (F1 & F2 & F3 & _ & F5 & F6 & _).
      repeat split; try assumption.
      + unfold probe_rest in H. bind_inv H. bind_inv H. bind_inv H. bind_inv H.
        destruct (negb a2); [discriminate|].
        match type of H with (if ?c then _ else _) = _ => destruct c end; [|discriminate].
        match type of H with Ok (SoftFail _ (if ?c then _ else _)) = _ => destruct c eqn:Hfb end; [|discriminate].
        apply andb_true_iff in Hfb as [Hfb _]. apply andb_true_iff in Hfb as [Hfb _]. exact Hfb.
      + unfold probe_rest in H. bind_inv H. bind_inv H. bind_inv H. bind_inv H.
        destruct (negb a2); [discriminate|].
        match type of H with (if ?c then _ else _) = _ => destruct c end; [|discriminate].
        match type of H with Ok (SoftFail _ (if ?c then _ else _)) = _ => destruct c eqn:Hfb end; [|discriminate].
        apply andb_true_iff in Hfb as [_ Hfb]. exact Hfb.
    - apply probe_rest_accept in H as [(mean & merged & ->) _].
      destruct (new_match_fields FO R (c_bytes FO c) e mean (is_bom FO c e) merged dec)
        as (F1 & F2 & _ & _ & F5 & F6 & _). auto.
  Qed.

  (* ---------- C05: filters ---------- *)
  Definition passes (c : ctx FO) (m : cmatch) : Prop := gate_filtered FO c (m_enc FO m) = false.

  Lemma passes_add c m item : passes c m -> passes c (add_submatch FO m item).
  Proof. unfold passes. destruct m; cbn. auto. Qed.

  Lemma passes_verdict c : VerdictOK FO R c (passes c) (passes c).
  Proof.
    intros e si dec v _ G1 _ _ H. apply verdict_fields in H.
    destruct v as [| |[fb|]|m x]; auto.
    - destruct H as (He & _ & Hs & _). unfold PFM, passes. rewrite He. auto.
    - destruct H as (He & _ & Hs & _). unfold PM, passes. rewrite He, Hs. auto.
  Qed.

  Theorem filters_respected b cfg r :
    b <> [] -> from_bytes FO R b cfg = Ok r ->
    exists inc exc,
      canon_list "included " " is not a valid encoding name" (include_encodings FO cfg) = Ok inc
      /\ canon_list "excluded encoding " " is not a valid encoding name" (exclude_encodings FO cfg) = Ok exc
      /\ forall m e, In m r -> In e (suitable_encodings FO m) ->
           (inc = [] \/ In e inc) /\ ~ In e exc.
  Proof.
    intros Hb H.
    destruct (from_bytes_shape FO R passes passes passes_add passes_verdict b cfg r Hb H)
      as (inc & exc & Hi & He & Hs).
    exists inc, exc. split; [exact Hi|]. split; [exact He|].
    assert (Hg : forall e, gate_filtered FO (make_ctx FO R b cfg inc exc) e = false ->
                           (inc = [] \/ In e inc) /\ ~ In e exc).
    { intros e Hg. unfold gate_filtered in Hg. cbn [make_ctx c_cfg include_encodings exclude_encodings] in Hg.
      apply orb_false_iff in Hg as [G1 G2]. split.
      - destruct inc as [|i0 inc']; [left; reflexivity|]. right. cbn [len List.length] in G1.
        destruct (N.of_nat (S (List.length inc')) =? 0) eqn:Hz; [apply N.eqb_eq in Hz; lia|].
        cbn [negb andb] in G1. apply negb_false_iff in G1. apply mem_In; exact G1.
      - intro Hin. apply mem_In in Hin. rewrite Hin in G2. discriminate. }
    intros m e Hm Hin. apply Hg.
    assert (Hall : forall m', In m' r -> passes (make_ctx FO R b cfg inc exc) m' /\ Forall (passes (make_ctx FO R b cfg inc exc)) (m_sub FO m')).
    { intros m' Hm'. destruct Hs as [_ Hf|fb Hrf [Hp Hsub]|Hre].
      - rewrite Forall_forall in Hf. exact (Hf _ Hm').
      - subst r. destruct Hm' as [<-|[]]. rewrite Hsub. split; [exact Hp|constructor].
      - subst r. destruct Hm'. }
    destruct (Hall _ Hm) as [Hp Hsub]. unfold suitable_encodings in Hin. destruct Hin as [<-|Hin]; [exact Hp|].
    apply in_map_iff in Hin as (s & <- & Hs'). rewrite Forall_forall in Hsub. exact (Hsub _ Hs').
  Qed.

  (* an unknown entry is an error that names it *)
  Lemma canon_list_err pre post l :
    (exists x, In x l /\ iana_name x = None) ->
    exists y, In y l /\ iana_name y = None /\ canon_list pre post l = Err (pre ++ y ++ post)%string.
  Proof.
    induction l as [|x l IH]; intros (z & Hz & Hn); [destruct Hz|].
    cbn [canon_list]. destruct (iana_name x) as [n|] eqn:Hx.
    - destruct Hz as [->|Hz]; [rewrite Hx in Hn; discriminate|]. destruct (IH (ex_intro _ z (conj Hz Hn))) as (y & Hy & Hny & ->).
      exists y. split; [right; exact Hy|]. split; [exact Hny|reflexivity].
    - exists x. split; [left; reflexivity|]. split; [exact Hx|reflexivity].
  Qed.

  Lemma canon_list_ok pre post l l' :
    canon_list pre post l = Ok l' -> l' = map (fun x => unwrap_or (iana_name x) x) l /\ Forall (fun x => iana_name x <> None) l.
  Proof.
    revert l'; induction l as [|x l IH]; intros l' H; cbn [canon_list] in H.
    - inversion H; subst. split; [reflexivity|constructor].
    - destruct (iana_name x) as [n|] eqn:Hx; [|discriminate]. bind_inv H. inversion H; subst.
      destruct (IH _ eq_refl) as [-> Hf]. split; [cbn [map]; rewrite Hx; reflexivity|].
      constructor; [rewrite Hx; discriminate|exact Hf].
  Qed.

  Theorem unknown_include_is_error b cfg :
    (exists x, In x (include_encodings FO cfg) /\ iana_name x = None) ->
    exists y, In y (include_encodings FO cfg) /\ iana_name y = None
              /\ from_bytes FO R b cfg = Err ("included " ++ y ++ " is not a valid encoding name")%string.
  Proof.
    intro H. destruct (canon_list_err "included " " is not a valid encoding name" _ H) as (y & Hy & Hn & He).
    exists y. split; [exact Hy|]. split; [exact Hn|]. unfold from_bytes. rewrite He. reflexivity.
  Qed.

  Theorem unknown_exclude_is_error b cfg :
    Forall (fun x => iana_name x <> None) (include_encodings FO cfg) ->
    (exists x, In x (exclude_encodings FO cfg) /\ iana_name x = None) ->
    exists y, In y (exclude_encodings FO cfg) /\ iana_name y = None
              /\ from_bytes FO R b cfg = Err ("excluded encoding " ++ y ++ " is not a valid encoding name")%string.
  Proof.
    intros Hinc H. destruct (canon_list_err "excluded encoding " " is not a valid encoding name" _ H) as (y & Hy & Hn & He).
    exists y. split; [exact Hy|]. split; [exact Hn|]. unfold from_bytes.
    destruct (canon_list "included " " is not a valid encoding name" (include_encodings FO cfg)) as [inc|msg|s] eqn:Hi.
    - cbn [bind]. rewrite He. reflexivity.
    - exfalso. clear -Hinc Hi. revert Hi. induction (include_encodings FO cfg) as [|x l IH]; cbn [canon_list]; [discriminate|].
      inversion Hinc as [|x' l' Hxn Hl' ]; subst. destruct (iana_name x); [|exfalso; apply Hxn; reflexivity].
      destruct (canon_list _ _ l) eqn:Hl; cbn [bind]; try discriminate. intro. eapply IH; eauto.
    - exfalso. clear -Hi. revert Hi. induction (include_encodings FO cfg) as [|x l IH]; cbn [canon_list]; [discriminate|].
      destruct (iana_name x); [|discriminate]. destruct (canon_list _ _ l) eqn:Hl; cbn [bind]; try discriminate.
      intro. eapply IH; eauto.
  Qed.

  (* replacing every entry by its canonical name leaves the result unchanged (entries that
     canonicalise to a supported encoding; "replacement" is the one canonical name that is not
     itself a label -- NamesFacts.iana_name_idem) *)
  Definition with_filters (cfg : settings FO) (inc exc : list string) : settings FO :=
    {| steps := steps FO cfg; chunk_size := chunk_size FO cfg; threshold := threshold FO cfg;
       include_encodings := inc; exclude_encodings := exc;
       preemptive_behaviour := preemptive_behaviour FO cfg;
       language_threshold := language_threshold FO cfg; enable_fallback := enable_fallback FO cfg |}.

  Lemma canon_list_idem pre post l l' :
    canon_list pre post l = Ok l' -> ~ In "replacement"%string l' -> canon_list pre post l' = Ok l'.
  Proof.
    revert l'; induction l as [|x l IH]; intros l' H Hr; cbn [canon_list] in H.
    - inversion H; subst. reflexivity.
    - destruct (iana_name x) as [n|] eqn:Hx; [|discriminate]. bind_inv H. inversion H; subst.
      cbn [canon_list]. rewrite (iana_name_idem x n Hx) by (intro; subst; apply Hr; left; reflexivity).
      rewrite (IH _ eq_refl) by (intro; apply Hr; right; assumption). reflexivity.
  Qed.

  Theorem canonical_filters_same_result b cfg inc exc :
    canon_list "included " " is not a valid encoding name" (include_encodings FO cfg) = Ok inc ->
    canon_list "excluded encoding " " is not a valid encoding name" (exclude_encodings FO cfg) = Ok exc ->
    ~ In "replacement"%string (inc ++ exc) ->
    from_bytes FO R b (with_filters cfg inc exc) = from_bytes FO R b cfg.
  Proof.
    intros Hi He Hr. unfold from_bytes. cbn [include_encodings exclude_encodings with_filters].
    rewrite Hi, He.
    rewrite (canon_list_idem _ _ _ _ Hi) by (intro; apply Hr, in_or_app; auto).
    rewrite (canon_list_idem _ _ _ _ He) by (intro; apply Hr, in_or_app; auto).
    reflexivity.
  Qed.

  (* ---------- C07: BOM flag and the UTF-16 gate ---------- *)
  Definition bom_ok (c : ctx FO) (m : cmatch) : Prop :=
    m_bom FO m = is_bom FO c (m_enc FO m) /\ gate_utf16 FO c (m_enc FO m) = false.
  Definition bom_fb (c : ctx FO) (m : cmatch) : Prop :=
    m_bom FO m = false /\ gate_utf16 FO c (m_enc FO m) = false.

  Lemma bom_ok_add c m item : bom_ok c m -> bom_ok c (add_submatch FO m item).
  Proof. unfold bom_ok. destruct m; cbn. auto. Qed.

  Lemma bom_verdict c : VerdictOK FO R c (bom_ok c) (bom_fb c).
  Proof.
    intros e si dec v _ _ G2 _ H. apply verdict_fields in H.
    destruct v as [| |[fb|]|m x]; auto.
    - destruct H as (He & Hb & Hs & _). unfold PFM, bom_fb. rewrite He. auto.
    - destruct H as (He & Hb & Hs & _). unfold PM, bom_ok. rewrite He, Hs, Hb. auto.
  Qed.

  Theorem bom_shape b cfg r :
    b <> [] -> from_bytes FO R b cfg = Ok r ->
    exists inc exc, shape (bom_ok (make_ctx FO R b cfg inc exc)) (bom_fb (make_ctx FO R b cfg inc exc)) r.
  Proof.
    intros Hb H.
    destruct (from_bytes_shape FO R bom_ok bom_fb bom_ok_add bom_verdict b cfg r Hb H) as (inc & exc & _ & _ & Hs).
    eauto.
  Qed.
End Inst.

(* ---------- C07 at the level of the input ---------- *)
Section BomInput.
  Variable FO : FloatOps.
  Variable R : oracles FO.

  Lemma is_bom_make_ctx b cfg inc exc e :
    is_bom FO (make_ctx FO R b cfg inc exc) e = true <-> exists mark, identify_sig b = Some (e, mark).
  Proof.
    unfold is_bom, sig_enc. cbn [make_ctx c_sig]. split.
    - intro H. apply opt_str_eqb_true in H. destruct (identify_sig b) as [[e' m]|]; [|discriminate].
      cbn in H. inversion H; subst. eauto.
    - intros [mark ->]. cbn. apply String.eqb_refl.
  Qed.

  Definition starts_with_mark_of (b : bytes) (e : string) : Prop := exists mark, identify_sig b = Some (e, mark).

  Theorem bom_flag_truthful b cfg r :
    b <> [] -> from_bytes FO R b cfg = Ok r ->
    (* every match: flag only with the mark; UTF-16 (main or alternative) only with its BOM *)
    (forall m, In m r ->
       (m_bom FO m = true -> starts_with_mark_of b (m_enc FO m))
       /\ (forall e, In e (suitable_encodings FO m) -> In e ["utf-16le"; "utf-16be"]%string -> starts_with_mark_of b e))
    (* regular (non fall-back) results: the flag is set exactly when the input starts with the mark *)
    /\ ((r <> [] /\ forall m, In m r -> (m_bom FO m = true <-> starts_with_mark_of b (m_enc FO m)))
        \/ (exists fb, r = [fb] /\ m_bom FO fb = false /\ m_sub FO fb = [])
        \/ r = []).
  Proof.
    intros Hb H. destruct (bom_shape FO R b cfg r Hb H) as (inc & exc & Hs).
    set (c := make_ctx FO R b cfg inc exc) in *.
    assert (Hgate : forall e, gate_utf16 FO c e = false -> In e ["utf-16le"; "utf-16be"]%string -> starts_with_mark_of b e).
    { intros e Hg Hin. unfold gate_utf16 in Hg. apply mem_In in Hin. rewrite Hin, andb_true_r in Hg.
      apply negb_false_iff in Hg. apply is_bom_make_ctx in Hg. exact Hg. }
    destruct Hs as [Hne Hf|fb Hr [[Hb1 Hb2] Hsub]|Hr].
    - rewrite Forall_forall in Hf. split.
      + intros m Hm. destruct (Hf _ Hm) as [[Hm1 Hm2] Hsubs]. split.
        * intro Hbt. rewrite Hm1 in Hbt. apply is_bom_make_ctx in Hbt. exact Hbt.
        * intros e He. unfold suitable_encodings in He. destruct He as [<-|He]; [apply Hgate; exact Hm2|].
          apply in_map_iff in He as (s & <- & Hs). rewrite Forall_forall in Hsubs.
          destruct (Hsubs _ Hs) as [_ Hs2]. apply Hgate; exact Hs2.
      + left. split; [exact Hne|]. intros m Hm. destruct (Hf _ Hm) as [[Hm1 _] _]. rewrite Hm1.
        apply is_bom_make_ctx.
    - subst r. split.
      + intros m [<-|[]]. split; [rewrite Hb1; discriminate|].
        intros e He. unfold suitable_encodings in He. rewrite Hsub in He. destruct He as [<-|[]]. apply Hgate; exact Hb2.
      + right. left. exists fb. auto.
    - subst r. split; [intros m []|]. right. right. reflexivity.
  Qed.
End BomInput.
