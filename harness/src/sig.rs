//! Canonical, line-oriented signature of a detection result; the OCaml driver prints the
//! model's result in exactly the same format.
use crate::util::*;
use charset_normalizer_rs::entity::{CharsetMatch, CharsetMatches, NormalizerSettings};
use charset_normalizer_rs::verif_hooks as hooks;
use std::panic::{catch_unwind, AssertUnwindSafe};

pub fn coh_str(c: &[(&'static charset_normalizer_rs::entity::Language, f32)]) -> String {
    if c.is_empty() {
        "-".to_string()
    } else {
        c.iter()
            .map(|(l, s)| format!("{:?}:{}", l, fbits(*s)))
            .collect::<Vec<_>>()
            .join(",")
    }
}

pub fn match_line(tag: &str, m: &CharsetMatch) -> String {
    let (th, tl) = match m.decoded_payload() {
        None => ("NONE".to_string(), 0),
        Some(t) => text_hash(t),
    };
    format!(
        "{} {} {} {} {} {} {} {}",
        tag,
        hex(m.encoding().as_bytes()),
        fbits(m.chaos()),
        if m.bom() { 1 } else { 0 },
        coh_str(&hooks::coherence_matches(m)),
        th,
        tl,
        m.submatch().len()
    )
}

pub fn accessor_line(m: &CharsetMatch) -> String {
    let langs = m.languages();
    let ranges = m.unicode_ranges();
    format!(
        "A {} {} {} {} {:?} {} {} {}",
        fbits(m.coherence()),
        fbits(m.multi_byte_usage()),
        fbits(m.chaos_percents()),
        fbits(m.coherence_percents()),
        m.most_probably_language(),
        if langs.is_empty() {
            "-".to_string()
        } else {
            langs.iter().map(|l| format!("{:?}", l)).collect::<Vec<_>>().join(",")
        },
        if ranges.is_empty() {
            "-".to_string()
        } else {
            ranges.iter().map(|r| hex(r.as_bytes())).collect::<Vec<_>>().join("|")
        },
        m.suitable_encodings()
            .iter()
            .map(|s| hex(s.as_bytes()))
            .collect::<Vec<_>>()
            .join(",")
    )
}

pub fn matches_lines(ms: &CharsetMatches) -> Vec<String> {
    let mut out = vec![format!("R OK {}", ms.len())];
    for m in ms.iter() {
        out.push(match_line("M", m));
        out.push(accessor_line(m));
        for s in m.submatch() {
            out.push(match_line("S", s));
        }
    }
    out
}

pub enum Outcome {
    Ok(CharsetMatches),
    Err(String),
    Panic(String),
}

pub fn panic_msg(e: Box<dyn std::any::Any + Send>) -> String {
    if let Some(s) = e.downcast_ref::<&str>() {
        s.to_string()
    } else if let Some(s) = e.downcast_ref::<String>() {
        s.clone()
    } else {
        "panic".to_string()
    }
}

pub fn run_real(bytes: &[u8], s: &NormalizerSettings) -> Outcome {
    match catch_unwind(AssertUnwindSafe(|| {
        charset_normalizer_rs::from_bytes(bytes, Some(s.clone()))
    })) {
        Ok(Ok(m)) => Outcome::Ok(m),
        Ok(Err(e)) => Outcome::Err(e),
        Err(p) => Outcome::Panic(panic_msg(p)),
    }
}

pub fn outcome_lines(o: &Outcome) -> Vec<String> {
    match o {
        Outcome::Ok(ms) => {
            // accessors may panic (C02): catch and report as a distinct line
            match catch_unwind(AssertUnwindSafe(|| matches_lines(ms))) {
                Ok(l) => l,
                Err(p) => vec![format!("R ACCESSOR-PANIC {}", hex(panic_msg(p).as_bytes()))],
            }
        }
        Outcome::Err(e) => vec![format!("R ERR {}", hex(e.as_bytes()))],
        Outcome::Panic(_) => vec!["R PANIC".to_string()],
    }
}
