//! C11 / C12 on the implementation: results do not depend on the call history (cold, warm, evicted
//! caches) nor on concurrent calls.
use crate::gen::*;
use crate::sig::*;
use crate::util::*;
use charset_normalizer_rs::entity::NormalizerSettings;
use charset_normalizer_rs::verif_hooks as hooks;
use ordered_float::OrderedFloat;
use serde_json::json;
use std::sync::{mpsc, Arc, Barrier};

fn pool(rng: &mut Rng, corpus: &Corpus, n: usize) -> Vec<(Vec<u8>, NormalizerSettings)> {
    pool_tagged(rng, corpus, n).into_iter().map(|(b, s, _)| (b, s)).collect()
}

/// the pool with the family of every entry (corpus / midword / symbols / astral)
fn pool_tagged(rng: &mut Rng, corpus: &Corpus, n: usize) -> Vec<(Vec<u8>, NormalizerSettings, &'static str)> {
    // inputs that share decoded chunks, each with settings that differ in one parameter at a time
    let mut base: Vec<Vec<u8>> = vec![];
    let mut tags: Vec<&'static str> = vec![];
    for _ in 0..(n / 6).max(4) {
        tags.push("corpus");
        let t = rng.pick(&corpus.texts);
        let t: String = t.chars().skip(rng.below(200)).take(rng.range(60, 900)).collect();
        let enc = *rng.pick(&["utf-8", "utf-8", "windows-1252", "windows-1251", "koi8-r", "iso-8859-7", "big5", "shift_jis"]);
        let b = encode_text(&t, enc).filter(|b| !b.is_empty()).unwrap_or_else(|| t.as_bytes().to_vec());
        base.push(b);
    }
    // texts whose analysis leaves a detector in the middle of something: a messy prefix of 24..31 / 56..63 / 120..127
    // characters followed by one long word, so that an early exit at the 32nd / 64th / 128th character falls INSIDE
    // a word; and prose in which words carry symbols, digits and accents (every plugin has something to count)
    for k in 0..6 {
        let pre = [24usize, 28, 31, 56, 60, 124][k % 6] + rng.below(3);
        let mut t: String = (0..pre).map(|_| *rng.pick(&['!', '?', ';', '%', '#', '|', '~', '^', '{', '}', '\u{a7}', '\u{b6}'])).collect();
        t.push_str("abcdefghijklmnopqrstuvwxyzabcdefghijklmnopqrstuvwxyz and some more words after it");
        base.push(t.into_bytes());
        tags.push("midword");
    }
    for _ in 0..4 {
        let t = rng.pick(&corpus.texts);
        let mut words: Vec<String> = t.split_whitespace().skip(rng.below(20)).take(rng.range(12, 40)).map(|w| w.to_string()).collect();
        for _ in 0..rng.range(1, 5) {
            if words.is_empty() { break; }
            let i = rng.below(words.len());
            let w: Vec<char> = words[i].chars().collect();
            let cut = rng.below(w.len() + 1);
            let sym = *rng.pick(&['$', '@', '=', '+', '<', '7', '\u{e9}', '_']);
            words[i] = w[..cut].iter().chain(std::iter::once(&sym)).chain(w[cut..].iter()).collect();
        }
        base.push(words.join(" ").into_bytes());
        tags.push("symbols");
    }
    // texts with alphabetic characters of several SUPPLEMENTARY-plane blocks (CJK Extension B, mathematical alphanumerics,
    // Gothic, Deseret, Linear B, emoji) between BMP ideographs and Latin words: whatever the library keeps per character
    // or per block is exercised beyond the BMP as well
    for _ in 0..4 {
        let blocks: [(u32, u32); 7] = [(0x20000, 0x2A6DF), (0x1D400, 0x1D7CB), (0x10330, 0x1034A), (0x10400, 0x1044F), (0x10000, 0x1005D), (0x1F600, 0x1F64F), (0x2F800, 0x2FA1D)];
        let mut t = String::new();
        for w in 0..rng.range(30, 120) {
            let (lo, hi) = blocks[rng.below(blocks.len())];
            for _ in 0..rng.range(1, 6) {
                if let Some(c) = char::from_u32(lo + rng.below((hi - lo + 1) as usize) as u32) { t.push(c); }
            }
            if w % 3 == 0 { t.push_str("\u{4f60}\u{597d}\u{4e16}\u{754c}"); }
            if w % 5 == 0 { t.push_str(" word "); }
            t.push(' ');
        }
        base.push(t.into_bytes());
        tags.push("astral");
    }
    let mut out = vec![];
    // inputs of 25..60 kB analysed as ONE window (chunk_size 65,536): the decoded chunk handed to the memoised heuristics is
    // far larger than anything the default window produces
    for _ in 0..3 {
        let enc = *rng.pick(&["windows-1251", "windows-1252", "iso-8859-7", "utf-8"]);
        let mut b: Vec<u8> = vec![];
        while b.len() < 25_000 + rng.below(30_000) {
            let t = rng.pick(&corpus.texts);
            b.extend_from_slice(&encode_text(t, enc).unwrap_or_else(|| t.as_bytes().to_vec()));
            b.push(b'\n');
        }
        let mut s = default_settings();
        s.chunk_size = 65_536;
        s.steps = *rng.pick(&[1usize, 2, 5]);
        out.push((b.clone(), s.clone(), "bigchunk"));
        s.language_threshold = OrderedFloat(0.2);
        out.push((b.clone(), s.clone(), "bigchunk"));
        let k = b.len() * 2 / 3;
        out.push((b[..k].to_vec(), s, "bigchunk"));
    }
    for (b, tag) in base.iter().zip(tags.iter().copied()) {
        let d = default_settings();
        out.push((b.clone(), d.clone(), tag));
        let mut s = d.clone();
        s.threshold = OrderedFloat(*rng.pick(&[0.05f32, 0.1, 0.3, 0.5, 1.0]));
        out.push((b.clone(), s, tag));
        let mut s = d.clone();
        s.language_threshold = OrderedFloat(*rng.pick(&[0.0f32, 0.2, 0.5, 0.8]));
        out.push((b.clone(), s, tag));
        let mut s = d.clone();
        s.steps = rng.range(1, 9);
        s.chunk_size = rng.range(16, 300);
        out.push((b.clone(), s, tag));
        let mut s = d.clone();
        s.exclude_encodings = vec!["utf-8".into(), "ascii".into()];
        out.push((b.clone(), s, tag));
        // a prefix of the same input: shares its first chunks
        let k = (b.len() / 2).max(1);
        out.push((b[..k].to_vec(), d.clone(), tag));
    }
    out
}

pub fn run_memo(seed: u64, histories: usize, out: &str) -> serde_json::Value {
    let corpus = load_corpus();
    let mut rng = Rng::new(seed);
    let p = pool(&mut rng, &corpus, 60);
    let mut violations = vec![];
    let mut evals = 0u64;
    // cold references
    // each reference is computed on cold caches in a FRESH thread (pristine thread-local state as well), the
    // histories run on this long-lived thread
    let refs: Vec<Vec<String>> = p.iter().map(|(b, s)| {
        hooks::flush_caches();
        let (b, s) = (b.clone(), s.clone());
        std::thread::spawn(move || outcome_lines(&run_real(&b, &s))).join().unwrap_or_else(|_| vec!["R PANIC (reference thread)".to_string()])
    }).collect();
    let nontrivial = refs.iter().filter(|r| r.len() > 1).count() as u64;
    let mut samples = vec![];
    for h in 0..histories {
        hooks::flush_caches();
        let evict = h % 3 == 2;
        let len = rng.range(20, 60);
        let mut hist = vec![];
        for step in 0..len {
            if evict && step == len / 2 {
                // push more than 2048 distinct chunks through the mess / coherence caches
                for k in 0..2300u32 {
                    let t = format!("filler text number {} with some words {}", k, k * 7919);
                    let _ = hooks::mess_ratio(t.clone(), Some(0.2));
                    if k % 2 == 0 {
                        let _ = hooks::coherence_ratio(t, Some(0.1), Some(vec![]));
                    }
                }
            }
            let i = rng.below(p.len());
            hist.push(i);
            evals += 1;
            let got = outcome_lines(&run_real(&p[i].0, &p[i].1));
            if got != refs[i] {
                violations.push(json!({"prop": "C11", "what": format!("call {} of a history returns a result different from the same call on cold caches (pool entry {}, evicted={})", step, i, evict),
                    "known": null, "case": {"history": hist, "bytes_hex": hex(&p[i].0), "settings": settings_json(&p[i].1)}}));
                break;
            }
        }
        if samples.len() < 3 {
            samples.push(json!({"history_of_pool_indices": hist, "with_eviction": evict}));
        }
    }
    // the UNCACHED bodies must be functions of their arguments: a long sequence of calls on this thread (early exits,
    // every plugin exercised) against the value the same call returns in a fresh thread
    {
        let mut texts: Vec<String> = vec![];
        for (b, _) in p.iter() {
            if let Ok(t) = std::str::from_utf8(b) { texts.push(t.chars().take(400).collect()); }
        }
        for _ in 0..30 {
            let t = rng.pick(&corpus.texts);
            texts.push(t.chars().skip(rng.below(300)).take(rng.range(1, 300)).collect());
        }
        let thrs = [0.0f32, 0.05, 0.2, 1.0, 10.0];
        let calls: Vec<(usize, f32)> = (0..400).map(|_| (rng.below(texts.len()), *rng.pick(&thrs))).collect();
        let mut fresh: std::collections::BTreeMap<(usize, u32), (u32, String)> = std::collections::BTreeMap::new();
        for (i, thr) in calls.iter() {
            fresh.entry((*i, thr.to_bits())).or_insert_with(|| {
                let t = texts[*i].clone();
                let thr = *thr;
                std::thread::spawn(move || {
                    let m = fbits(hooks::mess_ratio_no_cache(t.clone(), Some(thr)));
                    let c = match hooks::coherence_ratio_no_cache(t, Some(0.1), Some(vec![])) { Ok(c) => coh_str(&c), Err(_) => "ERR".to_string() };
                    (m, c)
                }).join().unwrap_or((u32::MAX, "PANIC".to_string()))
            });
        }
        for (step, (i, thr)) in calls.iter().enumerate() {
            evals += 1;
            let m = fbits(hooks::mess_ratio_no_cache(texts[*i].clone(), Some(*thr)));
            let c = match hooks::coherence_ratio_no_cache(texts[*i].clone(), Some(0.1), Some(vec![])) { Ok(c) => coh_str(&c), Err(_) => "ERR".to_string() };
            let (fm, fc) = &fresh[&(*i, thr.to_bits())];
            if m != *fm || &c != fc {
                violations.push(json!({"prop": "C11", "what": format!("call {} of a sequence of uncached mess_ratio / coherence_ratio calls differs from the same call in a fresh thread: mess bits {} vs {}, coherence {} vs {} (hidden state survives between calls)", step, m, fm, c, fc),
                    "known": null, "case": {"text_hex": hex(texts[*i].as_bytes()), "threshold": thr, "calls_before": calls[..step].iter().map(|(j, t)| json!([hex(texts[*j].as_bytes()), t])).collect::<Vec<_>>()}}));
                break;
            }
        }
    }
    // eviction at single-insertion granularity: a probe entry, then 2,100 distinct filler entries pushed through the
    // 2048-entry memos ONE AT A TIME, the probe looked up again after every one of them (and a second probe that is
    // never refreshed, looked up once per 64 fillers and at every step of the last 80 before and after its 2048th successor):
    // a hit must be the probe's own value whatever has just been overwritten
    {
        hooks::flush_caches();
        let probe = "This sentence is the probe entry of the memo, it has some w$ird words and symbols {} [] ~ in it.".to_string();
        let probe2 = "A second probe entry that nobody touches for a long while: plain words only, repeated, repeated.".to_string();
        let want = fbits(hooks::mess_ratio_no_cache(probe.clone(), Some(0.2)));
        let want2 = fbits(hooks::mess_ratio_no_cache(probe2.clone(), Some(0.2)));
        let wantc = hooks::coherence_ratio_no_cache(probe.clone(), Some(0.1), Some(vec![])).map(|c| coh_str(&c)).unwrap_or_default();
        let wantc2 = hooks::coherence_ratio_no_cache(probe2.clone(), Some(0.1), Some(vec![])).map(|c| coh_str(&c)).unwrap_or_default();
        let _ = hooks::mess_ratio(probe2.clone(), Some(0.2));
        let _ = hooks::coherence_ratio(probe2.clone(), Some(0.1), Some(vec![]));
        let _ = hooks::mess_ratio(probe.clone(), Some(0.2));
        let _ = hooks::coherence_ratio(probe.clone(), Some(0.1), Some(vec![]));
        'sweep: for k in 0..2200u32 {
            let t = format!("filler entry number {} made of ordinary words and the number {} again", k, k.wrapping_mul(2654435761));
            let _ = hooks::mess_ratio(t.clone(), Some(0.2));
            let _ = hooks::coherence_ratio(t, Some(0.1), Some(vec![]));
            evals += 1;
            let got = fbits(hooks::mess_ratio(probe.clone(), Some(0.2)));
            let gotc = hooks::coherence_ratio(probe.clone(), Some(0.1), Some(vec![])).map(|c| coh_str(&c)).unwrap_or_default();
            if got != want || gotc != wantc {
                violations.push(json!({"prop": "C11", "what": format!("after {} further memo insertions the memoised value of an entry is no longer its own: mess bits {} vs {}, coherence {} vs {}", k + 1, got, want, gotc, wantc),
                    "known": null, "case": {"text_hex": hex(probe.as_bytes()), "insertions_since": k + 1}}));
                break 'sweep;
            }
            if k % 64 == 63 || (1960..2140).contains(&k) {
                let got2 = fbits(hooks::mess_ratio(probe2.clone(), Some(0.2)));
                let gotc2 = hooks::coherence_ratio(probe2.clone(), Some(0.1), Some(vec![])).map(|c| coh_str(&c)).unwrap_or_default();
                if got2 != want2 || gotc2 != wantc2 {
                    violations.push(json!({"prop": "C11", "what": format!("after {} further memo insertions the memoised value of an untouched entry is no longer its own: mess bits {} vs {}, coherence {} vs {}", k + 1, got2, want2, gotc2, wantc2),
                        "known": null, "case": {"text_hex": hex(probe2.as_bytes()), "insertions_since": k + 1}}));
                    break 'sweep;
                }
            }
        }
    }
    // the memoised primitives against their uncached bodies, same text under different thresholds
    for _ in 0..300 {
        let t = rng.pick(&corpus.texts);
        let t: String = t.chars().skip(rng.below(300)).take(rng.range(1, 400)).collect();
        for thr in [0.2f32, 0.05, 0.5, 0.2] {
            evals += 1;
            let a = hooks::mess_ratio(t.clone(), Some(thr));
            let b = hooks::mess_ratio_no_cache(t.clone(), Some(thr));
            if fbits(a) != fbits(b) {
                violations.push(json!({"prop": "C11", "what": format!("memoised mess_ratio differs from its body at threshold {}", thr), "known": null,
                    "case": {"text_hex": hex(t.as_bytes()), "threshold": thr}}));
            }
        }
        for (lthr, inc) in [(0.1f32, vec![]), (0.5, vec![]), (0.1, vec![hooks::language_by_name("Unknown").unwrap()]), (0.1, vec![])] {
            evals += 1;
            let a = hooks::coherence_ratio(t.clone(), Some(lthr), Some(inc.clone()));
            let b = hooks::coherence_ratio_no_cache(t.clone(), Some(lthr), Some(inc.clone()));
            if a.as_ref().ok().map(|x| coh_str(x)) != b.as_ref().ok().map(|x| coh_str(x)) {
                violations.push(json!({"prop": "C11", "what": format!("memoised coherence_ratio differs from its body at language threshold {}", lthr), "known": null,
                    "case": {"text_hex": hex(t.as_bytes()), "threshold": lthr}}));
            }
        }
    }
    // the per-character memo (MessDetectorChar::new, keyed by the character): after classifying a set of characters in
    // one order, every memoised record must equal the record its uncached body computes -- in particular for characters
    // whose code points coincide in their low 16 / 8 bits or differ only in the plane (aliasing keys)
    {
        hooks::flush_caches();
        let mut cps: Vec<u32> = vec![];
        for _ in 0..1500 {
            let base = match rng.below(4) { 0 => 0x20 + rng.below(0x2000) as u32, 1 => 0xac00 + rng.below(0x2ba4) as u32, 2 => 0x4e00 + rng.below(0x5200) as u32, _ => rng.below(0x10000) as u32 };
            for plane in [0u32, 1, 2, 0xe, 0xf, 0x10] {
                cps.push((plane << 16) | (base & 0xffff));
            }
            cps.push(base & 0xff);
        }
        // classify supplementary planes FIRST on even seeds, BMP first on odd ones
        if seed % 2 == 0 { cps.reverse(); }
        let chars: Vec<char> = cps.iter().filter_map(|&c| char::from_u32(c)).collect();
        for &c in &chars { let _ = hooks::mess_char_full(c); }
        for &c in &chars {
            evals += 1;
            let (a, b) = (hooks::mess_char_full(c), hooks::mess_char_no_cache(c));
            if a != b {
                violations.push(json!({"prop": "C11", "what": format!("memoised character record of U+{:04X} differs from its uncached body after other characters were classified: {:?} vs {:?}", c as u32, a, b),
                    "known": null, "case": {"code_point": c as u32, "classified_before": "1500 base code points x planes 0,1,2,14,15,16 and their low bytes"}}));
                if violations.len() > 20 { break; }
            }
        }
        // the per-name memo (encoding_languages): every supported name, twice, in two orders
        let names = supported();
        let first: Vec<String> = names.iter().map(|n| format!("{:?}", hooks::encoding_languages(n.clone()))).collect();
        for (n, f) in names.iter().zip(first.iter()).rev() {
            evals += 1;
            let again = format!("{:?}", hooks::encoding_languages(n.clone()));
            if &again != f {
                violations.push(json!({"prop": "C11", "what": format!("encoding_languages({}) differs between two calls", n), "known": null, "case": {"name": n}}));
            }
        }
    }
    let rep = json!({"level": "memo", "seed": seed, "evaluations": evals, "distinct_nontrivial": nontrivial, "pool": p.len(), "histories": histories,
        "violations": violations, "disagreements": [], "samples": samples});
    std::fs::write(out, serde_json::to_string_pretty(&rep).unwrap()).expect("write");
    rep
}

pub fn run_threads(seed: u64, rounds: usize, out: &str) -> serde_json::Value {
    let corpus = load_corpus();
    let mut rng = Rng::new(seed);
    let tagged = pool_tagged(&mut rng, &corpus, 48);
    let fam: Vec<&'static str> = tagged.iter().map(|x| x.2).collect();
    let p: Arc<Vec<(Vec<u8>, NormalizerSettings)>> = Arc::new(tagged.into_iter().map(|(b, s, _)| (b, s)).collect());
    let refs: Arc<Vec<Vec<String>>> = Arc::new(p.iter().map(|(b, s)| {
        hooks::flush_caches();
        outcome_lines(&run_real(b, s))
    }).collect());
    let nontrivial = refs.iter().filter(|r| r.len() > 1).count() as u64;
    let mut violations = vec![];
    let mut evals = 0u64;
    let mut samples = vec![];
    for r in 0..rounds {
        // cold caches: every thread races on the same missing entries
        if std::panic::catch_unwind(hooks::flush_caches).is_err() {
            violations.push(json!({"prop": "C12", "what": "emptying the memo caches panics after a concurrent round: a lock was left poisoned by a panicking detection", "known": null,
                "case": {"round": r}}));
            break;
        }
        let n = *rng.pick(&[2usize, 3, 8, 16, 64]);
        let identical = r % 3 == 0;
        // every third round: all threads work on DIFFERENT entries of ONE family (astral first), six calls each, so that
        // whatever the library keeps per character / block / word is contended by look-alike inputs
        let family: Option<&'static str> = if r % 3 == 2 { Some(["astral", "bigchunk", "midword", "symbols", "corpus"][(r / 3) % 5]) } else { None };
        let members: Vec<usize> = match family { Some(f) => (0..p.len()).filter(|&i| fam[i] == f).collect(), None => vec![] };
        let n = if family.is_some() { n.max(8) } else { n };
        let first = rng.below(p.len());
        let barrier = Arc::new(Barrier::new(n));
        let (tx, rx) = mpsc::channel();
        let mut plan = vec![];
        for t in 0..n {
            let idxs: Vec<usize> = if !members.is_empty() { (0..6).map(|k| members[(t * 5 + k * 7 + first) % members.len()]).collect() }
                else if identical { vec![first; 3] } else { (0..4).map(|k| (first + t * 3 + k * 5) % p.len()).collect() };
            plan.push(idxs.clone());
            let (p, refs, barrier, tx) = (p.clone(), refs.clone(), barrier.clone(), tx.clone());
            std::thread::spawn(move || {
                barrier.wait();
                let mut bad = vec![];
                for i in idxs {
                    let got = outcome_lines(&run_real(&p[i].0, &p[i].1));
                    if got != refs[i] {
                        bad.push(i);
                    }
                }
                let _ = tx.send((t, bad));
            });
        }
        drop(tx);
        let mut finished = 0;
        let deadline = std::time::Instant::now() + std::time::Duration::from_secs(120);
        while finished < n {
            match rx.recv_timeout(deadline.saturating_duration_since(std::time::Instant::now())) {
                Ok((t, bad)) => {
                    finished += 1;
                    evals += plan[t].len() as u64;
                    for i in bad {
                        violations.push(json!({"prop": "C12", "what": format!("thread {} of {} got a result different from the serial run for pool entry {}", t, n, i),
                            "known": null, "case": {"threads": n, "identical_inputs": identical, "bytes_hex": hex(&p[i].0), "settings": settings_json(&p[i].1)}}));
                    }
                }
                Err(_) => {
                    violations.push(json!({"prop": "C12", "what": format!("only {} of {} concurrent detections completed within 120 s (a thread died or deadlocked)", finished, n),
                        "known": null, "case": {"threads": n, "identical_inputs": identical,
                            "inputs": plan.iter().flatten().collect::<std::collections::BTreeSet<_>>().iter().map(|&&i| json!({"bytes_hex": hex(&p[i].0), "settings": settings_json(&p[i].1)})).collect::<Vec<_>>()}}));
                    break;
                }
            }
        }
        // no poisoned state left: a later serial call still works and agrees
        let i = rng.below(p.len());
        evals += 1;
        if outcome_lines(&run_real(&p[i].0, &p[i].1)) != refs[i] {
            violations.push(json!({"prop": "C12", "what": "a serial call after a concurrent round differs from its reference (poisoned / corrupted state)", "known": null,
                "case": {"bytes_hex": hex(&p[i].0), "settings": settings_json(&p[i].1)}}));
        }
        if samples.len() < 3 {
            samples.push(json!({"threads": n, "identical_inputs": identical, "calls_per_thread": plan[0].len()}));
        }
    }
    let rep = json!({"level": "threads", "seed": seed, "evaluations": evals, "distinct_nontrivial": nontrivial, "rounds": rounds,
        "violations": violations, "disagreements": [], "samples": samples});
    std::fs::write(out, serde_json::to_string_pretty(&rep).unwrap()).expect("write");
    rep
}
