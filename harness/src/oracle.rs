//! The peer of the OCaml driver: starts it, sends cases, answers every oracle query of the
//! extracted model with the REAL primitive of the library, and collects the model's result.
use crate::util::*;
use crate::sig::panic_msg;
use charset_normalizer_rs::entity::{Language, NormalizerSettings};
use charset_normalizer_rs::utils::decode;
use charset_normalizer_rs::verif_hooks as hooks;
use encoding::DecoderTrap;
use std::io::{BufRead, BufReader, Write};
use std::process::{Child, ChildStdin, ChildStdout, Command, Stdio};

pub struct Driver {
    child: Child,
    stdin: ChildStdin,
    stdout: BufReader<ChildStdout>,
    pub queries: u64,
    pub query_kinds: std::collections::BTreeMap<String, u64>,
    /// violated oracle contracts observed while serving (text of the offending call)
    pub contract_violations: Vec<String>,
}

fn parse_langs(s: &str) -> Vec<&'static Language> {
    if s == "-" {
        vec![]
    } else {
        s.split(',')
            .map(|n| hooks::language_by_name(n).unwrap_or_else(|| panic!("unknown language {n}")))
            .collect()
    }
}

fn parse_coh(s: &str) -> Vec<(&'static Language, f32)> {
    if s == "-" {
        vec![]
    } else {
        s.split(',')
            .map(|it| {
                let (l, b) = it.split_once(':').expect("coh item");
                (
                    hooks::language_by_name(l).expect("language"),
                    f32::from_bits(b.parse::<u32>().expect("bits")),
                )
            })
            .collect()
    }
}

impl Driver {
    pub fn start(path: &str) -> Driver {
        // the extracted model recurses over lists as long as the payload: lift the stack limit
        let mut child = Command::new("sh")
            .arg("-c")
            .arg(format!("ulimit -s unlimited 2>/dev/null || ulimit -s 4000000 2>/dev/null; exec {}", path))
            .stdin(Stdio::piped())
            .stdout(Stdio::piped())
            .spawn()
            .unwrap_or_else(|e| panic!("cannot start driver {path}: {e}"));
        let stdin = child.stdin.take().unwrap();
        let stdout = BufReader::with_capacity(1 << 20, child.stdout.take().unwrap());
        Driver {
            child,
            stdin,
            stdout,
            queries: 0,
            query_kinds: Default::default(),
            contract_violations: vec![],
        }
    }

    fn send(&mut self, l: &str) {
        let _ = self.stdin.write_all(l.as_bytes());
        let _ = self.stdin.write_all(b"\n");
    }

    pub fn died(lines: &[String]) -> bool {
        lines.iter().any(|l| l == "R DRIVER-DIED")
    }

    fn answer(&mut self, q: &str) -> String {
        let mut it = q.split(' ');
        let kind = it.next().unwrap();
        self.queries += 1;
        *self.query_kinds.entry(kind.to_string()).or_insert(0) += 1;
        match kind {
            "DEC" | "CDEC" | "TEST" => {
                let enc = String::from_utf8(unhex(it.next().unwrap())).unwrap();
                let b = unhex(it.next().unwrap());
                match kind {
                    "TEST" => {
                        let t = decode(&b, &enc, DecoderTrap::Strict, true, false);
                        // contract TestOK: test-only succeeds exactly when the real decode does
                        let full = decode(&b, &enc, DecoderTrap::Strict, false, false);
                        if t.is_ok() != full.is_ok() || t.as_ref().map(|s| !s.is_empty()).unwrap_or(false) {
                            self.contract_violations
                                .push(format!("TestOK enc={} bytes={}", enc, short(&b, 64)));
                        }
                        if t.is_ok() { "1".into() } else { "0".into() }
                    }
                    _ => {
                        let r = decode(&b, &enc, DecoderTrap::Strict, false, kind == "CDEC");
                        match r {
                            Ok(t) => {
                                if kind == "DEC" && t.chars().count() > b.len() {
                                    self.contract_violations
                                        .push(format!("DecodeLen enc={} bytes={}", enc, short(&b, 64)));
                                }
                                format!("OK {}", hex(t.as_bytes()))
                            }
                            Err(_) => "ERR".into(),
                        }
                    }
                }
            }
            "MESS" => {
                let t = String::from_utf8(unhex(it.next().unwrap())).unwrap();
                let thr = f32::from_bits(it.next().unwrap().parse::<u32>().unwrap());
                let m = hooks::mess_ratio(t.clone(), Some(thr));
                if m.is_nan() || m < 0.0 {
                    self.contract_violations
                        .push(format!("MessOK value={} text={}", m, short(t.as_bytes(), 64)));
                }
                format!("{}", fbits(m))
            }
            "COH" => {
                let t = String::from_utf8(unhex(it.next().unwrap())).unwrap();
                let thr = f32::from_bits(it.next().unwrap().parse::<u32>().unwrap());
                let langs = parse_langs(it.next().unwrap());
                let single = if langs.len() == 1 && format!("{:?}", langs[0]) != "Unknown" { Some(langs[0]) } else { None };
                match hooks::coherence_ratio(t.clone(), Some(thr), Some(langs)) {
                    Ok(c) => {
                        if let Some(l0) = single {
                            if c.iter().any(|(l, _)| *l != l0) {
                                self.contract_violations.push(format!("CohInclude include=[{:?}] answer={} text={}", l0, crate::sig::coh_str(&c), short(t.as_bytes(), 64)));
                            }
                        }
                        for (_, s) in &c {
                            if s.is_nan() || *s < 0.0 || *s > 1.0 {
                                self.contract_violations
                                    .push(format!("CohOK score={} text={}", s, short(t.as_bytes(), 64)));
                            }
                        }
                        format!("OK {}", crate::sig::coh_str(&c))
                    }
                    Err(_) => "ERR".into(),
                }
            }
            "MERGE" => {
                let a = it.next().unwrap();
                let lists: Vec<Vec<(&'static Language, f32)>> =
                    if a == "-" { vec![] } else { a.split(';').map(parse_coh).collect() };
                let m = hooks::merge_coherence_ratios(&lists);
                for i in 0..m.len() {
                    if m[..i].iter().any(|(l, _)| *l == m[i].0) {
                        self.contract_violations.push(format!("MergeNoDup answer={}", crate::sig::coh_str(&m)));
                    }
                    if !lists.iter().any(|l| l.iter().any(|(x, _)| *x == m[i].0)) {
                        self.contract_violations.push(format!("MergeSub answer={}", crate::sig::coh_str(&m)));
                    }
                    let s = m[i].1;
                    if s.is_nan() || s < 0.0 || s > 1.0 {
                        self.contract_violations.push(format!("MergeOK score={}", s));
                    }
                }
                crate::sig::coh_str(&m)
            }
            "SBL" => {
                let enc = String::from_utf8(unhex(it.next().unwrap())).unwrap();
                let l = hooks::encoding_languages(enc);
                if l.is_empty() {
                    "-".into()
                } else {
                    l.iter().map(|x| format!("{:?}", x)).collect::<Vec<_>>().join(",")
                }
            }
            "ISALPHA" => {
                let cp: u32 = it.next().unwrap().parse().unwrap();
                if char::from_u32(cp).map(|c| c.is_alphabetic()).unwrap_or(false) { "1".into() } else { "0".into() }
            }
            "LOWER" => {
                let cp: u32 = it.next().unwrap().parse().unwrap();
                match char::from_u32(cp) {
                    Some(c) => hex(c.to_lowercase().collect::<String>().as_bytes()),
                    None => "-".into(),
                }
            }
            "FLAGS" => {
                let cp: u32 = it.next().unwrap().parse().unwrap();
                match char::from_u32(cp) {
                    Some(c) => format!("{}", hooks::mess_char(c).0),
                    None => "0".into(),
                }
            }
            "RACC" => {
                let cp: u32 = it.next().unwrap().parse().unwrap();
                match char::from_u32(cp) {
                    Some(c) => format!("{}", hooks::remove_accent(c) as u32),
                    None => format!("{}", cp),
                }
            }
            "LAYERS" => {
                let t = String::from_utf8(unhex(it.next().unwrap())).unwrap();
                let l = hooks::alpha_unicode_split(&t);
                if l.is_empty() { "-".into() } else { l.iter().map(|x| hex(x.as_bytes())).collect::<Vec<_>>().join(";") }
            }
            "ALPH" => {
                let t = String::from_utf8(unhex(it.next().unwrap())).unwrap();
                let inl = it.next().unwrap() == "1";
                let chars: Vec<char> = t.chars().collect();
                let l = hooks::alphabet_languages(&chars, inl);
                if l.is_empty() { "-".into() } else { l.iter().map(|x| format!("{:?}", x)).collect::<Vec<_>>().join(",") }
            }
            "POP" => {
                let lang = hooks::language_by_name(it.next().unwrap()).expect("language");
                let t = String::from_utf8(unhex(it.next().unwrap())).unwrap();
                match hooks::characters_popularity_compare(lang, &t) {
                    Ok(r) => {
                        if r.is_nan() || r < 0.0 || r > 1.0 {
                            self.contract_violations.push(format!("CohOK popularity={} lang={:?}", r, lang));
                        }
                        format!("{}", fbits(r))
                    }
                    Err(_) => "ERR".into(),
                }
            }
            "LIB" => {
                let content = unhex(it.next().unwrap());
                let thr = f32::from_bits(it.next().unwrap().parse::<u32>().unwrap());
                let settings = charset_normalizer_rs::entity::NormalizerSettings { threshold: ordered_float::OrderedFloat(thr), ..Default::default() };
                match charset_normalizer_rs::from_bytes(&content, Some(settings)) {
                    Err(e) => format!("ERR {}", hex(e.as_bytes())),
                    Ok(ms) => {
                        fn line(m: &charset_normalizer_rs::entity::CharsetMatch, out: &mut Vec<String>) {
                            out.push(format!("I {} {} {} {} {} {} {}", hex(m.encoding().as_bytes()), fbits(m.chaos()), if m.bom() { 1 } else { 0 },
                                crate::sig::coh_str(&hooks::coherence_matches(m)), hex(m.raw()),
                                match m.decoded_payload() { None => "NONE".to_string(), Some(t) => hex(t.as_bytes()) }, m.submatch().len()));
                            for s in m.submatch() {
                                line(s, out);
                            }
                        }
                        let mut out = vec![format!("OK {}", ms.len())];
                        for m in ms.iter() {
                            line(m, &mut out);
                        }
                        out.join("\n")
                    }
                }
            }
            "DECL" => {
                let b = unhex(it.next().unwrap());
                match hooks::any_specified_encoding(&b, 4096) {
                    None => "NONE".into(),
                    Some(e) => format!("SOME {}", hex(e.as_bytes())),
                }
            }
            _ => panic!("unknown query {q}"),
        }
    }

    /// read lines until END, answering queries; returns the R.. lines (without END)
    fn collect(&mut self, single_line: bool) -> Vec<String> {
        let mut out = vec![];
        loop {
            let mut l = String::new();
            let n = self.stdout.read_line(&mut l).unwrap_or(0);
            if n == 0 {
                out.push("R DRIVER-DIED".to_string());
                return out;
            }
            let l = l.trim_end_matches('\n');
            if let Some(q) = l.strip_prefix("Q ") {
                // a primitive of the library that panics while serving the model is a finding (C02), not a reason to die
                let a = match std::panic::catch_unwind(std::panic::AssertUnwindSafe(|| self.answer(q))) {
                    Ok(a) => a,
                    Err(p) => {
                        self.contract_violations.push(format!("NoPanic: the library primitive behind query `{}` panicked: {}",
                            q.chars().take(160).collect::<String>(), panic_msg(p)));
                        let kind = q.split(' ').next().unwrap_or("");
                        match kind {
                            "TEST" | "MESS" | "FLAGS" | "ISALPHA" => "0".to_string(),
                            "RACC" => q.split(' ').nth(1).unwrap_or("0").to_string(),
                            "MERGE" | "SBL" | "LAYERS" | "ALPH" | "LOWER" => "-".to_string(),
                            _ => "ERR".to_string(),
                        }
                    }
                };
                self.send(&a);
                let _ = self.stdin.flush();
            } else if let Some(v) = l.strip_prefix("V ") {
                // the model found an oracle answer that violates a contract it validates itself (e.g. AlphOK)
                self.contract_violations.push(v.to_string());
            } else if l == "END" {
                return out;
            } else {
                out.push(l.to_string());
                if single_line {
                    return out;
                }
            }
        }
    }

    pub fn detect(&mut self, bytes: &[u8], s: &NormalizerSettings) -> Vec<String> {
        self.detect_cmd("DETECT", bytes, s)
    }

    /// the end-to-end model: mess, coherence, layers, Jaro and merge computed by the models too
    pub fn detect_full(&mut self, bytes: &[u8], s: &NormalizerSettings) -> Vec<String> {
        self.detect_cmd("DETECTFULL", bytes, s)
    }

    fn detect_cmd(&mut self, cmd: &str, bytes: &[u8], s: &NormalizerSettings) -> Vec<String> {
        self.send(&format!(
            "{} {} {} {} {} {} {} {} {}",
            cmd,
            s.steps,
            s.chunk_size,
            fbits(s.threshold.0),
            fbits(s.language_threshold.0),
            if s.preemptive_behaviour { 1 } else { 0 },
            if s.enable_fallback { 1 } else { 0 },
            s.include_encodings.len(),
            s.exclude_encodings.len()
        ));
        for x in s.include_encodings.iter().chain(s.exclude_encodings.iter()) {
            self.send(&format!("S {}", hex(x.as_bytes())));
        }
        self.send(&format!("B {}", hex(bytes)));
        let _ = self.stdin.flush();
        self.collect(false)
    }

    pub fn cmp_keys(&mut self, a: [u32; 3], b: [u32; 3]) -> String {
        self.send(&format!("CMP {} {} {} {} {} {}", a[0], a[1], a[2], b[0], b[1], b[2]));
        let _ = self.stdin.flush();
        self.collect(true).pop().unwrap_or_default()
    }

    pub fn name(&mut self, s: &str) -> Option<String> {
        self.send(&format!("NAME {}", hex(s.as_bytes())));
        let _ = self.stdin.flush();
        let l = self.collect(true).pop().unwrap_or_default();
        match l.strip_prefix("R ") {
            Some("NONE") => None,
            Some(h) => Some(String::from_utf8(unhex(h)).unwrap()),
            None => panic!("bad NAME answer {l}"),
        }
    }

    pub fn coherence_model(&mut self, t: &str, thr: f32, langs: &str) -> String {
        self.send(&format!("COHR {} {} {}", hex(t.as_bytes()), fbits(thr), langs));
        let _ = self.stdin.flush();
        self.collect(false).pop().unwrap_or_default()
    }

    pub fn merge_model(&mut self, lists: &str) -> String {
        self.send(&format!("MERGEM {}", lists));
        let _ = self.stdin.flush();
        self.collect(true).pop().unwrap_or_default()
    }

    pub fn filter_alt_model(&mut self, c: &str) -> String {
        self.send(&format!("FALT {}", c));
        let _ = self.stdin.flush();
        self.collect(true).pop().unwrap_or_default()
    }

    /// Model/Layers.alpha_unicode_split on a text: the layers, in order
    pub fn layers_model(&mut self, t: &str) -> String {
        self.send(&format!("LAYM {}", hex(t.as_bytes())));
        let _ = self.stdin.flush();
        self.collect(false).pop().unwrap_or_default()
    }

    /// read up to the END marker of a multi-line answer whose first line was already taken
    pub fn decode_model_drain(&mut self) -> Vec<String> {
        self.collect(false)
    }

    pub fn decode_model(&mut self, cmd: &str) -> String {
        self.send(cmd);
        let _ = self.stdin.flush();
        self.collect(true).pop().unwrap_or_default()
    }

    /// the CLI model: flags, the files of the scratch directory, the input paths; returns the model's lines
    pub fn cli_model(&mut self, flags: &str, files: &[(String, Option<Vec<u8>>)], inputs: &[String]) -> Vec<String> {
        self.send(&format!("CLI {} {} {}", flags, files.len(), inputs.len()));
        for (p, c) in files {
            match c {
                Some(b) => self.send(&format!("P {} R {}", hex(p.as_bytes()), hex(b))),
                None => self.send(&format!("P {} D -", hex(p.as_bytes()))),
            }
        }
        for p in inputs {
            self.send(&format!("F {}", hex(p.as_bytes())));
        }
        let _ = self.stdin.flush();
        self.collect(false)
    }

    pub fn declared(&mut self, b: &[u8]) -> Option<String> {
        self.send(&format!("DECL {}", hex(b)));
        let _ = self.stdin.flush();
        let l = self.collect(true).pop().unwrap_or_default();
        match l.strip_prefix("R ") {
            Some("NONE") => None,
            Some(h) => Some(String::from_utf8(unhex(h)).unwrap()),
            None => panic!("bad DECL answer {l}"),
        }
    }

    /// items: (encoding, chaos bits, bom, coherence, payload, text)
    pub fn container(
        &mut self,
        mode: &str,
        items: &[(String, u32, bool, String, Vec<u8>, Option<String>)],
    ) -> Vec<String> {
        self.send(&format!("CONT {} {}", mode, items.len()));
        for (e, c, b, coh, p, t) in items {
            self.send(&format!(
                "I {} {} {} {} {} {}",
                hex(e.as_bytes()),
                c,
                if *b { 1 } else { 0 },
                coh,
                hex(p),
                match t {
                    None => "NONE".to_string(),
                    Some(t) => hex(t.as_bytes()),
                }
            ));
        }
        let _ = self.stdin.flush();
        self.collect(false)
    }
}

impl Drop for Driver {
    fn drop(&mut self) {
        let _ = self.stdin.write_all(b"QUIT\n");
        let _ = self.stdin.flush();
        let _ = self.child.wait();
    }
}
