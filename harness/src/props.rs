//! Implementation-side checkers of the property statements themselves (the "search" of each
//! property): independent oracles over REAL results.  Each returns human-readable violation
//! descriptions; an empty vector means the property held on this case.
use crate::gen::*;
use crate::sig::*;
use crate::util::*;
use charset_normalizer_rs::entity::{CharsetMatch, CharsetMatches, NormalizerSettings};
use charset_normalizer_rs::utils::{decode, iana_name, is_multi_byte_encoding};
use charset_normalizer_rs::verif_hooks as hooks;
use encoding::label::encoding_from_whatwg_label;
use encoding::DecoderTrap;

pub fn strip_mark<'a>(bytes: &'a [u8], enc: &str) -> &'a [u8] {
    for (e, m) in marks() {
        if e == enc && bytes.starts_with(m) {
            return &bytes[m.len()..];
        }
    }
    bytes
}

/// Replica of the chunk walk for the `ascii` candidate only (windows-1252 is one char per byte):
/// the byte ranges whose `is_ascii` was actually tested before the candidate was reported.
/// Used ONLY to decide whether an unsound `ascii` report belongs to the known class D1.
pub fn ascii_examined(bytes: &[u8], s: &NormalizerSettings) -> Vec<(usize, usize)> {
    let n = bytes.len();
    let too_big = charset_normalizer_rs::consts::TOO_BIG_SEQUENCE;
    let maxp = hooks::max_processed_bytes();
    let (mut steps, mut chunk) = (s.steps, s.chunk_size);
    if n <= chunk.saturating_mul(steps) {
        steps = 1;
        chunk = n;
    }
    if steps > 1 && n / steps < chunk {
        chunk = n / steps;
    }
    if steps == 0 {
        return vec![];
    }
    let lazy = n > too_big;
    let max_gave_up = 2.max(steps / 4);
    let mut early = 0usize;
    let mut out = vec![];
    let mut hard = false;
    let step = (n / steps).max(1);
    let mut off = 0usize;
    while off < n {
        let end = (off + chunk).min(n);
        out.push((off, end));
        let w = &bytes[off..end];
        if !w.is_ascii() {
            hard = true;
            break;
        }
        let t: String = w.iter().map(|b| *b as char).collect();
        let m = hooks::mess_ratio(t, Some(s.threshold.0));
        if m >= s.threshold.0 {
            early += 1;
        }
        if early >= max_gave_up {
            break;
        }
        off += step;
    }
    if lazy && !hard {
        out.push((maxp, n));
    }
    out
}

pub struct Found {
    pub prop: &'static str,
    pub what: String,
    pub known: Option<&'static str>,
}

fn v(prop: &'static str, what: String) -> Found {
    Found { prop, what, known: None }
}

pub fn all_candidates(ms: &CharsetMatches) -> Vec<(usize, String)> {
    let mut out = vec![];
    for (i, m) in ms.iter().enumerate() {
        for e in m.suitable_encodings() {
            out.push((i, e));
        }
    }
    out
}

/// C01: every reported candidate really decodes the input
pub fn check_c01(bytes: &[u8], s: &NormalizerSettings, ms: &CharsetMatches) -> Vec<Found> {
    let mut out = vec![];
    if bytes.is_empty() {
        return out;
    }
    for m in ms.iter() {
        if m.raw() != bytes {
            out.push(v("C01", format!("raw() differs from the input for {}", m.encoding())));
        }
        let text = m.decoded_payload();
        for e in m.suitable_encodings() {
            let stripped = strip_mark(bytes, &e);
            let reference = encoding_from_whatwg_label(&e).map(|c| c.decode(stripped, DecoderTrap::Strict));
            match reference {
                Some(Ok(t)) => {
                    if Some(t.as_str()) != text {
                        out.push(v(
                            "C01",
                            format!("candidate {} of match {}: strict decode differs from the exposed text", e, m.encoding()),
                        ));
                    }
                }
                Some(Err(err)) => out.push(v(
                    "C01",
                    format!("candidate {} of match {}: strict decode fails ({})", e, m.encoding(), err),
                )),
                None => out.push(v("C01", format!("candidate {} has no codec", e))),
            }
            if e == "ascii" && !bytes.is_ascii() {
                let ex = ascii_examined(bytes, s);
                let inside = bytes
                    .iter()
                    .enumerate()
                    .any(|(i, b)| *b >= 0x80 && ex.iter().any(|(a, z)| *a <= i && i < *z));
                let pos = bytes.iter().position(|b| *b >= 0x80).unwrap();
                let mut f = v(
                    "C01",
                    format!("'ascii' reported (match {}) but byte {} at offset {} is >= 0x80", m.encoding(), bytes[pos], pos),
                );
                if !inside {
                    f.known = Some("D1-ascii-gap");
                }
                out.push(f);
            }
        }
    }
    out
}

/// C18: every reported name is canonical, usable (include list, lookup by name) and names the codec detection used:
/// the PUBLIC decode helper given that name reproduces the match's text; its alias list is available
pub fn check_c18(bytes: &[u8], s: &NormalizerSettings, ms: &CharsetMatches, deep: bool) -> Vec<Found> {
    let mut out = vec![];
    if bytes.is_empty() {
        return out;
    }
    for m in ms.iter() {
        let text = m.decoded_payload();
        for e in m.suitable_encodings() {
            match catch(|| iana_name(&e).map(|x| x.to_string())) {
                Some(Some(c)) if c == e => {}
                other => out.push(v("C18", format!("reported name {} does not canonicalise to itself: {:?}", e, other))),
            }
            match catch(|| ms.get_by_encoding(&e).map(|x| x.encoding().to_string())) {
                Some(Some(_)) => {}
                other => out.push(v("C18", format!("lookup by the reported name {} finds nothing: {:?}", e, other))),
            }
            if catch(|| m.encoding_aliases().len()).is_none() {
                out.push(v("C18", format!("alias list of {} panics", m.encoding())));
            }
            // the helper, given the reported name, on the input minus that encoding's own mark
            let stripped = strip_mark(bytes, &e);
            match catch(|| decode(stripped, &e, DecoderTrap::Strict, false, false)) {
                Some(Ok(t)) => {
                    if Some(t.as_str()) != text {
                        out.push(v("C18", format!("decode(input, {:?}) does not reproduce the text of match {} (lengths {} vs {:?})", e, m.encoding(), t.len(), text.map(|x| x.len()))));
                    }
                }
                Some(Err(err)) => out.push(v("C18", format!("decode(input, {:?}) fails for a reported name of match {}: {}", e, m.encoding(), err))),
                None => out.push(v("C18", format!("decode(input, {:?}) panics", e))),
            }
            // accepted back by the include list: a run restricted to that name does not return the unknown-name error
            if deep {
                let mut r = s.clone();
                r.include_encodings = vec![e.clone()];
                r.exclude_encodings = vec![];
                match run_real(bytes, &r) {
                    Outcome::Err(msg) => out.push(v("C18", format!("reported name {} is rejected by the include list: {}", e, msg))),
                    // ... and accepted back AS THAT NAME: a run that includes only it reports nothing else (C05_membership),
                    Outcome::Ok(res) => {
                        for x in res.iter() {
                            for n in x.suitable_encodings() {
                                if n != e {
                                    out.push(v("C18", format!("include list holding only the reported name {} yields {} (the name is taken for another encoding)", e, n)));
                                }
                            }
                        }
                    }
                    Outcome::Panic(_) => {}
                }
                // a run that excludes only it never reports it
                let mut x = s.clone();
                x.include_encodings = vec![];
                x.exclude_encodings = vec![e.clone()];
                if let Outcome::Ok(res) = run_real(bytes, &x) {
                    if res.iter().any(|y| y.suitable_encodings().iter().any(|n| *n == e)) {
                        out.push(v("C18", format!("exclude list holding only the reported name {} still yields it", e)));
                    }
                }
            }
        }
    }
    out
}

fn catch<T>(f: impl FnOnce() -> T) -> Option<T> {
    std::panic::catch_unwind(std::panic::AssertUnwindSafe(f)).ok()
}

fn is_fallback_shape(bytes: &[u8], s: &NormalizerSettings, ms: &CharsetMatches) -> bool {
    if ms.len() != 1 || !s.enable_fallback {
        return false;
    }
    let m = &ms[0];
    if m.chaos().to_bits() != s.threshold.0.to_bits() && !(m.chaos() == s.threshold.0) {
        return false;
    }
    let mut allowed: Vec<String> = vec!["ascii".into(), "utf-8".into()];
    if s.preemptive_behaviour {
        if let Some(d) = hooks::any_specified_encoding(bytes, 4096) {
            allowed.push(d);
        }
    }
    if let (Some(e), _) = sig_of(bytes) {
        allowed.push(e);
    }
    allowed.contains(&m.encoding().to_string()) && !m.has_submatch()
}

/// C04: chaos threshold honoured; fall-back only as a singleton; coherence in [0,1]; percents
pub fn check_c04(bytes: &[u8], s: &NormalizerSettings, ms: &CharsetMatches) -> Vec<Found> {
    let mut out = vec![];
    if bytes.is_empty() {
        return out;
    }
    let thr = s.threshold.0;
    let fb = is_fallback_shape(bytes, s, ms);
    for m in ms.iter() {
        let c = m.chaos();
        if !(c.is_finite() && c >= 0.0 && c < thr) && !fb {
            out.push(v("C04", format!("match {} has chaos {} with threshold {} and is not a lone fall-back", m.encoding(), c, thr)));
        }
        let h = m.coherence();
        if !(h >= 0.0 && h <= 1.0) {
            out.push(v("C04", format!("match {} has coherence {}", m.encoding(), h)));
        }
        if m.chaos_percents().to_bits() != (c * 100.0).to_bits() && !c.is_nan() {
            out.push(v("C04", format!("chaos_percents of {} is not 100*chaos", m.encoding())));
        }
        if m.coherence_percents().to_bits() != (h * 100.0).to_bits() && !h.is_nan() {
            out.push(v("C04", format!("coherence_percents of {} is not 100*coherence", m.encoding())));
        }
    }
    if s.enable_fallback
        && s.include_encodings.is_empty()
        && s.exclude_encodings.is_empty()
        && std::str::from_utf8(strip_mark(bytes, "utf-8")).is_ok()
        && std::str::from_utf8(bytes).is_ok()
        && ms.is_empty()
    {
        out.push(v("C04", "valid UTF-8 input with fall-back on and no filters produced no match".into()));
    }
    out
}

/// C05 (membership part): reported names obey include / exclude
pub fn check_c05_membership(s: &NormalizerSettings, ms: &CharsetMatches) -> Vec<Found> {
    let mut out = vec![];
    let inc: Vec<String> = s.include_encodings.iter().filter_map(|x| iana_name(x).map(|y| y.to_string())).collect();
    let exc: Vec<String> = s.exclude_encodings.iter().filter_map(|x| iana_name(x).map(|y| y.to_string())).collect();
    for (_, e) in all_candidates(ms) {
        if !s.include_encodings.is_empty() && !inc.contains(&e) {
            out.push(v("C05", format!("candidate {} is not in the include list {:?}", e, s.include_encodings)));
        }
        if exc.contains(&e) {
            out.push(v("C05", format!("candidate {} is in the exclude list {:?}", e, s.exclude_encodings)));
        }
    }
    out
}

/// C05 (twin part): the same call with every filter entry replaced by its canonical name
pub fn check_c05_twin(bytes: &[u8], s: &NormalizerSettings, real_lines: &[String]) -> Vec<Found> {
    let mut out = vec![];
    if s.include_encodings.is_empty() && s.exclude_encodings.is_empty() {
        return out;
    }
    let canon = |l: &Vec<String>| -> Option<Vec<String>> { l.iter().map(|x| iana_name(x).map(|y| y.to_string())).collect() };
    if let (Some(i), Some(e)) = (canon(&s.include_encodings), canon(&s.exclude_encodings)) {
        if i.iter().chain(e.iter()).any(|x| x == "replacement") {
            return out;
        }
        let mut t = s.clone();
        t.include_encodings = i;
        t.exclude_encodings = e;
        let twin = outcome_lines(&run_real(bytes, &t));
        if twin != real_lines {
            out.push(v("C05", format!("result changes when the filter entries {:?}/{:?} are replaced by their canonical names", s.include_encodings, s.exclude_encodings)));
        }
    }
    out
}

/// C07: BOM flag truthful; UTF-16 only with its BOM
pub fn check_c07(bytes: &[u8], s: &NormalizerSettings, ms: &CharsetMatches) -> Vec<Found> {
    let mut out = vec![];
    if bytes.is_empty() {
        return out;
    }
    let sig = sig_of(bytes);
    let fb = is_fallback_shape(bytes, s, ms);
    for m in ms.iter() {
        let e = m.encoding();
        if m.bom() {
            match &sig {
                (Some(se), Some(mark)) if se == e => {
                    // text must be the decode of the bytes after the mark
                    let body = &bytes[mark.len()..];
                    let r = encoding_from_whatwg_label(e).map(|c| c.decode(body, DecoderTrap::Strict));
                    if let Some(Ok(t)) = r {
                        if Some(t.as_str()) != m.decoded_payload() {
                            out.push(v("C07", format!("{}: BOM flag set but the text does not start after the mark", e)));
                        }
                    } else {
                        out.push(v("C07", format!("{}: BOM flag set but the bytes after the mark do not decode", e)));
                    }
                }
                _ => out.push(v("C07", format!("{} reports a BOM but the input does not start with its mark", e))),
            }
        } else if let (Some(se), _) = &sig {
            if se == e && !fb {
                out.push(v("C07", format!("input starts with the mark of {} but its regular match has the flag off", e)));
            }
        }
        for c in m.suitable_encodings() {
            if (c == "utf-16le" || c == "utf-16be") && sig.0.as_deref() != Some(c.as_str()) {
                out.push(v("C07", format!("{} reported without its BOM", c)));
            }
        }
    }
    out
}

fn same_f(a: f32, b: f32) -> bool {
    fbits(a) == fbits(b)
}

pub fn entry_of<'a>(ms: &'a CharsetMatches, enc: &str) -> Option<&'a CharsetMatch> {
    for m in ms.iter() {
        if m.encoding() == enc {
            return Some(m);
        }
        for sm in m.submatch() {
            if sm.encoding() == enc {
                return Some(sm);
            }
        }
    }
    None
}

/// C10: partition, merge rule, language and range coherence, lookup by any name / label
pub fn check_c10(bytes: &[u8], _s: &NormalizerSettings, ms: &CharsetMatches) -> Vec<Found> {
    let mut out = vec![];
    if bytes.len() > charset_normalizer_rs::consts::TOO_BIG_SEQUENCE || bytes.is_empty() {
        return out;
    }
    let cands = all_candidates(ms);
    for i in 0..cands.len() {
        for j in i + 1..cands.len() {
            if cands[i].1 == cands[j].1 {
                out.push(v("C10", format!("encoding {} occurs twice", cands[i].1)));
            }
        }
    }
    let items: Vec<&CharsetMatch> = ms.iter().collect();
    for i in 0..items.len() {
        for sm in items[i].submatch() {
            if sm.decoded_payload() != items[i].decoded_payload() || !same_f(sm.chaos(), items[i].chaos()) {
                out.push(v("C10", format!("{} shares a match with {} but text or chaos differ", sm.encoding(), items[i].encoding())));
            }
        }
        for j in i + 1..items.len() {
            if items[i].decoded_payload() == items[j].decoded_payload() && same_f(items[i].chaos(), items[j].chaos()) {
                out.push(v("C10", format!("matches {} and {} carry identical text and chaos", items[i].encoding(), items[j].encoding())));
            }
        }
    }
    for m in ms.iter() {
        let langs = m.languages();
        for i in 0..langs.len() {
            for j in i + 1..langs.len() {
                if langs[i] == langs[j] {
                    out.push(v("C10", format!("{}: language {:?} repeated", m.encoding(), langs[i])));
                }
            }
        }
        let tied = tied_language(m.encoding());
        if let Some(t) = tied.as_ref() {
            if langs.iter().any(|l| l != t) {
                out.push(v("C10", format!("{} is tied to {:?} but lists {:?}", m.encoding(), t, langs)));
            }
        }
        out.extend(check_mpl_one(m));
        // unicode ranges: sorted, duplicate free, union of the per-character ranges
        let ranges = m.unicode_ranges();
        let mut exp: Vec<String> = vec![];
        for ch in m.decoded_payload().unwrap_or_default().chars() {
            if let Some(r) = hooks::unicode_range(ch) {
                if !exp.iter().any(|x| x == r) {
                    exp.push(r.to_string());
                }
            }
        }
        exp.sort();
        if ranges != exp {
            out.push(v("C10", format!("{}: unicode_ranges {:?} differ from the per-character union {:?}", m.encoding(), ranges, exp)));
        }
    }
    // lookup by every candidate name and by labels that canonicalise to it
    for (i, e) in &cands {
        match ms.get_by_encoding(e) {
            Some(found) if std::ptr::eq(found, &ms[*i]) => {}
            _ => out.push(v("C10", format!("get_by_encoding({}) does not return its match", e))),
        }
        for lab in LABEL_POOL {
            if iana_name(lab) == Some(e.as_str()) {
                match ms.get_by_encoding(lab) {
                    Some(found) if std::ptr::eq(found, &ms[*i]) => {}
                    _ => out.push(v("C10", format!("get_by_encoding({:?}) does not return the match of {}", lab, e))),
                }
            }
        }
    }
    out
}

/// byte-order marks / signatures as C07 names them (UTF-8, UTF-16LE/BE, GB18030) -- the properties' own list, not the
/// library's table (the marks are pairwise non-prefix, so the order does not matter)
pub fn sig_of(bytes: &[u8]) -> (Option<String>, Option<&'static [u8]>) {
    const MARKS: [(&str, &[u8]); 4] = [("utf-8", b"\xef\xbb\xbf"), ("gb18030", b"\x84\x31\x95\x33"), ("utf-16le", b"\xff\xfe"), ("utf-16be", b"\xfe\xff")];
    for (e, m) in MARKS {
        if bytes.starts_with(m) {
            return (Some(e.to_string()), Some(m));
        }
    }
    (None, None)
}

/// the encodings the property ties to one language -- the property's own list, NOT the library's table
pub fn tied_language(enc: &str) -> Option<&'static charset_normalizer_rs::entity::Language> {
    let name = match enc {
        "euc-kr" => "Korean",
        "big5" | "gbk" | "gb18030" => "Chinese",
        "euc-jp" | "shift_jis" | "iso-2022-jp" => "Japanese",
        _ => return None,
    };
    hooks::language_by_name(name)
}

/// C10, most probable language of one match, by the cases the property states
pub fn check_mpl_one(m: &CharsetMatch) -> Vec<Found> {
    let mut out = vec![];
    let langs = m.languages();
    let tied = tied_language(m.encoding());
    let mpl = m.most_probably_language();
    let expect = if let Some(l) = langs.first() {
        *l
    } else if m.suitable_encodings().contains(&"ascii".to_string()) {
        &charset_normalizer_rs::entity::Language::English
    } else if let Some(t) = tied {
        t
    } else if is_multi_byte_encoding(m.encoding()) {
        &charset_normalizer_rs::entity::Language::Unknown
    } else {
        hooks::encoding_languages(m.encoding().to_string())
        .first()
        .copied()
        .unwrap_or(&charset_normalizer_rs::entity::Language::Unknown)
    };
    if mpl != expect {
        out.push(v("C10", format!("{}: most probable language {:?}, expected {:?}", m.encoding(), mpl, expect)));
    }
    out
}

pub fn check_mpl(ms: &CharsetMatches) -> Vec<Found> {
    ms.iter().flat_map(|m| check_mpl_one(m)).collect()
}

/// C08 on a real container: get_best is the first element; a dominant match is first,
/// a dominated one last (independent restatement of the pairwise rule)
pub fn prefers(a: &CharsetMatch, b: &CharsetMatch) -> bool {
    let (ca, cb) = (a.chaos(), b.chaos());
    let (ha, hb) = (a.coherence(), b.coherence());
    let (ua, ub) = (a.multi_byte_usage(), b.multi_byte_usage());
    // total order with NaN greatest
    let lt = |x: f32, y: f32| -> bool { !(x.is_nan() || x >= y) };
    if (ca - cb).abs() < 0.01 {
        if (ha - hb).abs() > 0.02 {
            return lt(hb, ha);
        }
        if (ua - ub).abs() > f32::EPSILON {
            return lt(ub, ua);
        }
    }
    lt(ca, cb)
}

pub fn check_c08(ms: &CharsetMatches) -> Vec<Found> {
    let mut out = vec![];
    let items: Vec<&CharsetMatch> = ms.iter().collect();
    match (ms.get_best(), items.first()) {
        (Some(b), Some(f)) if std::ptr::eq(b, *f) => {}
        (None, None) => {}
        _ => out.push(v("C08", "get_best() is not the first element".into())),
    }
    let n = items.len();
    for d in 0..n {
        let dominant = (0..n).all(|x| x == d || (prefers(items[d], items[x]) && !prefers(items[x], items[d])));
        if dominant && d != 0 && n > 1 {
            out.push(v("C08", format!("{} is preferred to every other match but sits at position {}", items[d].encoding(), d)));
        }
        let dominated = (0..n).all(|x| x == d || (prefers(items[x], items[d]) && !prefers(items[d], items[x])));
        if dominated && d != n - 1 && n > 1 {
            out.push(v("C08", format!("every match is preferred to {} but it sits at position {} of {}", items[d].encoding(), d, n)));
        }
    }
    out
}

pub fn restricted(s: &NormalizerSettings, enc: &str) -> NormalizerSettings {
    let mut r = s.clone();
    r.include_encodings = vec![enc.to_string()];
    r.exclude_encodings = vec![];
    r
}

/// C09 forward: every reported encoding gives the same verdict when probed alone
pub fn check_c09_forward(bytes: &[u8], s: &NormalizerSettings, ms: &CharsetMatches) -> Vec<Found> {
    let mut out = vec![];
    for (_, e) in all_candidates(ms) {
        let full = entry_of(ms, &e).unwrap();
        match run_real(bytes, &restricted(s, &e)) {
            Outcome::Ok(r) => {
                if r.len() != 1 || r[0].encoding() != e {
                    out.push(v("C09", format!("restricted run for {} returned {} matches", e, r.len())));
                    continue;
                }
                let a = &r[0];
                if !same_f(a.chaos(), full.chaos())
                    || hooks::coherence_matches(a) != hooks::coherence_matches(full)
                    || a.bom() != full.bom()
                    || a.decoded_payload() != full.decoded_payload()
                {
                    out.push(v(
                        "C09",
                        format!(
                            "{}: restricted run differs (chaos {} vs {}, coh {:?} vs {:?}, bom {} vs {})",
                            e,
                            a.chaos(),
                            full.chaos(),
                            hooks::coherence_matches(a),
                            hooks::coherence_matches(full),
                            a.bom(),
                            full.bom()
                        ),
                    ));
                }
            }
            _ => out.push(v("C09", format!("restricted run for {} failed", e))),
        }
    }
    out
}

/// stand-alone verdict of one encoding from the real library: accepted match, soft, hard
pub enum Alone {
    Accept(f32),
    Soft,
    Hard,
    NotProbed,
}

pub fn alone(bytes: &[u8], s: &NormalizerSettings, enc: &str) -> Alone {
    let sig = sig_of(bytes);
    if (enc == "utf-16le" || enc == "utf-16be") && sig.0.as_deref() != Some(enc) {
        return Alone::NotProbed;
    }
    let mut r = restricted(s, enc);
    r.enable_fallback = false;
    match run_real(bytes, &r) {
        Outcome::Ok(ms) if ms.len() == 1 => Alone::Accept(ms[0].chaos()),
        Outcome::Ok(_) => {
            // distinguish hard from soft: a hard failure is a strict decode failure (non-lazy) or
            // an `ascii` candidate with a non-ASCII byte in an examined window
            let body = if sig.0.as_deref() == Some(enc) { &bytes[sig.1.unwrap().len()..] } else { bytes };
            if decode(body, enc, DecoderTrap::Strict, true, false).is_err() {
                return Alone::Hard;
            }
            if enc == "ascii" {
                let ex = ascii_examined(bytes, s);
                if bytes.iter().enumerate().any(|(i, b)| *b >= 0x80 && ex.iter().any(|(a, z)| *a <= i && i < *z)) {
                    return Alone::Hard;
                }
            }
            Alone::Soft
        }
        _ => Alone::NotProbed,
    }
}

/// the probing order of the real library, rebuilt from its public pieces
pub fn probing_order(bytes: &[u8], s: &NormalizerSettings) -> (Vec<String>, Vec<String>) {
    let mut prio: Vec<String> = vec![];
    if s.preemptive_behaviour {
        if let Some(d) = hooks::any_specified_encoding(bytes, 4096) {
            prio.push(d);
        }
    }
    if let (Some(e), _) = sig_of(bytes) {
        prio.push(e);
    }
    prio.push("ascii".into());
    prio.push("utf-8".into());
    let mut order = supported();
    for pe in prio.iter().rev() {
        if let Some(i) = order.iter().position(|x| x == pe) {
            let v = order.remove(i);
            order.insert(0, v);
        }
    }
    (prio, order)
}

/// the expected soft-failure list, accepted list and early-exit candidate, rebuilt from stand-alone
/// verdicts of the real library, the hint rule and the similarity bookkeeping as the property states it
pub fn reconstruct(bytes: &[u8], s: &NormalizerSettings) -> (Vec<String>, Vec<String>, Option<String>) {
    let inc: Vec<String> = s.include_encodings.iter().filter_map(|x| iana_name(x).map(|y| y.to_string())).collect();
    let exc: Vec<String> = s.exclude_encodings.iter().filter_map(|x| iana_name(x).map(|y| y.to_string())).collect();
    let (prio, order) = probing_order(bytes, s);
    let sig = sig_of(bytes).0;
    let mut soft: Vec<String> = vec![];
    let mut accepted: Vec<String> = vec![];
    let mut exit_on: Option<String> = None;
    for e in &order {
        if (!inc.is_empty() && !inc.contains(e)) || exc.contains(e) {
            continue;
        }
        match alone(bytes, s, e) {
            Alone::NotProbed | Alone::Hard => continue,
            Alone::Soft => {
                if soft.iter().any(|sf| hooks::is_cp_similar(e, sf)) {
                    continue;
                }
                soft.push(e.clone());
            }
            Alone::Accept(chaos) => {
                if soft.iter().any(|sf| hooks::is_cp_similar(e, sf)) {
                    continue;
                }
                accepted.push(e.clone());
                if (chaos < 0.1 && prio.contains(e)) || sig.as_deref() == Some(e.as_str()) {
                    exit_on = Some(e.clone());
                    break;
                }
            }
        }
    }
    (soft, accepted, exit_on)
}

/// C06 + C09 converse, non-lazy inputs: rebuild the expected set of reported encodings from
/// stand-alone verdicts, the hint rule and the similarity bookkeeping, and compare.
pub fn check_c06_c09(bytes: &[u8], s: &NormalizerSettings, ms: &CharsetMatches) -> Vec<Found> {
    let mut out = vec![];
    if bytes.is_empty() || bytes.len() > charset_normalizer_rs::consts::TOO_BIG_SEQUENCE {
        return out;
    }
    let (_soft, accepted, exit_on) = reconstruct(bytes, s);
    let reported: Vec<String> = all_candidates(ms).into_iter().map(|x| x.1).collect();
    let is_fb = is_fallback_shape(bytes, s, ms) && accepted.is_empty();
    match &exit_on {
        Some(h) => {
            if ms.len() != 1 || !ms[0].suitable_encodings().contains(h) {
                out.push(v("C06", format!("hint {} qualifies (accepted alone, first in order) but the result is {:?}", h, reported)));
            } else {
                // everything in the single match must have been accepted before the exit
                for e in &reported {
                    if !accepted.contains(e) {
                        out.push(v("C06", format!("early exit on {} also reports {} which was not accepted before it", h, e)));
                    }
                }
            }
        }
        None => {
            if !is_fb {
                for e in &accepted {
                    if !reported.contains(e) {
                        out.push(v("C09", format!("{} is accepted alone, nothing explains its absence, yet it is missing from {:?}", e, reported)));
                    }
                }
                for e in &reported {
                    if !accepted.contains(e) {
                        out.push(v("C06", format!("{} is reported but the stand-alone reconstruction does not accept it (no early exit expected)", e)));
                    }
                }
            }
        }
    }
    out
}

/// C13 (window part): a covering window can be replaced by any other covering window
pub fn check_c13_window(bytes: &[u8], s: &NormalizerSettings, real_lines: &[String], alt: (usize, usize)) -> Vec<Found> {
    let mut out = vec![];
    let n = bytes.len();
    // a product beyond usize::MAX covers every input
    if n == 0 || s.steps == 0 || s.steps.checked_mul(s.chunk_size).map(|w| n > w).unwrap_or(false) {
        return out;
    }
    for (st, ch) in [(1usize, n), alt] {
        if st.checked_mul(ch).map(|w| n > w).unwrap_or(false) || st == 0 {
            continue;
        }
        let mut t = s.clone();
        t.steps = st;
        t.chunk_size = ch;
        let other = outcome_lines(&run_real(bytes, &t));
        if other != real_lines {
            out.push(v("C13", format!("input of {} bytes fits steps={} chunk_size={} and steps={} chunk_size={} but the results differ", n, s.steps, s.chunk_size, st, ch)));
        }
    }
    out
}

/// C13 (text part): one text in every encoding that round-trips it, each probed alone with the
/// fall-back off and a covering window: same accept / reject and same chaos
pub fn check_c13_text(text: &str, s: &NormalizerSettings, with_bom: bool) -> (Vec<Found>, usize) {
    check_c13_text_in(text, s, with_bom, None)
}

/// the same over a given list of encodings, WITHOUT the size limit (inputs above 1,000,000 bytes: lazy mode)
pub fn check_c13_text_in(text: &str, s: &NormalizerSettings, with_bom: bool, only: Option<&[String]>) -> (Vec<Found>, usize) {
    let mut out = vec![];
    let mut seen: Vec<(String, Option<u32>)> = vec![];
    let pool: Vec<String> = match only { Some(l) => l.to_vec(), None => supported() };
    for enc in pool {
        let codec = match encoding_from_whatwg_label(&enc) {
            Some(c) => c,
            None => continue,
        };
        let body = match codec.encode(text, encoding::EncoderTrap::Strict) {
            Ok(b) => b,
            Err(_) => continue,
        };
        if codec.decode(&body, DecoderTrap::Strict).ok().as_deref() != Some(text) || body.is_empty() {
            continue;
        }
        let mut bytes = vec![];
        let mut marked = false;
        if with_bom {
            for (e, m) in marks() {
                if e == enc {
                    bytes.extend_from_slice(m);
                    marked = true;
                }
            }
        }
        if (enc == "utf-16le" || enc == "utf-16be") && !marked {
            continue;
        }
        bytes.extend_from_slice(&body);
        if identify_mark(&bytes).map(|e| e != enc).unwrap_or(false) && is_multi_byte_encoding(&enc) {
            continue; // the encoded text happens to start with another (multi-byte) encoding's mark
        }
        let mut r = restricted(s, &enc);
        r.enable_fallback = false;
        r.steps = 1;
        r.chunk_size = bytes.len();
        if bytes.len() > charset_normalizer_rs::consts::TOO_BIG_SEQUENCE && only.is_none() {
            continue;
        }
        match run_real(&bytes, &r) {
            Outcome::Ok(ms) => {
                let verdict = if ms.len() == 1 { Some(fbits(ms[0].chaos())) } else { None };
                if ms.len() == 1 && ms[0].decoded_payload() != Some(text) {
                    out.push(v("C13", format!("{}: exposed text differs from the encoded text", enc)));
                }
                if enc == "ascii" && verdict.is_none() {
                    continue;
                }
                seen.push((enc.clone(), verdict));
            }
            _ => out.push(v("C13", format!("{}: restricted run failed", enc))),
        }
    }
    if let Some((e0, v0)) = seen.first().cloned() {
        for (e, vv) in &seen {
            if *vv != v0 {
                out.push(v("C13", format!("same text, covering window: {} gives {:?} but {} gives {:?} (chaos bits / None = rejected)", e0, v0, e, vv)));
            }
        }
    }
    (out, seen.len())
}

fn identify_mark(bytes: &[u8]) -> Option<String> {
    sig_of(bytes).0
}

/// C19 at the API level: an input analysed as a single chunk, one encoding probed alone, swept over
/// language thresholds: the listed languages only shrink, keep their scores, are ordered by
/// non-increasing score, coherence() is the first score and the most probable language the first element
pub fn check_c19_detect(bytes: &[u8], s: &NormalizerSettings, enc: &str) -> Vec<Found> {
    let mut out = vec![];
    if bytes.is_empty() || s.steps == 0 || s.steps.checked_mul(s.chunk_size).map(|w| bytes.len() > w).unwrap_or(true) {
        return out;
    }
    let mut base: Option<Vec<(&'static charset_normalizer_rs::entity::Language, f32)>> = None;
    let mut prev: Vec<String> = vec![];
    for th in [0.0f32, 0.05, 0.1, 0.2, 0.3, 0.5, 0.7, 0.8] {
        let mut r = restricted(s, enc);
        r.enable_fallback = false;
        r.language_threshold = ordered_float::OrderedFloat(th);
        let ms = match run_real(bytes, &r) {
            Outcome::Ok(ms) if ms.len() == 1 => ms,
            _ => return out,
        };
        let m = &ms[0];
        let cur = hooks::coherence_matches(m);
        for w in cur.windows(2) {
            if !(w[0].1 >= w[1].1) {
                out.push(v("C19", format!("{} at language threshold {}: languages not ordered by non-increasing score: {}", enc, th, crate::sig::coh_str(&cur))));
            }
        }
        if let Some((l0, s0)) = cur.first() {
            if fbits(m.coherence()) != fbits(*s0) || m.most_probably_language() != *l0 {
                out.push(v("C19", format!("{} at language threshold {}: coherence() / most probable language are not the first listed element", enc, th)));
            }
        }
        match &base {
            None => base = Some(cur.clone()),
            Some(b) => {
                let key = |x: &Vec<(&'static charset_normalizer_rs::entity::Language, f32)>| -> Vec<(String, u32)> {
                    let mut k: Vec<(String, u32)> = x.iter().map(|(l, sc)| (format!("{:?}", l), fbits(*sc))).collect();
                    k.sort();
                    k
                };
                let expect: Vec<(&'static charset_normalizer_rs::entity::Language, f32)> = b.iter().filter(|(_, sc)| *sc >= th).cloned().collect();
                if key(&cur) != key(&expect) {
                    out.push(v("C19", format!("{}: language threshold {} is not a pure cut-off on a single-chunk input: got {} expected {}", enc, th, crate::sig::coh_str(&cur), crate::sig::coh_str(&expect))));
                }
            }
        }
        let names: Vec<String> = cur.iter().map(|(l, _)| format!("{:?}", l)).collect();
        if th > 0.0 && names.iter().any(|n| !prev.contains(n)) {
            out.push(v("C19", format!("{}: raising the language threshold to {} added a language", enc, th)));
        }
        prev = names;
    }
    out
}
