//! Small shared utilities: PRNG, hex, hashing, float canonicalisation.
use std::fmt::Write;

#[derive(Clone)]
pub struct Rng(pub u64);
impl Rng {
    pub fn new(seed: u64) -> Rng {
        let mut r = Rng(seed ^ 0x9E3779B97F4A7C15);
        if r.0 == 0 {
            r.0 = 0x1234567;
        }
        for _ in 0..4 {
            r.next();
        }
        r
    }
    pub fn next(&mut self) -> u64 {
        // xorshift64*
        let mut x = self.0;
        x ^= x >> 12;
        x ^= x << 25;
        x ^= x >> 27;
        self.0 = x;
        x.wrapping_mul(0x2545F4914F6CDD1D)
    }
    pub fn below(&mut self, n: usize) -> usize {
        if n == 0 {
            0
        } else {
            (self.next() % (n as u64)) as usize
        }
    }
    pub fn range(&mut self, lo: usize, hi: usize) -> usize {
        lo + self.below(hi - lo + 1)
    }
    pub fn chance(&mut self, num: usize, den: usize) -> bool {
        self.below(den) < num
    }
    pub fn pick<'a, T>(&mut self, v: &'a [T]) -> &'a T {
        &v[self.below(v.len())]
    }
}

pub fn hex(b: &[u8]) -> String {
    if b.is_empty() {
        return "-".to_string();
    }
    let mut s = String::with_capacity(b.len() * 2);
    for x in b {
        write!(s, "{:02x}", x).unwrap();
    }
    s
}

pub fn unhex(s: &str) -> Vec<u8> {
    if s == "-" {
        return vec![];
    }
    let b = s.as_bytes();
    let nib = |c: u8| -> u8 {
        match c {
            b'0'..=b'9' => c - b'0',
            b'a'..=b'f' => c - b'a' + 10,
            b'A'..=b'F' => c - b'A' + 10,
            _ => panic!("bad hex"),
        }
    };
    (0..b.len() / 2)
        .map(|i| nib(b[2 * i]) * 16 + nib(b[2 * i + 1]))
        .collect()
}

pub fn fbits(x: f32) -> u32 {
    if x.is_nan() {
        0x7fc0_0000
    } else {
        x.to_bits()
    }
}

/// FNV-1a 64 over the code points, 4 bytes little endian each; returns (hash, char count)
pub fn text_hash(t: &str) -> (String, usize) {
    let mut h: u64 = 0xcbf29ce484222325;
    let mut n = 0usize;
    for c in t.chars() {
        let c = c as u32;
        n += 1;
        for k in 0..4 {
            h ^= ((c >> (8 * k)) & 255) as u64;
            h = h.wrapping_mul(0x100000001b3);
        }
    }
    (format!("{:016x}", h), n)
}

pub fn fnv_bytes(b: &[u8]) -> u64 {
    let mut h: u64 = 0xcbf29ce484222325;
    for x in b {
        h ^= *x as u64;
        h = h.wrapping_mul(0x100000001b3);
    }
    h
}

pub fn short(b: &[u8], n: usize) -> String {
    if b.len() <= n {
        hex(b)
    } else {
        format!("{}..(+{} bytes)", hex(&b[..n]), b.len() - n)
    }
}
