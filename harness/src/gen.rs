//! Input and settings generators.  Every random choice derives from one PRNG state.
use crate::util::*;
use charset_normalizer_rs::entity::NormalizerSettings;
use encoding::label::encoding_from_whatwg_label;
use encoding::{DecoderTrap, EncoderTrap};
use ordered_float::OrderedFloat;
use std::path::{Path, PathBuf};

pub struct CorpusFile {
    pub path: PathBuf,
    pub label: String, // directory name (expected encodings) or "sample"
    pub bytes: Vec<u8>,
}

pub struct Corpus {
    pub files: Vec<CorpusFile>,
    pub texts: Vec<String>, // unicode texts recovered from the corpus (for re-encoding)
}

fn walk(dir: &Path, out: &mut Vec<PathBuf>) {
    if let Ok(rd) = std::fs::read_dir(dir) {
        let mut es: Vec<PathBuf> = rd.filter_map(|e| e.ok().map(|e| e.path())).collect();
        es.sort();
        for p in es {
            if p.is_dir() {
                walk(&p, out);
            } else {
                out.push(p);
            }
        }
    }
}

pub fn load_corpus() -> Corpus {
    let root = Path::new("/repo/src/tests/data");
    let mut paths = vec![];
    walk(root, &mut paths);
    let mut files = vec![];
    let mut texts = vec![];
    for p in paths {
        let bytes = match std::fs::read(&p) {
            Ok(b) => b,
            Err(_) => continue,
        };
        let parent = p
            .parent()
            .and_then(|x| x.file_name())
            .map(|x| x.to_string_lossy().to_string())
            .unwrap_or_default();
        let label = if parent == "samples" { "sample".to_string() } else { parent };
        // recover a unicode text when the directory names a codec
        let first = label.split(',').next().unwrap_or("").to_string();
        if let Some(enc) = encoding_from_whatwg_label(&first) {
            if let Ok(t) = enc.decode(&bytes, DecoderTrap::Strict) {
                if t.chars().count() >= 40 && texts.len() < 400 {
                    let t: String = t.chars().take(6000).collect();
                    texts.push(t);
                }
            }
        } else if label == "sample" {
            if let Ok(t) = String::from_utf8(bytes.clone()) {
                texts.push(t.chars().take(6000).collect());
            }
        }
        files.push(CorpusFile { path: p, label, bytes });
    }
    Corpus { files, texts }
}

pub const LABEL_POOL: &[&str] = &[
    "utf-8", "utf8", "UTF-8", " Utf8\t", "ascii", "us-ascii", "latin1", "ISO-8859-1", "l1", "cp1252", "windows-1252",
    "windows-1251", "cp1251", "koi8-r", "koi", "koi8-u", "ibm866", "cp866", "866", "iso-8859-2", "latin2", "iso-8859-5",
    "cyrillic", "iso-8859-7", "greek", "iso-8859-8", "hebrew", "iso-8859-8-i", "logical", "iso-8859-15", "l9",
    "windows-1250", "windows-1253", "windows-1254", "latin5", "windows-1255", "windows-1256", "windows-1257",
    "windows-1258", "windows-874", "tis-620", "macintosh", "x-mac-cyrillic", "big5", "big5-hkscs", "gbk", "gb2312",
    "gb18030", "euc-jp", "shift_jis", "sjis", "ms_kanji", "iso-2022-jp", "euc-kr", "korean", "ks_c_5601-1987",
    "utf-16le", "utf-16", "utf-16be", "hz", "x-user-defined", "  EUC-KR  ", "\nBig5\n", "Shift_JIS", "WINDOWS-1252",
];

pub const BAD_LABELS: &[&str] = &["", " ", "\t", " \n ", "utf-9", "latin-99", "cp0", "é", "utf 8", "none", "binary", "replacement", "hz-gb-2312x"];

pub fn supported() -> Vec<String> {
    charset_normalizer_rs::consts::IANA_SUPPORTED
        .iter()
        .map(|s| s.to_string())
        .collect()
}

pub fn marks() -> Vec<(&'static str, &'static [u8])> {
    let mut m = charset_normalizer_rs::verif_hooks::encoding_marks();
    m.sort();
    m
}

pub fn thresholds() -> Vec<f32> {
    let b = [0.0f32, 0.01, 0.02, 0.05, 0.1, 0.2, 0.3, 0.5, 0.8, 1.0];
    let mut v = vec![];
    for x in b {
        v.push(x);
        v.push(f32::from_bits(x.to_bits().wrapping_add(1)));
        if x > 0.0 {
            v.push(f32::from_bits(x.to_bits() - 1));
        }
    }
    v
}

pub fn default_settings() -> NormalizerSettings {
    NormalizerSettings::default()
}

pub fn gen_settings(r: &mut Rng, input_len: usize) -> NormalizerSettings {
    let mut s = NormalizerSettings::default();
    match r.below(10) {
        0..=3 => {}
        4 => {
            s.steps = r.range(1, 17);
            s.chunk_size = r.range(1, 2000);
        }
        5 => {
            // around the window boundary
            let st = r.range(1, 8);
            s.steps = st;
            let c = (input_len / st).max(1);
            s.chunk_size = (c + r.below(3)).saturating_sub(1).max(1);
        }
        6 => {
            s.steps = r.range(1, 40);
            s.chunk_size = r.range(1, 64);
        }
        7 => {
            s.steps = 1;
            s.chunk_size = r.range(1, input_len.max(1) + 2);
        }
        8 => {
            s.steps = r.range(4, 64);
            s.chunk_size = r.range(8, 512);
        }
        9 if r.chance(1, 3) => {
            // a huge number of steps with a chunk size of 0 or 1: the product is 0 (never covers a non-empty input) or
            // covers everything; nothing may be sized by `steps`
            s.steps = *r.pick(&[usize::MAX, usize::MAX / 2, usize::MAX / 3, 1usize << 62]);
            s.chunk_size = r.below(2);
        }
        9 if r.chance(1, 2) => {
            // a window whose product steps * chunk_size exceeds usize::MAX: it covers every input
            let st = *r.pick(&[2usize, 3, 4, 5, 8, 16]);
            s.steps = st;
            s.chunk_size = *r.pick(&[1usize << 62, 1usize << 63, usize::MAX, usize::MAX / 2 + 1, usize::MAX / st + 1]);
        }
        _ => {
            s.steps = r.range(1, 6);
            s.chunk_size = r.range(16, 4096);
        }
    }
    if r.chance(1, 2) {
        s.threshold = OrderedFloat(*r.pick(&thresholds()));
    }
    if r.chance(1, 3) {
        s.language_threshold = OrderedFloat(*r.pick(&[0.0f32, 0.05, 0.1, 0.2, 0.5, 0.8, 1.0]));
    }
    s.preemptive_behaviour = !r.chance(1, 4);
    s.enable_fallback = !r.chance(1, 4);
    if r.chance(1, 5) {
        let n = r.range(1, 6);
        for _ in 0..n {
            s.include_encodings.push(r.pick(LABEL_POOL).to_string());
        }
    }
    if r.chance(1, 5) {
        let n = r.range(1, 4);
        for _ in 0..n {
            s.exclude_encodings.push(r.pick(LABEL_POOL).to_string());
        }
    }
    s
}

pub fn encode_text(t: &str, enc: &str) -> Option<Vec<u8>> {
    let e = encoding_from_whatwg_label(enc)?;
    e.encode(t, EncoderTrap::Ignore).ok()
}

/// pairs (a, b) with b listed as similar to a but not a to b, and the bytes the two code pages decode differently
pub fn asymmetric_similar_pairs() -> Vec<(String, String, Vec<u8>)> {
    let sup = supported();
    let mut out = vec![];
    for a in &sup {
        for b in &sup {
            if charset_normalizer_rs::verif_hooks::is_cp_similar(a, b) && !charset_normalizer_rs::verif_hooks::is_cp_similar(b, a) {
                if let (Some(ca), Some(cb)) = (encoding_from_whatwg_label(a), encoding_from_whatwg_label(b)) {
                    let diff: Vec<u8> = (0x80u16..=0xff)
                        .map(|x| x as u8)
                        .filter(|x| ca.decode(&[*x], DecoderTrap::Strict).ok() != cb.decode(&[*x], DecoderTrap::Strict).ok())
                        .collect();
                    out.push((a.clone(), b.clone(), diff));
                }
            }
        }
    }
    out
}

pub struct Case {
    pub kind: String,
    pub bytes: Vec<u8>,
    pub settings: NormalizerSettings,
}

fn random_slice(r: &mut Rng, b: &[u8], max: usize) -> Vec<u8> {
    if b.len() <= max {
        return b.to_vec();
    }
    let n = r.range(1, max);
    let start = r.below(b.len() - n + 1);
    b[start..start + n].to_vec()
}

pub fn ascii_text(r: &mut Rng, n: usize) -> Vec<u8> {
    let words = [
        "the", "quick", "brown", "fox", "jumps", "over", "lazy", "dog", "and", "then", "returns", "home", "with",
        "nothing", "but", "a", "story", "to", "tell", "about", "encoding", "detection", "in", "plain", "text",
    ];
    let mut out = vec![];
    while out.len() < n {
        out.extend_from_slice(r.pick(&words).as_bytes());
        out.push(if r.chance(1, 12) { b'\n' } else { b' ' });
    }
    out.truncate(n);
    out
}

/// one detection case; `max_len` bounds the payload for the quick tier
pub fn gen_case(r: &mut Rng, corpus: &Corpus, max_len: usize) -> Case {
    let sup = supported();
    let kind;
    let mut bytes: Vec<u8>;
    match r.below(14) {
        0 | 1 => {
            kind = "corpus-slice";
            let f = r.pick(&corpus.files);
            bytes = random_slice(r, &f.bytes, max_len);
        }
        2 => {
            kind = "corpus-prefix";
            let f = r.pick(&corpus.files);
            let n = r.range(1, max_len).min(f.bytes.len());
            bytes = f.bytes[..n].to_vec();
        }
        3 | 4 => {
            kind = "reencoded";
            let t = r.pick(&corpus.texts);
            let take = r.range(8, 3000);
            let t: String = t.chars().skip(r.below(200)).take(take).collect();
            let enc = r.pick(&sup);
            bytes = encode_text(&t, enc).unwrap_or_else(|| t.as_bytes().to_vec());
            if bytes.is_empty() {
                bytes = t.as_bytes().to_vec();
            }
        }
        5 => {
            kind = "mark";
            let ms = marks();
            let (menc, m) = *r.pick(&ms);
            let mut body: Vec<u8> = match r.below(5) {
                0 => vec![],
                1 => {
                    let t = r.pick(&corpus.texts);
                    let t: String = t.chars().take(r.range(1, 600)).collect();
                    encode_text(&t, menc).unwrap_or_default()
                }
                2 => {
                    let t = r.pick(&corpus.texts);
                    let t: String = t.chars().take(r.range(1, 600)).collect();
                    encode_text(&t, &r.pick(&sup[..]).clone()).unwrap_or_default()
                }
                3 => (0..r.range(1, 40)).map(|_| r.below(256) as u8).collect(),
                _ => {
                    let n = r.range(1, 400);
                    ascii_text(r, n)
                }
            };
            bytes = m.to_vec();
            if r.chance(1, 6) {
                bytes.extend_from_slice(m); // doubled mark
            }
            bytes.append(&mut body);
        }
        6 => {
            kind = "declaration";
            let kw = *r.pick(&["charset", "encoding", "coding"]);
            let sep = *r.pick(&["=", ":", ": ", "= ", " ", "=\"", "='", ":=  "]);
            // any label of the codec crate's table (1 in 3), a label that resolves to an encoding detection never probes
            // (1 in 6), else the hand-picked pool
            let lab = match r.below(6) {
                0 | 1 => { let al = all_labels(); r.pick(&al).clone() }
                2 => { let ul = unprobed_labels(); if ul.is_empty() { r.pick(LABEL_POOL).trim().to_string() } else { r.pick(&ul).clone() } }
                _ => r.pick(LABEL_POOL).trim().to_string(),
            };
            let decl = format!("<meta {}{}{}\"> ", kw, sep, lab);
            let t = r.pick(&corpus.texts);
            let t: String = t.chars().take(r.range(20, 1500)).collect();
            let body = encode_text(&t, &r.pick(&sup[..]).clone()).unwrap_or_else(|| t.as_bytes().to_vec());
            let pos = match r.below(4) {
                0 => 0,
                1 => r.below(body.len() + 1),
                2 => 4096usize.saturating_sub(r.below(40)).min(body.len()),
                _ => body.len(),
            };
            bytes = body[..pos].to_vec();
            bytes.extend_from_slice(decl.as_bytes());
            bytes.extend_from_slice(&body[pos..]);
            if r.chance(1, 4) {
                let n = r.range(4000, 4200);
                let mut pad = ascii_text(r, n);
                pad.append(&mut bytes);
                bytes = pad;
            }
        }
        7 => {
            kind = "ascii-with-anomaly";
            let n = r.range(1, max_len.min(12000));
            bytes = ascii_text(r, n);
            let k = r.below(4);
            for _ in 0..k {
                let p = r.below(bytes.len());
                bytes[p] = r.range(0x80, 0xff) as u8;
            }
        }
        8 => {
            kind = "tiny";
            let n = r.range(1, 40);
            bytes = (0..n)
                .map(|_| if r.chance(2, 3) { r.range(0x20, 0x7e) as u8 } else { r.below(256) as u8 })
                .collect();
        }
        9 => {
            kind = "utf8-with-corruption";
            let t = r.pick(&corpus.texts);
            let t: String = t.chars().skip(r.below(100)).take(r.range(10, 4000)).collect();
            bytes = t.into_bytes();
            if r.chance(1, 2) && !bytes.is_empty() {
                let p = r.below(bytes.len());
                bytes[p] = r.range(0x80, 0xff) as u8;
            }
            if r.chance(1, 3) && bytes.len() > 2 {
                let p = r.below(bytes.len() - 1) + 1;
                bytes.truncate(p);
            }
        }
        12 | 13 => {
            // short words in which a few letters are replaced by high bytes from a small palette:
            // the single-byte code pages read them as letters, accents or symbols, so similar code
            // pages split between accepted and soft-failed (exercises the similarity bookkeeping)
            kind = "highbyte-words";
            let asym = asymmetric_similar_pairs();
            let pal: Vec<u8> = if !asym.is_empty() && r.chance(1, 2) {
                // bytes on which an asymmetrically-similar pair of code pages disagrees
                let (_, _, diff) = r.pick(&asym);
                if diff.is_empty() { vec![r.range(0xa0, 0xff) as u8] } else { (0..r.range(1, 3)).map(|_| *r.pick(diff)).collect() }
            } else {
                (0..r.range(1, 3)).map(|_| r.range(0xa0, 0xff) as u8).collect()
            };
            let reps = r.range(4, 40);
            let wn = r.range(2, 6);
            let mut unit: Vec<u8> = vec![];
            for _ in 0..wn {
                let wl = r.range(1, 6);
                for k in 0..wl {
                    if r.chance(1, 3) || (k == 0 && r.chance(1, 3)) {
                        unit.push(*r.pick(&pal));
                    } else {
                        unit.push(b'a' + r.below(26) as u8);
                    }
                }
                unit.push(b' ');
            }
            bytes = vec![];
            for _ in 0..reps {
                bytes.extend_from_slice(&unit);
            }
        }
        10 => {
            kind = "binary";
            let n = r.range(1, 600);
            bytes = (0..n).map(|_| r.below(256) as u8).collect();
        }
        11 if r.chance(1, 2) => {
            // characters from every plane: supplementary scripts, emoji, variation selectors, tags, the unassigned rest of
            // plane 14, private use (BMP and planes 15 / 16), noncharacters, U+10FFFF -- in utf-8 / utf-16 / gb18030
            kind = "all-planes";
            let pts: [(u32, u32); 16] = [(0x20, 0x7e), (0xa0, 0x24f), (0x370, 0x52f), (0xe000, 0xf8ff), (0xfdd0, 0xfdef), (0xfff0, 0xffff),
                (0x10000, 0x1007f), (0x1d400, 0x1d7ff), (0x1f300, 0x1f6ff), (0x20000, 0x2a6df), (0x2f800, 0x2fa1f), (0xe0000, 0xe007f),
                (0xe0100, 0xe01ef), (0xe01f0, 0xe0fff), (0xf0000, 0xffffd), (0x100000, 0x10ffff)];
            let n = r.range(1, 400);
            let mut t = String::new();
            let (pa, pb) = (*r.pick(&pts), *r.pick(&pts));
            for i in 0..n {
                let (a, b) = if r.chance(1, 6) { *r.pick(&pts) } else if i % 2 == 0 { pa } else { pb };
                if let Some(c) = char::from_u32(a + r.below((b - a + 1) as usize) as u32) { t.push(c); }
                if i % 9 == 8 { t.push(' '); }
            }
            let enc = *r.pick(&["utf-8", "utf-8", "utf-8", "utf-16le", "utf-16be", "gb18030"]);
            bytes = vec![];
            if enc != "utf-8" || r.chance(1, 3) {
                for (e, m) in marks() { if e == enc { bytes.extend_from_slice(m); } }
            }
            bytes.extend_from_slice(&encode_text(&t, enc).unwrap_or_else(|| t.as_bytes().to_vec()));
        }
        _ => {
            kind = "mixed-script";
            let a = r.pick(&corpus.texts);
            let b = r.pick(&corpus.texts);
            let mut t: String = a.chars().take(r.range(5, 400)).collect();
            t.extend(b.chars().take(r.range(5, 400)));
            let enc = if r.chance(1, 2) { "utf-8".to_string() } else { r.pick(&sup).clone() };
            bytes = encode_text(&t, &enc).unwrap_or_else(|| t.as_bytes().to_vec());
        }
    }
    if bytes.len() > max_len {
        bytes.truncate(max_len);
    }
    if bytes.is_empty() {
        bytes = b"a".to_vec();
    }
    let mut settings = gen_settings(r, bytes.len());
    let mut kind = kind.to_string();
    // fewer decoded characters than steps while the bytes do not fit the window
    // (multi-byte text, tiny chunk_size -- also chunk_size 0)
    if r.chance(1, 12) {
        let st = r.range(2, 40);
        let k = r.range(1, st);
        let pool: Vec<char> = "\u{e9}\u{444}\u{4f60}\u{3042}\u{1f600}\u{5d0}\u{3b1} a.".chars().collect();
        let t: String = (0..k).map(|_| *r.pick(&pool)).collect();
        let enc = *r.pick(&["utf-8", "utf-8", "utf-16le", "utf-16be", "gb18030", "euc-jp", "iso-2022-jp"]);
        let mut b: Vec<u8> = vec![];
        if enc.starts_with("utf-16") || r.chance(1, 3) {
            for (e, m) in marks() {
                if e == enc {
                    b.extend_from_slice(m);
                }
            }
        }
        b.extend(encode_text(&t, enc).unwrap_or_else(|| t.as_bytes().to_vec()));
        if r.chance(1, 4) {
            b = b"\x1b(B".repeat(r.range(1, 60)); // escape sequences only: decodes to nothing
        }
        if !b.is_empty() {
            bytes = b;
            settings.steps = st;
            settings.chunk_size = r.below(2).min(bytes.len() / st);
            kind.push_str("@few-chars");
        }
    }
    // exactly on / next to the window boundary len == steps * chunk_size with several steps
    if r.chance(1, 7) && bytes.len() >= 4 {
        let st = r.range(2, 9.min(bytes.len()));
        let ch = bytes.len() / st;
        if ch >= 1 {
            settings.steps = st;
            settings.chunk_size = ch;
            let exact = st * ch;
            match r.below(4) {
                0 => bytes.truncate((exact - 1).max(1)),
                1 => {
                    bytes.truncate(exact);
                    settings.chunk_size = ch.saturating_sub(1).max(1); // one byte too many per step
                }
                _ => bytes.truncate(exact),
            }
            kind.push_str("@window-boundary");
        }
    }
    Case { kind, bytes, settings }
}

pub fn settings_json(s: &NormalizerSettings) -> serde_json::Value {
    serde_json::json!({
        "steps": s.steps, "chunk_size": s.chunk_size, "threshold_bits": fbits(s.threshold.0),
        "threshold": s.threshold.0, "language_threshold_bits": fbits(s.language_threshold.0),
        "include": s.include_encodings, "exclude": s.exclude_encodings,
        "preemptive": s.preemptive_behaviour, "fallback": s.enable_fallback
    })
}

pub fn settings_from_json(v: &serde_json::Value) -> NormalizerSettings {
    let strs = |x: &serde_json::Value| -> Vec<String> {
        x.as_array()
            .map(|a| a.iter().filter_map(|s| s.as_str().map(|s| s.to_string())).collect())
            .unwrap_or_default()
    };
    NormalizerSettings {
        steps: v["steps"].as_u64().unwrap_or(5) as usize,
        chunk_size: v["chunk_size"].as_u64().unwrap_or(512) as usize,
        threshold: OrderedFloat(f32::from_bits(v["threshold_bits"].as_u64().unwrap_or(0x3e4ccccd) as u32)),
        include_encodings: strs(&v["include"]),
        exclude_encodings: strs(&v["exclude"]),
        preemptive_behaviour: v["preemptive"].as_bool().unwrap_or(true),
        language_threshold: OrderedFloat(f32::from_bits(
            v["language_threshold_bits"].as_u64().unwrap_or(0x3dcccccd) as u32,
        )),
        enable_fallback: v["fallback"].as_bool().unwrap_or(true),
    }
}

/// legacy single-byte text (corpus texts with enough non-ASCII letters, encoded in one code page), repeated up to `target` bytes
pub fn legacy_text(rng: &mut Rng, corpus: &Corpus, target: usize) -> (Vec<u8>, &'static str) {
    let enc = *rng.pick(&["windows-1251", "windows-1252", "iso-8859-7", "koi8-r", "windows-1250", "iso-8859-2"]);
    legacy_text_in(rng, corpus, target, enc)
}

pub fn legacy_text_in(rng: &mut Rng, corpus: &Corpus, target: usize, enc: &'static str) -> (Vec<u8>, &'static str) {
    let mut unit: Vec<u8> = vec![];
    for _ in 0..40 {
        let t = rng.pick(&corpus.texts);
        if let Some(b) = encode_text(t, enc) {
            if b.iter().filter(|x| **x >= 0x80).count() * 5 > b.len() {
                unit.extend_from_slice(&b);
                unit.push(b'\n');
            }
        }
        if unit.len() > 20_000 {
            break;
        }
    }
    if unit.is_empty() {
        unit = b"plain words only \xe9\xe8 ".to_vec();
    }
    let mut b = Vec::with_capacity(target + unit.len());
    while b.len() < target {
        b.extend_from_slice(&unit);
    }
    b.truncate(target);
    (b, enc)
}

/// every label of the codec crate's label table (as generated by the translator on this run); LABEL_POOL when unavailable
pub fn all_labels() -> Vec<String> {
    let mut v: Vec<String> = vec![];
    if let Ok(txt) = std::fs::read_to_string("/verif/_build/tables.json") {
        if let Ok(j) = serde_json::from_str::<serde_json::Value>(&txt) {
            for e in j["LABELS"].as_array().cloned().unwrap_or_default() {
                if let Some(l) = e.get(0).and_then(|x| x.as_str()) {
                    v.push(l.to_string());
                }
            }
        }
    }
    if v.is_empty() {
        v = LABEL_POOL.iter().map(|x| x.trim().to_string()).collect();
    }
    v
}

/// labels the codec crate resolves but whose encoding detection never probes (not among IANA_SUPPORTED under its
/// WHATWG name or its own name): a declaration may name them
pub fn unprobed_labels() -> Vec<String> {
    let sup = supported();
    all_labels()
        .into_iter()
        .filter(|l| match encoding_from_whatwg_label(l) {
            Some(c) => {
                let n = c.whatwg_name().unwrap_or(c.name());
                !sup.iter().any(|s| s == n) && !sup.iter().any(|s| s == c.name())
            }
            None => false,
        })
        .collect()
}

/// multi-byte text (corpus texts the encoding can represent, with enough multi-byte characters), repeated up to about
/// `target` bytes behind a 0..3-byte ASCII prefix that shifts the character boundaries
pub fn multibyte_text(rng: &mut Rng, corpus: &Corpus, target: usize, enc: &'static str) -> Vec<u8> {
    let mut unit: Vec<u8> = vec![];
    for _ in 0..80 {
        let t = rng.pick(&corpus.texts);
        if let Some(c) = encoding_from_whatwg_label(enc) {
            if let Ok(b) = c.encode(t, EncoderTrap::Strict) {
                if b.iter().filter(|x| **x >= 0x80).count() * 3 > b.len() {
                    unit.extend_from_slice(&b);
                    unit.push(b'\n');
                }
            }
        }
        if unit.len() > 30_000 {
            break;
        }
    }
    if unit.is_empty() {
        let sample = "\u{3053}\u{308c}\u{306f}\u{65e5}\u{672c}\u{8a9e}\u{306e}\u{6587}\u{7ae0}\u{3067}\u{3059}\u{3002}\u{4f60}\u{597d}\u{4e16}\u{754c}\u{d55c}\u{ad6d}\u{c5b4} ";
        unit = encode_text(sample, enc).unwrap_or_else(|| sample.as_bytes().to_vec());
    }
    let mut b: Vec<u8> = (0..rng.below(4)).map(|_| b'a').collect();
    while b.len() < target {
        b.extend_from_slice(&unit);
    }
    // cut at a unit boundary so that the text stays valid: the last unit is complete
    b
}
