mod cdlevel;
mod mdlevel;
mod clilevel;
mod container;
mod declared;
mod decodelevel;
mod detect;
mod gen;
mod memolevel;
mod names;
mod oracle;
mod pathlevel;
mod props;
mod sig;
mod sigdump;
mod total;
mod util;

fn arg(args: &[String], k: &str) -> Option<String> {
    args.iter().position(|a| a == k).and_then(|i| args.get(i + 1).cloned())
}

fn main() {
    // panics inside the library are caught and classified; keep stderr quiet
    if std::env::var("VERIF_SHOW_PANICS").is_err() {
        std::panic::set_hook(Box::new(|_| {}));
    }
    let args: Vec<String> = std::env::args().collect();
    let cmd = args.get(1).cloned().unwrap_or_default();
    let seed: u64 = arg(&args, "--seed").and_then(|s| s.parse().ok()).unwrap_or(1);
    let out = arg(&args, "--out").unwrap_or("/dev/stdout".into());
    let driver = arg(&args, "--driver").unwrap_or("/verif/_build/extracted/driver".into());
    match cmd.as_str() {
        "names" => {
            let tables = arg(&args, "--tables").unwrap_or("/verif/_build/tables.json".into());
            let r = names::run(&tables, &driver, seed, &out);
            eprintln!("names: {} checks, {} disagreements, {} violations", r["evaluations"], r["disagreements"].as_array().unwrap().len(), r["violations"].as_array().unwrap().len());
        }
        "detect" => {
            let o = detect::DetectOpts {
                seed,
                n: arg(&args, "--n").and_then(|s| s.parse().ok()).unwrap_or(200),
                max_len: arg(&args, "--max-len").and_then(|s| s.parse().ok()).unwrap_or(6000),
                big: arg(&args, "--big").and_then(|s| s.parse().ok()).unwrap_or(0),
                mid: arg(&args, "--mid").and_then(|s| s.parse().ok()).unwrap_or(0),
                driver,
                focus: arg(&args, "--focus").unwrap_or_default(),
                out,
                replay: arg(&args, "--replay"),
                full_every: arg(&args, "--full-every").and_then(|s| s.parse().ok()).unwrap_or(0),
            };
            let r = detect::run(&o);
            eprintln!("detect: {} cases, {} disagreements, {} violations, {} contract violations",
                r["evaluations"], r["disagreements"].as_array().unwrap().len(),
                r["violations"].as_array().unwrap().len(), r["contract_violations"].as_array().unwrap().len());
        }
        "container" => {
            let n = arg(&args, "--n").and_then(|s| s.parse().ok()).unwrap_or(400);
            let r = container::run(seed, n, &driver, &out);
            eprintln!("container: {} evaluations, {} disagreements, {} violations", r["evaluations"], r["disagreements"].as_array().unwrap().len(), r["violations"].as_array().unwrap().len());
        }
        "declared" => {
            let n = arg(&args, "--n").and_then(|s| s.parse().ok()).unwrap_or(1500);
            let r = declared::run(seed, n, &driver, &out);
            eprintln!("declared: {} evaluations, {} disagreements, {} violations", r["evaluations"], r["disagreements"].as_array().unwrap().len(), r["violations"].as_array().unwrap().len());
        }
        "cd" => {
            let n = arg(&args, "--n").and_then(|s| s.parse().ok()).unwrap_or(300);
            let r = cdlevel::run(seed, n, &driver, &out);
            eprintln!("cd: {} evaluations, {} disagreements, {} violations", r["evaluations"], r["disagreements"].as_array().unwrap().len(), r["violations"].as_array().unwrap().len());
        }
        "md" => {
            let n = arg(&args, "--n").and_then(|s| s.parse().ok()).unwrap_or(400);
            let r = mdlevel::run(seed, n, &driver, &out);
            eprintln!("md: {} evaluations, {} disagreements, {} violations", r["evaluations"], r["disagreements"].as_array().unwrap().len(), r["violations"].as_array().unwrap().len());
        }
        "sig" => {
            let extra = arg(&args, "--extra").and_then(|s| s.parse().ok()).unwrap_or(100);
            let rounds = arg(&args, "--rounds").and_then(|s| s.parse().ok()).unwrap_or(1);
            let history = arg(&args, "--history").and_then(|s| s.parse().ok()).unwrap_or(0);
            sigdump::run(seed, extra, rounds, history, &out);
        }
        "decode" => {
            let n = arg(&args, "--n").and_then(|s| s.parse().ok()).unwrap_or(600);
            let exhaustive = arg(&args, "--exhaustive").and_then(|s| s.parse::<usize>().ok()).unwrap_or(0) > 0;
            let r = decodelevel::run(seed, n, &driver, &out, exhaustive);
            eprintln!("decode: {} evaluations, {} disagreements, {} violations", r["evaluations"], r["disagreements"].as_array().unwrap().len(), r["violations"].as_array().unwrap().len());
        }
        "memo" => {
            let n = arg(&args, "--histories").and_then(|s| s.parse().ok()).unwrap_or(30);
            let r = memolevel::run_memo(seed, n, &out);
            eprintln!("memo: {} evaluations, {} violations", r["evaluations"], r["violations"].as_array().unwrap().len());
        }
        "threads" => {
            let n = arg(&args, "--rounds").and_then(|s| s.parse().ok()).unwrap_or(6);
            let r = memolevel::run_threads(seed, n, &out);
            eprintln!("threads: {} evaluations, {} violations", r["evaluations"], r["violations"].as_array().unwrap().len());
        }
        "cli" => {
            let n = arg(&args, "--n").and_then(|s| s.parse().ok()).unwrap_or(60);
            let bin = arg(&args, "--bin").unwrap_or("/verif/_build/cli_target/debug/normalizer".into());
            let scratch = arg(&args, "--scratch").unwrap_or("/verif/_build/scratch".into());
            let r = clilevel::run(seed, n, &bin, &scratch, &driver, &out);
            eprintln!("cli: {} invocations, {} disagreements, {} violations", r["evaluations"], r["disagreements"].as_array().unwrap().len(), r["violations"].as_array().unwrap().len());
        }
        "path" => {
            let n = arg(&args, "--n").and_then(|s| s.parse().ok()).unwrap_or(60);
            let scratch = arg(&args, "--scratch").unwrap_or("/verif/_build/scratch".into());
            let r = pathlevel::run(seed, n, &scratch, &out);
            eprintln!("path: {} evaluations, {} violations", r["evaluations"], r["violations"].as_array().unwrap().len());
        }
        "path-child" => {
            pathlevel::child(args.get(2).map(|s| s.as_str()).unwrap_or(""));
        }
        "total" => {
            let n = arg(&args, "--n").and_then(|s| s.parse().ok()).unwrap_or(200);
            let big = arg(&args, "--big").and_then(|s| s.parse().ok()).unwrap_or(2);
            let r = total::run(seed, n, big, &out);
            eprintln!("total: {} evaluations, {} violations", r["evaluations"], r["violations"].as_array().unwrap().len());
        }
        _ => {
            eprintln!("usage: verif-harness <names|detect|...> [--seed N] [--out file] ...");
            std::process::exit(2);
        }
    }
}
