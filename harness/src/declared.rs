//! The declaration matcher: utils::any_specified_encoding against Model/Declared.v, on
//! declaration-rich inputs (keywords x separator runs of 0..12 x quotes x names x position around
//! byte 4096 with non-ASCII bytes before the declaration).
use crate::gen::*;
use crate::oracle::Driver;
use crate::util::*;
use charset_normalizer_rs::verif_hooks as hooks;
use serde_json::json;

pub fn gen_decl(r: &mut Rng) -> Vec<u8> {
    let kw = *r.pick(&["charset", "encoding", "coding", "Charset", "encodin", "xcoding", "encodingcharset", "codingcoding"]);
    let nsep = *r.pick(&[0usize, 1, 1, 2, 3, 9, 10, 11, 12]);
    let sep: String = (0..nsep).map(|_| *r.pick(&[':', '=', ' '])).collect();
    let q1 = *r.pick(&["", "\"", "'", "\"'"]);
    let q2 = *r.pick(&["", "\"", "'"]);
    let name = match r.below(6) {
        0 => r.pick(BAD_LABELS).to_string(),
        1 => "".to_string(),
        2 => format!("{}_x", r.pick(LABEL_POOL).trim()),
        _ => r.pick(LABEL_POOL).trim().to_string(),
    };
    let mut d = format!("{}{}{}{}{}", kw, sep, q1, name, q2).into_bytes();
    if r.chance(1, 3) {
        // a second declaration after the first one
        d.extend_from_slice(b" ; coding: ");
        d.extend_from_slice(r.pick(LABEL_POOL).trim().as_bytes());
    }
    // prefix: ASCII filler with some non-ASCII bytes, positioned around the 4096-byte zone
    let target = match r.below(6) {
        0 => 0,
        1 => r.below(200),
        2 => 4096usize.saturating_sub(d.len() + r.below(6)),
        3 => 4096usize.saturating_sub(r.below(d.len() + 3)),
        4 => 4096 + r.below(60),
        _ => r.below(5000),
    };
    let mut b = ascii_text(r, target);
    let k = r.below(60);
    for _ in 0..k {
        if !b.is_empty() {
            let p = r.below(b.len());
            b[p] = r.range(0x80, 0xff) as u8;
        }
    }
    // a high byte inside the declaration itself (dropped by the ASCII view)
    if r.chance(1, 5) && d.len() > 3 {
        let p = r.below(d.len());
        d.insert(p, 0xe9);
    }
    b.extend_from_slice(&d);
    let tail = r.below(40);
    b.extend(ascii_text(r, tail));
    b
}

pub fn run(seed: u64, n: usize, driver: &str, out: &str) -> serde_json::Value {
    let mut rng = Rng::new(seed);
    let mut drv = Driver::start(driver);
    let mut diffs = vec![];
    let mut violations = vec![];
    let mut some = 0u64;
    let mut samples = vec![];
    let mut fixed: Vec<Vec<u8>> = vec![
        b"<?xml version=\"1.0\" encoding=\"windows-1251\"?>".to_vec(),
        b"# -*- coding: utf-8 -*-".to_vec(),
        b"<meta charset=utf-8>".to_vec(),
        b"charset           =latin1".to_vec(),  // 11 separators
        b"charset          =latin1".to_vec(),   // 10 separators
        b"encoding='".to_vec(),
        b"encodingcoding:koi8-r".to_vec(),
        b"coding=nope charset=big5".to_vec(),
        b"".to_vec(),
    ];
    for _ in 0..n {
        fixed.push(gen_decl(&mut rng));
    }
    for (i, b) in fixed.iter().enumerate() {
        let real = hooks::any_specified_encoding(b, 4096);
        let model = drv.declared(b);
        if real.is_some() {
            some += 1;
        }
        if real != model {
            diffs.push(json!({"bytes_hex": hex(b), "len": b.len(), "real": real, "model": model}));
        }
        // the property's zone clause, checked on the implementation itself: bytes after offset 4096 are irrelevant
        if b.len() > 4096 {
            let cut = hooks::any_specified_encoding(&b[..4096], 4096);
            if cut != real {
                violations.push(json!({"prop": "C06", "what": format!("the declared encoding depends on bytes beyond the first 4096: {:?} vs {:?} on the 4096-byte prefix", real, cut),
                    "known": null, "case": {"bytes_hex": hex(b), "len": b.len()}}));
            }
        }
        if samples.len() < 4 && i % 97 == 13 {
            samples.push(json!({"input_tail": String::from_utf8_lossy(&b[b.len().saturating_sub(60)..]).to_string(), "len": b.len(), "declared": real}));
        }
    }
    let rep = json!({"level": "declared", "seed": seed, "evaluations": fixed.len(), "distinct_nontrivial": some,
        "disagreements": diffs, "violations": violations, "samples": samples});
    std::fs::write(out, serde_json::to_string_pretty(&rep).unwrap()).expect("write");
    rep
}
