//! Md-level correspondence: md::mess_ratio (uncached body) against Model/Md.v, whose two per-character
//! oracles (flag word of MessDetectorChar, remove_accent) are served by the real functions, bit for bit;
//! utils::is_suspiciously_successive_range against Md.suspicious on EVERY pair of range names (and None);
//! the binary32 literals of the model against the library's; and the MessOK contract (non-NaN, >= 0)
//! that C04 relies on, on every real answer.
use crate::gen::*;
use crate::oracle::Driver;
use crate::util::*;
use charset_normalizer_rs::verif_hooks as hooks;
use encoding::label::encoding_from_whatwg_label;
use encoding::DecoderTrap;
use serde_json::json;

fn mojibake(rng: &mut Rng, corpus: &Corpus) -> String {
    // bytes of a corpus text in one encoding decoded with another codec: the texts mess detection is for
    let t: String = rng.pick(&corpus.texts).chars().skip(rng.below(400)).take(rng.range(10, 1500)).collect();
    let from = *rng.pick(&["utf-8", "windows-1251", "koi8-r", "shift_jis", "big5", "euc-kr", "windows-1256", "iso-8859-7", "gb18030", "windows-1252"]);
    let to = *rng.pick(&["windows-1252", "iso-8859-2", "windows-1251", "koi8-r", "ibm866", "x-mac-cyrillic", "iso-8859-7", "windows-1255", "windows-1256", "gbk", "euc-kr", "big5", "shift_jis", "windows-874", "utf-16le"]);
    let b = encode_text(&t, from).unwrap_or_else(|| t.as_bytes().to_vec());
    encoding_from_whatwg_label(to).and_then(|c| c.decode(&b, DecoderTrap::Ignore).ok()).unwrap_or(t)
}

fn gen_text(rng: &mut Rng, corpus: &Corpus) -> String {
    match rng.below(12) {
        0 | 1 | 2 => mojibake(rng, corpus),
        3 => rng.pick(&corpus.texts).chars().skip(rng.below(500)).take(rng.range(0, 1400)).collect(),
        4 => {
            // lengths on the period boundaries 510 / 511 / 1023 / 1024 and on multiples of 32 / 64 / 128
            let n = *rng.pick(&[0usize, 1, 30, 31, 32, 33, 63, 64, 127, 128, 509, 510, 511, 512, 1022, 1023, 1024, 1025]);
            let src: Vec<char> = if rng.chance(1, 2) { mojibake(rng, corpus).chars().collect() } else { rng.pick(&corpus.texts).chars().collect() };
            if src.is_empty() { "a".repeat(n) } else { (0..n).map(|i| src[i % src.len()]).collect() }
        }
        5 => {
            // random code points from interesting blocks, incl. unprintable, emoji, CJK stops, combining marks
            let blocks: [(u32, u32); 14] = [(0, 0x7f), (0x80, 0xff), (0x100, 0x24f), (0x300, 0x36f), (0x370, 0x3ff), (0x400, 0x4ff), (0x590, 0x6ff),
                (0xe00, 0xe7f), (0x2000, 0x206f), (0x2190, 0x27bf), (0x3040, 0x30ff), (0x4e00, 0x4e20), (0xac00, 0xac40), (0x1f300, 0x1f64f)];
            (0..rng.range(1, 700)).filter_map(|_| { let (a, b) = *rng.pick(&blocks); char::from_u32(a + rng.below((b - a + 1) as usize) as u32) }).collect()
        }
        6 => {
            // words: long, camel-cased, accent-heavy, ending in an upper-case accentuated letter; symbols inside words
            let pieces = ["Stra\u{df}e", "\u{c9}\u{c8}\u{ca}", "caf\u{e9}", "na\u{ef}ve", "ABCDEFGHIJKLMNOPQRSTUVWXYZabc", "camelCasedIdentifierWithManyHumpsInIt", "donau\u{fc}berdampfschifffahrtsgesellschaft",
                "\u{e0}\u{e1}\u{e2}\u{e3}", "fooBAR", "aBcDeFgH", "\u{c0}b\u{c1}c", "x=y", "a<b>c", "word$word", "1234", "\u{4e05}\u{4e04}", "\u{4e2d}\u{6587}\u{5b57}\u{7b26}", "\u{3042}\u{30a2}", "\u{d55c}\u{ae00}", "R\u{c9}SUM\u{c9}", "se\u{f1}or\u{d1}"];
            let seps = [" ", " ", ", ", ". ", "\n", "\t", "-", "|", "; ", "  "];
            let mut s = String::new();
            for _ in 0..rng.range(1, 160) { let p: &str = *rng.pick(&pieces); s.push_str(p); let q: &str = *rng.pick(&seps); s.push_str(q); }
            s
        }
        7 => {
            // punctuation / symbol heavy, repeated characters
            let cs: Vec<char> = "!?;:,.()[]{}<>-=~|_@#$%^&*+/\\\u{a1}\u{bf}\u{a7}\u{b6}\u{2020}\u{2021}\u{2022}\u{2026}\u{2030}\u{a9}\u{ae}\u{2122}\u{b1}\u{d7}\u{f7} abc 123".chars().collect();
            (0..rng.range(1, 900)).map(|_| *rng.pick(&cs)).collect()
        }
        8 => {
            // control characters and the two exempt ones (0x1A, U+FEFF)
            let cs: Vec<char> = "\u{0}\u{1}\u{7}\u{8}\u{1a}\u{1b}\u{7f}\u{80}\u{9f}\u{feff}ab \n\t".chars().collect();
            (0..rng.range(1, 300)).map(|_| *rng.pick(&cs)).collect()
        }
        9 => {
            // two scripts interleaved character by character (suspicious successive ranges)
            let a: Vec<char> = rng.pick(&corpus.texts).chars().filter(|c| !c.is_ascii()).take(300).collect();
            let b: Vec<char> = rng.pick(&corpus.texts).chars().filter(|c| !c.is_ascii()).take(300).collect();
            let mut s = String::new();
            for i in 0..rng.range(1, 300) { if let Some(c) = a.get(i) { s.push(*c); } if let Some(c) = b.get(i) { s.push(*c); } if i % 7 == 6 { s.push(' '); } }
            s
        }
        _ => rng.pick(&corpus.texts).chars().skip(rng.below(200)).take(rng.range(1, 512)).collect(),
    }
}

pub fn run(seed: u64, n: usize, driver: &str, out: &str) -> serde_json::Value {
    let corpus = load_corpus();
    let mut rng = Rng::new(seed);
    let mut drv = Driver::start(driver);
    let mut diffs = vec![];
    let mut violations = vec![];
    let mut samples = vec![];
    let mut evals = 0u64;
    let mut nontrivial = 0u64;
    // 0. the literals
    let k = drv.decode_model("MDK");
    let want = format!("R {} {} {} {} {}", fbits(0.3f32), fbits(0.35f32), fbits(0.34f32), fbits(2.0f32), fbits(8.0f32));
    if k != want {
        diffs.push(json!({"what": "binary32 literals of the Md model", "model": k, "expected": want}));
    }
    // 1. is_suspiciously_successive_range on every pair
    let names = hooks::unicode_range_names();
    let mut pairs = 0u64;
    let mut susp_true = 0u64;
    for a in std::iter::once(None).chain(names.iter().map(|x| Some(*x))) {
        let row = drv.decode_model(&format!("SUSPROW {}", a.map(|x| hex(x.as_bytes())).unwrap_or("-".into())));
        let row = row.strip_prefix("R ").unwrap_or("").as_bytes().to_vec();
        if row.len() != names.len() + 1 {
            diffs.push(json!({"what": "SUSPROW: model's range table has a different size", "a": a, "model_len": row.len(), "real_len": names.len() + 1}));
            continue;
        }
        for (j, b) in std::iter::once(None).chain(names.iter().map(|x| Some(*x))).enumerate() {
            pairs += 1;
            let real = hooks::is_suspiciously_successive_range(a, b);
            susp_true += real as u64;
            if real != (row[j] == b'1') {
                diffs.push(json!({"what": "is_suspiciously_successive_range", "a": a, "b": b, "real": real, "model": row[j] == b'1'}));
            }
            // symmetric by construction of the rule; an order-dependent answer would be a C03-style defect
            if real != hooks::is_suspiciously_successive_range(b, a) {
                violations.push(json!({"prop": "C03", "what": format!("is_suspiciously_successive_range({:?}, {:?}) differs from the swapped call", a, b), "known": null, "case": {"a": a, "b": b}}));
            }
        }
    }
    evals += pairs;
    // 2. mess_ratio
    let thrs = [0.0f32, 0.05, 0.1, 0.2, 0.2, 0.2, 0.3, 0.5, 1.0, 10.0];
    let mut early = 0u64;
    for i in 0..n {
        let t = gen_text(&mut rng, &corpus);
        let thr = *rng.pick(&thrs);
        evals += 1;
        let real = hooks::mess_ratio_no_cache(t.clone(), Some(thr));
        let full = hooks::mess_ratio_no_cache(t.clone(), Some(f32::INFINITY));
        if fbits(real) != fbits(full) { early += 1; }
        if real > 0.0 { nontrivial += 1; }
        if real.is_nan() || real < 0.0 {
            violations.push(json!({"prop": "C04", "what": format!("mess_ratio returned {} (MessOK: non-NaN, non-negative)", real), "known": null,
                "case": {"text_hex": hex(t.as_bytes()), "threshold_bits": fbits(thr)}}));
        }
        let model = drv.decode_model(&format!("MESSM {} {}", hex(t.as_bytes()), fbits(thr)));
        // (MESSM answers "R bits" then END; decode_model reads one line, drain the END)
        let _ = drv.decode_model_drain();
        let want = format!("R {}", fbits(real));
        if model != want {
            diffs.push(json!({"what": "mess_ratio", "text_hex": hex(t.as_bytes()), "chars": t.chars().count(), "threshold_bits": fbits(thr), "real": want, "model": model}));
        }
        if samples.len() < 4 && i % 37 == 5 {
            samples.push(json!({"text_head": t.chars().take(40).collect::<String>(), "chars": t.chars().count(), "threshold": thr, "mess": real}));
        }
    }
    let rep = json!({"level": "md", "seed": seed, "evaluations": evals, "distinct_nontrivial": nontrivial, "range_pairs": pairs, "suspicious_pairs": susp_true,
        "texts": n, "early_exits": early, "oracle_queries": drv.query_kinds, "disagreements": diffs, "violations": violations, "samples": samples});
    std::fs::write(out, serde_json::to_string_pretty(&rep).unwrap()).expect("write");
    rep
}
