//! CLI-level correspondence and search (C14, C15, C16): the built `normalizer` binary in scratch
//! directories against Model/Cli.v (whose library oracle is served by the in-process library), and the
//! property statements checked directly on directory snapshots, exit status and the JSON report.
use crate::gen::*;
use crate::oracle::Driver;
use crate::sig::*;
use crate::util::*;
use charset_normalizer_rs::entity::NormalizerSettings;
use ordered_float::OrderedFloat;
use serde_json::json;
use std::collections::BTreeMap;
use std::path::{Path, PathBuf};
use std::process::{Command, Stdio};

fn snapshot(dir: &Path) -> BTreeMap<String, Option<Vec<u8>>> {
    let mut m = BTreeMap::new();
    if let Ok(rd) = std::fs::read_dir(dir) {
        for e in rd.flatten() {
            let p = e.path();
            let k = p.to_string_lossy().to_string();
            if p.is_dir() {
                m.insert(k, None);
            } else {
                m.insert(k, std::fs::read(&p).ok());
            }
        }
    }
    m
}

struct Flags {
    normalize: bool,
    replace: bool,
    force: bool,
    minimal: bool,
    alternatives: bool,
    threshold: Option<f32>,
}

fn fmt1(bits: &str) -> String {
    match bits.parse::<u32>() {
        Ok(b) => format!("{:.1}", f32::from_bits(b)),
        Err(_) => "?".into(),
    }
}

pub fn run(seed: u64, n: usize, bin: &str, scratch: &str, driver: &str, out: &str) -> serde_json::Value {
    let corpus = load_corpus();
    let mut rng = Rng::new(seed);
    let mut drv = Driver::start(driver);
    let mut diffs = vec![];
    let mut violations = vec![];
    let mut samples = vec![];
    let mut evals = 0u64;
    let mut nontrivial = 0u64;
    let mut kinds: BTreeMap<String, u64> = BTreeMap::new();
    let root = PathBuf::from(scratch);
    let _ = std::fs::remove_dir_all(&root);
    std::fs::create_dir_all(&root).expect("scratch");
    let root = std::fs::canonicalize(&root).expect("canonical scratch");
    let names = ["a.txt", "b", "notes.final.txt", "c.windows-1251.txt", "data.csv", "x.y.z", "README", "d.txt"];
    // short legacy texts whose result list holds a NON-TRANSITIVE chain of the ranking order: a later match is pairwise
    // preferred to the first one (chaos within 1%, coherences 0.02-close pairwise but not overall).  Found by screening
    // word-aligned corpus phrases with the library's public API; "best guess" and "first match" must still coincide
    let mut chain_inputs: Vec<Vec<u8>> = vec![];
    {
        let s0 = NormalizerSettings::default();
        let mut tries = 0;
        while chain_inputs.len() < 3 && tries < 2500 {
            tries += 1;
            let t = rng.pick(&corpus.texts);
            let words: Vec<&str> = t.split_whitespace().collect();
            if words.len() < 6 { continue; }
            let st = rng.below(words.len() - 5);
            let n = rng.range(4, 12).min(words.len() - st);
            let phrase = words[st..st + n].join(" ");
            let enc = *rng.pick(&["iso-8859-2", "iso-8859-1", "windows-1250", "windows-1252", "iso-8859-15", "iso-8859-7", "windows-1251"]);
            let b = match encode_text(&phrase, enc) { Some(b) if b.iter().any(|x| *x >= 0x80) => b, _ => continue };
            if let Outcome::Ok(ms) = run_real(&b, &s0) {
                if ms.len() >= 3 && ms.iter().skip(1).any(|m| m < &ms[0]) {
                    chain_inputs.push(b);
                }
            }
        }
    }
    for k in 0..n {
        let dir = root.join(format!("case{}", k));
        std::fs::create_dir_all(&dir).unwrap();
        // ---- files ----
        let nfiles = if (1..=7).contains(&k) { 1 } else if k == 9 { 1 } else if k == 10 { 2 } else { match rng.below(4) { 0 => 1, 1 => 1, 2 => 2, _ => 3 } };
        let mut inputs: Vec<String> = vec![];
        let mut used: Vec<&str> = vec![];
        for _ in 0..nfiles {
            let name = loop {
                let c = *rng.pick(&names);
                if !used.contains(&c) {
                    break c;
                }
            };
            used.push(name);
            let content: Vec<u8> = match if k == 1 { 100 } else if k == 2 { 101 } else if k == 3 { 102 } else if (4..7).contains(&k) && k - 4 < chain_inputs.len() { 103 } else if k == 7 { 104 } else { rng.below(10) } {
                103 => chain_inputs[k - 4].clone(),
                // a multi-byte legacy file above 1 MB (normalise): the text written is the strict decode of the whole file
                104 => { let n = 1_020_000 + rng.below(60_000); multibyte_text(&mut rng, &corpus, n, *["shift_jis", "big5", "gb18030"].get(seed as usize % 3).unwrap_or(&"big5")) }
                // sizes around the library's limits: above the 500,000-byte prefix limit (whole-input strict decoding still
                // applies), and above 1,000,000 bytes (lazy mode) -- legacy text, and ASCII that turns into legacy text
                100 => { let n = 500_001 + rng.below(400_000); legacy_text(&mut rng, &corpus, n).0 }
                101 => {
                    let n = 500_000 + rng.below(150_000);
                    let mut b = ascii_text(&mut rng, n);
                    let n2 = 1_050_000 - b.len() + rng.below(100_000);
                    // Cyrillic in windows-1251: its letters include bytes that several Latin code pages probed earlier do not define
                    let tail = legacy_text_in(&mut rng, &corpus, n2, "windows-1251").0;
                    b.extend_from_slice(&tail);
                    b
                }
                102 => { let n = 1_000_001 + rng.below(100_000); legacy_text(&mut rng, &corpus, n).0 }
                0 => vec![],
                9 => {
                    // gb18030 with its 4-byte signature and mostly ASCII text: the UTF-8 form is SHORTER than the file
                    let mut b = b"\x84\x31\x95\x33".to_vec();
                    b.extend_from_slice(&ascii_text(&mut rng, 150));
                    b.extend_from_slice(&encode_text("\u{4f60}\u{597d}\u{4e16}\u{754c} \u{8fd9}\u{662f}\u{4e00}\u{4e2a}\u{6d4b}\u{8bd5}\u{6587}\u{4ef6}", "gb18030").unwrap_or_default());
                    b
                }
                1 => ascii_text(&mut rng, 200),
                2 => (0..rng.range(10, 300)).map(|_| rng.below(256) as u8).collect(),
                3 => {
                    let t = rng.pick(&corpus.texts);
                    let t: String = t.chars().take(rng.range(20, 800)).collect();
                    t.into_bytes()
                }
                4 => {
                    let mut b = b"\xef\xbb\xbf".to_vec();
                    b.extend_from_slice(rng.pick(&corpus.texts).chars().take(200).collect::<String>().as_bytes());
                    b
                }
                _ => {
                    let t = rng.pick(&corpus.texts);
                    let t: String = t.chars().skip(rng.below(100)).take(rng.range(20, 1200)).collect();
                    let enc = *rng.pick(&["windows-1251", "windows-1252", "koi8-r", "iso-8859-7", "big5", "shift_jis", "euc-kr", "windows-1256", "iso-8859-2", "gb18030"]);
                    encode_text(&t, enc).filter(|b| !b.is_empty()).unwrap_or_else(|| t.into_bytes())
                }
            };
            let p = dir.join(name);
            std::fs::write(&p, &content).unwrap();
            inputs.push(p.to_string_lossy().to_string());
        }
        // sometimes an input whose name is the sibling name of another input
        let special = (1..=7).contains(&k);
        if (!special && rng.chance(1, 9)) || k == 8 {
            let t: String = rng.pick(&corpus.texts).chars().take(300).collect();
            let ru = "\u{41f}\u{440}\u{438}\u{432}\u{435}\u{442}, \u{43c}\u{438}\u{440}! \u{42d}\u{442}\u{43e} \u{43f}\u{440}\u{43e}\u{441}\u{442}\u{43e}\u{439} \u{440}\u{443}\u{441}\u{441}\u{43a}\u{438}\u{439} \u{442}\u{435}\u{43a}\u{441}\u{442} \u{434}\u{43b}\u{44f} \u{43f}\u{440}\u{43e}\u{432}\u{435}\u{440}\u{43a}\u{438} \u{43a}\u{43e}\u{434}\u{438}\u{440}\u{43e}\u{432}\u{43a}\u{438}. ".repeat(4);
            let body = encode_text(&ru, "windows-1251").unwrap_or_default();
            let _ = t;
            let p1 = dir.join("e.txt");
            std::fs::write(&p1, &body).unwrap();
            // its sibling name under the encoding the library will pick
            let s0 = NormalizerSettings::default();
            if let Outcome::Ok(ms) = run_real(&body, &s0) {
                if let Some(b) = ms.get_best() {
                    let p2 = PathBuf::from(sibling(&p1.to_string_lossy(), b.encoding()));
                    std::fs::write(&p2, ascii_text(&mut rng, 120)).unwrap();
                    if rng.chance(1, 2) {
                        inputs.push(p1.to_string_lossy().to_string());
                        inputs.push(p2.to_string_lossy().to_string());
                    } else {
                        inputs.push(p2.to_string_lossy().to_string());
                        inputs.push(p1.to_string_lossy().to_string());
                    }
                }
            }
        }
        // sometimes the sibling the tool is going to write already exists and is LONGER than what will be written
        // (an earlier run on a longer version of the input)
        if !special && rng.chance(1, 3) {
            let s0 = NormalizerSettings::default();
            for p in inputs.clone() {
                if let Ok(body) = std::fs::read(&p) {
                    if let Outcome::Ok(ms) = run_real(&body, &s0) {
                        if let Some(b) = ms.get_best() {
                            let sp = sibling(&p, b.encoding());
                            if !inputs.contains(&sp) && !Path::new(&sp).exists() {
                                let mut old = b.decoded_payload().unwrap_or("").as_bytes().to_vec();
                                old.extend_from_slice(&ascii_text(&mut rng, 400));
                                std::fs::write(&sp, old).unwrap();
                            }
                        }
                    }
                }
            }
        }
        // sometimes a pre-existing sibling, a directory, or a missing input
        let mut missing = false;
        if k == 9 || k == 10 {
            // a missing input AFTER readable ones (k = 9: --minimal, k = 10: plain report)
            inputs.push(dir.join("missing.txt").to_string_lossy().to_string());
            missing = true;
        }
        match if special || (8..=10).contains(&k) { 7 } else { rng.below(8) } {
            0 => {
                std::fs::write(dir.join("a.windows-1251.txt"), b"existing sibling").unwrap();
            }
            1 => {
                std::fs::create_dir_all(dir.join("subdir")).unwrap();
                if rng.chance(1, 2) {
                    inputs.push(dir.join("subdir").to_string_lossy().to_string());
                }
            }
            2 => {
                inputs.insert(rng.below(inputs.len() + 1), dir.join("missing.txt").to_string_lossy().to_string());
                missing = true;
            }
            _ => {}
        }
        // ---- flags ----
        let fl = match if k == 1 || k == 3 || k == 7 || k == 8 { 3 } else if k == 2 || k == 4 || k == 10 { 9 } else if k == 5 || k == 9 { 7 } else if k == 6 { 3 } else { rng.below(10) } {
            0 => Flags { normalize: false, replace: true, force: false, minimal: false, alternatives: false, threshold: None },
            1 => Flags { normalize: true, replace: false, force: true, minimal: false, alternatives: false, threshold: None },
            2 => Flags { normalize: false, replace: false, force: false, minimal: false, alternatives: false, threshold: Some(*rng.pick(&[1.5f32, -0.25, 2.0])) },
            3 | 4 => Flags { normalize: true, replace: false, force: false, minimal: rng.chance(1, 3), alternatives: rng.chance(1, 3), threshold: None },
            5 => Flags { normalize: true, replace: true, force: true, minimal: false, alternatives: false, threshold: None },
            6 => Flags { normalize: true, replace: true, force: false, minimal: false, alternatives: false, threshold: None },
            7 => Flags { normalize: false, replace: false, force: false, minimal: true, alternatives: rng.chance(1, 2), threshold: None },
            8 => Flags { normalize: false, replace: false, force: false, minimal: false, alternatives: true, threshold: Some(*rng.pick(&[0.0f32, 0.1, 0.5, 1.0])) },
            _ => Flags { normalize: false, replace: false, force: false, minimal: false, alternatives: false, threshold: None },
        };
        let kind = format!("n{}r{}f{}m{}a{}t{}{}", fl.normalize as u8, fl.replace as u8, fl.force as u8, fl.minimal as u8, fl.alternatives as u8,
            fl.threshold.map(|t| format!("{}", t)).unwrap_or("-".into()), if missing { "+missing" } else { "" });
        *kinds.entry(kind.clone()).or_insert(0) += 1;
        let mut args: Vec<String> = vec![];
        if fl.normalize { args.push("-n".into()); }
        if fl.replace { args.push("-r".into()); }
        if fl.force { args.push("-f".into()); }
        if fl.minimal { args.push("-m".into()); }
        if fl.alternatives { args.push("-a".into()); }
        if let Some(t) = fl.threshold { args.push(format!("--threshold={}", t)); }
        args.extend(inputs.iter().cloned());
        // one invocation in four (and the fixed collision case) spells its inputs RELATIVE to the case directory --
        // "name", "./name", "sub/../name" -- and runs there: what is compared with what must not depend on the spelling
        let relative = k == 8 || (!special && rng.chance(1, 4));
        if relative {
            let _ = std::fs::create_dir_all(dir.join("sub"));
            let dprefix = format!("{}/", dir.to_string_lossy());
            for a in args.iter_mut() {
                if let Some(rest) = a.strip_prefix(&dprefix) {
                    if !rest.contains('/') {
                        *a = match rng.below(3) { 0 => rest.to_string(), 1 => format!("./{}", rest), _ => format!("sub/../{}", rest) };
                    }
                }
            }
        }
        let before = snapshot(&dir);
        let outp = if relative { Command::new(bin).args(&args).current_dir(&dir).stdin(Stdio::null()).output() } else { Command::new(bin).args(&args).stdin(Stdio::null()).output() };
        let outp = match outp {
            Ok(o) => o,
            Err(e) => {
                diffs.push(json!({"what": format!("cannot run the normalizer binary: {}", e)}));
                break;
            }
        };
        let after = snapshot(&dir);
        evals += 1;
        let status = outp.status.code().unwrap_or(-1);
        let stdout = String::from_utf8_lossy(&outp.stdout).to_string();
        let thr = fl.threshold.unwrap_or(0.2);
        // ---- model ----
        let flags_s = format!("{} {} {} {} {} {}", fl.normalize as u8, fl.replace as u8, fl.force as u8, fl.minimal as u8, fl.alternatives as u8, fbits(thr));
        let files: Vec<(String, Option<Vec<u8>>)> = before.iter().map(|(k, v)| (k.clone(), v.clone())).collect();
        let model = drv.cli_model(&flags_s, &files, &inputs);
        let m_status: i32 = model.iter().find_map(|l| l.strip_prefix("ST ").and_then(|x| x.parse().ok())).unwrap_or(-2);
        let mut m_writes: BTreeMap<String, Vec<u8>> = BTreeMap::new();
        for l in &model {
            if let Some(r) = l.strip_prefix("W ") {
                let (p, c) = r.split_once(' ').unwrap();
                let (pp, cc) = (String::from_utf8(unhex(p)).unwrap(), unhex(c));
                // a write of identical content is not observable in a snapshot
                if before.get(&pp) == Some(&Some(cc.clone())) {
                    m_writes.remove(&pp);
                } else {
                    m_writes.insert(pp, cc);
                }
            }
        }
        let mut r_writes: BTreeMap<String, Vec<u8>> = BTreeMap::new();
        for (p, c) in &after {
            if before.get(p) != Some(c) {
                if let Some(b) = c {
                    r_writes.insert(p.clone(), b.clone());
                }
            }
        }
        let case = json!({"dir_files": files.iter().map(|(p, c)| json!({"path": p, "len": c.as_ref().map(|b| b.len()), "bytes": c.as_ref().map(|b| short(b, 40))})).collect::<Vec<_>>(),
                          "args": args, "status": status});
        let full_case = || {
            let mut c = case.clone();
            c["files_hex"] = json!(files.iter().map(|(p, c)| json!({"path": p, "bytes_hex": c.as_ref().map(|b| hex(b))})).collect::<Vec<_>>());
            c
        };
        if status != m_status {
            diffs.push(json!({"what": "exit status", "real": status, "model": m_status, "case": case, "stderr": String::from_utf8_lossy(&outp.stderr).chars().take(300).collect::<String>()}));
        }
        if r_writes != m_writes {
            diffs.push(json!({"what": "files written", "real": r_writes.iter().map(|(p, c)| (p.clone(), short(c, 40))).collect::<Vec<_>>(),
                "model": m_writes.iter().map(|(p, c)| (p.clone(), short(c, 40))).collect::<Vec<_>>(), "case": case}));
        }
        // report
        let rep_kind = model.iter().find(|l| l.starts_with("REP ")).cloned().unwrap_or_default();
        let m_recs: Vec<Vec<String>> = model.iter().filter_map(|l| l.strip_prefix("REC ").map(|r| r.split(' ').map(|x| x.to_string()).collect())).collect();
        let unh = |h: &str| -> String { String::from_utf8(unhex(h)).unwrap_or_default() };
        let list = |h: &str| -> Vec<String> { if h == "-" { vec![] } else { h.split(',').map(|x| unh(x)).collect() } };
        if rep_kind == "REP NONE" {
            if !stdout.trim().is_empty() {
                diffs.push(json!({"what": "model prints no report but stdout is not empty", "stdout": stdout.chars().take(200).collect::<String>(), "case": case}));
            }
        } else if rep_kind == "REP MIN" {
            let m_lines: Vec<String> = model.iter().filter_map(|l| l.strip_prefix("L ").map(|r| if r == "-" { String::new() } else { r.split(',').map(|e| if e == "NONE" { "undefined".to_string() } else { unh(e) }).collect::<Vec<_>>().join(", ") })).collect();
            let r_lines: Vec<String> = stdout.lines().map(|x| x.to_string()).collect();
            if m_lines != r_lines {
                diffs.push(json!({"what": "minimal output", "real": r_lines, "model": m_lines, "case": case}));
            }
        } else {
            match serde_json::from_str::<serde_json::Value>(&stdout) {
                Err(e) => diffs.push(json!({"what": format!("stdout is not JSON: {}", e), "stdout": stdout.chars().take(200).collect::<String>(), "case": case})),
                Ok(v) => {
                    let want_obj = rep_kind == "REP OBJ";
                    if v.is_object() != want_obj {
                        diffs.push(json!({"what": "JSON top level: object vs array", "model": rep_kind, "case": case}));
                    }
                    let recs: Vec<serde_json::Value> = if v.is_array() { v.as_array().unwrap().clone() } else { vec![v] };
                    if recs.len() != m_recs.len() {
                        diffs.push(json!({"what": "number of records", "real": recs.len(), "model": m_recs.len(), "case": case}));
                        // the expected records are the library's own answers laid out by Cli.report: a different COUNT (or an array
                        // where one object is due) is a report that does not agree with the library
                        violations.push(json!({"prop": "C16", "what": format!("the report holds {} record(s) ({}) where the library's result for these inputs gives {} ({})", recs.len(),
                            if want_obj != recs.len().eq(&1) || true { if recs.len() == 1 { "object" } else { "array" } } else { "" }, m_recs.len(), rep_kind),
                            "known": null, "case": full_case()}));
                    } else {
                        for (r, m) in recs.iter().zip(m_recs.iter()) {
                            // REC path enc aliases alts lang alphabets bom chaos coh upath
                            let exp = json!({
                                "path": unh(&m[0]),
                                "encoding": if m[1] == "NONE" { serde_json::Value::Null } else { json!(unh(&m[1])) },
                                "encoding_aliases": list(&m[2]), "alternative_encodings": list(&m[3]), "language": m[4], "alphabets": list(&m[5]),
                                "has_sig_or_bom": m[6] == "1",
                                "chaos": if m[7] == "NONE" { "1.0".to_string() } else { fmt1(&m[7]) },
                                "coherence": if m[8] == "NONE" { "0.0".to_string() } else { fmt1(&m[8]) },
                                "unicode_path": if m[9] == "NONE" { serde_json::Value::Null } else { json!(unh(&m[9])) },
                                "is_preferred": true});
                            if *r != exp {
                                diffs.push(json!({"what": "report record", "real": r, "model": exp, "case": case}));
                                // the expected record is the library's own answer for this file and threshold (Q LIB), laid out by
                                // Cli.report (CliFacts.report_records_from_library): a difference in one of the fields C16 names is a violation
                                let set = |v: &serde_json::Value| -> std::collections::BTreeSet<String> { v.as_array().map(|a| a.iter().map(|x| x.to_string()).collect()).unwrap_or_default() };
                                let num = |v: &serde_json::Value| -> f64 { v.as_str().and_then(|x| x.parse::<f64>().ok()).or(v.as_f64()).unwrap_or(f64::NAN) };
                                let mut bad_fields = vec![];
                                for f in ["encoding", "language", "has_sig_or_bom"] {
                                    if r.get(f) != exp.get(f) { bad_fields.push(f); }
                                }
                                for f in ["encoding_aliases", "alternative_encodings", "alphabets"] {
                                    if r.get(f).map(&set) != exp.get(f).map(&set) { bad_fields.push(f); }
                                }
                                for f in ["chaos", "coherence"] {
                                    let (a, b) = (num(r.get(f).unwrap_or(&serde_json::Value::Null)), num(exp.get(f).unwrap_or(&serde_json::Value::Null)));
                                    if !((a - b).abs() <= 0.051) { bad_fields.push(f); }
                                }
                                if !bad_fields.is_empty() {
                                    violations.push(json!({"prop": "C16", "what": format!("report for {} disagrees with the library's result in: {}", unh(&m[0]), bad_fields.join(", ")),
                                        "known": null, "real": r, "library": exp, "case": full_case()}));
                                }
                            }
                        }
                    }
                }
            }
        }
        // ---- the properties, directly ----
        let bad = (fl.replace && !fl.normalize) || (!fl.replace && fl.force) || !(0.0..=1.0).contains(&thr);
        if bad && (status == 0 || !stdout.trim().is_empty() || before != after) {
            violations.push(json!({"prop": "C16", "what": "a contradictory / out-of-range invocation was not rejected cleanly (status, stdout or files)", "known": null, "case": full_case()}));
        }
        if !fl.normalize && before != after {
            violations.push(json!({"prop": "C15", "what": "files changed although --normalize was not given", "known": null, "case": full_case()}));
        }
        if missing && !bad && (status == 0 || !stdout.trim().is_empty()) {
            violations.push(json!({"prop": "C16", "what": "a missing input did not give a non-zero status and an empty stdout", "known": null, "case": full_case()}));
        }
        let readable = !missing && inputs.iter().all(|p| Path::new(p).is_file());
        if !bad && readable {
            nontrivial += 1;
            if status != 0 {
                violations.push(json!({"prop": "C16", "what": format!("readable inputs but exit status {}: {}", status, String::from_utf8_lossy(&outp.stderr).chars().take(200).collect::<String>()), "known": null, "case": full_case()}));
            }
            // library view of every input (as it was before the run)
            let settings = NormalizerSettings { threshold: OrderedFloat(thr), ..Default::default() };
            for p in &inputs {
                let content = before.get(p).cloned().flatten().unwrap_or_default();
                let lib = run_real(&content, &settings);
                // the text a normalised file must hold: the codec crate's own strict decode of the ORIGINAL bytes under the
                // detected encoding, minus that encoding's mark (independent of what the library says it decoded)
                let best = match &lib { Outcome::Ok(ms) => ms.get_best().map(|b| {
                    let enc = b.encoding().to_string();
                    let reference = encoding::label::encoding_from_whatwg_label(&enc)
                        .and_then(|c| c.decode(crate::props::strip_mark(&content, &enc), encoding::DecoderTrap::Strict).ok());
                    if reference.as_deref() != b.decoded_payload() && !enc.starts_with("utf") && fl.normalize {
                        violations.push(json!({"prop": "C15", "what": format!("the text the library hands to the normaliser for {} ({}) is not the strict decode of the original ({} vs {:?} bytes)", p, enc,
                            b.decoded_payload().map(|t| t.len()).unwrap_or(0), reference.as_ref().map(|t| t.len())), "known": null, "case": case.clone()}));
                    }
                    (enc, reference.or(b.decoded_payload().map(|t| t.to_string())))
                }), _ => None };
                if fl.normalize && !fl.replace {
                    // non-destructive: the input keeps its bytes unless its own path is some other input's sibling (known class D5)
                    if after.get(p) != before.get(p) {
                        let collides = inputs.iter().any(|q| {
                            q != p && {
                                let c = before.get(q).cloned().flatten().unwrap_or_default();
                                match run_real(&c, &settings) { Outcome::Ok(ms) => ms.get_best().map(|b| sibling(q, b.encoding()) == *p).unwrap_or(false), _ => false }
                            }
                        });
                        violations.push(json!({"prop": "C15", "what": format!("input {} was modified by --normalize without --replace", p),
                            "known": if collides { json!("D5-sibling-is-an-input") } else { serde_json::Value::Null }, "case": full_case()}));
                    }
                    if let Some((enc, Some(text))) = &best {
                        let sib = sibling(p, enc);
                        if !enc.starts_with("utf") {
                            if after.get(&sib).cloned().flatten() != Some(text.as_bytes().to_vec()) && !inputs.contains(&sib) {
                                violations.push(json!({"prop": "C15", "what": format!("sibling {} missing or not the UTF-8 form of the decoded input", sib), "known": null, "case": full_case()}));
                            }
                        } else if after.get(&sib) != before.get(&sib) {
                            violations.push(json!({"prop": "C15", "what": format!("input detected as {} but a sibling was written", enc), "known": null, "case": full_case()}));
                        }
                    }
                }
                if fl.normalize && fl.replace && fl.force {
                    if let Some((enc, Some(text))) = &best {
                        if !enc.starts_with("utf") && after.get(p).cloned().flatten() != Some(text.as_bytes().to_vec()) {
                            violations.push(json!({"prop": "C15", "what": format!("--replace --force did not overwrite {} with the decoded text", p), "known": null, "case": full_case()}));
                        }
                    }
                }
            }
            // nothing else appears
            let allowed: Vec<String> = inputs.iter().flat_map(|p| {
                let content = before.get(p).cloned().flatten().unwrap_or_default();
                match run_real(&content, &settings) { Outcome::Ok(ms) => ms.get_best().map(|b| vec![sibling(p, b.encoding()), p.clone()]).unwrap_or_default(), _ => vec![] }
            }).collect();
            for (p, c) in &after {
                if before.get(p) != Some(c) && !allowed.contains(p) {
                    violations.push(json!({"prop": "C15", "what": format!("unexpected file change: {}", p), "known": null, "case": full_case()}));
                }
            }
        }
        if samples.len() < 4 && k % 11 == 3 {
            samples.push(json!({"args": args.iter().map(|a| a.replace(&root.to_string_lossy().to_string(), "<scratch>")).collect::<Vec<_>>(), "status": status, "stdout_head": stdout.chars().take(120).collect::<String>()}));
        }
        let _ = std::fs::remove_dir_all(&dir);
    }
    let _ = std::fs::remove_dir_all(&root);
    let rep = json!({"level": "cli", "seed": seed, "evaluations": evals, "distinct_nontrivial": nontrivial, "kinds": kinds,
        "disagreements": diffs, "violations": violations, "samples": samples});
    std::fs::write(out, serde_json::to_string_pretty(&rep).unwrap()).expect("write");
    rep
}

pub fn sibling(p: &str, enc: &str) -> String {
    let path = Path::new(p);
    let name = path.file_name().unwrap().to_string_lossy().to_string();
    let newname = match name.rsplit_once('.') {
        None => format!("{}.{}", name, enc),
        Some((a, b)) => format!("{}.{}.{}", a, enc, b),
    };
    path.with_file_name(newname).to_string_lossy().to_string()
}
