//! Orchestrator-level correspondence: real from_bytes vs the extracted Coq model whose oracles
//! are served by the real primitives; plus the implementation-side property searches.
use crate::gen::*;
use crate::oracle::Driver;
use crate::props::*;
use crate::sig::*;
use crate::util::*;
use charset_normalizer_rs::entity::NormalizerSettings;
use serde_json::json;
use std::collections::BTreeMap;

pub struct DetectOpts {
    pub seed: u64,
    pub n: usize,
    pub max_len: usize,
    pub big: usize,
    pub mid: usize,
    pub driver: String,
    pub focus: String,
    pub out: String,
    pub replay: Option<String>,
    pub full_every: usize,
}

fn case_json(kind: &str, bytes: &[u8], s: &NormalizerSettings) -> serde_json::Value {
    json!({"kind": kind, "len": bytes.len(), "bytes_hex": hex(bytes), "settings": settings_json(s)})
}

fn branch_tags(lines: &[String], bytes: &[u8], s: &NormalizerSettings) -> Vec<String> {
    let mut t = vec![];
    let first = lines.first().cloned().unwrap_or_default();
    if first.starts_with("R ERR") {
        t.push("err".to_string());
    } else if first.starts_with("R PANIC") {
        t.push("panic".to_string());
    } else {
        let n: usize = first.split(' ').nth(2).and_then(|x| x.parse().ok()).unwrap_or(0);
        t.push(match n {
            0 => "no-match".to_string(),
            1 => "single".to_string(),
            2..=5 => "few".to_string(),
            _ => "many".to_string(),
        });
        if lines.iter().any(|l| l.starts_with("S ")) {
            t.push("with-alternatives".into());
        }
    }
    if bytes.len() <= s.steps.saturating_mul(s.chunk_size) {
        t.push("fits-window".into());
    } else {
        t.push("sampled".into());
    }
    if bytes.len() > charset_normalizer_rs::consts::TOO_BIG_SEQUENCE {
        t.push("lazy".into());
    }
    t
}

fn match_count(lines: &[String]) -> usize {
    lines.iter().filter(|l| l.starts_with("M ")).count()
}

fn blocks(lines: &[String]) -> Vec<Vec<String>> {
    let mut out: Vec<Vec<String>> = vec![];
    for l in lines.iter().skip(1) {
        if l.starts_with("M ") || out.is_empty() {
            out.push(vec![]);
        }
        out.last_mut().unwrap().push(l.clone());
    }
    out.sort();
    out
}

/// special hand-made cases that run first (minimised past disagreements and witnesses)
pub fn fixed_cases() -> Vec<Case> {
    let d = default_settings();
    let mut v = vec![];
    let mut push = |kind: &str, bytes: Vec<u8>, s: NormalizerSettings| {
        v.push(Case { kind: kind.to_string(), bytes, settings: s })
    };
    push("fixed-ascii", b"hello world, plain ascii text".to_vec(), d.clone());
    push("fixed-utf8", "h\u{e9}llo w\u{f6}rld, \u{4f60}\u{597d} \u{43f}\u{440}\u{438}\u{432}\u{435}\u{442}".as_bytes().to_vec(), d.clone());
    push("fixed-bom-utf8", b"\xef\xbb\xbfhello".to_vec(), d.clone());
    push("fixed-bom-doubled", b"\xef\xbb\xbf\xef\xbb\xbfhello".to_vec(), d.clone());
    push("fixed-bom-only", b"\xef\xbb\xbf".to_vec(), d.clone());
    // a mark, the same mark again as CONTENT, then enough clean text for the marked encoding to be accepted:
    // the exposed text starts with U+FEFF (the second mark) -- for each of the four marks, also with a permissive threshold
    {
        let body = "Le c\u{153}ur a ses raisons que la raison ne conna\u{ee}t point. On le sait en mille choses; c'est le c\u{153}ur qui sent, et non la raison. \u{412}\u{441}\u{435} \u{441}\u{447}\u{430}\u{441}\u{442}\u{43b}\u{438}\u{432}\u{44b}\u{435} \u{441}\u{435}\u{43c}\u{44c}\u{438} \u{43f}\u{43e}\u{445}\u{43e}\u{436}\u{438} \u{434}\u{440}\u{443}\u{433} \u{43d}\u{430} \u{434}\u{440}\u{443}\u{433}\u{430}. ".repeat(3);
        for (enc, m) in marks() {
            let mut b = m.to_vec();
            b.extend_from_slice(m);
            b.extend_from_slice(&encode_text(&body, enc).unwrap_or_default());
            push("fixed-doubled-mark-text", b.clone(), d.clone());
            let mut s1 = d.clone();
            s1.threshold = ordered_float::OrderedFloat(1.0);
            push("fixed-doubled-mark-text-permissive", b, s1);
        }
    }
    push("fixed-utf16le", b"\xff\xfeh\x00i\x00".to_vec(), d.clone());
    push("fixed-utf16be-bad", b"\xfe\xff\x00".to_vec(), d.clone());
    push("fixed-gb18030-mark", b"\x84\x31\x95\x33abc".to_vec(), d.clone());
    push("fixed-one-byte", b"\xe9".to_vec(), d.clone());
    push("fixed-binary", vec![0u8, 159, 146, 150, 0, 1, 2, 255, 254, 253, 128, 129], d.clone());
    // D1 witness: 'ascii' with a high byte between the sampled windows
    let mut w = ascii_text(&mut Rng::new(7), 11000);
    w[1000] = 0xe9;
    push("fixed-d1-witness", w, d.clone());
    let mut s = d.clone();
    s.steps = 2;
    s.chunk_size = 2;
    push("fixed-d1-small", b"ab cd ef\xe9gh ij kl".to_vec(), s);
    let mut s = d.clone();
    s.include_encodings = vec!["Latin1".into(), " UTF8 ".into()];
    push("fixed-include-labels", b"caf\xe9 au lait".to_vec(), s);
    let mut s = d.clone();
    s.exclude_encodings = vec!["nope".into()];
    push("fixed-bad-exclude", b"abc".to_vec(), s);
    let mut s = d.clone();
    s.steps = 0;
    push("fixed-steps-zero", b"abc def".to_vec(), s);
    let mut s = d.clone();
    s.threshold = ordered_float::OrderedFloat(0.0);
    push("fixed-threshold-zero", b"abc def ghi".to_vec(), s);
    let mut s = d.clone();
    s.enable_fallback = false;
    s.threshold = ordered_float::OrderedFloat(0.0);
    push("fixed-threshold-zero-nofb", b"abc def ghi".to_vec(), s);
    push("fixed-declared", b"<?xml version=\"1.0\" encoding=\"windows-1251\"?><a>\xcf\xf0\xe8\xe2\xe5\xf2 \xec\xe8\xf0</a>".to_vec(), d.clone());
    // a declaration naming an encoding the codec crate resolves but detection never probes (one case per such label)
    for l in unprobed_labels() {
        let mut b = format!("Content-Type: text/plain; charset={}\n\n", l).into_bytes();
        b.extend_from_slice(b"plain text after a declared but unprobed charset, with a few words more");
        push("fixed-declared-unprobed", b, d.clone());
    }
    // blank / whitespace-only filter entries are unknown labels: an error naming them, never silently dropped
    for blank in ["", " ", "\t"] {
        for side in 0..2 {
            let mut s = d.clone();
            if side == 0 { s.include_encodings = vec![blank.to_string()]; } else { s.exclude_encodings = vec!["utf-8".into(), blank.to_string()]; }
            push("fixed-blank-filter-entry", b"plain words, nothing else".to_vec(), s);
        }
    }
    // every proper prefix of every mark, and every mark followed by 0 / 1 byte, as the WHOLE input
    for (_, m) in marks() {
        for k in 1..=m.len() {
            push("fixed-mark-prefix", m[..k].to_vec(), d.clone());
        }
        let mut b = m.to_vec();
        b.push(b'a');
        push("fixed-mark-plus-one", b, d.clone());
    }
    // huge step counts with chunk size 0 / 1
    for (st, ch) in [(usize::MAX, 0usize), (usize::MAX / 2, 0), (usize::MAX, 1), (1usize << 62, 0)] {
        let mut s = d.clone();
        s.steps = st;
        s.chunk_size = ch;
        push("fixed-huge-steps", b"abc def ghi jkl".to_vec(), s);
    }
    {
        let mut s = d.clone();
        s.include_encodings = vec!["windows-1251".into(), "koi8-r".into()];
        s.exclude_encodings = vec!["cp1251".into(), "KOI8-R".into()];
        push("fixed-include-all-excluded", b"\xcf\xf0\xe8\xe2\xe5\xf2 \xec\xe8\xf0, \xea\xe0\xea \xe4\xe5\xeb\xe0 \xf3 \xf2\xe5\xe1\xff".to_vec(), s);
    }
    push("fixed-declared-wrong", b"<meta charset=utf-16le>\xcf\xf0\xe8\xe2\xe5\xf2 \xec\xe8\xf0, \xea\xe0\xea \xe4\xe5\xeb\xe0".to_vec(), d.clone());
    v
}

pub fn run(o: &DetectOpts) -> serde_json::Value {
    let corpus = load_corpus();
    let mut rng = Rng::new(o.seed);
    let mut drv = Driver::start(&o.driver);
    let mut cases: Vec<Case> = vec![];
    let mut replay_c13_texts: Vec<(String, NormalizerSettings, bool)> = vec![];
    if let Some(p) = &o.replay {
        let v: serde_json::Value = serde_json::from_str(&std::fs::read_to_string(p).expect("replay file")).expect("json");
        let items = if v.is_array() { v.as_array().unwrap().clone() } else { vec![v] };
        for it in items {
            let c = if it.get("case").is_some() { it["case"].clone() } else { it.clone() };
            if let Some(h) = c["bytes_hex"].as_str() {
                cases.push(Case { kind: "replay".into(), bytes: unhex(h), settings: settings_from_json(&c["settings"]) });
            } else if c["kind"].as_str() == Some("c13-text") {
                // one text in every round-tripping encoding, probed alone: same verdict and chaos
                let t = String::from_utf8(unhex(c["text_hex"].as_str().unwrap_or("-"))).unwrap_or_default();
                let s = settings_from_json(&c["settings"]);
                replay_c13_texts.push((t, s, c["with_bom"].as_bool().unwrap_or(false)));
            }
        }
    } else {
        cases.extend(fixed_cases());
        // minimised inputs of past disagreements / misses run first
        if let Ok(rd) = std::fs::read_dir("/verif/corpus/detect") {
            let mut ps: Vec<_> = rd.filter_map(|e| e.ok().map(|e| e.path())).collect();
            ps.sort();
            for p in ps {
                if let Ok(txt) = std::fs::read_to_string(&p) {
                    if let Ok(v) = serde_json::from_str::<serde_json::Value>(&txt) {
                        for it in v.as_array().cloned().unwrap_or_default() {
                            if let Some(h) = it["bytes_hex"].as_str() {
                                cases.push(Case { kind: format!("corpus:{}", p.file_stem().unwrap().to_string_lossy()), bytes: unhex(h), settings: settings_from_json(&it["settings"]) });
                            }
                        }
                    }
                }
            }
        }
        // corpus files themselves (default settings) -- a deterministic slice of them
        let stride = (corpus.files.len() / 24).max(1);
        for (i, f) in corpus.files.iter().enumerate() {
            if i % stride == (o.seed as usize) % stride && f.bytes.len() <= o.max_len.max(40000) && !f.bytes.is_empty() {
                cases.push(Case { kind: "corpus-file".into(), bytes: f.bytes.clone(), settings: default_settings() });
            }
        }
        while cases.len() < o.n {
            let mut c = gen_case(&mut rng, &corpus, o.max_len);
            if o.focus == "C09" && rng.chance(2, 3) {
                // similarity-heavy stream: single-byte word soups where similar code pages disagree
                for _ in 0..40 {
                    if c.kind.starts_with("highbyte-words") {
                        break;
                    }
                    c = gen_case(&mut rng, &corpus, o.max_len);
                }
                if rng.chance(1, 2) {
                    c.settings = default_settings();
                }
            }
            if (o.focus == "C09" || o.focus == "C13") && rng.chance(1, 6) {
                // a multi-byte candidate that is probed FIRST (declared), does not end detection (noisy: chaos above 10%), and whose
                // decoded text is SHORTER than the window steps*chunk_size while the bytes are longer: anything the first
                // candidate leaves behind (window parameters, counters) would then show in the candidates probed after it
                let st = rng.range(2, 8);
                let ch = rng.range(64, 512);
                let w = st * ch;
                let enc = *rng.pick(&["shift_jis", "euc-kr", "big5", "gbk", "euc-jp", "utf-8", "gb18030"]);
                let m = rng.range(40, 120).min(w / 3);
                let a = w.saturating_sub(m + rng.range(1, m.max(2)));
                let wide: Vec<char> = "\u{65e5}\u{672c}\u{8a9e}\u{306e}\u{30c6}\u{30ad}\u{30b9}\u{30c8}\u{d55c}\u{ad6d}\u{c5b4}\u{4e2d}\u{6587}\u{5b57}\u{7b26}\u{25a0}".chars().collect();
                let mut t = format!("<?xml version=\"1.0\" encoding=\"{}\"?>\n", enc);
                let words = ["the", "quick", "brown", "fox", "jumps", "over", "lazy", "dog", "feed", "entry", "title", "link"];
                while t.len() < a {
                    let wd: &str = *rng.pick(&words);
                    t.push_str(wd);
                    t.push(if rng.chance(1, 7) { '\u{1}' } else { ' ' });
                }
                t.truncate(a);
                for k in 0..m { t.push(*rng.pick(&wide)); if k % 9 == 8 { t.push(' '); } }
                if let Some(b) = encode_text(&t, enc) {
                    if b.len() > w {
                        c.bytes = b;
                        c.kind = "mb-first-short-text".into();
                        c.settings = default_settings();
                        c.settings.steps = st;
                        c.settings.chunk_size = ch;
                        c.settings.threshold = ordered_float::OrderedFloat(*rng.pick(&[0.2f32, 0.3, 0.5, 1.0]));
                    }
                }
            }
            if o.focus == "C05" && c.settings.include_encodings.is_empty() && c.settings.exclude_encodings.is_empty() {
                // filter-heavy stream: random labels in any spelling, sometimes an unknown one
                let n = rng.range(1, 8);
                for _ in 0..n {
                    let l = rng.pick(LABEL_POOL).to_string();
                    if rng.chance(2, 3) { c.settings.include_encodings.push(l) } else { c.settings.exclude_encodings.push(l) }
                }
                if rng.chance(1, 8) && !c.settings.include_encodings.is_empty() {
                    // every included encoding is excluded as well (in another spelling when there is one): nothing is allowed
                    let inc = c.settings.include_encodings.clone();
                    for l in inc {
                        let canon = charset_normalizer_rs::utils::iana_name(&l).map(|x| x.to_string()).unwrap_or(l.clone());
                        c.settings.exclude_encodings.push(if rng.chance(1, 2) { canon.to_uppercase() } else { format!(" {} ", l) });
                    }
                }
                if rng.chance(1, 5) {
                    let bad = rng.pick(BAD_LABELS).to_string();
                    if rng.chance(1, 2) { c.settings.include_encodings.push(bad) } else { c.settings.exclude_encodings.push(bad) }
                }
            }
            if ((o.focus == "C06" || o.focus == "C07" || o.focus == "C18" || o.focus == "C09" || o.focus == "C10") && rng.chance(1, 3)) || (o.focus != "C05" && o.focus != "E2E" && rng.chance(1, 9)) {
                // a hint whose own decoding is NOISY: chaos of the hinted encoding lands between 0 and the threshold, on
                // both sides of the 10% bound of the early exit.  Hint = BOM / signature (2 in 4), declaration (1 in 4), or
                // none (plain utf-8 / ascii); body = text valid in the hinted encoding with symbols, control characters or
                // console escapes injected at a random rate; thresholds up to 1.0 so that the noisy candidate is accepted.
                let ms = marks();
                let (menc, m): (&str, &[u8]) = match rng.below(4) { 0 | 1 => *rng.pick(&ms), 2 => ("decl", &[]), _ => ("utf-8", &[]) };
                let denc = *rng.pick(&["windows-1252", "koi8-r", "utf-8", "iso-8859-7", "shift_jis", "windows-1251"]);
                let enc = if menc == "decl" { denc } else { menc };
                let base: String = rng.pick(&corpus.texts).chars().skip(rng.below(100)).take(rng.range(20, 700)).collect();
                // (one case in three: a pure 7-bit body with 7-bit noise only -- then `ascii` is a candidate as well -- and a
                // declaration that may duplicate a built-in hint: utf-8 / ascii)
                let seven = rng.chance(1, 3);
                let (menc, m): (&str, &[u8]) = if seven { ("decl", &[]) } else { (menc, m) };
                let denc = if seven { *rng.pick(&["utf-8", "ascii", "windows-1252", "koi8-r", "iso-8859-2", "us-ascii", "utf8"]) } else { denc };
                let enc = if menc == "decl" { denc } else { menc };
                let base: String = if seven { String::from_utf8_lossy(&ascii_text(&mut rng, 60 + base.len() % 400)).to_string() } else { base };
                let noise: Vec<char> = if seven { "\u{1b}[K\u{7}\u{1}|~^`#$%{}<>".chars().collect() } else { "\u{1b}[K\u{a4}\u{a7}\u{b6}\u{2020}\u{2021}\u{2030}\u{7}\u{1}|~^`\u{00d7}\u{00f7}".chars().collect() };
                let rate = *rng.pick(&[3usize, 5, 8, 12, 20, 40]);
                let mut t = String::new();
                for (i, ch) in base.chars().enumerate() {
                    t.push(ch);
                    if i % rate == rate - 1 { t.push(*rng.pick(&noise)); if rng.chance(1, 2) { t.push(*rng.pick(&noise)); } }
                }
                let mut b = m.to_vec();
                if menc == "decl" { b.extend_from_slice(format!("<meta charset=\"{}\"> ", denc).as_bytes()); }
                b.extend_from_slice(&encode_text(&t, enc).unwrap_or_else(|| t.as_bytes().to_vec()));
                c.bytes = b;
                c.kind = format!("noisy-hint-{}", menc);
                c.settings = default_settings();
                c.settings.threshold = ordered_float::OrderedFloat(*rng.pick(&[0.2f32, 0.2, 0.3, 0.5, 1.0]));
                c.settings.preemptive_behaviour = !rng.chance(1, 5);
            }
            if (o.focus == "C06" || o.focus == "C09" || o.focus == "C07") && rng.chance(1, 6) {
                // BOTH hints at once and they disagree: a mark, then a declaration of ANOTHER encoding, then a body both can
                // read (ASCII, sometimes with a few characters of the declared page): the order declaration > mark > ascii > utf-8
                let ms = marks();
                let (menc, m) = *rng.pick(&ms);
                let denc = *rng.pick(&["windows-1252", "iso-8859-15", "latin1", "koi8-r", "windows-1251", "utf-8", "iso-8859-7", "ascii", "cp1254"]);
                // (one case in three: the declaration names the mark's OWN encoding)
                let denc = if rng.chance(1, 3) { menc } else { denc };
                let kw = *rng.pick(&["charset=", "encoding=\"", "coding: "]);
                let mut b = m.to_vec();
                let mut text = format!("<?xml version=\"1.0\" {}{}\"?> ", kw, denc);
                text.push_str(&String::from_utf8_lossy(&ascii_text(&mut rng, 200)));
                if menc.starts_with("utf-16") {
                    b.extend_from_slice(&encode_text(&text, menc).unwrap_or_default());
                } else {
                    b.extend_from_slice(text.as_bytes());
                }
                c.bytes = b;
                c.kind = format!("mark-{}+declared-{}", menc, denc);
                c.settings = default_settings();
                c.settings.preemptive_behaviour = !rng.chance(1, 6);
            }
            if (o.focus == "C07" || o.focus == "C18") && rng.chance(1, 2) {
                // mark-heavy stream
                let ms = marks();
                let (_, m) = *rng.pick(&ms);
                let mut b = m.to_vec();
                if rng.chance(1, 5) { b.extend_from_slice(m); }
                b.extend_from_slice(&c.bytes);
                b.truncate(o.max_len.max(8));
                c.bytes = b;
                c.kind = format!("{}+mark", c.kind);
            }
            cases.push(c);
        }
        if o.focus == "C18" {
            // every supported name alone in the include list, on a 7-bit text, a corpus text and a text in that encoding:
            // whatever name detection can be made to report must be canonical, aliased, usable
            let names = supported();
            for e in &names {
                let t: String = rng.pick(&corpus.texts).chars().take(200).collect();
                for body in [ascii_text(&mut rng, 120), encode_text(&t, e).unwrap_or_else(|| t.as_bytes().to_vec())] {
                    let mut s = default_settings();
                    s.include_encodings = vec![e.clone()];
                    cases.push(Case { kind: "every-name-restricted".into(), bytes: body, settings: s });
                }
            }
            let mut s = default_settings();
            s.exclude_encodings = vec!["ascii".into(), "utf-8".into()];
            cases.push(Case { kind: "seven-bit-without-ascii-utf8".into(), bytes: ascii_text(&mut rng, 300), settings: s });
        }
        if o.focus == "C09" {
            // directed search for inputs on which the DIRECTION of the similarity relation matters:
            // an asymmetrically-similar pair (a lists b, b does not list a) with a soft-failing and b
            // accepted when probed alone.  Candidates are screened with stand-alone runs.
            let asym = asymmetric_similar_pairs();
            let mut kept = 0;
            let mut tried = 0;
            while !asym.is_empty() && kept < 6 && tried < 60000 {
                tried += 1;
                let (a, b, diff) = rng.pick(&asym).clone();
                if diff.is_empty() {
                    continue;
                }
                let np = rng.range(1, 3);
                let mut pal: Vec<u8> = vec![];
                for _ in 0..np {
                    pal.push(*rng.pick(&diff));
                }
                if rng.chance(1, 2) {
                    pal.push(rng.range(0xa0, 0xff) as u8);
                }
                let wn = rng.range(2, 6);
                let mut unit: Vec<u8> = vec![];
                for _ in 0..wn {
                    let wl = rng.range(1, 5);
                    for _ in 0..wl {
                        if rng.chance(1, 2) { unit.push(*rng.pick(&pal)); } else { unit.push(b'a' + rng.below(26) as u8); }
                    }
                    unit.push(b' ');
                }
                let mut bytes = vec![];
                for _ in 0..rng.range(6, 20) {
                    bytes.extend_from_slice(&unit);
                }
                let s = default_settings();
                if matches!(alone(&bytes, &s, &a), Alone::Soft) && matches!(alone(&bytes, &s, &b), Alone::Accept(_))
                    && reconstruct(&bytes, &s).0.contains(&a)
                {
                    kept += 1;
                    cases.push(Case { kind: format!("directed-similarity({}->{})", a, b), bytes, settings: s });
                }
            }
        }
        let legacy_text = |rng: &mut Rng, target: usize| -> (Vec<u8>, &'static str) { legacy_text(rng, &corpus, target) };
        // mid-size payloads: above the 500,000-byte prefix limit, at most 1,000,000 bytes -- strict decoding of the
        // WHOLE input still applies (no lazy mode), for single-byte candidates too
        for k in 0..o.mid {
            // k = 0: EXACTLY 1,000,000 bytes (the last size below lazy mode, the last size at which alternatives are folded),
            // Latin text that several sibling code pages read alike; k = 1: exactly 500,001
            let target = match k % 4 { 0 => 1_000_000, 1 => 500_001, 2 => 500_001 + rng.below(200_000), _ => 700_000 + rng.below(300_000) };
            let (mut b, enc) = if k % 4 == 0 { legacy_text_in(&mut rng, &corpus, target, "windows-1252") } else { legacy_text(&mut rng, target) };
            if k % 3 == 2 {
                // a byte the code page does not define / an anomaly in the second half
                let p = 500_000 + rng.below(b.len() - 500_000);
                b[p] = *rng.pick(&[0x98u8, 0x81, 0xff, 0xd2]);
            }
            let mut s = default_settings();
            s.include_encodings = vec![enc.to_string(), "utf-8".into(), "ascii".into(), "iso-8859-3".into()];
            if k % 4 == 0 {
                s.include_encodings = vec!["windows-1252".into(), "iso-8859-1".into(), "iso-8859-15".into(), "windows-1254".into(), "utf-8".into(), "ascii".into()];
            }
            if k % 2 == 1 {
                s.steps = rng.range(1, 12);
                s.chunk_size = rng.range(16, 2048);
            }
            cases.push(Case { kind: format!("mid-legacy-v{}", k % 4), bytes: b, settings: s });
        }
        // large payloads: both sides of the lazy limits.  Variants:
        //  0 clean ASCII, default threshold            1 ASCII + high byte after 500,000, threshold 0 (fall-back paths)
        //  2 corpus text repeated + high byte early     3 ASCII + high byte after 500,000, default threshold
        //  4 ASCII for the first 500,000+ bytes, then legacy single-byte text (a log that turns Cyrillic / a text header
        //    followed by other content): the sampled chunks beyond the pre-checked prefix hold bytes some code pages do not define
        //  5 legacy single-byte text throughout
        //  6 (every 4th large case, and the 4th of a run): MULTI-BYTE text (utf-8 / shift_jis / big5 / euc-kr / gb18030) above
        //    1,048,576 bytes behind a 0..3-byte prefix: whole-input strict decoding of a multi-byte candidate in one piece
        for kk in 0..o.big {
            if kk % 4 == 3 {
                let enc = ["shift_jis", "utf-8", "big5", "euc-kr", "gb18030"][(kk / 4) % 5];
                let n_mb = 1_060_000 + rng.below(200_000);
                let b = multibyte_text(&mut rng, &corpus, n_mb, enc);
                let mut s = default_settings();
                s.include_encodings = vec![enc.to_string(), "utf-8".into(), "ascii".into()];
                cases.push(Case { kind: "large-multibyte".into(), bytes: b, settings: s });
                continue;
            }
            let kk = kk - kk / 4;
            let k = (if o.focus == "C13" { [5usize, 4, 0, 1, 2, 3] } else { [0usize, 1, 4, 2, 3, 5] })[kk % 6] + 6 * (kk / 6);
            if k % 6 >= 4 {
                let target = 1_000_001 + rng.below(300_000);
                let (tail, enc) = if k % 6 == 4 && (k / 6) % 2 == 0 { legacy_text_in(&mut rng, &corpus, target, "windows-1251") } else { legacy_text(&mut rng, target) };
                let b = if k % 6 == 4 {
                    let head = 500_000 + rng.below(150_000);
                    let mut b = ascii_text(&mut rng, head);
                    b.extend_from_slice(&tail[..target - head]);
                    b
                } else { tail };
                let mut s = default_settings();
                s.include_encodings = vec!["iso-8859-3".into(), enc.to_string(), "utf-8".into(), "ascii".into(), "windows-1252".into()];
                if (k / 6) % 2 == 1 {
                    s.steps = rng.range(1, 12);
                    s.chunk_size = rng.range(16, 2048);
                }
                let mut b = b;
                if o.focus == "C13" {
                    // mess in the second half only (7-bit symbols, valid in every code page): a verdict that looks at a prefix
                    // differs from one that looks at everything
                    let from = b.len() / 2 + 50_000;
                    let mut i = from;
                    while i < b.len() { b[i] = *rng.pick(&[b'|', b'~', b'^', b'{', b'}', b'#', b'<', b'>']); i += rng.range(2, 9); }
                    // a window that covers the whole input: every character is to be analysed, in lazy mode as well
                    s.chunk_size = *rng.pick(&[1024usize, 4096, 65536]);
                    s.steps = b.len() / s.chunk_size + 1 + rng.below(3);
                    s.include_encodings = vec![enc.to_string(), "utf-8".into(), "ascii".into()];
                }
                cases.push(Case { kind: format!("large-v{}{}", k % 6, if o.focus == "C13" { "-covered" } else { "" }), bytes: b, settings: s });
                continue;
            }
            let k = (k % 6) + 4 * (k / 6);
            let base = &corpus.files[rng.below(corpus.files.len())].bytes;
            let target = match (k / 4) % 4 {
                0 => 1_000_001 + rng.below(3),
                1 => 1_000_001 + rng.below(200_000),
                2 => 999_990 + rng.below(10),
                _ => 1_300_000,
            };
            let mut b = Vec::with_capacity(target);
            if k % 4 != 2 {
                b = ascii_text(&mut rng, target);
            } else {
                while b.len() < target {
                    b.extend_from_slice(base);
                    if base.is_empty() {
                        b.push(b'a');
                    }
                }
                b.truncate(target);
            }
            match k % 4 {
                1 | 3 => {
                    // the anomaly right at the edge of the pre-checked prefix (first case of the variant: exactly at 500,000;
                    // second: the last byte inside the prefix), then anywhere after it
                    let p = match k / 4 { 0 => 500_000, 1 => 499_999, _ => 500_000 + rng.below(b.len() - 500_000) };
                    b[p] = if rng.chance(1, 2) { 0xe9 } else { 0x98 };
                }
                2 => {
                    let p = rng.below(500_000);
                    b[p] = 0xe9;
                }
                _ => {}
            }
            let mut s = default_settings();
            // keep multi-MB cases affordable for the pipe protocol: a handful of encodings
            s.include_encodings = vec!["ascii".into(), "utf-8".into(), "windows-1252".into(), "koi8-r".into(), "big5".into()];
            if k % 4 == 1 {
                s.threshold = ordered_float::OrderedFloat(0.0);
                if rng.chance(1, 2) {
                    s.include_encodings = vec!["ascii".into(), "windows-1251".into()];
                }
            }
            if k % 2 == 0 {
                s.steps = rng.range(1, 12);
                s.chunk_size = rng.range(16, 2048);
            }
            cases.push(Case { kind: format!("large-v{}", k % 4), bytes: b, settings: s });
        }
    }

    let mut kinds: BTreeMap<String, u64> = BTreeMap::new();
    let mut branches: BTreeMap<String, u64> = BTreeMap::new();
    let mut size_hist: BTreeMap<String, u64> = BTreeMap::new();
    let mut disagreements = vec![];
    let mut violations = vec![];
    let mut samples = vec![];
    let mut distinct = std::collections::BTreeSet::new();
    let mut nontrivial = 0u64;
    let focus = o.focus.as_str();
    let mut extra_runs = 0u64;
    let mut full_runs = 0u64;

    for (idx, c) in cases.iter().enumerate() {
        *kinds.entry(c.kind.clone()).or_insert(0) += 1;
        let bucket = match c.bytes.len() {
            0..=32 => "<=32",
            33..=512 => "<=512",
            513..=2560 => "<=2560",
            2561..=20000 => "<=20000",
            20001..=1000000 => "<=1e6",
            _ => ">1e6",
        };
        *size_hist.entry(bucket.to_string()).or_insert(0) += 1;
        let real = run_real(&c.bytes, &c.settings);
        let real_lines = outcome_lines(&real);
        let model_lines = drv.detect(&c.bytes, &c.settings);
        if Driver::died(&model_lines) {
            // keep the contract log, restart the model process
            let cv = std::mem::take(&mut drv.contract_violations);
            drv = Driver::start(&o.driver);
            drv.contract_violations = cv;
        }
        for t in branch_tags(&real_lines, &c.bytes, &c.settings) {
            *branches.entry(t).or_insert(0) += 1;
        }
        let key = fnv_bytes(format!("{}|{}", hex(&c.bytes), settings_json(&c.settings)).as_bytes());
        if distinct.insert(key) && !real_lines.first().map(|l| l.starts_with("R OK 0")).unwrap_or(true) {
            nontrivial += 1;
        }
        let same = if real_lines.first().map(|l| l.starts_with("R PANIC")).unwrap_or(false) {
            model_lines.first().map(|l| l.starts_with("R PANIC")).unwrap_or(false)
        } else if real_lines == model_lines {
            true
        } else if match_count(&real_lines) > 20 {
            // more than 20 matches: sort_unstable is no longer the insertion sort of the model;
            // the order is then compared as a multiset (dominant-first / dominated-last is
            // checked on the real container by check_c08)
            *branches.entry("over-20-unordered".into()).or_insert(0) += 1;
            blocks(&real_lines) == blocks(&model_lines)
        } else {
            false
        };
        if !same {
            disagreements.push(json!({
                "index": idx, "case": case_json(&c.kind, &c.bytes, &c.settings),
                "real": real_lines, "model": model_lines }));
        }
        // end-to-end: every `full_every`-th small case also through the model in which the mess detector, the coherence
        // scan, the script layers, the Jaro score and the merge are the models too
        if o.full_every > 0 && idx % o.full_every == 0 && c.bytes.len() <= 3000 && c.settings.steps >= 1 && match_count(&real_lines) <= 20 {
            full_runs += 1;
            let full_lines = drv.detect_full(&c.bytes, &c.settings);
            if Driver::died(&full_lines) {
                let cv = std::mem::take(&mut drv.contract_violations);
                drv = Driver::start(&o.driver);
                drv.contract_violations = cv;
            }
            if full_lines != real_lines {
                disagreements.push(json!({
                    "index": idx, "what": "end-to-end model (Detect + Md + Cd + Layers + Jaro)", "case": case_json(&c.kind, &c.bytes, &c.settings),
                    "real": real_lines, "model": full_lines }));
            }
        }
        if samples.len() < 6 && (idx % 7 == 3 || o.replay.is_some()) {
            samples.push(json!({"case": {"kind": c.kind, "len": c.bytes.len(), "bytes": short(&c.bytes, 48), "settings": settings_json(&c.settings)},
                                "result": real_lines.iter().take(4).collect::<Vec<_>>() }));
        }
        // ---- property searches on the real result ----
        let mut found: Vec<Found> = vec![];
        match &real {
            Outcome::Ok(ms) => {
                found.extend(check_c01(&c.bytes, &c.settings, ms));
                found.extend(check_c04(&c.bytes, &c.settings, ms));
                found.extend(check_c05_membership(&c.settings, ms));
                found.extend(check_c05_twin(&c.bytes, &c.settings, &real_lines));
                found.extend(check_c07(&c.bytes, &c.settings, ms));
                found.extend(check_c08(ms));
                found.extend(check_c10(&c.bytes, &c.settings, ms));
                found.extend(check_c18(&c.bytes, &c.settings, ms, focus == "C18" && c.bytes.len() <= 20000));
                if (focus == "C19" || !same) && c.bytes.len() <= 6000 {
                    if let Some(best) = ms.get_best() {
                        let e = best.encoding().to_string();
                        found.extend(check_c19_detect(&c.bytes, &c.settings, &e));
                    }
                }
                // the chaos threshold AT an observed chaos: with the threshold bit-equal to the chaos of a returned match (and one
                // ulp either side) the strict bound chaos < threshold must still hold, in the code and in the model
                if focus == "C04" && idx % 4 == 1 && c.bytes.len() <= 6000 && c.settings.steps >= 1 {
                    if let Some(ch) = ms.iter().map(|m| m.chaos()).find(|x| *x > 0.0 && *x < 1.0) {
                        for th in [ch, f32::from_bits(ch.to_bits() + 1), f32::from_bits(ch.to_bits() - 1)] {
                            let mut s2 = c.settings.clone();
                            s2.threshold = ordered_float::OrderedFloat(th);
                            let r2 = run_real(&c.bytes, &s2);
                            let l2 = outcome_lines(&r2);
                            let m2 = drv.detect(&c.bytes, &s2);
                            extra_runs += 1;
                            if l2 != m2 && match_count(&l2) <= 20 {
                                disagreements.push(json!({"index": idx, "what": "threshold set to an observed chaos", "case": case_json(&c.kind, &c.bytes, &s2), "real": l2, "model": m2}));
                            }
                            if let Outcome::Ok(ms2) = &r2 {
                                for f in check_c04(&c.bytes, &s2, ms2) {
                                    violations.push(json!({"prop": f.prop, "what": f.what, "known": f.known, "case": case_json(&c.kind, &c.bytes, &s2)}));
                                }
                            }
                        }
                    }
                }
                if focus == "C13" || !same || idx % 5 == 0 {
                    let alt = (rng.range(1, 9), c.bytes.len() / 2 + rng.below(c.bytes.len() + 2));
                    found.extend(check_c13_window(&c.bytes, &c.settings, &real_lines, alt));
                }
                // "the reported chaos depends only on the decoded text and the threshold": not on what the process analysed
                // before.  Cold caches + this call, against cold caches + the same bytes under ANOTHER threshold + this call.
                if focus == "C13" && idx % 3 == 0 && c.bytes.len() <= 4000 && c.settings.steps >= 1 {
                    charset_normalizer_rs::verif_hooks::flush_caches();
                    let cold = outcome_lines(&run_real(&c.bytes, &c.settings));
                    charset_normalizer_rs::verif_hooks::flush_caches();
                    let mut other = c.settings.clone();
                    let t0 = c.settings.threshold.0;
                    other.threshold = ordered_float::OrderedFloat(if t0 > 0.1 { 0.03 } else { 0.9 });
                    let _ = run_real(&c.bytes, &other);
                    let after = outcome_lines(&run_real(&c.bytes, &c.settings));
                    if cold != after {
                        found.push(Found { prop: "C13", what: format!("the result (chaos) for the same input and threshold {} changes when the same bytes were analysed under threshold {} just before", t0, other.threshold.0), known: None });
                    }
                }
                // a covered input above 1,000,000 bytes (lazy mode): the text of the best match, presented in the encodings of
                // the case's include list, must get the same verdict and chaos in each
                if focus == "C13" && c.kind.ends_with("-covered") {
                    if let Some(t) = ms.get_best().and_then(|b| b.decoded_payload()) {
                        let encs: Vec<String> = c.settings.include_encodings.iter().filter(|e| e.as_str() != "ascii").cloned().collect();
                        let (f, _) = check_c13_text_in(t, &c.settings, false, Some(&encs));
                        found.extend(f);
                    }
                }
                let wf = c.settings.steps >= 1;
                let deep = !same || o.replay.is_some() || idx % 4 == 0;
                if wf && (c.bytes.len() <= 40000 || (focus == "C09" && c.kind.starts_with("mid-"))) && (focus == "C09" || focus == "C06" || deep) {
                    extra_runs += 1;
                    found.extend(check_c09_forward(&c.bytes, &c.settings, ms));
                    if focus == "C09" || focus == "C06" || !same || o.replay.is_some() {
                        found.extend(check_c06_c09(&c.bytes, &c.settings, ms));
                    }
                }
                if real_lines.first().map(|l| l.starts_with("R ACCESSOR-PANIC")).unwrap_or(false) {
                    found.push(Found { prop: "C02", what: format!("an accessor panicked: {}", real_lines[0]), known: None });
                }
            }
            Outcome::Err(e) => {
                // C02/C05: the only error is an unknown label in the filters, naming it
                let bad: Vec<&String> = c.settings.include_encodings.iter().chain(c.settings.exclude_encodings.iter())
                    .filter(|x| charset_normalizer_rs::utils::iana_name(x).is_none()).collect();
                if bad.is_empty() {
                    found.push(Found { prop: "C02", what: format!("error {:?} although every filter entry is a known label", e), known: None });
                } else if !bad.iter().any(|b| e.contains(b.as_str())) {
                    found.push(Found { prop: "C05", what: format!("error {:?} does not name the unknown entry {:?}", e, bad), known: None });
                }
            }
            Outcome::Panic(p) => {
                let wf = c.settings.steps >= 1 && c.settings.steps.checked_mul(c.settings.chunk_size).is_some();
                if wf {
                    found.push(Found { prop: "C02", what: format!("from_bytes panicked: {}", p), known: None });
                }
                // a window whose product overflows usize covers the input: the result must be that of (1, len) -- C13
                if c.settings.steps >= 1 {
                    found.extend(check_c13_window(&c.bytes, &c.settings, &real_lines, (1, c.bytes.len())));
                }
            }
        }
        if let Outcome::Ok(_) = &real {
            let bad: Vec<&String> = c.settings.include_encodings.iter().chain(c.settings.exclude_encodings.iter())
                .filter(|x| charset_normalizer_rs::utils::iana_name(x).is_none()).collect();
            if !bad.is_empty() {
                found.push(Found { prop: "C05", what: format!("unknown filter entries {:?} were silently ignored", bad), known: None });
            }
        }
        for f in found {
            violations.push(json!({"prop": f.prop, "what": f.what, "known": f.known,
                                   "case": case_json(&c.kind, &c.bytes, &c.settings)}));
        }
    }
    let mut c13_texts = 0u64;
    let mut c13_encodings = 0u64;
    if focus == "C13" && o.replay.is_none() {
        for k in 0..(o.n / 4).max(10) {
            let t = rng.pick(&corpus.texts);
            let take = rng.range(1, 1200);
            let mut t: String = t.chars().skip(rng.below(300)).take(take).collect();
            if t.is_empty() {
                continue;
            }
            if k % 5 == 4 {
                // a text whose first characters, in a single-byte code page, are the bytes of a mark of ANOTHER encoding, and
                // whose last characters carry mess: every character counts, the first and the last ones too
                let head = *rng.pick(&["\u{ef}\u{bb}\u{bf}", "\u{ff}\u{fe}", "\u{fe}\u{ff}", "\u{201e}1\u{2022}3"]);
                let tail = *rng.pick(&["\u{a4}\u{a7}\u{b6}\u{a4}", "\u{e9}\u{e8}\u{ea}\u{eb}", "\u{a7}\u{a7}\u{a7}", "\u{b6}\u{a4}"]);
                let body: String = t.chars().filter(|c| (*c as u32) < 0x100).take(rng.range(4, 120)).collect();
                t = format!("{}{}{}", head, body, tail);
            }
            let mut s = default_settings();
            if k % 3 == 1 {
                s.threshold = ordered_float::OrderedFloat(*rng.pick(&thresholds()));
            }
            let (f, n) = check_c13_text(&t, &s, k % 2 == 0);
            c13_texts += 1;
            c13_encodings += n as u64;
            for x in f {
                violations.push(json!({"prop": x.prop, "what": x.what, "known": x.known,
                    "case": {"kind": "c13-text", "text_hex": hex(t.as_bytes()), "with_bom": k % 2 == 0, "settings": settings_json(&s)}}));
            }
        }
    }
    for (t, s, with_bom) in &replay_c13_texts {
        let (f, n) = check_c13_text(t, s, *with_bom);
        c13_texts += 1;
        c13_encodings += n as u64;
        for x in f {
            violations.push(json!({"prop": x.prop, "what": x.what, "known": x.known,
                "case": {"kind": "c13-text", "text_hex": hex(t.as_bytes()), "with_bom": with_bom, "settings": settings_json(s)}}));
        }
    }
    let rep = json!({
        "c13_texts": c13_texts, "c13_encodings_compared": c13_encodings,
        "level": "detect", "seed": o.seed, "focus": o.focus, "evaluations": cases.len(),
        "distinct_nontrivial": nontrivial, "kinds": kinds, "branches": branches, "sizes": size_hist,
        "disagreements": disagreements, "violations": violations,
        "end_to_end_runs": full_runs, "contract_violations": drv.contract_violations, "oracle_queries": drv.query_kinds,
        "restricted_reruns": extra_runs, "samples": samples,
    });
    std::fs::write(&o.out, serde_json::to_string_pretty(&rep).unwrap()).expect("write report");
    rep
}
