//! Container-level correspondence (C08, lookup part of C10): CharsetMatches::new / append on
//! matches built through the hook constructor, against Matches.v run by the driver; and the
//! pairwise comparison `Ord for CharsetMatch` against Matches.cmp_key, bit for bit.
use crate::oracle::Driver;
use crate::props::*;
use crate::sig::*;
use crate::util::*;
use charset_normalizer_rs::entity::{CharsetMatch, CharsetMatches, Language};
use charset_normalizer_rs::verif_hooks as hooks;
use serde_json::json;
use std::cmp::Ordering;

fn chaos_grid() -> Vec<f32> {
    let base = [0.0f32, 0.004, 0.005, 0.0099, 0.01, 0.0101, 0.015, 0.02, 0.0201, 0.03, 0.05, 0.0999, 0.1, 0.1001, 0.19, 0.2, 0.5, 1.0];
    let mut v = vec![];
    for b in base {
        v.push(b);
        v.push(f32::from_bits(b.to_bits() + 1));
        if b > 0.0 {
            v.push(f32::from_bits(b.to_bits() - 1));
        }
    }
    v.push(f32::NAN);
    v.push(-0.0);
    v.push(f32::INFINITY);
    v
}

fn coh_grid() -> Vec<f32> {
    vec![0.0, 0.01, 0.0199, 0.02, 0.0201, 0.03, 0.04, 0.0401, 0.05, 0.3, 0.31, 0.32, 0.33, 0.5, 0.8, 1.0, f32::NAN]
}

const ENCS: &[&str] = &["utf-8", "windows-1252", "windows-1251", "koi8-r", "big5", "gbk", "euc-jp", "iso-8859-2", "iso-8859-5", "macintosh",
    "ibm866", "iso-8859-7", "windows-1250", "windows-1253", "windows-1254", "windows-1255", "windows-1256", "windows-1257", "windows-1258",
    "iso-8859-3", "iso-8859-4", "iso-8859-6", "iso-8859-8", "iso-8859-10", "iso-8859-13", "iso-8859-14", "iso-8859-15", "iso-8859-16",
    "koi8-u", "x-mac-cyrillic", "windows-874", "shift_jis", "euc-kr", "gb18030", "iso-2022-jp", "ascii", "iso-8859-1", "utf-16le", "utf-16be", "iso-8859-8-i"];

type Item = (String, u32, bool, String, Vec<u8>, Option<String>);

fn build(it: &Item, lang: &'static Language) -> CharsetMatch {
    let coh: Vec<(&'static Language, f32)> = if it.3 == "-" {
        vec![]
    } else {
        it.3.split(',').map(|x| {
            let (_, b) = x.split_once(':').unwrap();
            (lang, f32::from_bits(b.parse::<u32>().unwrap()))
        }).collect()
    };
    hooks::new_match(it.4.clone(), &it.0, f32::from_bits(it.1), it.2, &coh, it.5.as_deref())
}

pub fn run(seed: u64, n: usize, driver: &str, out: &str) -> serde_json::Value {
    let mut rng = Rng::new(seed);
    let mut drv = Driver::start(driver);
    let english = hooks::language_by_name("English").unwrap();
    let cg = chaos_grid();
    let hg = coh_grid();
    let mut disagreements: Vec<serde_json::Value> = vec![];
    let mut violations = vec![];
    let mut samples = vec![];
    let mut sizes = std::collections::BTreeMap::new();
    let mut evals = 0u64;
    let mut cmp_checks = 0u64;
    let mut nontrivial = 0u64;
    let mut merged_cases = 0u64;
    let mut dominant_cases = 0u64;
    for case in 0..n {
        // a few containers hold matches of payloads above TOO_BIG_SEQUENCE (no merging there)
        let heavy = case % 97 == 11;
        let len = if heavy {
            rng.range(2, 4)
        } else {
            match rng.below(10) {
                0 => rng.range(21, 64),
                1 => rng.range(17, 24),
                _ => rng.range(1, 20),
            }
        };
        *sizes.entry(if heavy { "heavy-payload" } else if len <= 20 { "<=20" } else { ">20" }).or_insert(0u64) += 1;
        // a cyclic / tie-heavy key population: few distinct chaos values close together
        let pal: Vec<f32> = (0..rng.range(1, 5)).map(|_| *rng.pick(&cg)).collect();
        let hpal: Vec<f32> = (0..rng.range(1, 4)).map(|_| *rng.pick(&hg)).collect();
        let mut items: Vec<Item> = vec![];
        // a random arrangement of the encoding names (so that e.g. `ascii` lands anywhere, also as an alternative)
        let mut order: Vec<&str> = ENCS.to_vec();
        for k in (1..order.len()).rev() {
            order.swap(k, rng.below(k + 1));
        }
        for i in 0..len {
            let payload_len = 50 + rng.below(50);
            let chars = rng.range(1, payload_len);
            // distinct texts unless we want a merge
            let text: String = if i > 0 && rng.chance(1, 8) {
                items[rng.below(i)].5.clone().unwrap()
            } else {
                let mut t: String = (0..chars).map(|_| (b'a' + rng.below(26) as u8) as char).collect();
                t.push_str(&format!("#{}", i));
                t
            };
            let chaos = if rng.chance(1, 6) { *rng.pick(&cg) } else { *rng.pick(&pal) };
            let coh = if rng.chance(1, 4) { "-".to_string() } else { format!("English:{}", fbits(*rng.pick(&hpal))) };
            // one item in ten repeats BOTH the encoding and the text of an earlier item under other scores (two analyses of
            // the same bytes under different windows put into one container): `==` on matches is not the ranking order
            let twin = if i > 0 && rng.chance(1, 10) { Some(rng.below(i)) } else { None };
            let text = match twin { Some(j) => items[j].5.clone().unwrap(), None => text };
            let enc = match twin { Some(j) => items[j].0.clone(), None => order[i % order.len()].to_string() };
            let payload: Vec<u8> = if heavy {
                vec![b'x'; charset_normalizer_rs::consts::TOO_BIG_SEQUENCE + 1 + rng.below(3)]
            } else {
                (0..payload_len + (if rng.chance(1, 3) { chars } else { 0 })).map(|_| b'x').collect()
            };
            items.push((enc, fbits(chaos), rng.chance(1, 9), coh, payload, Some(text)));
        }
        let reals: Vec<CharsetMatch> = items.iter().map(|it| build(it, english)).collect();
        for mode in ["NEW", "APPEND"] {
            evals += 1;
            let real = if mode == "NEW" {
                CharsetMatches::new(Some(reals.clone()))
            } else {
                let mut c = hooks::empty_matches();
                for m in &reals {
                    c.append(m.clone());
                }
                c
            };
            let rl = matches_lines(&real);
            let ml = drv.container(mode, &items);
            // accessor lines (coherence, multi-byte usage, percents, most probable language, languages,
            // ranges, candidates) are part of the comparison
            let same = if real.len() <= 20 {
                rl == ml
            } else {
                let mut a = rl.clone();
                let mut b = ml.clone();
                a.sort();
                b.sort();
                a == b
            };
            if real.len() < reals.len() {
                merged_cases += 1;
            }
            if !same {
                disagreements.push(json!({"case": case, "mode": mode, "items": items.iter().map(|i| json!({"enc": i.0, "chaos_bits": i.1, "coh": i.3, "payload_len": i.4.len(), "text": i.5})).collect::<Vec<_>>(),
                    "real": rl, "model": ml}));
            }
            let before = violations.len();
            for f in check_c08(&real) {
                violations.push(json!({"prop": "C08", "what": f.what, "known": null,
                    "case": {"mode": mode, "items": items.iter().map(|i| json!({"enc": i.0, "chaos_bits": i.1, "coh": i.3, "payload_len": i.4.len(), "text": i.5})).collect::<Vec<_>>()}}));
            }
            for f in check_mpl(&real) {
                violations.push(json!({"prop": "C10", "what": f.what, "known": null,
                    "case": {"mode": mode, "items": items.iter().map(|i| json!({"enc": i.0, "chaos_bits": i.1, "coh": i.3, "payload_len": i.4.len(), "text": i.5})).collect::<Vec<_>>()}}));
            }
            let ritems: Vec<&CharsetMatch> = real.iter().collect();
            let nn = ritems.len();
            if nn > 1 && (0..nn).any(|d| (0..nn).all(|x| x == d || (prefers(ritems[d], ritems[x]) && !prefers(ritems[x], ritems[d])))) {
                dominant_cases += 1;
            }
            if violations.len() == before && nn > 1 {
                nontrivial += 1;
            }
            if samples.len() < 3 && case % 37 == 5 {
                samples.push(json!({"mode": mode, "n_items": items.len(), "order": real.iter().map(|m| m.encoding().to_string()).collect::<Vec<_>>()}));
            }
        }
        // pairwise comparison, bit for bit against the model
        for _ in 0..8 {
            let a = &reals[rng.below(reals.len())];
            let b = &reals[rng.below(reals.len())];
            let ka = [fbits(a.chaos()), fbits(a.coherence()), fbits(a.multi_byte_usage())];
            let kb = [fbits(b.chaos()), fbits(b.coherence()), fbits(b.multi_byte_usage())];
            let real = match a.cmp(b) {
                Ordering::Less => "R LT",
                Ordering::Equal => "R EQ",
                Ordering::Greater => "R GT",
            };
            let model = drv.cmp_keys(ka, kb);
            cmp_checks += 1;
            if real != model {
                disagreements.push(json!({"cmp": {"a": ka, "b": kb}, "real": real, "model": model}));
            }
            // independent restatement of the documented rule
            let p = prefers(a, b);
            if p != (a.cmp(b) == Ordering::Less) {
                violations.push(json!({"prop": "C08", "what": format!("cmp disagrees with the documented pairwise rule on keys {:?} {:?}", ka, kb), "known": null, "case": {"a": ka, "b": kb}}));
            }
        }
    }
    let rep = json!({"level": "container", "seed": seed, "evaluations": evals + cmp_checks, "distinct_nontrivial": nontrivial,
        "containers": evals, "cmp_checks": cmp_checks, "sizes": sizes, "merged_cases": merged_cases, "dominant_cases": dominant_cases,
        "disagreements": disagreements, "violations": violations, "samples": samples});
    std::fs::write(out, serde_json::to_string_pretty(&rep).unwrap()).expect("write");
    rep
}
