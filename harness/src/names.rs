//! Translator validation: facts dumped from the RUNNING library are compared with the JSON twin
//! of Gen/Tables.v, and the Names.v model (through the driver) with utils::iana_name.
use crate::gen::*;
use crate::oracle::Driver;
use crate::util::*;
use charset_normalizer_rs::utils::{iana_name, is_multi_byte_encoding};
use charset_normalizer_rs::verif_hooks as hooks;
use encoding::label::encoding_from_whatwg_label;
use encoding::DecoderTrap;
use serde_json::json;

fn strs(v: &serde_json::Value) -> Vec<String> {
    v.as_array().map(|a| a.iter().filter_map(|x| x.as_str().map(|s| s.to_string())).collect()).unwrap_or_default()
}

pub fn run(tables: &str, driver: &str, seed: u64, out: &str) -> serde_json::Value {
    let t: serde_json::Value = serde_json::from_str(&std::fs::read_to_string(tables).expect("tables.json")).expect("json");
    let mut diffs: Vec<String> = vec![];
    let mut checks = 0u64;
    let mut samples = vec![];
    let mut violations = vec![];
    let mut panics: Vec<String> = vec![];
    // 1. supported list = table-derived list
    let sup = supported();
    let filtered = strs(&t["FILTERED_NAMES"]);
    let mut derived = vec![];
    for e in t["ENCODINGS"].as_array().unwrap() {
        let name = e[1].as_str().unwrap();
        if filtered.iter().any(|f| f == name) {
            continue;
        }
        derived.push(e[2].as_str().unwrap_or(name).to_string());
    }
    checks += 1;
    if derived != sup {
        diffs.push(format!("IANA_SUPPORTED: library {:?} vs tables {:?}", sup, derived));
    }
    // 2. sizes
    for (k, v) in [
        ("TOO_BIG_SEQUENCE", charset_normalizer_rs::consts::TOO_BIG_SEQUENCE),
        ("MAX_PROCESSED_BYTES", hooks::max_processed_bytes()),
        ("TOO_SMALL_SEQUENCE", hooks::too_small_sequence()),
    ] {
        checks += 1;
        if t[k].as_u64() != Some(v as u64) {
            diffs.push(format!("{}: library {} vs tables {}", k, v, t[k]));
        }
    }
    // 3. labels: every label of the table, in several spellings, through the real canonicaliser
    //    and through the MODEL (driver), plus unknown labels
    let mut drv = Driver::start(driver);
    let mut rng = Rng::new(seed);
    let mut label_inputs: Vec<String> = vec![];
    for l in t["LABELS"].as_array().unwrap() {
        let lab = l[0].as_str().unwrap().to_string();
        label_inputs.push(lab.clone());
        label_inputs.push(lab.to_uppercase());
        label_inputs.push(format!(" \t{}\n", lab));
        let mixed: String = lab.chars().enumerate().map(|(i, c)| if (i + rng.below(2)) % 2 == 0 { c.to_ascii_uppercase() } else { c }).collect();
        label_inputs.push(mixed);
        label_inputs.push(format!("{}x", lab));
        label_inputs.push(format!("\u{a0}{}", lab)); // NBSP is not trimmed
        label_inputs.push(format!("\x0b{}", lab)); // VT is not trimmed
        label_inputs.push(format!("\x0c{}\r", lab));
    }
    for s in &sup {
        label_inputs.push(s.clone());
        label_inputs.push(s.to_uppercase());
    }
    for s in LABEL_POOL.iter().chain(BAD_LABELS.iter()) {
        label_inputs.push(s.to_string());
    }
    label_inputs.push("İso-8859-1".to_string()); // non-ASCII upper case must not be folded
    label_inputs.push("KOI8-R\u{2003}".to_string());
    let mut resolved = 0u64;
    for li in &label_inputs {
        checks += 1;
        let real = iana_name(li).map(|s| s.to_string());
        let model = drv.name(li);
        if real.is_some() {
            resolved += 1;
        }
        if real != model {
            diffs.push(format!("iana_name({:?}): library {:?} vs model {:?}", li, real, model));
        }
        if samples.len() < 5 && rng.chance(1, 200) {
            samples.push(json!({"iana_name": li, "library": real, "model": model}));
        }
    }
    // 4. multi-byte list, similarity table, marks, language table
    let mb = strs(&t["MULTI_BYTE"]);
    for s in sup.iter().chain(["", "utf8", "UTF-8"].iter().map(|x| x.to_string()).collect::<Vec<_>>().iter()) {
        checks += 1;
        if is_multi_byte_encoding(s) != mb.contains(s) {
            diffs.push(format!("is_multi_byte_encoding({})", s));
        }
    }
    let sim = t["SIMILAR"].as_array().unwrap();
    for a in &sup {
        for b in &sup {
            checks += 1;
            let mut exp = false;
            for kv in sim {
                if kv[0].as_str() == Some(a) {
                    exp = strs(&kv[1]).contains(b); // last entry wins
                }
            }
            if hooks::is_cp_similar(a, b) != exp {
                diffs.push(format!("is_cp_similar({}, {}): library {} vs tables {}", a, b, !exp, exp));
            }
        }
    }
    let mut lm = hooks::encoding_marks().iter().map(|(k, v)| (k.to_string(), v.to_vec())).collect::<Vec<_>>();
    lm.sort();
    let mut tm: Vec<(String, Vec<u8>)> = t["ENCODING_MARKS"].as_array().unwrap().iter()
        .map(|kv| (kv[0].as_str().unwrap().to_string(), kv[1].as_array().unwrap().iter().map(|x| x.as_u64().unwrap() as u8).collect())).collect();
    tm.sort();
    checks += 1;
    if lm != tm {
        diffs.push(format!("ENCODING_MARKS: library {:?} vs tables {:?}", lm, tm));
    }
    for (e, m) in &tm {
        for tail in [&b""[..], b"abc", b"\xff"] {
            let mut b = m.clone();
            b.extend_from_slice(tail);
            checks += 1;
            let r = hooks::identify_sig_or_bom(&b);
            if r.0.as_deref() != Some(e.as_str()) || r.1 != Some(&m[..]) {
                diffs.push(format!("identify_sig_or_bom on the mark of {}", e));
            }
        }
        checks += 1;
        if hooks::identify_sig_or_bom(&m[..m.len() - 1]).0.is_some() {
            diffs.push(format!("identify_sig_or_bom on a truncated mark of {}", e));
        }
    }
    let mut el: Vec<(String, String)> = hooks::encoding_to_language().iter().map(|(k, v)| (k.to_string(), format!("{:?}", v))).collect();
    el.sort();
    let mut tl: Vec<(String, String)> = t["ENCODING_TO_LANGUAGE"].as_array().unwrap().iter()
        .map(|kv| (kv[0].as_str().unwrap().to_string(), kv[1].as_str().unwrap().to_string())).collect();
    tl.sort();
    checks += 1;
    if el != tl {
        diffs.push("ENCODING_TO_LANGUAGE differs".to_string());
    }
    let ll: Vec<(String, Vec<u32>, bool, bool)> = hooks::languages_table().iter()
        .map(|(l, a, x, y)| (format!("{:?}", l), a.chars().map(|c| c as u32).collect(), *x, *y)).collect();
    let tlang: Vec<(String, Vec<u32>, bool, bool)> = t["LANGUAGES"].as_array().unwrap().iter()
        .map(|r| (r[0].as_str().unwrap().to_string(), r[1].as_array().unwrap().iter().map(|x| x.as_u64().unwrap() as u32).collect(),
                  r[2].as_bool().unwrap(), r[3].as_bool().unwrap())).collect();
    checks += 1;
    if ll != tlang {
        diffs.push("LANGUAGES differs".to_string());
    }
    // 5. unicode ranges at every boundary +-1
    for r in t["UNICODE_RANGES"].as_array().unwrap() {
        let (lo, hi) = (r[1].as_u64().unwrap() as u32, r[2].as_u64().unwrap() as u32);
        for cp in [lo.wrapping_sub(1), lo, lo + 1, hi.saturating_sub(1), hi, hi + 1, hi + 0x1000, 0xeffff, 0xf0000, 0xffffd, 0x100000, 0x10fffd, 0x10ffff] {
            if let Some(ch) = char::from_u32(cp) {
                checks += 1;
                let exp = t["UNICODE_RANGES"].as_array().unwrap().iter()
                    .find(|x| x[1].as_u64().unwrap() as u32 <= cp && cp <= x[2].as_u64().unwrap() as u32)
                    .map(|x| x[0].as_str().unwrap().to_string());
                match std::panic::catch_unwind(|| hooks::unicode_range(ch).map(|s| s.to_string())) {
                    Ok(got) => {
                        if got != exp {
                            diffs.push(format!("unicode_range(U+{:04X})", cp));
                        }
                    }
                    Err(_) => {
                        let what = format!("unicode_range panics for U+{:04X} (called for every decoded character by the mess detector and by unicode_ranges())", cp);
                        if !panics.contains(&what) { panics.push(what); }
                    }
                }
            }
        }
    }
    // 5b. cd::encoding_languages for every supported name (and some labels): the model computes it from the generated
    //     single-byte forward tables, range table, keywords and alphabets (Model/SbLangs.v)
    for e in sup.iter().map(|x| x.as_str()).chain(["latin1", "cp1251", "no-such-encoding", "x-user-defined", "iso-8859-8-i"]) {
        checks += 1;
        let real = hooks::encoding_languages(e.to_string());
        let real_s = if real.is_empty() { "R -".to_string() } else { format!("R {}", real.iter().map(|l| format!("{:?}", l)).collect::<Vec<_>>().join(",")) };
        let model = drv.decode_model(&format!("SBLM {}", hex(e.as_bytes())));
        if model != real_s {
            diffs.push(format!("encoding_languages({}): real {} model {}", e, real_s, model));
        }
    }
    // 5c. the single-byte forward tables of the translator against the codec crate (byte by byte)
    if let Some(tbls) = t["SB_TABLES"].as_array() {
        for tb in tbls {
            let var = tb[0].as_str().unwrap();
            // the canonical name(s) whose codec constant is `var`
            for e in t["ENCODINGS"].as_array().unwrap().iter().filter(|e| e[0].as_str() == Some(var)) {
                // the constant itself (by its own name(), not through the label table: "iso-8859-1" as a LABEL is windows-1252)
                let name = e[1].as_str().unwrap();
                if let Some(codec) = encoding::all::encodings().iter().find(|c| c.name() == name) {
                    for (i, want) in tb[1].as_array().unwrap().iter().enumerate() {
                        checks += 1;
                        let b = 128 + i as u8;
                        let got = codec.decode(&[b], encoding::DecoderTrap::Strict).ok().and_then(|s| s.chars().next()).map(|c| c as u64).unwrap_or(65535);
                        if Some(got) != want.as_u64() {
                            diffs.push(format!("forward table of {} ({}) at byte {:#x}: crate {} table {}", var, name, b, got, want));
                        }
                    }
                }
            }
        }
    } else {
        diffs.push("tables.json has no SB_TABLES".to_string());
    }
    for w in &panics {
        violations.push(json!({"prop": "C02", "what": w, "known": null, "case": {"call": w}}));
    }
    // 6. aliases: the real accessor for every reportable name (C02/C18 search): no panic, and
    //    every alias the canonicaliser accepts decodes all single bytes (and samples) identically
    let aliases_tbl = t["ALIASES"].as_array().unwrap();
    for e in &sup {
        if encoding_from_whatwg_label(e).is_none() {
            continue; // not reportable
        }
        checks += 1;
        let e2 = e.clone();
        let r = std::panic::catch_unwind(move || {
            let m = hooks::new_match(b"abc".to_vec(), &e2, 0.0, false, &[], Some("abc"));
            m.encoding_aliases().iter().map(|s| s.to_string()).collect::<Vec<String>>()
        });
        let mut exp: Option<Vec<String>> = None;
        for kv in aliases_tbl {
            if kv[0].as_str() == Some(e) {
                exp = Some(strs(&kv[1]));
            }
        }
        match r {
            Err(_) => {
                violations.push(json!({"prop": "C18", "what": format!("encoding_aliases() panics for reportable name {}", e), "name": e}));
                violations.push(json!({"prop": "C02", "what": format!("encoding_aliases() panics for reportable name {}", e), "name": e}));
                if exp.is_some() {
                    diffs.push(format!("aliases({}): library panics, tables have an entry", e));
                }
            }
            Ok(al) => {
                if Some(&al) != exp.as_ref() {
                    diffs.push(format!("aliases({}): library {:?} vs tables {:?}", e, al, exp));
                }
                if iana_name(e) != Some(e.as_str()) {
                    violations.push(json!({"prop": "C18", "what": format!("{} does not canonicalise to itself", e), "name": e}));
                }
                let c0 = encoding_from_whatwg_label(e).unwrap();
                for a in &al {
                    if let Some(canon) = iana_name(a) {
                        if let Some(c1) = encoding_from_whatwg_label(canon) {
                            let mut same = true;
                            for b in 0u16..256 {
                                let x = [b as u8];
                                if c0.decode(&x, DecoderTrap::Strict) != c1.decode(&x, DecoderTrap::Strict) {
                                    same = false;
                                }
                            }
                            for _ in 0..40 {
                                let n = rng.range(2, 6);
                                let x: Vec<u8> = (0..n).map(|_| rng.below(256) as u8).collect();
                                if c0.decode(&x, DecoderTrap::Strict) != c1.decode(&x, DecoderTrap::Strict) {
                                    same = false;
                                }
                            }
                            checks += 1;
                            if !same {
                                violations.push(json!({"prop": "C18", "what": format!("alias {:?} of {} resolves to {} which decodes differently", a, e, canon), "name": e}));
                            }
                        } else {
                            violations.push(json!({"prop": "C18", "what": format!("alias {:?} of {} canonicalises to {} which has no codec", a, e, canon), "name": e}));
                        }
                    }
                }
            }
        }
    }
    // 7. the UTF-8 decoder of the codec crate against the generated DFA: all (state, byte) pairs
    //    are exercised through raw_feed on 1..4 byte strings in Decode level; here the tables'
    //    shape only
    checks += 1;
    if t["UTF8_CHAR_CATEGORY"].as_array().map(|a| a.len()) != Some(256) {
        diffs.push("UTF8_CHAR_CATEGORY length".into());
    }
    let rep = json!({
        "level": "names", "seed": seed, "evaluations": checks, "distinct_nontrivial": resolved,
        "label_inputs": label_inputs.len(), "disagreements": diffs, "violations": violations, "samples": samples,
    });
    std::fs::write(out, serde_json::to_string_pretty(&rep).unwrap()).expect("write");
    rep
}
