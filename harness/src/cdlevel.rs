//! Cd-level correspondence (C19, C03, coherence contracts of C10/C04): cd::coherence_ratio,
//! filter_alt_coherence_matches and merge_coherence_ratios against Model/Cd.v, whose three oracles
//! (alpha_unicode_split, alphabet_languages, characters_popularity_compare) are served by the real
//! functions; plus the implementation-side C19 search (threshold sweeps on single-chunk inputs).
use crate::gen::*;
use crate::oracle::Driver;
use crate::sig::*;
use crate::util::*;
use charset_normalizer_rs::entity::Language;
use charset_normalizer_rs::verif_hooks as hooks;
use serde_json::json;

fn lang_pool() -> Vec<&'static Language> {
    let mut v: Vec<&'static Language> = vec![];
    for (l, _, _, _) in hooks::languages_table() {
        if !v.contains(&l) {
            v.push(l);
        }
    }
    v
}

pub fn run(seed: u64, n: usize, driver: &str, out: &str) -> serde_json::Value {
    let corpus = load_corpus();
    let mut rng = Rng::new(seed);
    let mut drv = Driver::start(driver);
    let pool = lang_pool();
    let unknown = hooks::language_by_name("Unknown").unwrap();
    let mut diffs = vec![];
    let mut violations = vec![];
    let mut samples = vec![];
    let mut evals = 0u64;
    let mut nontrivial = 0u64;
    let thrs = [0.0f32, 0.05, 0.1, 0.2, 0.3, 0.5, 0.7, 0.79, 0.8, 0.81, 1.0];
    // minimised witnesses of past findings run first (default include list, every threshold of the sweep)
    let mut corpus_texts: Vec<String> = vec![];
    if let Ok(rd) = std::fs::read_dir("/verif/corpus/cd") {
        let mut ps: Vec<_> = rd.filter_map(|e| e.ok().map(|e| e.path())).collect();
        ps.sort();
        for p in ps {
            if let Ok(txt) = std::fs::read_to_string(&p) {
                if let Ok(v) = serde_json::from_str::<serde_json::Value>(&txt) {
                    for it in v.as_array().cloned().unwrap_or_default() {
                        if let Some(h) = it["text_hex"].as_str() {
                            if let Ok(t) = String::from_utf8(unhex(h)) { corpus_texts.push(t); }
                        }
                    }
                }
            }
        }
    }
    for i in 0..n {
        // a chunk-like text: corpus text slice, mixed scripts, or repeated alphabet soup
        let t: String = if i < corpus_texts.len() { corpus_texts[i].clone() } else { match rng.below(5) {
            0 => {
                let a = rng.pick(&corpus.texts);
                let b = rng.pick(&corpus.texts);
                let mut t: String = a.chars().skip(rng.below(300)).take(rng.range(5, 300)).collect();
                t.extend(b.chars().skip(rng.below(300)).take(rng.range(5, 300)));
                t
            }
            1 => {
                // alphabet soup of one or two languages: many languages with close scores
                let tbl = hooks::languages_table();
                let (_, a1, _, _) = rng.pick(&tbl);
                let (_, a2, _, _) = rng.pick(&tbl);
                let c1: Vec<char> = a1.chars().collect();
                let c2: Vec<char> = a2.chars().collect();
                (0..rng.range(40, 400)).map(|_| if rng.chance(2, 3) { *rng.pick(&c1) } else { *rng.pick(&c2) }).collect()
            }
            _ => {
                let a = rng.pick(&corpus.texts);
                a.chars().skip(rng.below(500)).take(rng.range(1, 512)).collect()
            }
        } };
        // the script layers: cd::alpha_unicode_split against Model/Layers.v (oracles: std is_alphabetic / to_lowercase)
        {
            evals += 1;
            let real = hooks::alpha_unicode_split(&t);
            let real_s = if real.is_empty() { "R NONE".to_string() } else { format!("R {}", real.iter().map(|l| hex(l.as_bytes())).collect::<Vec<_>>().join(";")) };
            let model = drv.layers_model(&t);
            if model != real_s {
                diffs.push(json!({"what": "alpha_unicode_split", "text_hex": hex(t.as_bytes()), "real": real_s, "model": model}));
            }
        }
        // characters_popularity_compare (strsim::jaro as f32) against Model/Jaro32.v, on the text's own characters
        {
            let lang = *rng.pick(&pool);
            let sample: String = match rng.below(3) {
                0 => t.chars().filter(|c| c.is_alphabetic()).take(rng.range(0, 60)).collect(),
                1 => { let tbl = hooks::languages_table(); let (_, a, _, _) = rng.pick(&tbl); let mut v: Vec<char> = a.chars().collect(); let k = rng.below(v.len().max(1)); v.rotate_left(k); v.truncate(rng.range(0, 40)); v.into_iter().collect() }
                _ => t.chars().rev().take(rng.range(0, 30)).collect(),
            };
            evals += 1;
            let real = match hooks::characters_popularity_compare(lang, &sample) { Ok(x) => format!("R {}", fbits(x)), Err(_) => "R ERR".to_string() };
            let model = drv.decode_model(&format!("POPM {:?} {}", lang, hex(sample.as_bytes())));
            if model != real {
                diffs.push(json!({"what": "characters_popularity_compare (jaro)", "language": format!("{:?}", lang), "chars_hex": hex(sample.as_bytes()), "real": real, "model": model}));
            }
        }
        let thr = if i < corpus_texts.len() { 0.7 } else { *rng.pick(&thrs) };
        let include: Vec<&'static Language> = if i < corpus_texts.len() { vec![] } else { match rng.below(6) {
            0 => vec![unknown],
            1 => vec![*rng.pick(&pool)],
            2 => (0..rng.range(2, 5)).map(|_| *rng.pick(&pool)).collect(),
            _ => vec![],
        } };
        let inc_s = if include.is_empty() { "-".to_string() } else { include.iter().map(|l| format!("{:?}", l)).collect::<Vec<_>>().join(",") };
        evals += 1;
        let real = match hooks::coherence_ratio_no_cache(t.clone(), Some(thr), Some(include.clone())) {
            Ok(c) => format!("R OK {}", coh_str(&c)),
            Err(_) => "R ERR".to_string(),
        };
        let model = drv.coherence_model(&t, thr, &inc_s);
        if real != model {
            diffs.push(json!({"what": "coherence_ratio", "text_hex": hex(t.as_bytes()), "threshold": thr, "include": inc_s, "real": real, "model": model}));
        }
        if real.len() > 8 {
            nontrivial += 1;
        }
        // cached == uncached (C11 at this level)
        let cached = match hooks::coherence_ratio(t.clone(), Some(thr), Some(include.clone())) {
            Ok(c) => format!("R OK {}", coh_str(&c)),
            Err(_) => "R ERR".to_string(),
        };
        if cached != real {
            violations.push(json!({"prop": "C11", "what": "cached coherence_ratio differs from the uncached function", "known": null,
                "case": {"text_hex": hex(t.as_bytes()), "threshold": thr, "include": inc_s}}));
        }
        // ---- C19 search on this text (default include = derived from the layer) ----
        if include.is_empty() || include.len() > 1 {
            let base = hooks::coherence_ratio_no_cache(t.clone(), Some(0.0), Some(include.clone())).unwrap_or_default();
            let mut prev: Vec<(&'static Language, f32)> = base.clone();
            for w in base.windows(2) {
                if !(w[0].1 >= w[1].1) {
                    violations.push(json!({"prop": "C19", "what": format!("languages not ordered by non-increasing score: {}", coh_str(&base)), "known": null,
                        "case": {"text_hex": hex(t.as_bytes()), "include": inc_s}}));
                }
            }
            for th in [0.05f32, 0.1, 0.2, 0.3, 0.5, 0.7, 0.8] {
                let cur = hooks::coherence_ratio_no_cache(t.clone(), Some(th), Some(include.clone())).unwrap_or_default();
                // pure cut-off: exactly the languages of the threshold-0 list whose score reaches th, same scores, same order
                let expect: Vec<(&'static Language, f32)> = base.iter().filter(|(_, s)| *s >= th).cloned().collect();
                // same languages with the same scores (the order among EQUAL scores may legitimately differ:
                // ties keep first-appearance order, and what appears first depends on what is listed)
                let key = |v: &Vec<(&'static Language, f32)>| -> Vec<(String, u32)> {
                    let mut k: Vec<(String, u32)> = v.iter().map(|(l, s)| (format!("{:?}", l), fbits(*s))).collect();
                    k.sort();
                    k
                };
                for w in cur.windows(2) {
                    if !(w[0].1 >= w[1].1) {
                        violations.push(json!({"prop": "C19", "what": format!("languages not ordered by non-increasing score at threshold {}: {}", th, coh_str(&cur)), "known": null,
                            "case": {"text_hex": hex(t.as_bytes()), "include": inc_s, "threshold": th}}));
                    }
                }
                if key(&cur) != key(&expect) {
                    violations.push(json!({"prop": "C19", "what": format!("language threshold {} is not a pure cut-off: got {} expected {}", th, coh_str(&cur), coh_str(&expect)), "known": null,
                        "case": {"text_hex": hex(t.as_bytes()), "include": inc_s, "threshold": th}}));
                }
                if cur.iter().any(|(l, _)| !prev.iter().any(|(p, _)| p == l)) {
                    violations.push(json!({"prop": "C19", "what": format!("raising the language threshold to {} added a language", th), "known": null,
                        "case": {"text_hex": hex(t.as_bytes()), "include": inc_s, "threshold": th}}));
                }
                prev = cur;
            }
        }
        // ---- C19 at the scores themselves: a language is listed EXACTLY when its score reaches the threshold, so at a
        //      threshold bit-equal to its score it is listed, one ulp above it is not (scores above 0.8 end the scan early:
        //      the property speaks of thresholds up to 0.8) ----
        if include.is_empty() && i % 2 == 0 {
            let base = hooks::coherence_ratio_no_cache(t.clone(), Some(0.0), Some(vec![])).unwrap_or_default();
            for (lang, score) in base.iter().take(4) {
                if !(*score > 0.0 && *score <= 0.8) { continue; }
                for (th, expect) in [(*score, true), (f32::from_bits(score.to_bits() + 1), false), (f32::from_bits(score.to_bits() - 1), true)] {
                    evals += 1;
                    let cur = hooks::coherence_ratio_no_cache(t.clone(), Some(th), Some(vec![])).unwrap_or_default();
                    let listed = cur.iter().any(|(l, _)| l == lang);
                    if listed != expect {
                        violations.push(json!({"prop": "C19", "what": format!("{:?} has score {} (bits {}) but at language threshold {} (bits {}) it is {}", lang, score, score.to_bits(), th, th.to_bits(), if listed { "listed" } else { "not listed" }),
                            "known": null, "case": {"text_hex": hex(t.as_bytes()), "threshold": th, "include": "-"}}));
                    }
                    // and the model agrees at exactly that threshold
                    let real = format!("R OK {}", coh_str(&cur));
                    let model = drv.coherence_model(&t, th, "-");
                    if real != model {
                        diffs.push(json!({"what": "coherence_ratio at a threshold equal to / next to a score", "text_hex": hex(t.as_bytes()), "threshold_bits": th.to_bits(), "real": real, "model": model}));
                    }
                }
            }
        }
        // ---- merge / filter_alt with random lists ----
        if i % 3 == 0 {
            let k = rng.range(0, 5);
            let lists: Vec<Vec<(&'static Language, f32)>> = (0..k).map(|_| {
                (0..rng.range(0, 6)).map(|_| (*rng.pick(&pool), *rng.pick(&[0.0f32, 0.1, 0.25, 0.3, 0.3, 0.5, 0.8, 0.9, 1.0, f32::NAN]))).collect()
            }).collect();
            let ls = if lists.is_empty() { "-".to_string() } else { lists.iter().map(|l| coh_str(l)).collect::<Vec<_>>().join(";") };
            evals += 1;
            let real = format!("R {}", coh_str(&hooks::merge_coherence_ratios(&lists)));
            let model = drv.merge_model(&ls);
            if real != model {
                diffs.push(json!({"what": "merge_coherence_ratios", "lists": ls, "real": real, "model": model}));
            }
            if let Some(l0) = lists.first() {
                if !l0.is_empty() {
                    evals += 1;
                    let real = format!("R {}", coh_str(&hooks::filter_alt_coherence_matches(l0)));
                    let model = drv.filter_alt_model(&coh_str(l0));
                    if real != model {
                        diffs.push(json!({"what": "filter_alt_coherence_matches", "list": coh_str(l0), "real": real, "model": model}));
                    }
                }
            }
        }
        if samples.len() < 4 && i % 53 == 7 {
            samples.push(json!({"text": t.chars().take(40).collect::<String>(), "threshold": thr, "include": inc_s, "result": real}));
        }
    }
    for c in drv.contract_violations.clone() {
        violations.push(json!({"prop": "C19", "what": format!("oracle contract: {}", c), "known": null, "case": {"call": c}}));
    }
    let rep = json!({"level": "cd", "seed": seed, "evaluations": evals, "distinct_nontrivial": nontrivial,
        "disagreements": diffs, "violations": violations, "samples": samples, "oracle_queries": drv.query_kinds});
    std::fs::write(out, serde_json::to_string_pretty(&rep).unwrap()).expect("write");
    rep
}
