//! Signature dump of detection over the corpus and a set of generated multi-script texts: one line
//! per input; used across fresh process launches (C03) and across code versions.
use crate::gen::*;
use crate::sig::*;
use crate::util::*;
use charset_normalizer_rs::verif_hooks as hooks;

pub fn inputs(seed: u64, extra: usize) -> Vec<(String, Vec<u8>)> {
    let corpus = load_corpus();
    let mut v: Vec<(String, Vec<u8>)> = corpus.files.iter().map(|f| (f.path.to_string_lossy().to_string(), f.bytes.clone())).collect();
    let mut rng = Rng::new(seed);
    // texts alternating characters of two Unicode blocks whose names share a word (the domain on which
    // the successive-range rule, the script layers and the range accessors do set / map work)
    if let Ok(txt) = std::fs::read_to_string("/verif/_build/tables.json") {
        if let Ok(t) = serde_json::from_str::<serde_json::Value>(&txt) {
            let ranges: Vec<(String, u32, u32)> = t["UNICODE_RANGES"].as_array().map(|a| a.iter().map(|r| (r[0].as_str().unwrap_or("").to_string(), r[1].as_u64().unwrap_or(0) as u32, r[2].as_u64().unwrap_or(0) as u32)).collect()).unwrap_or_default();
            let mut pairs: Vec<(usize, usize, usize)> = vec![];
            for a in 0..ranges.len() {
                for b in a + 1..ranges.len() {
                    let wa: Vec<&str> = ranges[a].0.split_whitespace().collect();
                    let shared = ranges[b].0.split_whitespace().filter(|w| wa.contains(w)).count();
                    if shared >= 1 {
                        pairs.push((a, b, shared));
                    }
                }
            }
            // all pairs sharing >= 2 words, and a seeded sample of the others
            let mut chosen: Vec<(usize, usize)> = pairs.iter().filter(|p| p.2 >= 2).map(|p| (p.0, p.1)).collect();
            let singles: Vec<(usize, usize)> = pairs.iter().filter(|p| p.2 == 1).map(|p| (p.0, p.1)).collect();
            for _ in 0..(extra / 3).min(singles.len()) {
                chosen.push(*rng.pick(&singles));
            }
            for (k, (a, b)) in chosen.iter().enumerate() {
                let pick = |r: &mut Rng, i: usize| -> char {
                    for _ in 0..20 {
                        let (lo, hi) = (ranges[i].1.max(0x21), ranges[i].2);
                        if hi < lo { break; }
                        if let Some(c) = char::from_u32(lo + r.below((hi - lo + 1) as usize) as u32) {
                            return c;
                        }
                    }
                    'x'
                };
                let mut t = String::from("msg ");
                for j in 0..rng.range(30, 90) {
                    t.push(pick(&mut rng, if j % 2 == 0 { *a } else { *b }));
                    if j % 9 == 8 {
                        t.push_str(" ok ");
                    }
                }
                v.push((format!("blocks-{}-{}-{}", k, ranges[*a].0.replace(' ', "_"), ranges[*b].0.replace(' ', "_")), t.into_bytes()));
            }
        }
    }
    // one input per label of the codec crate's table (as generated on this run), in its exact spelling, declared in-band
    // in front of a Latin-1 body: whatever a label resolves to must be the same in every process
    for (i, l) in all_labels().iter().enumerate() {
        let mut b = format!("# -*- coding: {} -*-\n", l).into_bytes();
        b.extend_from_slice(b"caf\xe9 cr\xe8me br\xfbl\xe9e, d\xe9j\xe0 vu: na\xefve fa\xe7ade et co\xfbt \xe9lev\xe9, \xe0 bient\xf4t");
        v.push((format!("declared-label-{}-{}", i, l.replace(' ', "_")), b));
    }
    for i in 0..extra {
        // multi-script texts: two or three corpus texts glued, in utf-8
        let k = rng.range(2, 3);
        let mut t = String::new();
        for _ in 0..k {
            let a = rng.pick(&corpus.texts);
            t.extend(a.chars().skip(rng.below(400)).take(rng.range(40, 600)));
            t.push(' ');
        }
        v.push((format!("gen-{}", i), t.into_bytes()));
    }
    v
}

pub fn run(seed: u64, extra: usize, rounds: usize, history: usize, out: &str) {
    let ins = inputs(seed, extra);
    let mut lines: Vec<String> = vec![];
    // launch `history` > 0 visits the inputs in reverse and precedes every signature call by a detection of the same
    // bytes under OTHER settings (thresholds, window): "the same result in every process and on every repetition"
    // must hold whatever the process did before
    let order: Vec<usize> = if history % 2 == 1 { (0..ins.len()).rev().collect() } else { (0..ins.len()).collect() };
    let mut slots: Vec<String> = vec![String::new(); ins.len()];
    for &ix in &order {
        let (name, b) = &ins[ix];
        if history > 0 {
            let mut s = default_settings();
            s.threshold = ordered_float::OrderedFloat([0.05f32, 0.5, 0.1, 1.0][(history - 1) % 4]);
            s.language_threshold = ordered_float::OrderedFloat([0.3f32, 0.0, 0.6, 0.1][(history - 1) % 4]);
            if history % 3 == 0 { s.steps = 3; s.chunk_size = 64; }
            let _ = run_real(b, &s);
        }
        let mut first: Option<u64> = None;
        for r in 0..rounds.max(1) {
            if r > 0 {
                hooks::flush_caches(); // new hash-map instances get fresh keys
            }
            let o = run_real(b, &default_settings());
            let l = outcome_lines(&o).join("\n");
            let h = fnv_bytes(l.as_bytes());
            match first {
                None => first = Some(h),
                Some(f) if f != h => {
                    lines.push(format!("UNSTABLE {} round {}", name, r));
                }
                _ => {}
            }
        }
        slots[ix] = format!("{:016x} {}", first.unwrap_or(0), name);
    }
    lines.extend(slots);
    std::fs::write(out, lines.join("\n") + "\n").expect("write");
}
