//! Signature dump of detection over the corpus and a set of generated multi-script texts: one line
//! per input; used across fresh process launches (C03) and across code versions.
use crate::gen::*;
use crate::sig::*;
use crate::util::*;
use charset_normalizer_rs::verif_hooks as hooks;

pub fn inputs(seed: u64, extra: usize) -> Vec<(String, Vec<u8>)> {
    let corpus = load_corpus();
    let mut v: Vec<(String, Vec<u8>)> = corpus.files.iter().map(|f| (f.path.to_string_lossy().to_string(), f.bytes.clone())).collect();
    let mut rng = Rng::new(seed);
    for i in 0..extra {
        // multi-script texts: two or three corpus texts glued, in utf-8
        let k = rng.range(2, 3);
        let mut t = String::new();
        for _ in 0..k {
            let a = rng.pick(&corpus.texts);
            t.extend(a.chars().skip(rng.below(400)).take(rng.range(40, 600)));
            t.push(' ');
        }
        v.push((format!("gen-{}", i), t.into_bytes()));
    }
    v
}

pub fn run(seed: u64, extra: usize, rounds: usize, out: &str) {
    let ins = inputs(seed, extra);
    let mut lines: Vec<String> = vec![];
    for (name, b) in &ins {
        let mut first: Option<u64> = None;
        for r in 0..rounds.max(1) {
            if r > 0 {
                hooks::flush_caches(); // new hash-map instances get fresh keys
            }
            let o = run_real(b, &default_settings());
            let l = outcome_lines(&o).join("\n");
            let h = fnv_bytes(l.as_bytes());
            match first {
                None => first = Some(h),
                Some(f) if f != h => {
                    lines.push(format!("UNSTABLE {} round {}", name, r));
                }
                _ => {}
            }
        }
        lines.push(format!("{:016x} {}", first.unwrap_or(0), name));
    }
    std::fs::write(out, lines.join("\n") + "\n").expect("write");
}
