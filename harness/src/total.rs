//! C02 search: no panic from detection (also with a logger installed at trace level, which makes
//! the library evaluate its trace!/debug! arguments), from every accessor, from from_path, and
//! from the public decode / encode / iana_name helpers, for every reportable encoding.
use crate::gen::*;
use crate::sig::*;
use crate::util::*;
use charset_normalizer_rs::utils::{decode, encode, iana_name};
use encoding::label::encoding_from_whatwg_label;
use encoding::{DecoderTrap, EncoderTrap};
use serde_json::json;
use std::panic::{catch_unwind, AssertUnwindSafe};

struct NullLogger;
impl log::Log for NullLogger {
    fn enabled(&self, _: &log::Metadata) -> bool {
        true
    }
    fn log(&self, r: &log::Record) {
        // force formatting of the arguments, discard the text
        let _ = format!("{}", r.args());
    }
    fn flush(&self) {}
}
static LOGGER: NullLogger = NullLogger;

pub fn run(seed: u64, n: usize, big: usize, out: &str) -> serde_json::Value {
    let _ = log::set_logger(&LOGGER);
    log::set_max_level(log::LevelFilter::Trace);
    let corpus = load_corpus();
    let mut rng = Rng::new(seed);
    let mut violations = vec![];
    let mut evals = 0u64;
    let mut nontrivial = 0u64;
    let mut samples = vec![];
    // 1. detection with trace logging on, all accessors
    let mut cases: Vec<Case> = crate::detect::fixed_cases();
    while cases.len() < n {
        cases.push(gen_case(&mut rng, &corpus, 5000));
    }
    for k in 0..big {
        let target = 1_000_001 + rng.below(1000);
        let mut b = ascii_text(&mut rng, target);
        if k % 2 == 0 {
            let p = 500_000 + rng.below(target - 500_000);
            b[p] = 0xe9;
        } else {
            let p = rng.below(400_000);
            b[p] = 0xe9;
        }
        let mut s = default_settings();
        if k % 3 == 2 {
            s.threshold = ordered_float::OrderedFloat(0.0);
        }
        cases.push(Case { kind: "large-ascii-with-high-byte".into(), bytes: b, settings: s });
    }
    // more windows than any 16-bit counter holds (implementation only: 70,000 windows of 0 / 1 characters): steps large,
    // product below the length
    {
        let body: Vec<u8> = (0..70_000usize).map(|i| if i % 7 == 6 { b' ' } else { b'a' + (i % 23) as u8 }).collect();
        let mut s = default_settings();
        s.steps = 70_000;
        s.chunk_size = 0;
        s.include_encodings = vec!["ascii".into()];
        cases.push(Case { kind: "70000-windows".into(), bytes: body.clone(), settings: s.clone() });
        let mut two = body.clone();
        two.extend_from_slice(&body);
        s.chunk_size = 1;
        s.steps = 69_999;
        cases.push(Case { kind: "70000-windows".into(), bytes: two, settings: s });
    }
    for c in &cases {
        evals += 1;
        let wf = c.settings.steps >= 1 && c.settings.steps.checked_mul(c.settings.chunk_size).is_some();
        let o = run_real(&c.bytes, &c.settings);
        let lines = outcome_lines(&o);
        match &o {
            Outcome::Panic(p) if wf => violations.push(json!({"prop": "C02", "what": format!("from_bytes panicked with trace logging enabled: {}", p),
                "case": {"kind": c.kind, "len": c.bytes.len(), "bytes_hex": if c.bytes.len() < 5000 { hex(&c.bytes) } else { format!("(large) first non-ascii at {:?}", c.bytes.iter().position(|b| *b >= 0x80)) }, "settings": settings_json(&c.settings)}})),
            Outcome::Ok(ms) => {
                if !ms.is_empty() {
                    nontrivial += 1;
                }
                if lines.first().map(|l| l.starts_with("R ACCESSOR-PANIC")).unwrap_or(false) {
                    violations.push(json!({"prop": "C02", "what": format!("an accessor panicked: {}", lines[0]),
                        "case": {"kind": c.kind, "bytes_hex": short(&c.bytes, 2000), "settings": settings_json(&c.settings)}}));
                }
                // lookup by arbitrary names, iteration, in-bounds indexing
                let r = catch_unwind(AssertUnwindSafe(|| {
                    for l in LABEL_POOL.iter().chain(BAD_LABELS.iter()) {
                        let _ = ms.get_by_encoding(l);
                    }
                    for i in 0..ms.len() {
                        let m = &ms[i];
                        let _ = (m.encoding_aliases(), m.languages(), m.unicode_ranges(), m.chaos_percents(), m.coherence_percents(),
                                 m.multi_byte_usage(), m.most_probably_language(), m.suitable_encodings(), m.has_submatch(), m.raw().len(),
                                 format!("{} {:?}", m, m));
                    }
                    ms.iter().count()
                }));
                if r.is_err() {
                    violations.push(json!({"prop": "C02", "what": "accessor / lookup / indexing panicked",
                        "case": {"kind": c.kind, "bytes_hex": short(&c.bytes, 2000), "settings": settings_json(&c.settings)}}));
                }
            }
            _ => {}
        }
        if samples.len() < 3 && evals % 40 == 7 {
            samples.push(json!({"kind": c.kind, "len": c.bytes.len(), "result": lines.first()}));
        }
    }
    // 2. helpers: decode (3 traps x test-only x chunk), encode (4 traps), iana_name
    let sup = supported();
    let mut helper_calls = 0u64;
    for enc in &sup {
        for _ in 0..(n / 8).max(6) {
            let b: Vec<u8> = match rng.below(3) {
                0 => (0..rng.range(0, 40)).map(|_| rng.below(256) as u8).collect(),
                1 => {
                    let t = rng.pick(&corpus.texts);
                    let t: String = t.chars().take(rng.range(0, 200)).collect();
                    encode_text(&t, enc).unwrap_or_default()
                }
                _ => {
                    let f = rng.pick(&corpus.files);
                    let n = rng.range(0, 300).min(f.bytes.len());
                    let st = rng.below(f.bytes.len() - n + 1);
                    f.bytes[st..st + n].to_vec()
                }
            };
            for trap in [DecoderTrap::Strict, DecoderTrap::Ignore, DecoderTrap::Replace] {
                for (only_test, chunk) in [(false, false), (true, false), (false, true), (true, true)] {
                    helper_calls += 1;
                    let r = catch_unwind(AssertUnwindSafe(|| decode(&b, enc, trap, only_test, chunk)));
                    if r.is_err() {
                        violations.push(json!({"prop": "C02", "what": format!("decode panicked: enc={} only_test={} chunk={}", enc, only_test, chunk),
                            "case": {"bytes_hex": hex(&b), "encoding": enc}}));
                    }
                }
            }
            let t = rng.pick(&corpus.texts);
            let t: String = t.chars().skip(rng.below(50)).take(rng.range(0, 120)).collect();
            for trap in [EncoderTrap::Strict, EncoderTrap::Ignore, EncoderTrap::Replace, EncoderTrap::NcrEscape] {
                helper_calls += 1;
                let r = catch_unwind(AssertUnwindSafe(|| encode(&t, enc, trap)));
                if r.is_err() {
                    violations.push(json!({"prop": "C02", "what": format!("encode panicked: enc={}", enc), "case": {"text_hex": hex(t.as_bytes()), "encoding": enc}}));
                }
            }
        }
        let _ = encoding_from_whatwg_label(enc);
    }
    for _ in 0..500 {
        let s: String = (0..rng.range(0, 12)).map(|_| char::from_u32(rng.below(0x2ff) as u32).unwrap_or('x')).collect();
        helper_calls += 1;
        if catch_unwind(AssertUnwindSafe(|| iana_name(&s).map(|x| x.to_string()))).is_err() {
            violations.push(json!({"prop": "C02", "what": "iana_name panicked", "case": {"name_hex": hex(s.as_bytes())}}));
        }
    }
    // 3. from_path on failure kinds never panics
    for p in ["/nonexistent/x", "/tmp", "/proc/self/mem", "/etc/hostname/x"] {
        helper_calls += 1;
        let r = catch_unwind(AssertUnwindSafe(|| charset_normalizer_rs::from_path(std::path::Path::new(p), None).map(|m| m.len())));
        if r.is_err() {
            violations.push(json!({"prop": "C02", "what": format!("from_path({}) panicked", p), "case": {"path": p}}));
        }
    }
    let rep = json!({"level": "total", "seed": seed, "evaluations": evals + helper_calls, "distinct_nontrivial": nontrivial,
        "helper_calls": helper_calls, "violations": violations, "disagreements": [], "samples": samples});
    std::fs::write(out, serde_json::to_string_pretty(&rep).unwrap()).expect("write");
    rep
}
