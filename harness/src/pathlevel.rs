//! C14 on the implementation: from_path(p) == from_bytes(read(p)) for files of any size, and every
//! failure kind is a returned error (never a panic, never a partial result).
use crate::gen::*;
use crate::sig::*;
use crate::util::*;
use serde_json::json;
use std::panic::{catch_unwind, AssertUnwindSafe};
use std::path::Path;

fn real_path(p: &Path, s: &charset_normalizer_rs::entity::NormalizerSettings) -> Vec<String> {
    match catch_unwind(AssertUnwindSafe(|| charset_normalizer_rs::from_path(p, Some(s.clone())))) {
        Ok(Ok(m)) => outcome_lines(&Outcome::Ok(m)),
        Ok(Err(e)) => vec![format!("R ERR {}", e)],
        Err(_) => vec!["R PANIC".to_string()],
    }
}

/// child mode: run from_path on one path and print the first line (used under a dropped uid)
pub fn child(path: &str) {
    let l = real_path(Path::new(path), &default_settings());
    println!("{}", l.first().cloned().unwrap_or_default());
}

pub fn run(seed: u64, n: usize, scratch: &str, out: &str) -> serde_json::Value {
    let corpus = load_corpus();
    let mut rng = Rng::new(seed);
    let dir = Path::new(scratch).join("pathlevel");
    let _ = std::fs::remove_dir_all(&dir);
    std::fs::create_dir_all(&dir).expect("scratch");
    let mut violations = vec![];
    let mut samples = vec![];
    let mut evals = 0u64;
    let mut nontrivial = 0u64;
    let mut kinds = std::collections::BTreeMap::new();
    for k in 0..n {
        let s = if k % 3 == 0 { gen_settings(&mut rng, 3000) } else { default_settings() };
        if s.steps == 0 {
            continue;
        }
        let window = s.steps.saturating_mul(s.chunk_size);
        let content: Vec<u8> = match k % 8 {
            0 => vec![],
            1 => vec![rng.below(256) as u8],
            2 => { let mut b = ascii_text(&mut rng, window.min(20000).max(2)); b.truncate(window.min(20000).max(2) - 1); b }
            3 => ascii_text(&mut rng, window.min(20000).max(1)),
            4 => ascii_text(&mut rng, window.min(20000) + 1),
            5 if k % 40 == 5 => { let f = rng.pick(&corpus.files); let mut b = vec![]; while b.len() < 1_000_100 { b.extend_from_slice(&f.bytes); b.push(b'\n'); } b }
            _ => rng.pick(&corpus.files).bytes.clone(),
        };
        let p = dir.join(format!("f{}.bin", k));
        std::fs::write(&p, &content).unwrap();
        evals += 1;
        *kinds.entry(format!("regular-{}", match content.len() { 0 => "empty", 1 => "one-byte", x if x > 1_000_000 => ">1MB", _ => "other" })).or_insert(0u64) += 1;
        let a = real_path(&p, &s);
        let b = outcome_lines(&run_real(&content, &s));
        if a != b {
            violations.push(json!({"prop": "C14", "what": format!("from_path differs from from_bytes on a {}-byte file", content.len()), "known": null,
                "case": {"len": content.len(), "bytes": short(&content, 60), "settings": settings_json(&s), "from_path": a.first(), "from_bytes": b.first()}}));
        }
        // the same file reached in other ways: absolute / relative symlink (short target string), link to a link,
        // hard link, a path through "sub/..": the result must still be that of the complete contents
        if k % 2 == 0 {
            let sub = dir.join("via");
            let _ = std::fs::create_dir_all(&sub);
            let abs_link = dir.join(format!("l{}", k));
            let rel_link = dir.join(format!("r{}", k));
            let link2 = dir.join(format!("ll{}", k));
            let hard = dir.join(format!("h{}", k));
            let _ = std::os::unix::fs::symlink(&p, &abs_link);
            let _ = std::os::unix::fs::symlink(format!("f{}.bin", k), &rel_link);
            let _ = std::os::unix::fs::symlink(format!("r{}", k), &link2);
            let _ = std::fs::hard_link(&p, &hard);
            let dotted = sub.join("..").join(format!("f{}.bin", k));
            for (how, q) in [("absolute symlink", &abs_link), ("relative symlink", &rel_link), ("symlink to a symlink", &link2), ("hard link", &hard), ("path through sub/..", &dotted)] {
                evals += 1;
                *kinds.entry(how.to_string()).or_insert(0u64) += 1;
                let a2 = real_path(q, &s);
                if a2 != b {
                    violations.push(json!({"prop": "C14", "what": format!("from_path through a {} differs from from_bytes on the {}-byte file it names", how, content.len()), "known": null,
                        "case": {"how": how, "len": content.len(), "bytes": short(&content, 60), "settings": settings_json(&s), "from_path": a2.first(), "from_bytes": b.first()}}));
                }
            }
            for q in [&abs_link, &rel_link, &link2, &hard] { let _ = std::fs::remove_file(q); }
        }
        if a.len() > 1 {
            nontrivial += 1;
        }
        if samples.len() < 3 && k % 13 == 4 {
            samples.push(json!({"len": content.len(), "result": a.first()}));
        }
        let _ = std::fs::remove_file(&p);
    }
    // failure kinds
    let regular = dir.join("regular.txt");
    std::fs::write(&regular, b"hello").unwrap();
    let sub = dir.join("adir");
    std::fs::create_dir_all(&sub).unwrap();
    let dangling = dir.join("dangling");
    let _ = std::os::unix::fs::symlink(dir.join("nowhere"), &dangling);
    let good_link = dir.join("goodlink");
    let _ = std::os::unix::fs::symlink(&regular, &good_link);
    for (kind, p) in [("missing", dir.join("missing.txt")), ("directory", sub.clone()), ("through-a-file", regular.join("x")), ("dangling-symlink", dangling.clone())] {
        evals += 1;
        *kinds.entry(kind.to_string()).or_insert(0u64) += 1;
        let a = real_path(&p, &default_settings());
        if !a.first().map(|l| l.starts_with("R ERR")).unwrap_or(false) {
            violations.push(json!({"prop": "C14", "what": format!("{} path: expected a returned error, got {:?}", kind, a.first()), "known": null, "case": {"kind": kind}}));
        }
    }
    // failure kinds spelled WITHOUT a final component ("..", ".", "/", "", "dir/..", "missing/.."), with a trailing
    // slash or dot component, or relative to the current directory: still a returned error
    let spelled: Vec<(&str, std::path::PathBuf)> = vec![
        ("directory-dotdot", sub.join("..")), ("directory-dot", sub.join(".")), ("root", Path::new("/").to_path_buf()),
        ("empty-path", Path::new("").to_path_buf()), ("dot", Path::new(".").to_path_buf()), ("dotdot", Path::new("..").to_path_buf()),
        ("missing-dotdot", dir.join("nodir").join("..").join("nofile")), ("missing-dir-dotdot", dir.join("nodir").join("..")),
        ("directory-trailing-slash", Path::new(&format!("{}/", sub.display())).to_path_buf()),
        ("missing-trailing-slash", Path::new(&format!("{}/", dir.join("missing.txt").display())).to_path_buf()),
        ("file-trailing-slash", Path::new(&format!("{}/", regular.display())).to_path_buf()),
        ("file-dotdot", regular.join("..")), ("non-utf8-name-missing", dir.join(<std::ffi::OsStr as std::os::unix::ffi::OsStrExt>::from_bytes(b"caf\xe9.txt"))),
    ];
    for (kind, p) in spelled {
        evals += 1;
        *kinds.entry(kind.to_string()).or_insert(0u64) += 1;
        let a = real_path(&p, &default_settings());
        if !a.first().map(|l| l.starts_with("R ERR")).unwrap_or(false) {
            violations.push(json!({"prop": "C14", "what": format!("{} path {:?}: expected a returned error, got {:?}", kind, p, a.first()), "known": null, "case": {"kind": kind, "path": format!("{:?}", p)}}));
        }
    }
    // a regular file reached through spellings with dot components reads like the file
    for (kind, p) in [("file-via-dot", dir.join(".").join("regular.txt")), ("file-via-subdir-dotdot", sub.join("..").join("regular.txt"))] {
        evals += 1;
        *kinds.entry(kind.to_string()).or_insert(0u64) += 1;
        if p.exists() && real_path(&p, &default_settings()) != outcome_lines(&run_real(b"hello", &default_settings())) {
            violations.push(json!({"prop": "C14", "what": format!("{}: a regular file reached through {:?} is not read like the file", kind, p), "known": null, "case": {"kind": kind}}));
        }
    }
    // objects whose reported size is 0 although reading them gives contents (procfs / sysfs files, a named pipe) or an
    // error (directories of size 0): the size is a hint, never the truth
    for pf in ["/proc/version", "/proc/filesystems", "/proc/self/cmdline", "/proc/cpuinfo", "/sys/kernel/ostype"] {
        if let Ok(content) = std::fs::read(pf) {
            if content.is_empty() || std::fs::metadata(pf).map(|m| m.len()).unwrap_or(1) != 0 { continue; }
            // (contents of such files may change between two reads: compare only when two reads agree)
            if std::fs::read(pf).ok().as_ref() != Some(&content) { continue; }
            evals += 1;
            *kinds.entry("size-0-file-with-contents".to_string()).or_insert(0u64) += 1;
            if real_path(Path::new(pf), &default_settings()) != outcome_lines(&run_real(&content, &default_settings())) {
                violations.push(json!({"prop": "C14", "what": format!("{} (reported size 0, {} bytes of contents): from_path differs from from_bytes of the contents", pf, content.len()), "known": null, "case": {"kind": "size-0-file-with-contents", "path": pf}}));
            }
        }
    }
    for zd in ["/proc", "/proc/self", "/sys", "/sys/kernel"] {
        if std::fs::metadata(zd).map(|m| m.is_dir() && m.len() == 0).unwrap_or(false) {
            evals += 1;
            *kinds.entry("size-0-directory".to_string()).or_insert(0u64) += 1;
            let a = real_path(Path::new(zd), &default_settings());
            if !a.first().map(|l| l.starts_with("R ERR")).unwrap_or(false) {
                violations.push(json!({"prop": "C14", "what": format!("directory {} (reported size 0): expected a returned error, got {:?}", zd, a.first()), "known": null, "case": {"kind": "size-0-directory", "path": zd}}));
            }
        }
    }
    {
        let fifo = dir.join("pipe.fifo");
        let made = std::process::Command::new("mkfifo").arg(&fifo).status().map(|s| s.success()).unwrap_or(false);
        if made {
            let t: String = rng.pick(&corpus.texts).chars().take(700).collect();
            let content = encode_text(&t, "windows-1251").filter(|b| !b.is_empty()).unwrap_or_else(|| t.as_bytes().to_vec());
            let (f2, c2) = (fifo.clone(), content.clone());
            let writer = std::thread::spawn(move || { if let Ok(mut f) = std::fs::OpenOptions::new().write(true).open(&f2) { use std::io::Write; let _ = f.write_all(&c2); } });
            evals += 1;
            *kinds.entry("named-pipe".to_string()).or_insert(0u64) += 1;
            let got = real_path(&fifo, &default_settings());
            let _ = writer.join();
            if got != outcome_lines(&run_real(&content, &default_settings())) {
                violations.push(json!({"prop": "C14", "what": format!("a named pipe carrying {} bytes: from_path differs from from_bytes of the bytes written ({:?})", content.len(), got.first()), "known": null, "case": {"kind": "named-pipe"}}));
            }
        }
    }
    evals += 1;
    if real_path(&good_link, &default_settings()) != outcome_lines(&run_real(b"hello", &default_settings())) {
        violations.push(json!({"prop": "C14", "what": "a symlink to a regular file is not read like the file", "known": null, "case": {"kind": "symlink"}}));
    }
    // permission denied: a mode-000 file read by a child that dropped to an unprivileged uid
    let secret = dir.join("secret.txt");
    std::fs::write(&secret, b"top secret").unwrap();
    use std::os::unix::fs::PermissionsExt;
    let _ = std::fs::set_permissions(&secret, std::fs::Permissions::from_mode(0o000));
    let exe = std::env::current_exe().unwrap();
    let outp = std::process::Command::new("setpriv").args(["--reuid=65534", "--regid=65534", "--clear-groups"]).arg(&exe).arg("path-child").arg(&secret).output();
    evals += 1;
    match outp {
        Ok(o) if o.status.success() => {
            let l = String::from_utf8_lossy(&o.stdout).trim().to_string();
            *kinds.entry("permission-denied".to_string()).or_insert(0u64) += 1;
            if !l.starts_with("R ERR") {
                violations.push(json!({"prop": "C14", "what": format!("unreadable file (mode 000, uid 65534): expected a returned error, got {:?}", l), "known": null, "case": {"kind": "permission-denied"}}));
            }
        }
        _ => {
            *kinds.entry("permission-denied-not-exercised".to_string()).or_insert(0u64) += 1;
        }
    }
    let _ = std::fs::remove_dir_all(&dir);
    let rep = json!({"level": "path", "seed": seed, "evaluations": evals, "distinct_nontrivial": nontrivial, "kinds": kinds,
        "violations": violations, "disagreements": [], "samples": samples});
    std::fs::write(out, serde_json::to_string_pretty(&rep).unwrap()).expect("write");
    rep
}
