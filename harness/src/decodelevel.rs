//! Decode-level correspondence and search (C17): the public helper utils::decode against the codec
//! crate itself (every resolvable encoding x strict / ignore / replace x test-only), against
//! Model/Decode.v for UTF-8 (all modes incl. chunk) and for the 30 single-byte tables (dumped from
//! the codec crate at run time), and the window property on valid UTF-8 texts.
use crate::gen::*;
use crate::oracle::Driver;
use crate::util::*;
use charset_normalizer_rs::utils::decode;
use encoding::label::encoding_from_whatwg_label;
use encoding::{DecoderTrap, EncodingRef};
use serde_json::json;

fn real_line(r: &Result<String, String>) -> String {
    match r {
        Ok(s) => format!("R OK {}", hex(s.as_bytes())),
        Err(m) => {
            // "<cause> at index <upto>"
            let (cause, idx) = m.rsplit_once(" at index ").unwrap_or((m.as_str(), "?"));
            let c = if cause.contains("invalid sequence") { "invalid" } else if cause.contains("incomplete sequence") { "incomplete" } else { "other" };
            format!("R ERR {} {}", c, idx)
        }
    }
}

fn sb_table(c: EncodingRef) -> Option<String> {
    // forward table of a single-byte codec: byte -> code point (65535 = undefined), via single-byte decodes
    let mut v = vec![];
    for b in 128u16..256 {
        match c.decode(&[b as u8], DecoderTrap::Strict) {
            Ok(s) => {
                let mut it = s.chars();
                let ch = it.next()?;
                if it.next().is_some() {
                    return None;
                }
                v.push(format!("{}", ch as u32));
            }
            Err(_) => v.push("65535".to_string()),
        }
    }
    Some(v.join(","))
}

fn gen_bytes(r: &mut Rng, corpus: &Corpus, enc: &str) -> Vec<u8> {
    match r.below(5) {
        0 => (0..r.range(0, 24)).map(|_| r.below(256) as u8).collect(),
        1 | 2 => {
            // mostly valid: text re-encoded, sometimes one corrupted / truncated byte
            let t = r.pick(&corpus.texts);
            let t: String = t.chars().skip(r.below(300)).take(r.range(0, 60)).collect();
            let mut b = encode_text(&t, enc).unwrap_or_default();
            if r.chance(1, 3) && !b.is_empty() {
                let p = r.below(b.len());
                b[p] = r.below(256) as u8;
            }
            if r.chance(1, 4) && !b.is_empty() {
                let p = r.below(b.len());
                b.truncate(p);
            }
            // escape sequences / shift codes / multi-byte leads of the stateful and the multi-byte codecs, whole or cut
            // after any of their bytes, at the end of the input (where raw_finish() has to account for them)
            if r.chance(1, 3) {
                let tails: [&[u8]; 22] = [b"\x1b", b"\x1b$", b"\x1b$(", b"\x1b$B", b"\x1b$@", b"\x1b(", b"\x1b(B", b"\x1b(J", b"\x1b(I", b"\x1b$(D", b"\x1b$A",
                    b"~", b"~{", b"~}", b"~{!", b"~\n", b"\x8f", b"\x8f\xa1", b"\x8e", b"\x81\x30", b"\x81\x30\x81", b"\x0e"];
                b.extend_from_slice(tails[r.below(tails.len())]);
                if r.chance(1, 3) { b.extend_from_slice(b"ab"); }
            }
            b
        }
        3 => {
            let f = r.pick(&corpus.files);
            let n = r.range(0, 80).min(f.bytes.len());
            let st = r.below(f.bytes.len() - n + 1);
            f.bytes[st..st + n].to_vec()
        }
        _ => {
            // utf-8 edge material: overlongs, surrogates, max code point, stray continuations
            let frags: [&[u8]; 14] = [b"\xc0\x80", b"\xe0\x80\x80", b"\xed\xa0\x80", b"\xf4\x90\x80\x80", b"\xf4\x8f\xbf\xbf", b"\xef\xbf\xbd",
                b"\x80", b"\xbf", b"\xc3", b"\xe2\x82", b"\xf0\x9f\x98", b"\xf0\x9f\x98\x80", b"a", b"\xc3\xa9"];
            let mut b = vec![];
            for _ in 0..r.range(1, 6) {
                let f: &[u8] = frags[r.below(frags.len())];
                b.extend_from_slice(f);
            }
            b
        }
    }
}

pub fn run(seed: u64, n: usize, driver: &str, out: &str, exhaustive: bool) -> serde_json::Value {
    let corpus = load_corpus();
    let mut rng = Rng::new(seed);
    let mut drv = Driver::start(driver);
    let mut diffs = vec![];
    let mut violations = vec![];
    let mut samples = vec![];
    let mut evals = 0u64;
    let mut nontrivial = 0u64;
    let sup = supported();
    let mut tables: Vec<(String, String)> = vec![];
    for e in &sup {
        if charset_normalizer_rs::utils::is_multi_byte_encoding(e) {
            continue;
        }
        if let Some(c) = encoding_from_whatwg_label(e) {
            match sb_table(c) {
                Some(t) => {
                    // hypotheses of Proofs/SbFacts.v (sb_lazy_contract): no table entry is U+FEFF; bytes < 0x80 are themselves
                    if t.split(',').any(|x| x == "65279") {
                        diffs.push(json!({"what": "single-byte table contains U+FEFF: hypothesis NoFeff of sb_lazy_contract fails", "encoding": e}));
                    }
                    for b in 0u8..128 {
                        if c.decode(&[b], DecoderTrap::Strict).ok() != Some((b as char).to_string()) {
                            diffs.push(json!({"what": "single-byte codec does not map a byte < 0x80 to itself (sb_lookup)", "encoding": e, "byte": b}));
                        }
                    }
                    tables.push((e.clone(), t));
                }
                None => diffs.push(json!({"what": "an encoding that is not in the multi-byte list is not a one-byte-one-character table decoder (SbModelled)", "encoding": e})),
            }
        }
    }
    // 1. helper == codec crate, every resolvable encoding x 3 traps x test-only
    for e in &sup {
        let codec = match encoding_from_whatwg_label(e) {
            Some(c) => c,
            None => continue,
        };
        // every escape / shift / lead-byte tail, whole or cut, behind a short text -- for EVERY encoding (cheap, exhaustive)
        let tails: [&[u8]; 24] = [b"\x1b", b"\x1b$", b"\x1b$(", b"\x1b$B", b"\x1b$@", b"\x1b(", b"\x1b(B", b"\x1b(J", b"\x1b(I", b"\x1b$(D", b"\x1b$A", b"\x1b$)C",
            b"~", b"~{", b"~}", b"~{!", b"~\n", b"\x8f", b"\x8f\xa1", b"\x8e", b"\x81\x30", b"\x81\x30\x81", b"\x0e", b"\x0f"];
        let mut directed: Vec<Vec<u8>> = vec![];
        for t in tails.iter() {
            for head in [&b""[..], &b"abc"[..]] {
                let mut b = head.to_vec();
                b.extend_from_slice(t);
                directed.push(b.clone());
                b.extend_from_slice(b"z");
                directed.push(b);
            }
        }
        let random_n = (n / 40).max(8);
        for k in 0..random_n + directed.len() {
            let b = if k < random_n { gen_bytes(&mut rng, &corpus, e) } else { directed[k - random_n].clone() };
            for (trap, name) in [(DecoderTrap::Strict, "strict"), (DecoderTrap::Ignore, "ignore"), (DecoderTrap::Replace, "replace")] {
                evals += 1;
                let h = decode(&b, e, trap, false, false);
                let c = codec.decode(&b, trap);
                if h.is_ok() {
                    nontrivial += 1;
                }
                let same = match (&h, &c) {
                    (Ok(a), Ok(b2)) => a == b2,
                    (Err(_), Err(_)) => true,
                    _ => false,
                };
                if !same {
                    violations.push(json!({"prop": "C17", "what": format!("decode helper differs from the codec: enc={} mode={} helper={:?} codec={:?}", e, name, h.as_ref().map(|s| s.len()), c.as_ref().map(|s| s.len())),
                        "known": null, "case": {"encoding": e, "mode": name, "bytes_hex": hex(&b)}}));
                }
                let t = decode(&b, e, trap, true, false);
                if t.is_ok() != h.is_ok() || t.as_ref().map(|s| !s.is_empty()).unwrap_or(false) {
                    violations.push(json!({"prop": "C17", "what": format!("test-only mode disagrees with the real decode or materialises text: enc={} mode={}", e, name),
                        "known": null, "case": {"encoding": e, "mode": name, "bytes_hex": hex(&b)}}));
                }
            }
        }
    }
    // 1b. the same on inputs ABOVE 1 MiB in every multi-byte encoding (one piece of valid text behind a 0..3-byte prefix,
    //     once intact and once with the last byte cut off): whatever the helper does block-wise must not show
    for e in ["utf-8", "shift_jis", "big5", "euc-kr", "gbk", "gb18030", "euc-jp", "utf-16le", "utf-16be"] {
        let codec = match encoding_from_whatwg_label(e) { Some(c) => c, None => continue };
        let enc_static: &'static str = match e { "utf-8" => "utf-8", "shift_jis" => "shift_jis", "big5" => "big5", "euc-kr" => "euc-kr", "gbk" => "gbk", "gb18030" => "gb18030", "euc-jp" => "euc-jp", "utf-16le" => "utf-16le", _ => "utf-16be" };
        let n_full = 1_050_000 + rng.below(100_000);
        let full = multibyte_text(&mut rng, &corpus, n_full, enc_static);
        let mut cut = full.clone();
        cut.pop();
        {
            // detection restricted to this encoding on the intact input: every reported candidate must strictly decode it to the exposed text
            let mut st = crate::gen::default_settings();
            st.include_encodings = vec![e.to_string()];
            if let crate::sig::Outcome::Ok(ms) = crate::sig::run_real(&full, &st) {
                evals += 1;
                for f in crate::props::check_c01(&full, &st, &ms) {
                    violations.push(json!({"prop": f.prop, "what": format!("{} (input of {} bytes, detection restricted to {})", f.what, full.len(), e), "known": f.known,
                        "case": {"encoding": e, "bytes_len": full.len(), "bytes_head_hex": hex(&full[..64.min(full.len())]), "how": "multibyte_text(seed): re-run the decode level with the same seed"}}));
                }
            }
        }
        for b in [&full, &cut] {
            for (trap, name) in [(DecoderTrap::Strict, "strict"), (DecoderTrap::Replace, "replace")] {
                evals += 1;
                let h = decode(b, e, trap, false, false);
                let c = codec.decode(b, trap);
                let same = match (&h, &c) { (Ok(a), Ok(b2)) => a == b2, (Err(_), Err(_)) => true, _ => false };
                if !same {
                    violations.push(json!({"prop": "C17", "what": format!("decode helper differs from the codec on an input of {} bytes: enc={} mode={} helper={:?} codec={:?}", b.len(), e, name, h.as_ref().map(|s| s.len()).map_err(|m| m.clone()), c.as_ref().map(|s| s.len()).map_err(|m| m.to_string())),
                        "known": null, "case": {"encoding": e, "mode": name, "bytes_len": b.len(), "bytes_head_hex": hex(&b[..64.min(b.len())]), "how": "multibyte_text(seed) -- re-run the decode level with the same seed"}}));
                }
                if !same {
                    diffs.push(json!({"what": "decode helper vs codec crate on an input above 1 MiB", "encoding": e, "mode": name, "bytes_len": b.len()}));
                }
                let t = decode(b, e, trap, true, false);
                if t.is_ok() != h.is_ok() || t.as_ref().map(|s| !s.is_empty()).unwrap_or(false) {
                    violations.push(json!({"prop": "C17", "what": format!("test-only mode disagrees with the real decode on an input of {} bytes: enc={} mode={}", b.len(), e, name),
                        "known": null, "case": {"encoding": e, "mode": name, "bytes_len": b.len()}}));
                }
            }
        }
    }
    // 2. model correspondence: UTF-8 in all modes, single-byte tables
    for i in 0..n {
        let b = gen_bytes(&mut rng, &corpus, "utf-8");
        for (mode, trap, test, chunk) in [("STRICT", DecoderTrap::Strict, false, false), ("TEST", DecoderTrap::Strict, true, false),
            ("CHUNK", DecoderTrap::Strict, false, true), ("IGNORE", DecoderTrap::Ignore, false, false), ("REPLACE", DecoderTrap::Replace, false, false)] {
            evals += 1;
            let real = real_line(&decode(&b, "utf-8", trap, test, chunk));
            let model = drv.decode_model(&format!("U8 {} {}", mode, hex(&b)));
            // the helper's error TEXT is not part of the property (outside chunk mode it is always
            // " at index 0": the error of the attempt is never copied into the message); compare Ok / Err
            let cut = |l: &String| -> String { if l.starts_with("R ERR") { "R ERR".to_string() } else { l.clone() } };
            let (real_c, model_c) = (cut(&real), cut(&model));
            if real_c != model_c {
                diffs.push(json!({"what": "utf-8 decoder model", "mode": mode, "bytes_hex": hex(&b), "real": real, "model": model}));
            }
        }
        if !tables.is_empty() {
            let (e, tbl) = rng.pick(&tables).clone();
            let b = gen_bytes(&mut rng, &corpus, &e);
            for (mode, trap) in [("STRICT", DecoderTrap::Strict), ("TEST", DecoderTrap::Strict), ("CHUNK", DecoderTrap::Strict), ("IGNORE", DecoderTrap::Ignore), ("REPLACE", DecoderTrap::Replace)] {
                evals += 1;
                let real = real_line(&decode(&b, &e, trap, mode == "TEST", mode == "CHUNK"));
                let model = drv.decode_model(&format!("SB {} {} {}", tbl, mode, hex(&b)));
                let cut = |l: &String| -> String { if l.starts_with("R ERR") { "R ERR".to_string() } else { l.clone() } };
                if cut(&real) != cut(&model) {
                    diffs.push(json!({"what": "single-byte decoder model", "encoding": e, "mode": mode, "bytes_hex": hex(&b), "real": real, "model": model}));
                }
            }
        }
        if samples.len() < 3 && i % 61 == 9 {
            samples.push(json!({"bytes_hex": hex(&b), "utf8_strict": real_line(&decode(&b, "utf-8", DecoderTrap::Strict, false, false))}));
        }
    }
    // 2b. UTF-16LE/BE: the helper against Model/Utf.v in every mode; the raw decoder fed in pieces (its two-field
    //     state); the encoders and str::chars against the models; Model/Codecs.v by encoding name
    let cps = |t: &str| -> String { if t.is_empty() { "".to_string() } else { t.chars().map(|c| (c as u32).to_string()).collect::<Vec<_>>().join(",") } };
    let units: [u16; 14] = [0xD800, 0xDBFF, 0xDC00, 0xDFFF, 0x0041, 0xFEFF, 0xFFFE, 0xFFFF, 0x0000, 0xD7FF, 0xE000, 0x4F60, 0x00E9, 0x000A];
    let mut u16_cases = 0u64;
    for i in 0..n {
        let big = rng.chance(1, 2);
        let (enc, bo) = if big { ("utf-16be", "BE") } else { ("utf-16le", "LE") };
        let mut b: Vec<u8> = match rng.below(4) {
            0 => {
                let t = rng.pick(&corpus.texts);
                let t: String = t.chars().skip(rng.below(300)).take(rng.range(0, 40)).collect();
                encode_text(&t, enc).unwrap_or_default()
            }
            1 | 2 => {
                let mut v = vec![];
                for _ in 0..rng.range(0, 9) {
                    let u = *rng.pick(&units);
                    if big { v.extend_from_slice(&u.to_be_bytes()) } else { v.extend_from_slice(&u.to_le_bytes()) }
                }
                v
            }
            _ => (0..rng.range(0, 12)).map(|_| rng.below(256) as u8).collect(),
        };
        if rng.chance(1, 3) && !b.is_empty() {
            let p = rng.below(b.len());
            b[p] = rng.below(256) as u8;
        }
        if rng.chance(1, 3) && !b.is_empty() {
            let p = rng.below(b.len() + 1);
            b.truncate(p);
        }
        if rng.chance(1, 6) {
            b.insert(0, rng.below(256) as u8);
        }
        u16_cases += 1;
        for (mode, trap, test, chunk) in [("STRICT", DecoderTrap::Strict, false, false), ("TEST", DecoderTrap::Strict, true, false),
            ("CHUNK", DecoderTrap::Strict, false, true), ("IGNORE", DecoderTrap::Ignore, false, false), ("REPLACE", DecoderTrap::Replace, false, false)] {
            evals += 1;
            let real = match decode(&b, enc, trap, test, chunk) { Ok(t) => format!("R OK {}", cps(&t)), Err(_) => "R ERR".to_string() };
            let model = drv.decode_model(&format!("U16 {} {} {}", bo, mode, hex(&b)));
            let model_c = if model.starts_with("R ERR") { "R ERR".to_string() } else { model.clone() };
            if real != model_c {
                diffs.push(json!({"what": "utf-16 decoder model (helper)", "encoding": enc, "mode": mode, "bytes_hex": hex(&b), "real": real, "model": model}));
            }
        }
        // the raw decoder fed in 1..4 pieces cut at random positions
        {
            let mut cuts: Vec<usize> = (0..rng.below(4)).map(|_| rng.below(b.len() + 1)).collect();
            cuts.sort();
            let mut pieces: Vec<&[u8]> = vec![];
            let mut prev = 0;
            for c in cuts { pieces.push(&b[prev..c]); prev = c; }
            pieces.push(&b[prev..]);
            let codec = encoding_from_whatwg_label(enc).unwrap();
            let mut d = codec.raw_decoder();
            let show = |s: &str| -> String { s.chars().map(|c| (c as u32).to_string()).collect::<Vec<_>>().join(".") };
            let show_err = |e: &Option<encoding::types::CodecError>| -> String { match e {
                None => "-".to_string(),
                Some(e) => format!("{}@{}", if e.cause.contains("invalid") { "invalid" } else if e.cause.contains("incomplete") { "incomplete" } else { "other" }, e.upto),
            } };
            let mut parts = vec![];
            for pc in &pieces {
                let mut out = String::new();
                let (off, err) = d.raw_feed(pc, &mut out);
                parts.push(format!("{}:{}:{}", off, show(&out), show_err(&err)));
            }
            let mut out = String::new();
            let err = d.raw_finish(&mut out);
            let real = format!("R {};F:{}:{}", parts.join(";"), show(&out), show_err(&err));
            evals += 1;
            let feeds = pieces.iter().map(|p| if p.is_empty() { "-".to_string() } else { hex(p) }).collect::<Vec<_>>().join(",");
            let model = drv.decode_model(&format!("U16RAW {} {}", bo, feeds));
            if real != model {
                diffs.push(json!({"what": "utf-16 raw decoder model (stateful feeds)", "encoding": enc, "feeds": feeds, "real": real, "model": model}));
            }
        }
        // encoders and str::chars
        if i % 2 == 0 {
            let t: String = if rng.chance(1, 2) {
                let a = rng.pick(&corpus.texts);
                a.chars().skip(rng.below(400)).take(rng.range(0, 30)).collect()
            } else {
                let pool: Vec<char> = "a\u{7f}\u{80}\u{7ff}\u{800}\u{fff}\u{1000}\u{cfff}\u{d000}\u{d7ff}\u{e000}\u{feff}\u{ffff}\u{10000}\u{3ffff}\u{40000}\u{fffff}\u{100000}\u{10ffff}".chars().collect();
                (0..rng.range(0, 8)).map(|_| *rng.pick(&pool)).collect()
            };
            let c = if t.is_empty() { "-".to_string() } else { cps(&t) };
            evals += 3;
            let m8 = drv.decode_model(&format!("UENC 8 {}", c));
            if m8 != format!("R {}", hex(t.as_bytes())) {
                diffs.push(json!({"what": "utf-8 encoder model (String contents)", "text_hex": hex(t.as_bytes()), "model": m8}));
            }
            let le: Vec<u8> = t.encode_utf16().flat_map(|u| u.to_le_bytes()).collect();
            let be: Vec<u8> = t.encode_utf16().flat_map(|u| u.to_be_bytes()).collect();
            for (form, e, std_bytes) in [("16LE", "utf-16le", &le), ("16BE", "utf-16be", &be)] {
                let lib = charset_normalizer_rs::utils::encode(&t, e, encoding::EncoderTrap::Strict).unwrap_or_default();
                let m = drv.decode_model(&format!("UENC {} {}", form, c));
                if m != format!("R {}", hex(&lib)) || &lib != std_bytes {
                    diffs.push(json!({"what": "utf-16 encoder model", "form": form, "text_hex": hex(t.as_bytes()), "model": m, "library": hex(&lib), "std": hex(std_bytes)}));
                }
            }
            let mc = drv.decode_model(&format!("U8CHARS {}", hex(t.as_bytes())));
            if mc != format!("R {}", cps(&t)) {
                diffs.push(json!({"what": "str::chars model (utf8_chars)", "text_hex": hex(t.as_bytes()), "model": mc}));
            }
        }
    }
    // 2c. Model/Codecs.v by encoding NAME (what DETECTFULL decodes with): every supported name that is modelled
    let mut by_name = 0u64;
    let mut unmodelled: Vec<String> = vec![];
    for e in &sup {
        for k in 0..(n / 30).max(6) {
            let b = gen_bytes(&mut rng, &corpus, e);
            for (mode, test, chunk) in [("STRICT", false, false), ("TEST", true, false), ("CHUNK", false, true)] {
                let model = drv.decode_model(&format!("CODEC {} {} {}", hex(e.as_bytes()), mode, hex(&b)));
                if model == "R UNMODELLED" {
                    if k == 0 && mode == "STRICT" { unmodelled.push(e.clone()); }
                    continue;
                }
                evals += 1;
                by_name += 1;
                let real = match decode(&b, e, DecoderTrap::Strict, test, chunk) {
                    Ok(t) => if test { "R OK".to_string() } else { format!("R OK {}", cps(&t)) },
                    Err(_) => "R ERR".to_string(),
                };
                if real != model {
                    diffs.push(json!({"what": "codec model by encoding name (Model/Codecs.v)", "encoding": e, "mode": mode, "bytes_hex": hex(&b), "real": real, "model": model}));
                }
            }
        }
    }
    // every encoding outside the CJK list must be modelled
    for e in &unmodelled {
        if !["euc-jp", "euc-kr", "iso-2022-jp", "gbk", "gb18030", "hz", "big5", "shift_jis"].contains(&e.as_str()) {
            diffs.push(json!({"what": "a non-CJK encoding is not covered by Model/Codecs.v", "encoding": e}));
        }
    }
    // 2d. exhaustive small domains (thorough tier): EVERY byte string of length 1 and 2 through the UTF-8 model (strict, chunk)
    //     and through the UTF-16LE/BE models (strict, replace); every 3-byte string starting with E0 / ED / EF and every
    //     4-byte string F0 8x..9x / F4 8x..9x xx 80|BF (the rows where overlong forms, surrogates and the upper limit sit)
    let mut exhaustive_cases = 0u64;
    if exhaustive {
        let mut inputs: Vec<Vec<u8>> = vec![];
        for a in 0..=255u8 { inputs.push(vec![a]); for b in 0..=255u8 { inputs.push(vec![a, b]); } }
        for a in [0xE0u8, 0xED, 0xEF] { for b in 0x80..=0xBFu8 { for c in 0x7F..=0xC0u8 { inputs.push(vec![a, b, c]); } } }
        for a in [0xF0u8, 0xF4] { for b in 0x80..=0x9Fu8 { for c in [0x80u8, 0xBF] { for d in [0x7Fu8, 0x80, 0xBF, 0xC0] { inputs.push(vec![a, b, c, d]); } } } }
        let cps = |t: &str| -> String { t.chars().map(|c| (c as u32).to_string()).collect::<Vec<_>>().join(",") };
        for b in &inputs {
            for (mode, chunk) in [("STRICT", false), ("CHUNK", true)] {
                exhaustive_cases += 1;
                evals += 1;
                let real = real_line(&decode(b, "utf-8", DecoderTrap::Strict, false, chunk));
                let model = drv.decode_model(&format!("U8 {} {}", mode, hex(b)));
                let cut = |l: &String| -> String { if l.starts_with("R ERR") { "R ERR".to_string() } else { l.clone() } };
                if cut(&real) != cut(&model) {
                    diffs.push(json!({"what": "utf-8 decoder model (exhaustive small strings)", "mode": mode, "bytes_hex": hex(b), "real": real, "model": model}));
                }
            }
            if b.len() <= 2 || b.len() == 4 {
                for (enc, bo) in [("utf-16le", "LE"), ("utf-16be", "BE")] {
                    for (mode, trap) in [("STRICT", DecoderTrap::Strict), ("REPLACE", DecoderTrap::Replace)] {
                        exhaustive_cases += 1;
                        evals += 1;
                        let real = match decode(b, enc, trap, false, false) { Ok(t) => format!("R OK {}", cps(&t)), Err(_) => "R ERR".to_string() };
                        let model = drv.decode_model(&format!("U16 {} {} {}", bo, mode, hex(b)));
                        let model_c = if model.starts_with("R ERR") { "R ERR".to_string() } else { model.clone() };
                        if real != model_c {
                            diffs.push(json!({"what": "utf-16 decoder model (exhaustive small strings)", "encoding": enc, "mode": mode, "bytes_hex": hex(b), "real": real, "model": model}));
                        }
                    }
                }
            }
        }
        // every surrogate-range code unit pair boundary: hi in {D7FF, D800, DBFF, DC00}, lo in every unit of DB00..E0FF
        for hi in [0xD7FFu16, 0xD800, 0xDBFF, 0xDC00, 0xDFFF, 0xE000] {
            for lo in 0xDB00..=0xE0FFu16 {
                for (enc, bo) in [("utf-16le", "LE"), ("utf-16be", "BE")] {
                    let mut b = vec![];
                    for u in [hi, lo] { if bo == "BE" { b.extend_from_slice(&u.to_be_bytes()) } else { b.extend_from_slice(&u.to_le_bytes()) } }
                    exhaustive_cases += 1;
                    evals += 1;
                    let real = match decode(&b, enc, DecoderTrap::Strict, false, false) { Ok(t) => format!("R OK {}", cps(&t)), Err(_) => "R ERR".to_string() };
                    let model = drv.decode_model(&format!("U16 {} STRICT {}", bo, hex(&b)));
                    let model_c = if model.starts_with("R ERR") { "R ERR".to_string() } else { model.clone() };
                    if real != model_c {
                        diffs.push(json!({"what": "utf-16 decoder model (surrogate boundaries)", "encoding": enc, "bytes_hex": hex(&b), "real": real, "model": model}));
                    }
                }
            }
        }
        // every scalar value on a stride + every boundary: encoders and round trip
        let mut cpsv: Vec<u32> = (0..0x110000u32).step_by(257).collect();
        for b in [0x7Fu32, 0x80, 0x7FF, 0x800, 0xD7FF, 0xE000, 0xFFFF, 0x10000, 0x3FFFF, 0x40000, 0xFFFFF, 0x100000, 0x10FFFF] { cpsv.push(b); }
        for c in cpsv.iter().filter_map(|c| char::from_u32(*c)) {
            exhaustive_cases += 1;
            evals += 1;
            let t = c.to_string();
            let m8 = drv.decode_model(&format!("UENC 8 {}", c as u32));
            let le: Vec<u8> = t.encode_utf16().flat_map(|u| u.to_le_bytes()).collect();
            let m16 = drv.decode_model(&format!("UENC 16LE {}", c as u32));
            if m8 != format!("R {}", hex(t.as_bytes())) || m16 != format!("R {}", hex(&le)) {
                diffs.push(json!({"what": "encoder models (scalar sweep)", "code_point": c as u32, "utf8_model": m8, "utf16le_model": m16}));
            }
        }
    }
    // 3. the window property: every window [i,j) of a valid UTF-8 text that contains a complete character
    //    decodes (chunk mode) to exactly the complete characters inside it
    let mut windows = 0u64;
    // (U+FEFF is an ordinary character inside a text: a window that begins with it must keep it)
    let pool: Vec<char> = "a\u{e9}\u{444}\u{4f60}\u{1f600}z\u{7ff}\u{800}\u{ffff}\u{10000}\u{10ffff} \u{feff}\u{fffe}\u{fffd}".chars().collect();
    for k in 0..(n / 10).max(20) {
        let t: String = if k % 3 == 0 {
            (0..rng.range(1, 7)).map(|_| *rng.pick(&pool)).collect()
        } else {
            let a = rng.pick(&corpus.texts);
            a.chars().skip(rng.below(400)).take(rng.range(1, 10)).collect()
        };
        let b = t.as_bytes();
        let bounds: Vec<usize> = t.char_indices().map(|(i, _)| i).chain(std::iter::once(b.len())).collect();
        for i in 0..b.len() {
            for j in i + 1..=b.len() {
                let lo = bounds.iter().copied().find(|x| *x >= i).unwrap();
                let hi = bounds.iter().copied().rev().find(|x| *x <= j).unwrap();
                if hi <= lo {
                    continue; // no complete character inside
                }
                windows += 1;
                evals += 1;
                let r = decode(&b[i..j], "utf-8", DecoderTrap::Strict, false, true);
                let expect = std::str::from_utf8(&b[lo..hi]).unwrap();
                if r.as_deref() != Ok(expect) {
                    violations.push(json!({"prop": "C17", "what": format!("window [{},{}) of {:?} decodes to {:?}, expected {:?}", i, j, t, r, expect),
                        "known": null, "case": {"text_hex": hex(b), "i": i, "j": j}}));
                }
                // the model must agree too
                let model = drv.decode_model(&format!("U8 CHUNK {}", hex(&b[i..j])));
                if model != format!("R OK {}", hex(expect.as_bytes())) {
                    diffs.push(json!({"what": "utf-8 window (model)", "text_hex": hex(b), "i": i, "j": j, "model": model}));
                }
            }
        }
    }
    let rep = json!({"level": "decode", "seed": seed, "evaluations": evals, "distinct_nontrivial": nontrivial, "windows": windows,
        "single_byte_tables": tables.len(), "utf16_cases": u16_cases, "exhaustive_small_domain_cases": exhaustive_cases, "codec_by_name_evaluations": by_name, "unmodelled_codecs": unmodelled, "disagreements": diffs, "violations": violations, "samples": samples});
    std::fs::write(out, serde_json::to_string_pretty(&rep).unwrap()).expect("write");
    rep
}
