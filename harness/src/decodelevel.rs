//! Decode-level correspondence and search (C17): the public helper utils::decode against the codec
//! crate itself (every resolvable encoding x strict / ignore / replace x test-only), against
//! Model/Decode.v for UTF-8 (all modes incl. chunk) and for the 30 single-byte tables (dumped from
//! the codec crate at run time), and the window property on valid UTF-8 texts.
use crate::gen::*;
use crate::oracle::Driver;
use crate::util::*;
use charset_normalizer_rs::utils::decode;
use encoding::label::encoding_from_whatwg_label;
use encoding::{DecoderTrap, EncodingRef};
use serde_json::json;

fn real_line(r: &Result<String, String>) -> String {
    match r {
        Ok(s) => format!("R OK {}", hex(s.as_bytes())),
        Err(m) => {
            // "<cause> at index <upto>"
            let (cause, idx) = m.rsplit_once(" at index ").unwrap_or((m.as_str(), "?"));
            let c = if cause.contains("invalid sequence") { "invalid" } else if cause.contains("incomplete sequence") { "incomplete" } else { "other" };
            format!("R ERR {} {}", c, idx)
        }
    }
}

fn sb_table(c: EncodingRef) -> Option<String> {
    // forward table of a single-byte codec: byte -> code point (65535 = undefined), via single-byte decodes
    let mut v = vec![];
    for b in 128u16..256 {
        match c.decode(&[b as u8], DecoderTrap::Strict) {
            Ok(s) => {
                let mut it = s.chars();
                let ch = it.next()?;
                if it.next().is_some() {
                    return None;
                }
                v.push(format!("{}", ch as u32));
            }
            Err(_) => v.push("65535".to_string()),
        }
    }
    Some(v.join(","))
}

fn gen_bytes(r: &mut Rng, corpus: &Corpus, enc: &str) -> Vec<u8> {
    match r.below(5) {
        0 => (0..r.range(0, 24)).map(|_| r.below(256) as u8).collect(),
        1 | 2 => {
            // mostly valid: text re-encoded, sometimes one corrupted / truncated byte
            let t = r.pick(&corpus.texts);
            let t: String = t.chars().skip(r.below(300)).take(r.range(0, 60)).collect();
            let mut b = encode_text(&t, enc).unwrap_or_default();
            if r.chance(1, 3) && !b.is_empty() {
                let p = r.below(b.len());
                b[p] = r.below(256) as u8;
            }
            if r.chance(1, 4) && !b.is_empty() {
                let p = r.below(b.len());
                b.truncate(p);
            }
            b
        }
        3 => {
            let f = r.pick(&corpus.files);
            let n = r.range(0, 80).min(f.bytes.len());
            let st = r.below(f.bytes.len() - n + 1);
            f.bytes[st..st + n].to_vec()
        }
        _ => {
            // utf-8 edge material: overlongs, surrogates, max code point, stray continuations
            let frags: [&[u8]; 14] = [b"\xc0\x80", b"\xe0\x80\x80", b"\xed\xa0\x80", b"\xf4\x90\x80\x80", b"\xf4\x8f\xbf\xbf", b"\xef\xbf\xbd",
                b"\x80", b"\xbf", b"\xc3", b"\xe2\x82", b"\xf0\x9f\x98", b"\xf0\x9f\x98\x80", b"a", b"\xc3\xa9"];
            let mut b = vec![];
            for _ in 0..r.range(1, 6) {
                let f: &[u8] = frags[r.below(frags.len())];
                b.extend_from_slice(f);
            }
            b
        }
    }
}

pub fn run(seed: u64, n: usize, driver: &str, out: &str) -> serde_json::Value {
    let corpus = load_corpus();
    let mut rng = Rng::new(seed);
    let mut drv = Driver::start(driver);
    let mut diffs = vec![];
    let mut violations = vec![];
    let mut samples = vec![];
    let mut evals = 0u64;
    let mut nontrivial = 0u64;
    let sup = supported();
    let mut tables: Vec<(String, String)> = vec![];
    for e in &sup {
        if charset_normalizer_rs::utils::is_multi_byte_encoding(e) {
            continue;
        }
        if let Some(c) = encoding_from_whatwg_label(e) {
            match sb_table(c) {
                Some(t) => {
                    // hypotheses of Proofs/SbFacts.v (sb_lazy_contract): no table entry is U+FEFF; bytes < 0x80 are themselves
                    if t.split(',').any(|x| x == "65279") {
                        diffs.push(json!({"what": "single-byte table contains U+FEFF: hypothesis NoFeff of sb_lazy_contract fails", "encoding": e}));
                    }
                    for b in 0u8..128 {
                        if c.decode(&[b], DecoderTrap::Strict).ok() != Some((b as char).to_string()) {
                            diffs.push(json!({"what": "single-byte codec does not map a byte < 0x80 to itself (sb_lookup)", "encoding": e, "byte": b}));
                        }
                    }
                    tables.push((e.clone(), t));
                }
                None => diffs.push(json!({"what": "an encoding that is not in the multi-byte list is not a one-byte-one-character table decoder (SbModelled)", "encoding": e})),
            }
        }
    }
    // 1. helper == codec crate, every resolvable encoding x 3 traps x test-only
    for e in &sup {
        let codec = match encoding_from_whatwg_label(e) {
            Some(c) => c,
            None => continue,
        };
        for _ in 0..(n / 40).max(8) {
            let b = gen_bytes(&mut rng, &corpus, e);
            for (trap, name) in [(DecoderTrap::Strict, "strict"), (DecoderTrap::Ignore, "ignore"), (DecoderTrap::Replace, "replace")] {
                evals += 1;
                let h = decode(&b, e, trap, false, false);
                let c = codec.decode(&b, trap);
                if h.is_ok() {
                    nontrivial += 1;
                }
                let same = match (&h, &c) {
                    (Ok(a), Ok(b2)) => a == b2,
                    (Err(_), Err(_)) => true,
                    _ => false,
                };
                if !same {
                    violations.push(json!({"prop": "C17", "what": format!("decode helper differs from the codec: enc={} mode={} helper={:?} codec={:?}", e, name, h.as_ref().map(|s| s.len()), c.as_ref().map(|s| s.len())),
                        "known": null, "case": {"encoding": e, "mode": name, "bytes_hex": hex(&b)}}));
                }
                let t = decode(&b, e, trap, true, false);
                if t.is_ok() != h.is_ok() || t.as_ref().map(|s| !s.is_empty()).unwrap_or(false) {
                    violations.push(json!({"prop": "C17", "what": format!("test-only mode disagrees with the real decode or materialises text: enc={} mode={}", e, name),
                        "known": null, "case": {"encoding": e, "mode": name, "bytes_hex": hex(&b)}}));
                }
            }
        }
    }
    // 2. model correspondence: UTF-8 in all modes, single-byte tables
    for i in 0..n {
        let b = gen_bytes(&mut rng, &corpus, "utf-8");
        for (mode, trap, test, chunk) in [("STRICT", DecoderTrap::Strict, false, false), ("TEST", DecoderTrap::Strict, true, false),
            ("CHUNK", DecoderTrap::Strict, false, true), ("IGNORE", DecoderTrap::Ignore, false, false), ("REPLACE", DecoderTrap::Replace, false, false)] {
            evals += 1;
            let real = real_line(&decode(&b, "utf-8", trap, test, chunk));
            let model = drv.decode_model(&format!("U8 {} {}", mode, hex(&b)));
            // the helper's error TEXT is not part of the property (outside chunk mode it is always
            // " at index 0": the error of the attempt is never copied into the message); compare Ok / Err
            let cut = |l: &String| -> String { if l.starts_with("R ERR") { "R ERR".to_string() } else { l.clone() } };
            let (real_c, model_c) = (cut(&real), cut(&model));
            if real_c != model_c {
                diffs.push(json!({"what": "utf-8 decoder model", "mode": mode, "bytes_hex": hex(&b), "real": real, "model": model}));
            }
        }
        if !tables.is_empty() {
            let (e, tbl) = rng.pick(&tables).clone();
            let b = gen_bytes(&mut rng, &corpus, &e);
            for (mode, trap) in [("STRICT", DecoderTrap::Strict), ("TEST", DecoderTrap::Strict), ("CHUNK", DecoderTrap::Strict), ("IGNORE", DecoderTrap::Ignore), ("REPLACE", DecoderTrap::Replace)] {
                evals += 1;
                let real = real_line(&decode(&b, &e, trap, mode == "TEST", mode == "CHUNK"));
                let model = drv.decode_model(&format!("SB {} {} {}", tbl, mode, hex(&b)));
                let cut = |l: &String| -> String { if l.starts_with("R ERR") { "R ERR".to_string() } else { l.clone() } };
                if cut(&real) != cut(&model) {
                    diffs.push(json!({"what": "single-byte decoder model", "encoding": e, "mode": mode, "bytes_hex": hex(&b), "real": real, "model": model}));
                }
            }
        }
        if samples.len() < 3 && i % 61 == 9 {
            samples.push(json!({"bytes_hex": hex(&b), "utf8_strict": real_line(&decode(&b, "utf-8", DecoderTrap::Strict, false, false))}));
        }
    }
    // 3. the window property: every window [i,j) of a valid UTF-8 text that contains a complete character
    //    decodes (chunk mode) to exactly the complete characters inside it
    let mut windows = 0u64;
    let pool: Vec<char> = "a\u{e9}\u{444}\u{4f60}\u{1f600}z\u{7ff}\u{800}\u{ffff}\u{10000}\u{10ffff} ".chars().collect();
    for k in 0..(n / 10).max(20) {
        let t: String = if k % 3 == 0 {
            (0..rng.range(1, 7)).map(|_| *rng.pick(&pool)).collect()
        } else {
            let a = rng.pick(&corpus.texts);
            a.chars().skip(rng.below(400)).take(rng.range(1, 10)).collect()
        };
        let b = t.as_bytes();
        let bounds: Vec<usize> = t.char_indices().map(|(i, _)| i).chain(std::iter::once(b.len())).collect();
        for i in 0..b.len() {
            for j in i + 1..=b.len() {
                let lo = bounds.iter().copied().find(|x| *x >= i).unwrap();
                let hi = bounds.iter().copied().rev().find(|x| *x <= j).unwrap();
                if hi <= lo {
                    continue; // no complete character inside
                }
                windows += 1;
                evals += 1;
                let r = decode(&b[i..j], "utf-8", DecoderTrap::Strict, false, true);
                let expect = std::str::from_utf8(&b[lo..hi]).unwrap();
                if r.as_deref() != Ok(expect) {
                    violations.push(json!({"prop": "C17", "what": format!("window [{},{}) of {:?} decodes to {:?}, expected {:?}", i, j, t, r, expect),
                        "known": null, "case": {"text_hex": hex(b), "i": i, "j": j}}));
                }
                // the model must agree too
                let model = drv.decode_model(&format!("U8 CHUNK {}", hex(&b[i..j])));
                if model != format!("R OK {}", hex(expect.as_bytes())) {
                    diffs.push(json!({"what": "utf-8 window (model)", "text_hex": hex(b), "i": i, "j": j, "model": model}));
                }
            }
        }
    }
    let rep = json!({"level": "decode", "seed": seed, "evaluations": evals, "distinct_nontrivial": nontrivial, "windows": windows,
        "single_byte_tables": tables.len(), "disagreements": diffs, "violations": violations, "samples": samples});
    std::fs::write(out, serde_json::to_string_pretty(&rep).unwrap()).expect("write");
    rep
}
